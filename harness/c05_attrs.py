"""C05 (part): tag attribute parsing into concatenations, `<%ns:def k="...">` keyword arguments, and the
re-emission of def signatures.

corr  : Lean model `MakoModel/Codegen/Attrs.lean` (driver op `c05`) vs the real `Tag._parse_attributes`
        (`ast.PythonCode` recorded), the real `CallNamespaceTag.expression`, the real
        `FunctionDecl` fields (`ParseFunc`) and `get_argument_expressions`, Python's `re`, `repr`, `str.rstrip`.
oracle: no Lean.  Real templates: what a callee RECEIVES for `<%self:show k="VALUE"/>` against the value computed
        from the piece list; what `<%def name="f(SIG)">` / nested defs / `<%call args="SIG">` bodies bind against
        a plain Python `def f(SIG)`.
"""
from __future__ import annotations

import ast as pyast
import itertools
import re

from harness.common import enc, dec, ddmin

DRIVER_OPS = ["c05"]

RULE_ATTRS = (
    "attribute values = concatenated renderings of piece lists (literal pieces from %d texts incl. whitespace-only, "
    "empty, both quotes, backslash, newline, $, ${, {, }, $$, non-ASCII; expression pieces ${code} from %d codes "
    "incl. ' x ', d['k'], {1:2}[1], x}, empty), exhaustive up to 3 pieces (quick) / 4 pieces (thorough), plus all "
    "strings over {$,{,},x,newline} up to length 6/7 and seeded random strings over $ { } x space quotes backslash "
    "newline; a value is non-trivial when it has a ${...} match and some text outside it; distinct = distinct "
    "values.  Signatures = 0-2 positional (0-2 trailing defaults) x {none, *args, bare *} x 0-2 keyword-only "
    "(each with/without default) x {none, **kw}, exhaustive (thorough: 0-3 positional, 0-3 keyword-only), "
    "each called with %d argument combinations in 3 positions (top-level def, nested def, <%%call args>)."
)

LITS = ["a", " ", " \t ", "", "'", '"', "'\"", "\\", "\n", "$", "${", "{", "}", "$$", "\u00e9", "b c", "-", "}\n"]
CODES = ["x", " x ", "x+y", "d['k']", "{1:2}[1]", "x}", "", "y", "x\n", "$"]
# sub-alphabet for the longest lists
LITS_S = ["a", " ", "'", "\n", "$", "{", "}"]
CODES_S = ["x", " y ", "{1:2}[1]", "x}"]

SPLIT_RE = re.compile(r"(\${(?:[^$]*?{.+|.+?)})", re.S)
PIECE_RE = re.compile(r"^\${(.+?)}$", re.S)


def render_pieces(ps):
    return "".join(t if k == "lit" else "${" + t + "}" for k, t in ps)


# ----------------------------------------------------------------------------------------------------------
# reference reading of the two regular expressions (what the Lean model transcribes), checked against `re`

def rx_match_at(s, p):
    if not s.startswith("${", p):
        return None
    q = p + 2
    while q < len(s) and s[q] != "$" and s[q] != "{":
        q += 1
    if q < len(s) and s[q] == "{":
        e = s.rfind("}")
        if e >= q + 2:
            return e + 1
    e = s.find("}", p + 3)
    return e + 1 if e >= 0 else None


def rx_split(s):
    out, i, p = [], 0, 0
    while p < len(s):
        e = rx_match_at(s, p)
        if e is None:
            p += 1
        else:
            out.append(s[i:p])
            out.append(s[p:e])
            i = p = e
    out.append(s[i:])
    return out


def rx_piece(x):
    if not x.startswith("${"):
        return None
    n = len(x)
    for e in range(3, n):
        if x[e] == "}" and (e + 1 == n or (e + 2 == n and x[n - 1] == "\n")):
            return x[2:e]
    return None


def rx_reference(ctx, values):
    """the reading of the regular expressions documented in Attrs.lean == CPython's `re` on these values"""
    st = ctx.stream("corr.attrs.regex-reading", exhaustive=True)
    for v in values:
        st["cases"] += 1
        want = SPLIT_RE.split(v)
        got = rx_split(v)
        if want != got:
            ctx.disagree("corr.attrs.regex-reading", {"input": v, "what": "split"}, got, want)
            continue
        for x in want:
            m = PIECE_RE.match(x)
            if (m.group(1) if m else None) != rx_piece(x):
                ctx.disagree("corr.attrs.regex-reading", {"input": x, "what": "piece"}, rx_piece(x),
                             m.group(1) if m else None)


# ----------------------------------------------------------------------------------------------------------
# the real code

class Impl:
    def __init__(self):
        from mako import parsetree, exceptions
        from mako import ast as mast
        from mako import pyparser
        self.parsetree, self.X, self.mast, self.pyparser = parsetree, exceptions, mast, pyparser
        self.RealPythonCode = mast.PythonCode
        self.KW = dict(source="", lineno=1, pos=0, filename=None)

    def parse_attr(self, value, key="k"):
        """(parsed_attributes[key], [codes handed to PythonCode], any code rejected?) of the REAL
        Tag._parse_attributes, with ast.PythonCode recording its argument"""
        mast, X = self.mast, self.X
        rec, bad = [], []
        Real = self.RealPythonCode

        class Rec:
            def __init__(s, code, **kw):
                rec.append(code)
                try:
                    r = Real(code, **kw)
                    s.undeclared_identifiers = r.undeclared_identifiers
                    s.declared_identifiers = r.declared_identifiers
                except (X.SyntaxException, X.CompileException) as e:
                    bad.append(type(e).__name__)
                    s.undeclared_identifiers = set()
                    s.declared_identifiers = set()
        t = object.__new__(self.parsetree.CallNamespaceTag)
        self.parsetree.Node.__init__(t, **self.KW)
        t.keyword = "ns:d"
        t.attributes = {key: value}
        mast.PythonCode = Rec
        try:
            t._parse_attributes((key, "args"), ())
        finally:
            mast.PythonCode = Real
        return t.parsed_attributes[key], rec, bad

    def parse_attr_plain(self, value):
        """unpatched: the parsed text or the exception class name"""
        try:
            t = self.parsetree.Tag("ns:d", {"k": value}, **self.KW)
            return "ok", t.parsed_attributes["k"]
        except (self.X.SyntaxException, self.X.CompileException) as e:
            return "raised", type(e).__name__

    def code_ok(self, code):
        try:
            self.RealPythonCode(code, **self.KW)
            return True
        except (self.X.SyntaxException, self.X.CompileException):
            return False

    def ns_expression(self, ns, defname, attrs):
        """CallNamespaceTag(...).expression with PythonCode stubbed where Python rejects the text"""
        mast, X = self.mast, self.X
        Real = self.RealPythonCode

        class Rec:
            def __init__(s, code, **kw):
                try:
                    r = Real(code, **kw)
                    s.undeclared_identifiers = r.undeclared_identifiers
                    s.declared_identifiers = r.declared_identifiers
                except (X.SyntaxException, X.CompileException):
                    s.undeclared_identifiers = set()
                    s.declared_identifiers = set()
        mast.PythonCode = Rec
        try:
            t = self.parsetree.Tag(ns + ":" + defname, dict(attrs), **self.KW)
        finally:
            mast.PythonCode = Real
        return t.expression

    def func_decl(self, sigtext):
        return self.mast.FunctionDecl("def f(%s):pass" % sigtext, **self.KW)

    def default_text(self, node):
        return self.pyparser.ExpressionGenerator(node).value()


# ----------------------------------------------------------------------------------------------------------
# corr.attrs

def piece_alphabet(small=False):
    lits = LITS_S if small else LITS
    codes = CODES_S if small else CODES
    return [("lit", t) for t in lits] + [("ex", c) for c in codes]


def enum_piece_lists(ctx):
    k = 3 if ctx.quick else 4
    full = piece_alphabet()
    small = piece_alphabet(True)
    medium = small + [("lit", t) for t in ['"', "\\", "${", "$$", "\u00e9", " \t "]] + \
        [("ex", c) for c in ["d['k']", "", "x\n"]]
    for n in range(0, k + 1):
        alpha = full if n <= 3 else medium
        if ctx.quick and n == 3:
            alpha = small + [("lit", "\u00e9"), ("lit", '"'), ("lit", "\\"), ("ex", "d['k']"), ("ex", "")]
        for ps in itertools.product(alpha, repeat=n):
            yield list(ps)


def random_values(ctx, n):
    chars = "${}x '\"\\\n"
    out = []
    for _ in range(n):
        L = ctx.rng.randint(0, 14)
        # bias towards ${ … } shapes
        s = []
        while len(s) < L:
            r = ctx.rng.random()
            if r < 0.25:
                s.append("${")
            elif r < 0.4:
                s.append("}")
            else:
                s.append(ctx.rng.choice(chars))
        out.append("".join(s))
    return out


def dec_list(fields):
    """`<n> <item>*` at the head of `fields` -> (items, rest)"""
    n = int(fields[0])
    return [dec(f) for f in fields[1:1 + n]], fields[1 + n:]


def has_match(v):
    return SPLIT_RE.search(v) is not None


def corr_attrs(ctx, impl):
    drv = ctx.driver()
    values = {}
    for ps in enum_piece_lists(ctx):
        v = render_pieces(ps)
        values.setdefault(v, ps)
    npl = len(values)
    exh_len = 6 if ctx.quick else 7
    raw = []
    for n in range(0, exh_len + 1):
        for t in itertools.product("${}x\n", repeat=n):
            raw.append("".join(t))
    for v in raw:
        values.setdefault(v, None)
    nraw = len(values) - npl
    rnd = random_values(ctx, 3000 if ctx.quick else 40000)
    for v in rnd:
        values.setdefault(v, None)
    vals = list(values)
    ctx.log("corr.attrs: %d distinct values (%d from piece lists, %d exhaustive raw, %d random)"
            % (len(vals), npl, nraw, len(vals) - npl - nraw))
    rx_reference(ctx, raw + rnd[:2000])

    st = ctx.stream("corr.attrs", exhaustive=True)
    outs = drv.ask_many(["c05 attr " + enc(v) for v in vals])
    for v, o in zip(vals, outs):
        st["cases"] += 1
        f = o.split(" ")
        if f[0] in ("bad-args", "bad-op", "bad-request"):
            ctx.disagree("corr.attrs", {"input": v}, o, "driver refused")
            continue
        mcodes, _ = dec_list(f[1:])
        res, codes, bad = impl.parse_attr(v)
        if f[0] == "unsupported":
            ctx.branch("attrs:unsupported(non-ascii literal)")
            if all(ord(c) < 128 for c in v):
                ctx.disagree("corr.attrs", {"input": v}, "unsupported", res)
            if mcodes != codes:
                ctx.disagree("corr.attrs", {"input": v, "what": "codes"}, mcodes, codes)
            continue
        mres = dec(f[0])
        if mres != res or mcodes != codes:
            ctx.disagree("corr.attrs", {"input": v}, {"result": mres, "codes": mcodes}, {"result": res, "codes": codes})
        # histogram of shapes
        pieces = SPLIT_RE.split(v)
        nm = len(pieces) // 2
        ntext = sum(1 for x in pieces[0::2] if x)
        ws = sum(1 for x in pieces[0::2] if x and not x.strip())
        ctx.branch("attrs:matches=%s texts=%s" % (min(nm, 3), min(ntext, 3)))
        if ws:
            ctx.branch("attrs:whitespace-only text piece")
        if bad:
            ctx.branch("attrs:a code rejected by PythonCode (%s)" % bad[0])
        if nm and ntext:
            ctx.nontriv(v)
        if nm >= 2:
            ctx.sample({"value": v, "parsed": res})
    # unpatched behaviour: raises iff one of the model's codes is rejected, else the model's text
    st = ctx.stream("corr.attrs.raises", exhaustive=True)
    sub = [v for v, ps in values.items() if ps is not None and len(ps) <= 2] + rnd[:1500]
    outs = drv.ask_many(["c05 attr " + enc(v) for v in sub])
    for v, o in zip(sub, outs):
        st["cases"] += 1
        f = o.split(" ")
        mcodes, _ = dec_list(f[1:])
        kind, got = impl.parse_attr_plain(v)
        # the real loop stops at the first rejected code; CallNamespaceTag then also compiles the whole call
        rejected = [c for c in mcodes if not impl.code_ok(c)]
        if kind == "raised":
            ctx.branch("attrs.raises:raised " + got)
            if not rejected and f[0] != "unsupported":
                # the call expression as a whole may still be rejected (e.g. a code that is only valid alone)
                if impl.code_ok("ns.d(k=%s)" % dec(f[0])):
                    ctx.disagree("corr.attrs.raises", {"input": v}, "no rejected code", got)
        else:
            ctx.branch("attrs.raises:ok")
            if rejected:
                ctx.disagree("corr.attrs.raises", {"input": v}, {"rejected": rejected}, got)
            elif f[0] != "unsupported" and dec(f[0]) != got:
                ctx.disagree("corr.attrs.raises", {"input": v}, dec(f[0]), got)

    # repr / unquote / rstrip against CPython
    st = ctx.stream("corr.attrs.repr", exhaustive=True)
    strs = set()
    for n in range(0, 4):
        for t in itertools.product("a'\"\\\n\t\r\x00\x1f\x7f x", repeat=n):
            strs.add("".join(t))
    for c in range(128):
        for pre in ("", "'", '"', "'\""):
            strs.add(pre + chr(c))
    strs.add("\u00e9")
    strs = sorted(strs)
    outs = drv.ask_many(["c05 repr " + enc(s) for s in strs])
    for s, o in zip(strs, outs):
        st["cases"] += 1
        a, b = o.split(" ")
        if any(ord(c) >= 128 for c in s):
            if a != "unsupported":
                ctx.disagree("corr.attrs.repr", s, o, "unsupported expected")
            continue
        if a == "unsupported" or dec(a) != repr(s) or b == "none" or dec(b) != s or pyast.literal_eval(dec(a)) != s:
            ctx.disagree("corr.attrs.repr", s, o, repr(s))


# ----------------------------------------------------------------------------------------------------------
# corr.nsexpr

def corr_nsexpr(ctx, impl):
    drv = ctx.driver()
    st = ctx.stream("corr.nsexpr", exhaustive=False)
    keys = ["k", "k2", "args", "class_", "x"]
    vals = ["", "a", "${x}", "a${x}b${y}", "${x} ${y}", " ", "it's", 'q"', "${ x }", "${d['k']}!", "$", "a, b",
            "x\n", "${x}{", "\\"]
    argvals = ["", "a", "a, b=1", "*, c", "**kw"]
    cases = []
    # exhaustive: every ordered choice of up to 2 distinct keys x values (quick: value sub-list for pairs)
    for n in range(0, 3):
        for ks in itertools.permutations(keys, n):
            vchoice = [argvals if k == "args" else (vals if n < 2 or not ctx.quick else vals[:8]) for k in ks]
            for vs in itertools.product(*vchoice):
                cases.append(("self", "show", list(zip(ks, vs))))
    for _ in range(300 if ctx.quick else 3000):
        n = ctx.rng.randint(0, 4)
        ks = ctx.rng.sample(keys, n)
        kvs = [(k, ctx.rng.choice(argvals if k == "args" else vals)) for k in ks]
        cases.append((ctx.rng.choice(["self", "ns", "local"]), ctx.rng.choice(["show", "f", "d_1"]), kvs))
    reqs = []
    for ns, d, kvs in cases:
        reqs.append("c05 nsexpr %s %s %d%s" % (enc(ns), enc(d), len(kvs),
                                                "".join(" %s %s" % (enc(k), enc(v)) for k, v in kvs)))
    outs = drv.ask_many(reqs)
    for (ns, d, kvs), o in zip(cases, outs):
        st["cases"] += 1
        got = impl.ns_expression(ns, d, kvs)
        ctx.branch("nsexpr:%d attrs%s" % (len(kvs), " +args" if any(k == "args" for k, _ in kvs) else ""))
        if o in ("unsupported", "bad-args") or dec(o) != got:
            ctx.disagree("corr.nsexpr", {"ns": ns, "def": d, "attrs": kvs}, o if o in ("unsupported", "bad-args") else dec(o), got)
        if len(kvs) >= 2:
            ctx.nontriv(("nsexpr", ns, d, tuple(kvs)))


# ----------------------------------------------------------------------------------------------------------
# signatures

def enum_sigs(maxpos=2, maxkw=2):
    """structured signatures: dict(pos=[(name, default|None)], vararg, bare, kwonly=[...], kwarg)"""
    pnames = ["a", "b", "e"]
    knames = ["c", "d", "g"]
    pdef = ["1", "2", "3"]
    kdef = ["4", "5", "6"]
    for npos in range(0, maxpos + 1):
        for ndef in range(0, npos + 1):
            pos = [(pnames[i], pdef[i] if i >= npos - ndef else None) for i in range(npos)]
            for star in ("none", "vararg", "bare"):
                for nkw in range(0, maxkw + 1):
                    if nkw > 0 and star == "none":
                        continue
                    if nkw == 0 and star == "bare":
                        continue
                    for mask in itertools.product([False, True], repeat=nkw):
                        kwonly = [(knames[i], kdef[i] if mask[i] else None) for i in range(nkw)]
                        for kwarg in (None, "kw"):
                            yield dict(pos=pos, vararg="args" if star == "vararg" else None, bare=(star == "bare"),
                                       kwonly=kwonly, kwarg=kwarg)


def sig_text(sig):
    """Python's own syntax for the signature (ground truth, written here independently of the model)"""
    parts = [n if d is None else "%s=%s" % (n, d) for n, d in sig["pos"]]
    if sig["vararg"]:
        parts.append("*" + sig["vararg"])
    elif sig["bare"]:
        parts.append("*")
    parts += [n if d is None else "%s=%s" % (n, d) for n, d in sig["kwonly"]]
    if sig["kwarg"]:
        parts.append("**" + sig["kwarg"])
    return ", ".join(parts)


def sig_names(sig):
    return [n for n, _ in sig["pos"]] + ([sig["vararg"]] if sig["vararg"] else []) + \
        [n for n, _ in sig["kwonly"]] + ([sig["kwarg"]] if sig["kwarg"] else [])


def enc_opt(x):
    return "none" if x is None else enc(x)


def sig_request(sig):
    f = ["c05", "sig", str(len(sig["pos"]))]
    for n, d in sig["pos"]:
        f += [enc(n), enc_opt(d)]
    f += [enc_opt(sig["vararg"]), "1" if sig["bare"] else "0", str(len(sig["kwonly"]))]
    for n, d in sig["kwonly"]:
        f += [enc(n), enc_opt(d)]
    f.append(enc_opt(sig["kwarg"]))
    return " ".join(f)


def parse_sig_answer(o):
    parts = [p.split(" ") if p else [] for p in o.split(" | ")]
    res = {"valid": parts[0] == ["1"]}
    res["argnames"] = dec_list(parts[1])[0]
    res["kwargnames"] = dec_list(parts[2])[0]
    res["defaults"] = dec_list(parts[3])[0]
    n = int(parts[4][0])
    res["kwdefaults"] = [None if x == "none" else dec(x) for x in parts[4][1:1 + n]]
    res["varargs"], res["kwargs"] = parts[5][0] == "1", parts[5][1] == "1"
    for i, k in ((6, "decl"), (7, "ascall"), (8, "specdecl"), (9, "specascall")):
        res[k] = None if parts[i] == ["err"] else dec_list(parts[i])[0]
    return res


def args_shape(text):
    """canonical dump of the ast.arguments of `def f(<text>): pass`, None on SyntaxError"""
    try:
        m = pyast.parse("def f(%s): pass" % text)
    except SyntaxError:
        return None
    return pyast.dump(m.body[0].args)


def corr_sig(ctx, impl):
    drv = ctx.driver()
    st = ctx.stream("corr.sig", exhaustive=True)
    sigs = list(enum_sigs(2, 2) if ctx.quick else enum_sigs(3, 3))
    outs = drv.ask_many([sig_request(s) for s in sigs])
    for sig, o in zip(sigs, outs):
        st["cases"] += 1
        text = sig_text(sig)
        if o.startswith("bad-"):
            ctx.disagree("corr.sig", {"input": text}, o, "driver refused")
            continue
        m = parse_sig_answer(o)
        fd = impl.func_decl(text)
        real = {
            "argnames": list(fd.argnames), "kwargnames": list(fd.kwargnames),
            "defaults": [impl.default_text(d) for d in fd.defaults],
            "kwdefaults": [None if d is None else impl.default_text(d) for d in fd.kwdefaults],
            "varargs": bool(fd.varargs), "kwargs": bool(fd.kwargs),
            "decl": fd.get_argument_expressions(), "ascall": fd.get_argument_expressions(as_call=True),
        }
        mm = {k: m[k] for k in real}
        if mm != real:
            ctx.disagree("corr.sig", {"input": text}, mm, real)
            continue
        if not m["valid"]:
            ctx.disagree("corr.sig", {"input": text, "what": "valid"}, "model: not a Python signature", "parsed by Python")
        # the specification side is Python's syntax: Spec.decl re-parses to the same ast.arguments
        want = args_shape(text)
        if args_shape(", ".join(m["specdecl"])) != want:
            ctx.disagree("corr.sig", {"input": text, "what": "Spec.decl"}, m["specdecl"], text)
        # Spec.asCall binds every parameter to itself (checked by calling a real function)
        same = args_shape(", ".join(real["decl"])) == want
        if same != (m["decl"] == m["specdecl"]):
            ctx.disagree("corr.sig", {"input": text, "what": "faithful"}, m["decl"] == m["specdecl"], same)
        ctx.branch("sig:%s%s re-emission %s" % ("bare* " if sig["bare"] else ("*args " if sig["vararg"] else ""),
                                                 "kwonly" if sig["kwonly"] else "",
                                                 "same shape" if same else ("SyntaxError" if args_shape(", ".join(real["decl"])) is None else "DIFFERENT shape")))
        if sig["kwonly"] or sig["vararg"] or sig["kwarg"]:
            ctx.nontriv(("sig", text))
        if not spec_ascall_ok(sig, m["specascall"]):
            ctx.disagree("corr.sig", {"input": text, "what": "Spec.asCall"}, m["specascall"], "does not pass the parameters on")
    # get_argument_expressions on arbitrary stored fields (not only what ParseFunc produces)
    st = ctx.stream("corr.sig.fields", exhaustive=False)
    cases = []
    names = ["a", "b", "c", "d"]
    for _ in range(1500 if ctx.quick else 20000):
        an = [ctx.rng.choice(names) for _ in range(ctx.rng.randint(0, 3))]
        kn = [ctx.rng.choice(names) for _ in range(ctx.rng.randint(0, 3))]
        ds = [str(ctx.rng.randint(1, 9)) for _ in range(ctx.rng.randint(0, 3))]
        kds = [ctx.rng.choice([None, "7", "8"]) for _ in range(ctx.rng.randint(0, 3))]
        cases.append((ctx.rng.random() < 0.5, an, kn, ds, kds, ctx.rng.random() < 0.4, ctx.rng.random() < 0.4))
    reqs = []
    for ac, an, kn, ds, kds, va, kw in cases:
        f = ["c05", "psig", "1" if ac else "0", str(len(an))] + [enc(x) for x in an] + [str(len(kn))] + \
            [enc(x) for x in kn] + [str(len(ds))] + [enc(x) for x in ds] + [str(len(kds))] + \
            [enc_opt(x) for x in kds] + ["1" if va else "0", "1" if kw else "0"]
        reqs.append(" ".join(f))
    outs = drv.ask_many(reqs)
    node = lambda t: pyast.parse(t, mode="eval").body
    for (ac, an, kn, ds, kds, va, kw), o in zip(cases, outs):
        st["cases"] += 1
        fd = object.__new__(impl.mast.FunctionDecl)
        fd.argnames, fd.kwargnames = list(an), list(kn)
        fd.defaults = [node(d) for d in ds]
        fd.kwdefaults = [None if d is None else node(d) for d in kds]
        fd.varargs = object() if va else None
        fd.kwargs = object() if kw else None
        try:
            got = fd.get_argument_expressions(as_call=ac)
        except IndexError:
            got = None
        ctx.branch("sig.fields:" + ("IndexError" if got is None else "ok"))
        mo = None if o == "err" else (dec_list(o.split(" "))[0] if not o.startswith("bad-") else o)
        if mo != got:
            ctx.disagree("corr.sig.fields", {"as_call": ac, "argnames": an, "kwargnames": kn, "defaults": ds,
                                             "kwdefaults": kds, "varargs": va, "kwargs": kw}, mo, got)


def spec_ascall_ok(sig, ascall):
    """`f(<ascall>)` evaluated where every parameter name is a local passes each parameter on unchanged"""
    names = sig_names(sig)
    env = {}
    src = "def f(%s):\n    return (%s)\n" % (sig_text(sig), "".join(n + ", " for n in names))
    exec(src, env)
    loc = {}
    for n, _ in sig["pos"] + sig["kwonly"]:
        loc[n] = "v_" + n
    if sig["vararg"]:
        loc[sig["vararg"]] = ("va1", "va2")
    if sig["kwarg"]:
        loc[sig["kwarg"]] = {"zz": "kwv"}
    try:
        got = eval("f(%s)" % ", ".join(ascall), env, loc)
    except Exception:
        return False
    return got == tuple(loc[n] for n in names)


def corr(ctx):
    import warnings
    impl = Impl()
    with warnings.catch_warnings():
        warnings.simplefilter("ignore")      # SyntaxWarning of Python's parser on generated expression texts
        corr_attrs(ctx, impl)
        corr_nsexpr(ctx, impl)
        corr_sig(ctx, impl)


# ----------------------------------------------------------------------------------------------------------
# oracle.attrs: what the callee receives (no Lean)

ORACLE_ENV = {"x": "X", "y": "Y'y", "d": {"k": "DK"}}
O_LITS = ["a", " ", "  ", "\t", "'", '"', "\\", "\n", "$", "{", "}", "$$", "\u00e9", " b ", "-", "#", "%", "<", ">"]
O_CODES = ["x", " x ", "y", "x+y", "d['k']", "x.lower()", "{1:'one'}[1]", "x\n", "'}'", "y[0:1]"]

_UNIQ = [0]


def oracle_expected(ps):
    """ground truth from the piece list; None when the piece list has no unambiguous reading"""
    merged = []
    for k, t in ps:
        if k == "lit" and merged and merged[-1][0] == "lit":
            merged[-1] = ("lit", merged[-1][1] + t)
        else:
            merged.append((k, t))
    for k, t in merged:
        if k == "lit" and "${" in t:
            return None
    vals = []
    for k, t in merged:
        if k == "lit":
            if t:
                vals.append(t)
        else:
            try:
                vals.append(eval(t.strip(), {}, dict(ORACLE_ENV)))
            except Exception:
                return None
    if not vals:
        return ""
    if len(vals) == 1:
        return vals[0]
    if not all(isinstance(v, str) for v in vals):
        return None
    return "".join(vals)


def quote_attr(v):
    if '"' not in v:
        return '"%s"' % v
    if "'" not in v:
        return "'%s'" % v
    return None


def received(values):
    """render `<%self:show k0=VALUE0 k1=VALUE1 .../>` and return what show() received: ('ok', [v…]) or
    ('raised', class name, message)"""
    from mako.template import Template
    from mako import exceptions as X
    attrs = []
    for i, v in enumerate(values):
        q = quote_attr(v)
        if q is None:
            return ("skip",)
        attrs.append("k%d=%s" % (i, q))
    params = ", ".join("k%d" % i for i in range(len(values)))
    src = ('<%%def name="show(%s)"><%% rec.append((%s,)) %%></%%def><%%self:show %s/>'
           % (params, params, " ".join(attrs)))
    rec = []
    try:
        t = Template(src)
        t.render(rec=rec, **ORACLE_ENV)
    except Exception as e:
        return ("raised", type(e).__name__, str(e)[:160])
    if len(rec) != 1:
        return ("raised", "NotCalledOnce", repr(rec)[:100])
    return ("ok", list(rec[0]))


def attr_case_fails(ps):
    """None when the property holds on the piece list (or it is not applicable), else a detail string"""
    want = oracle_expected(ps)
    if want is None:
        return None
    v = render_pieces(ps)
    if "\r" in v:
        return None
    r = received([v])
    if r[0] == "skip":
        return None
    if r[0] == "raised":
        return "raised %s: %s (expected the callee to receive %r)" % (r[1], r[2], want)
    got = r[1][0]
    if got != want or type(got) is not type(want):
        return "callee received %r, expected %r" % (got, want)
    return None


def shrink_pieces(ps):
    ps = ddmin(list(ps), lambda sub: attr_case_fails(sub) is not None)
    # then replace pieces by the plainest of their kind, and shorten their texts one character at a time
    changed = True
    while changed:
        changed = False
        for i, (k, t) in enumerate(ps):
            cands = []
            plain = "x" if k == "ex" else "a"
            if t != plain:
                cands.append(plain)
            if len(t) > 1:
                cands += [t[:j] + t[j + 1:] for j in range(len(t))]
            for c in cands:
                cand = ps[:i] + [(k, c)] + ps[i + 1:]
                if attr_case_fails(cand) is not None:
                    ps, changed = cand, True
                    break
            if changed:
                break
    return ps


def oracle_attrs(ctx):
    st = ctx.stream("oracle.attrs", "oracle", exhaustive=True)
    alpha = [("lit", t) for t in O_LITS] + [("ex", c) for c in O_CODES]
    small = [("lit", t) for t in ["a", " ", "'", "{", "}", "$"]] + [("ex", c) for c in ["x", " y ", "{1:'one'}[1]"]]
    lists = []
    for n in range(0, 3):
        lists += [list(p) for p in itertools.product(alpha, repeat=n)]
    lists += [list(p) for p in itertools.product(small, repeat=3)]
    if not ctx.quick:
        lists += [list(p) for p in itertools.product(small, repeat=4)]
        for _ in range(4000):
            lists.append([ctx.rng.choice(alpha) for _ in range(ctx.rng.randint(3, 6))])
    else:
        for _ in range(300):
            lists.append([ctx.rng.choice(alpha) for _ in range(ctx.rng.randint(3, 5))])
    seen_min = set()
    for ps in lists:
        want = oracle_expected(ps)
        if want is None:
            ctx.branch("oracle.attrs:no unambiguous reading (skipped)")
            continue
        if quote_attr(render_pieces(ps)) is None:
            ctx.branch("oracle.attrs:both quotes (lexer cannot carry it; skipped)")
            continue
        st["cases"] += 1
        detail = attr_case_fails(ps)
        nlit = sum(1 for k, t in ps if k == "lit" and t)
        nex = sum(1 for k, t in ps if k == "ex")
        ctx.branch("oracle.attrs:%d text %d expr" % (min(nlit, 3), min(nex, 3)))
        if nlit and nex:
            ctx.nontriv(("oattr", render_pieces(ps)))
        if detail is None:
            continue
        small_ps = shrink_pieces(ps)
        v = render_pieces(small_ps)
        if v in seen_min:
            continue
        seen_min.add(v)
        ctx.violation("attr-value-received",
                      {"kind": "attrs", "input": v, "pieces": [list(p) for p in small_ps]},
                      attr_case_fails(small_ps), "oracle.attrs")
    # several attributes: each keyword gets its own value, in any order of writing
    st2 = ctx.stream("oracle.attrs.multi", "oracle", exhaustive=False)
    vals = ["a${x}b${y}", "${x} ${y}", "", " ", "${d['k']}", "it's", "${x}", "p"]
    for a, b in itertools.product(vals, repeat=2):
        st2["cases"] += 1
        if attr_case_fails(parse_back(a)) is not None or attr_case_fails(parse_back(b)) is not None:
            ctx.branch("oracle.attrs.multi:a value already fails alone (listed by oracle.attrs)")
            continue
        r = received([a, b])
        want = [oracle_expected(parse_back(a)), oracle_expected(parse_back(b))]
        if r[0] != "ok" or r[1] != want:
            ctx.violation("attr-value-received", {"kind": "attrs-multi", "input": a + " | " + b, "values": [a, b]},
                          "received %r, expected %r" % (r, want), "oracle.attrs.multi")


def parse_back(v):
    """piece list of one of the fixed multi-attribute values (these are written without nested braces)"""
    out = []
    for i, x in enumerate(re.split(r"(\$\{[^}]*\})", v)):
        if i % 2:
            out.append(("ex", x[2:-1]))
        elif x:
            out.append(("lit", x))
    return out


# ----------------------------------------------------------------------------------------------------------
# oracle.sig: argument binding of re-emitted signatures against Python itself

def call_combos(sig):
    pos = [[], [10], [10, 20], [10, 20, 30], [10, 20, 30, 40]]
    kws = [{}, {"c": 50}, {"c": 50, "d": 60}, {"d": 60}, {"a": 70}, {"b": 80}, {"zz": 90}, {"c": 50, "zz": 90},
           {"a": 70, "c": 50}, {"g": 1, "c": 2, "d": 3}, {"e": 5}]
    return [(p, k) for p in pos for k in kws]


N_CALLS = len(call_combos(None))

VARIANTS = ("toplevel", "nested", "callargs")


def sig_template(sig, variant):
    text = sig_text(sig)
    names = sig_names(sig)
    show = "${repr((%s,))}" % ", ".join(names) if names else "${repr(())}"
    loop = ("<%%\n"
            "    for __p, __k in calls:\n"
            "        try:\n"
            "            out.append(('ok', capture(%s, *__p, **__k)))\n"
            "        except TypeError as __e:\n"
            "            out.append(('TypeError',))\n"
            "%%>")
    if variant == "toplevel":
        return '<%%def name="f(%s)">%s</%%def>%s' % (text, show, loop % "f")
    if variant == "nested":
        return ('<%%def name="outer()"><%%def name="f(%s)">%s</%%def>%s</%%def>${outer()}'
                % (text, show, loop % "f"))
    return ('<%%def name="g()">%s</%%def><%%call expr="g()" args="%s">%s</%%call>'
            % (loop % "caller.body", text, show))


def sig_python(sig, calls):
    names = sig_names(sig)
    env = {}
    exec("def f(%s):\n    return repr((%s))\n" % (sig_text(sig), "".join(n + ", " for n in names)), env)
    res = []
    for p, k in calls:
        try:
            res.append(("ok", env["f"](*p, **k)))
        except TypeError:
            res.append(("TypeError",))
    return res


def sig_mako(sig, variant, calls):
    from mako.template import Template
    out = []
    try:
        t = Template(sig_template(sig, variant))
    except SyntaxError as e:
        return ("compile", "SyntaxError: %s" % e.msg)
    except Exception as e:
        return ("compile", "%s: %s" % (type(e).__name__, str(e)[:120]))
    try:
        t.render(calls=calls, out=out)
    except Exception as e:
        return ("render", "%s: %s" % (type(e).__name__, str(e)[:120]))
    return ("ok", out)


def sig_case_fails(sig, variant, calls):
    want = sig_python(sig, calls)
    r = sig_mako(sig, variant, calls)
    if r[0] != "ok":
        return "generated module: %s (Python accepts `def f(%s)`)" % (r[1], sig_text(sig)), "compile" if r[0] == "compile" else "render"
    got = [tuple(x) for x in r[1]]
    for (p, k), w, g in zip(calls, want, got):
        if tuple(w) != g:
            call = "f(%s)" % ", ".join([repr(x) for x in p] + ["%s=%r" % kv for kv in k.items()])
            return "%s: template def gives %r, Python gives %r" % (call, g, w), "binding", (p, k)
    return None


def oracle_sig(ctx):
    st = ctx.stream("oracle.sig", "oracle", exhaustive=True)
    sigs = list(enum_sigs(2, 2)) if ctx.quick else list(enum_sigs(3, 2))
    calls_all = call_combos(None)
    reported = set()
    for sig in sigs:
        for variant in VARIANTS:
            st["cases"] += 1
            r = sig_case_fails(sig, variant, calls_all)
            star = "bare*" if sig["bare"] else ("*args" if sig["vararg"] else "no*")
            ctx.branch("oracle.sig:%s %s -> %s" % (variant, star, "ok" if r is None else r[1]))
            ctx.nontriv(("osig", sig_text(sig), variant))
            if r is None:
                continue
            key = (variant, r[1], star, bool(sig["kwonly"]))
            if key in reported:
                ctx.branch("oracle.sig:violations not listed (same class as a smaller listed one)")
                continue
            reported.add(key)
            case = {"kind": "sig", "input": sig_text(sig), "variant": variant, "sig": sig, "failure": r[1]}
            if len(r) > 2:
                case["call"] = [list(r[2][0]), r[2][1]]
            ctx.violation("def-signature-binding", case, r[0], "oracle.sig")


def oracle(ctx):
    import warnings
    with warnings.catch_warnings():
        warnings.simplefilter("ignore")
        try:
            oracle_attrs(ctx)
        finally:
            oracle_sig(ctx)


# ----------------------------------------------------------------------------------------------------------
# replay

def replay_attrs(ctx, case):
    """re-run a recorded oracle case on the implementation; True iff the property holds on it"""
    if not isinstance(case, dict):
        return False
    kind = case.get("kind")
    if kind == "attrs":
        ps = [tuple(p) for p in case["pieces"]]
        d = attr_case_fails(ps)
        print("value   :", repr(render_pieces(ps)))
        print("expected:", repr(oracle_expected(ps)))
        print("result  :", d or "callee received the expected value")
        try:
            o = ctx.driver().ask("c05 attr " + enc(render_pieces(ps))).split(" ")
            print("model   :", o[0] if o[0] == "unsupported" else dec(o[0]))
        except Exception as e:  # the model is only shown for information
            print("model   : (driver not available: %s)" % e)
        return d is None
    if kind == "attrs-multi":
        a, b = case["values"]
        r = received([a, b])
        want = [oracle_expected(parse_back(a)), oracle_expected(parse_back(b))]
        print("received", r, "expected", want)
        return r[0] == "ok" and r[1] == want
    if kind == "sig":
        sig = case["sig"]
        sig = dict(pos=[tuple(p) for p in sig["pos"]], vararg=sig["vararg"], bare=sig["bare"],
                   kwonly=[tuple(p) for p in sig["kwonly"]], kwarg=sig["kwarg"])
        r = sig_case_fails(sig, case["variant"], call_combos(None))
        print("signature:", sig_text(sig), "variant:", case["variant"])
        print("result   :", r[0] if r else "binds like Python")
        return r is None
    return False


RULE_ATTRS = RULE_ATTRS % (len(LITS), len(CODES), N_CALLS)
