"""Grammar-directed generator of structured templates (trees), shared by the codegen/runtime properties.

A template is a *tree* (plain lists, JSON-able), rendered three ways:
  * `to_source(tree)`   -> Mako source text (+ ground truth: line of every anonymous block),
  * `to_wire(tree)`     -> the prefix wire syntax of the Lean `Tmpl` (lean/MakoModel/Target/Drv.lean),
  * `harness/ref_render.py` interprets the tree directly (stack-free reference renderer).

Tree grammar (a *body* is a Python list of nodes):

  node ::= ["text", s] | ["expr", E, [filter ids]] | ["if", E, body, body] | ["for", var, [E…], body]
         | ["while", n, body] | ["try", body, body]
         | ["def", id, [param vars], FL, body] | ["block", id, anon?, FL, body]
         | ["call", E, [body arg vars], body] | ["texttag", [filter ids], s] | ["inc", template index]
         | ["ret"] | ["brk"] | ["cont"]
  FL   ::= {"buffered": bool, "filters": [ids], "cached": bool, "deco": bool}
  E    ::= ["lit", s] | ["var", v] | ["cat", E, E] | ["call", def id, [E…]] | ["caller", id (0 = body), [E…]]
         | ["capture", def id, [E…]] | ["boom"] | ["filt", i, E] | ["loopindex"] | ["probe"]
         | ["cprobe", kind, n, with caller?]      (source text only: instrumentation of the C05 oracle)

Names: variables are `v<n>`, defs `d<n>`, named blocks `b<n>` (ids are unique over the whole template set,
so that dynamic and lexical scoping coincide - see Target/Model.lean), filters `flt<i>` of harness/tmpl_rt.py.

Evaluation points (crash points): `boom()`, every filter application, every `while` test, the two ends of
a decorated call.  They are numbered in execution order by a global counter (tmpl_rt.STATE).

The generator only emits well-scoped, terminating templates: a def is called only when it is already complete
(no recursion), variables are referenced only where they are lexically bound, `loop` only directly inside a
`% for` of the same scope, `break/continue` only inside a loop of the same callable.
Knobs (`Knobs`) switch constructs on and off; other properties extend the grammar by subclassing `Gen`.
"""
from __future__ import annotations

import copy

from harness.common import enc

TEXT_ALPHABET = "abcxyz01 <>&.,;!-"
LIT_ALPHABET = "pqr789 "


def FL(buffered=False, filters=(), cached=False, deco=False):
    return {"buffered": bool(buffered), "filters": list(filters), "cached": bool(cached), "deco": bool(deco)}


# --------------------------------------------------------------------------------------------- source text

class _Src:
    def __init__(self, prefix="", except_class="Exception"):
        self.except_class = except_class   # class named by every `% except` line
        self.out = []
        self.line = 1
        self.bol = True
        self.prefix = prefix    # of the URIs of the template set ("<prefix>t<i>.html")
        self.anon_line = {}     # block id -> line of its <%block> tag

    def emit(self, s):
        if not s:
            return
        self.out.append(s)
        self.line += s.count("\n")
        self.bol = s.endswith("\n")

    def fresh_line(self):
        """go to the start of a line without producing output: backslash-newline is consumed by the lexer"""
        if not self.bol:
            self.emit("\\\n")


SRC_HOOK = None    # optional surface-style hook (harness/c05_surface.py): .ex(e) -> str | None, .node(s, n) -> bool


def ex_src(e):
    if SRC_HOOK is not None:
        r = SRC_HOOK.ex(e)
        if r is not None:
            return r
    k = e[0]
    if k == "lit":
        assert all(c in LIT_ALPHABET for c in e[1]), e
        return "'%s'" % e[1]
    if k == "var":
        return "v%d" % e[1]
    if k == "cat":
        return "(%s + %s)" % (ex_src(e[1]), ex_src(e[2]))
    if k == "call":
        return "%s(%s)" % (callable_name(e[1]), ", ".join(ex_src(a) for a in e[2]))
    if k == "caller":
        return "caller.%s(%s)" % ("body" if e[1] == 0 else callable_name(e[1]), ", ".join(ex_src(a) for a in e[2]))
    if k == "capture":
        return "capture(%s)" % ", ".join([callable_name(e[1])] + [ex_src(a) for a in e[2]])
    if k == "boom":
        return "boom()"
    if k == "filt":
        return "flt%d(%s)" % (e[1], ex_src(e[2]))
    if k == "loopindex":
        return "str(loop.index)"
    if k == "probe":
        return "probe(context)"
    if k == "cprobe":
        # instrumentation of the C05 oracle (harness/c05_rt.py): returns '', is not an evaluation point
        return "cprobe(context, %r, %d%s)" % (e[1], e[2], ", caller" if len(e) > 3 and e[3] else "")
    raise ValueError(e)


def callable_name(i):
    return "d%d" % i


def _flags_attrs(fl):
    a = ""
    if fl["buffered"]:
        a += ' buffered="True"'
    if fl["filters"]:
        a += ' filter="%s"' % ", ".join("flt%d" % i for i in fl["filters"])
    if fl["cached"]:
        a += ' cached="True"'
    if fl["deco"]:
        a += ' decorator="deco"'
    return a


def _body_src(s, body):
    for n in body:
        _node_src(s, n)


def _node_src(s, n):
    if SRC_HOOK is not None and SRC_HOOK.node(s, n):
        return
    k = n[0]
    if k == "text":
        s.emit(n[1])
    elif k == "expr":
        f = (" | " + ", ".join("flt%d" % i for i in n[2])) if n[2] else ""
        s.emit("${%s%s}" % (ex_src(n[1]), f))
    elif k == "if":
        s.fresh_line()
        s.emit("% if " + ex_src(n[1]) + ":\n")
        _body_src(s, n[2])
        if n[3]:
            s.fresh_line()
            s.emit("% else:\n")
            _body_src(s, n[3])
        s.fresh_line()
        s.emit("% endif\n")
    elif k == "for":
        s.fresh_line()
        s.emit("%% for v%d in [%s]:\n" % (n[1], ", ".join(ex_src(e) for e in n[2])))
        _body_src(s, n[3])
        s.fresh_line()
        s.emit("% endfor\n")
    elif k == "while":
        s.fresh_line()
        s.emit("%% while below(%d):\n" % n[1])
        _body_src(s, n[2])
        s.fresh_line()
        s.emit("% endwhile\n")
    elif k == "try":
        s.fresh_line()
        s.emit("% try:\n")
        _body_src(s, n[1])
        s.fresh_line()
        s.emit("%% except %s:\n" % s.except_class)
        _body_src(s, n[2])
        s.fresh_line()
        s.emit("% endtry\n")
    elif k == "def":
        s.emit('<%%def name="d%d(%s)"%s>' % (n[1], ", ".join("v%d" % v for v in n[2]), _flags_attrs(n[3])))
        _body_src(s, n[4])
        s.emit("</%def>")
    elif k == "block":
        if n[2]:
            s.fresh_line()
            s.anon_line[n[1]] = s.line
            s.emit("<%%block%s>" % _flags_attrs(n[3]))
        else:
            s.emit('<%%block name="d%d"%s>' % (n[1], _flags_attrs(n[3])))
        _body_src(s, n[4])
        s.emit("</%block>")
    elif k == "call":
        args = (' args="%s"' % ", ".join("v%d" % v for v in n[2])) if n[2] else ""
        s.emit('<%%call expr="%s"%s>' % (ex_src(n[1]), args))
        _body_src(s, n[3])
        s.emit("</%call>")
    elif k == "texttag":
        f = (' filter="%s"' % ", ".join("flt%d" % i for i in n[1])) if n[1] else ""
        s.emit("<%%text%s>%s</%%text>" % (f, n[2]))
    elif k == "inc":
        s.emit('<%%include file="%st%d.html"/>' % (s.prefix, n[1]))
    elif k == "ret":
        s.emit("<% return '' %>")
    elif k == "brk":
        s.emit("<% break %>")
    elif k == "cont":
        s.emit("<% continue %>")
    else:
        raise ValueError(n)


def to_source(body, prefix="", except_class="Exception"):
    """(source text, {anonymous block id: line}); `prefix`: of the URIs of the set (mako keys several registries
    by the module id derived from the URI, so every compiled set should get its own)"""
    from harness.tmpl_rt import PRELUDE
    s = _Src(prefix, except_class)
    s.emit(PRELUDE)
    _body_src(s, body)
    return "".join(s.out), dict(s.anon_line)


# --------------------------------------------------------------------------------------------- wire syntax

def ex_wire(e, out):
    k = e[0]
    if k == "lit":
        out += ["L", enc(e[1])]
    elif k == "var":
        out += ["V", str(e[1])]
    elif k == "cat":
        out.append("C")
        ex_wire(e[1], out)
        ex_wire(e[2], out)
    elif k in ("call", "caller", "capture"):
        out += [{"call": "F", "caller": "K", "capture": "P"}[k], str(e[1]), str(len(e[2]))]
        for a in e[2]:
            ex_wire(a, out)
    elif k == "boom":
        out.append("B")
    elif k == "filt":
        out += ["T", str(e[1])]
        ex_wire(e[2], out)
    elif k == "loopindex":
        out.append("I")
    elif k == "probe":
        out.append("Q")
    else:
        raise ValueError(e)


def _nats(xs, out):
    out.append(str(len(xs)))
    out += [str(x) for x in xs]


def _fl_wire(fl, out):
    out.append("1" if fl["buffered"] else "0")
    _nats(fl["filters"], out)
    out.append("1" if fl["cached"] else "0")
    out.append("1" if fl["deco"] else "0")


def body_wire(body, out):
    if not body:
        out.append("nil")
    elif len(body) == 1:
        node_wire(body[0], out)
    else:
        out.append("seq")
        node_wire(body[0], out)
        body_wire(body[1:], out)


def node_wire(n, out):
    k = n[0]
    if k == "text":
        out += ["text", enc(n[1])]
    elif k == "expr":
        out.append("expr")
        ex_wire(n[1], out)
        _nats(n[2], out)
    elif k == "if":
        out.append("if")
        ex_wire(n[1], out)
        body_wire(n[2], out)
        body_wire(n[3], out)
    elif k == "for":
        out += ["for", str(n[1]), str(len(n[2]))]
        for e in n[2]:
            ex_wire(e, out)
        body_wire(n[3], out)
    elif k == "while":
        out += ["while", str(n[1])]
        body_wire(n[2], out)
    elif k == "try":
        out.append("try")
        body_wire(n[1], out)
        body_wire(n[2], out)
    elif k == "def":
        out += ["def", str(n[1])]
        _nats(n[2], out)
        _fl_wire(n[3], out)
        body_wire(n[4], out)
    elif k == "block":
        out += ["block", str(n[1]), "1" if n[2] else "0"]
        _fl_wire(n[3], out)
        body_wire(n[4], out)
    elif k == "call":
        out.append("call")
        ex_wire(n[1], out)
        _nats(n[2], out)
        body_wire(n[3], out)
    elif k == "texttag":
        out.append("texttag")
        _nats(n[1], out)
        out.append(enc(n[2]))
    elif k == "inc":
        out += ["inc", str(n[1])]
    elif k in ("ret", "brk", "cont"):
        out.append(k)
    else:
        raise ValueError(n)


def to_wire(body):
    out = []
    body_wire(body, out)
    return " ".join(out)


# --------------------------------------------------------------------------------------------- tree utilities

BODY_SLOTS = {"if": (2, 3), "for": (3,), "while": (2,), "try": (1, 2), "def": (4,), "block": (4,), "call": (3,)}


def walk(body, path=()):
    """yields (path, node); a path is a tuple of (index, slot) steps ending with an index"""
    for i, n in enumerate(body):
        yield path + (i,), n
        for slot in BODY_SLOTS.get(n[0], ()):
            yield from walk(n[slot], path + (i, slot))


def get_body(body, path):
    """the body (list) that contains the node addressed by `path`, and the index in it"""
    cur = body
    p = list(path)
    while len(p) > 1:
        i, slot = p[0], p[1]
        cur = cur[i][slot]
        p = p[2:]
    return cur, p[0]


def count_nodes(body):
    return sum(1 for _ in walk(body))


def kinds(body):
    h = {}
    for _, n in walk(body):
        h[n[0]] = h.get(n[0], 0) + 1
        if n[0] in ("def", "block"):
            fl = n[3]
            for key in ("buffered", "cached", "deco"):
                if fl[key]:
                    h[n[0] + ":" + key] = h.get(n[0] + ":" + key, 0) + 1
            if fl["filters"]:
                h[n[0] + ":filtered"] = h.get(n[0] + ":filtered", 0) + 1
    return h


def wrap_try(body, path, handler):
    """copy of `body` with the node at `path` wrapped into `% try` … `% except:` handler"""
    b = copy.deepcopy(body)
    cont, i = get_body(b, path)
    cont[i] = ["try", [cont[i]], copy.deepcopy(handler)]
    return b


def ancestors(path):
    """paths of the node and of all its ancestors (innermost first)"""
    res = []
    p = tuple(path)
    while p:
        res.append(p)
        p = p[:-2]
    return res


def closed(bodies):
    """every def that is called and every variable that is read is bound somewhere in the set (shrinking must
    not manufacture dangling names: an unbound name is a different failure)"""
    defs, binders, used_defs, used_vars = set(), set(), set(), set()

    def ex(e):
        if e[0] == "var":
            used_vars.add(e[1])
        elif e[0] == "cat":
            ex(e[1]); ex(e[2])
        elif e[0] == "filt":
            ex(e[2])
        elif e[0] in ("call", "capture", "caller"):
            if e[0] != "caller":
                used_defs.add(e[1])
            for a in e[2]:
                ex(a)
    for b in bodies:
        for _, n in walk(b):
            k = n[0]
            if k in ("def", "block"):
                defs.add(n[1])
                if k == "def":
                    binders.update(n[2])
            elif k == "for":
                binders.add(n[1])
                for e in n[2]:
                    ex(e)
            elif k == "call":
                binders.update(n[2])
                ex(n[1])
            elif k in ("expr", "if"):
                ex(n[1])
    return used_defs <= defs and used_vars <= binders


def loop_context_at(body, path):
    """is the node at `path` inside a `% for` with a loop context of the same callable?"""
    from harness.ref_render import _mentions_loop_deep
    cur = body
    p = list(path)
    inloop = False
    while len(p) > 1:
        n = cur[p[0]]
        if n[0] == "for" and _mentions_loop_deep(n):
            inloop = True
        elif n[0] in ("def", "block", "call"):
            inloop = False
        cur = n[p[1]]
        p = p[2:]
    return inloop


def shrinks(bodies):
    """candidate smaller template sets (tree reduction): drop a node, replace a subtree by text, unwrap a
    construct into its body, drop a flag, shorten a text"""
    for ti, body in enumerate(bodies):
        for path, n in list(walk(body)):
            def variant(f):
                nb = copy.deepcopy(bodies)
                cont, i = get_body(nb[ti], path)
                f(cont, i)
                return nb
            yield variant(lambda c, i: c.__delitem__(i))
            k = n[0]
            if k in BODY_SLOTS and k not in ("def",):
                for slot in BODY_SLOTS[k]:
                    yield variant(lambda c, i, slot=slot: c.__setitem__(slice(i, i + 1), c[i][slot]))
            if k not in ("text", "def"):
                yield variant(lambda c, i: c.__setitem__(i, ["text", "x"]))
            if k in ("def", "block"):
                fl = n[3]
                for key in ("buffered", "cached", "deco"):
                    if fl[key]:
                        yield variant(lambda c, i, key=key: c[i][3].__setitem__(key, False))
                if fl["filters"]:
                    yield variant(lambda c, i: c[i][3].__setitem__("filters", c[i][3]["filters"][1:]))
            if k == "text" and len(n[1]) > 1:
                yield variant(lambda c, i: c.__setitem__(i, ["text", c[i][1][:1]]))
            if k == "expr" and n[2]:
                yield variant(lambda c, i: c[i].__setitem__(2, c[i][2][1:]))
            if k == "expr" and n[1][0] == "cat":
                yield variant(lambda c, i: c[i].__setitem__(1, c[i][1][1]))
                yield variant(lambda c, i: c[i].__setitem__(1, c[i][1][2]))
            if k == "for" and len(n[2]) > 1:
                yield variant(lambda c, i: c[i].__setitem__(2, c[i][2][:1]))


def shrink_set(bodies, fails, max_tests=400):
    """greedy tree reduction; `fails(bodies) -> bool` (exceptions count as 'does not fail')"""
    tests = 0
    progress = True
    while progress and tests < max_tests:
        progress = False
        for cand in shrinks(bodies):
            tests += 1
            if tests > max_tests:
                break
            try:
                bad = closed(cand) and fails(cand)
            except Exception:
                bad = False
            if bad:
                bodies = cand
                progress = True
                break
    return bodies


# --------------------------------------------------------------------------------------------- generation

class Knobs:
    """what the generator may emit; other properties adjust per stream"""

    def __init__(self, **kw):
        self.max_depth = 4
        self.max_body = 4            # nodes per body
        self.budget = 28             # nodes per template
        self.templates = (1, 3)      # size of the template set
        self.constructs = {"text": 5, "expr": 6, "if": 2, "for": 2, "while": 1, "try": 2, "def": 3, "block": 2,
                           "call": 3, "texttag": 1, "inc": 1, "ret": 0.4, "brk": 0.5, "cont": 0.3}
        self.p_boom = 0.45           # share of expressions that contain an evaluation point
        self.p_flag = 0.35           # per def/block flag
        self.ret_in_buffered = False      # `return` inside buffered/filtered/cached callables (C03 matter)
        self.caller_in_call_expr = False  # `caller.x()` inside a <%call expr> (nextcaller clobbering, C05 matter)
        self.caller_in_block = False      # `caller.x()` directly inside an anonymous block
        self.nested_buffered_cached = True    # inline def with buffered+cached (mako ignored `buffered` there before ec9a6d2)
        self.loop_in_call_expr = False    # `loop` in a <%call expr>: not seen by mako's LoopVariable (C03 matter)
        self.loop_in_call_body = True     # `loop` used only in a <%call> body/def under a `% for` (NameError '__M_loop' before bca4969)
        self.probe = True
        for k, v in kw.items():
            assert hasattr(self, k), k
            setattr(self, k, v)


class _Scope:
    def __init__(self, **kw):
        self.vars = []          # visible variables
        self.defs = []          # visible complete callables: ids
        self.in_def = False     # `caller` may be used
        self.in_block = False
        self.in_loop = False    # break/continue allowed
        self.loopctx = False    # loop.index allowed
        self.buffering = False  # the enclosing callable is buffered/filtered/cached
        self.top = False        # top scope of a template: defs here are top-level
        self.in_call_expr = False
        self.bargs = set()      # args of the innermost <%call> body: not visible to the defs/blocks written into ccall
        self.depth = 0
        self.__dict__.update(kw)

    def sub(self, **kw):
        s = _Scope(**self.__dict__)
        s.vars = list(self.vars)
        s.defs = list(self.defs)
        s.__dict__.update(kw)
        return s


class Gen:
    """one generator instance = one template set; ids are unique over the set"""

    def __init__(self, rng, knobs=None):
        self.rng = rng
        self.k = knobs or Knobs()
        self.next_var = 1
        self.next_def = 1
        self.info = {}        # def id -> {"arity": n, "uses_caller": bool}
        self.exported = []    # defs nested in a <%call> (reachable as caller.d<n>)
        self.budget = 0

    # ---- helpers
    def fresh_var(self):
        v = self.next_var
        self.next_var += 1
        return v

    def fresh_def(self):
        d = self.next_def
        self.next_def += 1
        return d

    def text(self):
        r = self.rng
        return "".join(r.choice(TEXT_ALPHABET) for _ in range(r.randint(1, 4))) + ("\n" if r.random() < 0.1 else "")

    def lit(self):
        r = self.rng
        return "".join(r.choice(LIT_ALPHABET) for _ in range(r.randint(0, 3)))

    def flags(self, allow=True):
        r, p = self.rng, self.k.p_flag
        if not allow:
            return FL()
        return FL(buffered=r.random() < p, filters=[r.randrange(6) for _ in range(r.choice([0, 0, 1, 1, 2]))]
                  if r.random() < p * 1.3 else [], cached=r.random() < p * 0.5, deco=r.random() < p * 0.5)

    # ---- expressions
    def atom(self, sc):
        r = self.rng
        opts = ["lit"]
        if sc.vars:
            opts += ["var", "var"]
        if r.random() < self.k.p_boom:
            return ["boom"]
        k = r.choice(opts)
        if k == "var":
            return ["var", r.choice(sc.vars)]
        return ["lit", self.lit()]

    def args_for(self, sc, d, depth):
        return [self.expr(sc, depth + 1, small=True) for _ in range(self.info[d]["arity"])]

    def expr(self, sc, depth=0, small=False, want_call=None):
        r = self.rng
        if want_call is not None:
            return ["call", want_call, self.args_for(sc, want_call, depth)]
        choices = ["atom"] * 4
        if depth < 2:
            choices += ["cat", "filt"]
            if sc.defs:
                choices += ["call", "call", "capture"]
            if sc.in_def and not (sc.in_call_expr and not self.k.caller_in_call_expr) \
                    and not (sc.in_block and not self.k.caller_in_block):
                choices += ["caller", "caller"]
        if sc.loopctx and not (sc.in_call_expr and not self.k.loop_in_call_expr):
            choices += ["loopindex", "loopindex"]
        if small:
            choices += ["atom"] * 4
        k = r.choice(choices)
        if k == "atom":
            return self.atom(sc)
        if k == "cat":
            return ["cat", self.expr(sc, depth + 1, True), self.expr(sc, depth + 1, True)]
        if k == "filt":
            return ["filt", r.randrange(6), self.expr(sc, depth + 1, True)]
        if k == "call":
            d = r.choice(sc.defs)
            return ["call", d, self.args_for(sc, d, depth)]
        if k == "capture":
            d = r.choice(sc.defs)
            return ["capture", d, self.args_for(sc, d, depth)]
        if k == "caller":
            exported = list(getattr(self, "exported", []))
            name = 0 if (not exported or r.random() < 0.7) else r.choice(exported)
            nargs = r.choice([0, 0, 0, 1])
            if name:
                nargs = self.info[name]["arity"]
            return ["caller", name, [self.expr(sc, depth + 1, True) for _ in range(nargs)]]
        if k == "loopindex":
            return ["loopindex"]
        raise AssertionError(k)

    # ---- templates
    def body(self, sc, n=None):
        r = self.rng
        if n is None:
            n = r.randint(1, self.k.max_body)
        out = []
        for _ in range(n):
            if self.budget <= 0:
                break
            node = self.node(sc)
            if node is not None:
                out.append(node)
        if out and all(n[0] == "def" for n in out) and sc.depth > 0:
            # mako emits no statement for a <%def> in place: a control-line suite made of defs only would be
            # an empty Python suite (IndentationError) - keep one real statement
            out.append(["text", self.text()])
        return out

    def pick_kind(self, sc):
        c = dict(self.k.constructs)
        if sc.depth >= self.k.max_depth:
            for k in ("if", "for", "while", "try", "def", "block", "call"):
                c.pop(k, None)
        if not sc.in_loop:
            c.pop("brk", None)
            c.pop("cont", None)
        if sc.buffering and not self.k.ret_in_buffered:
            c.pop("ret", None)
        if not sc.defs:
            c.pop("call", None)
        if sc.in_block:
            c.pop("def", None)        # grammar restriction: no defs inside blocks
        if not self.includable:
            c.pop("inc", None)
        items = sorted(c.items())
        tot = sum(w for _, w in items)
        x = self.rng.random() * tot
        for k, w in items:
            x -= w
            if x <= 0:
                return k
        return "text"

    def node(self, sc):
        r = self.rng
        k = self.pick_kind(sc)
        self.budget -= 1
        d = sc.depth + 1
        if k == "text":
            return ["text", self.text()]
        if k == "expr":
            e = self.expr(sc)
            if self.k.probe and r.random() < 0.08:
                e = ["probe"]
            return ["expr", e, [r.randrange(6) for _ in range(r.choice([0, 0, 0, 1, 2]))]]
        if k == "if":
            return ["if", self.expr(sc, 1, True), self.body(sc.sub(depth=d)), self.body(sc.sub(depth=d)) if r.random() < 0.5 else []]
        if k == "for":
            v = self.fresh_var()
            items = [self.expr(sc, 1, True) for _ in range(r.choice([0, 1, 2, 2, 3]))]
            use_loop = r.random() < 0.6
            s2 = sc.sub(depth=d, in_loop=True, loopctx=use_loop or sc.loopctx)
            s2.vars.append(v)
            body = self.body(s2)
            node = ["for", v, items, body]
            if not _mentions_loop_scope(body):
                from harness.ref_render import _mentions_loop_deep
                if use_loop or (_mentions_loop_deep(node) and not self.k.loop_in_call_body):
                    # `loop` mentioned only inside a nested def / <%call> body would mangle this `for` without a
                    # LoopStack in scope (NameError '__M_loop'): reference it in the scope itself
                    body.append(["expr", ["loopindex"], []])
            return node
        if k == "while":
            s2 = sc.sub(depth=d, in_loop=True)
            return ["while", r.randint(0, 12), self.body(s2)]
        if k == "try":
            h = self.body(sc.sub(depth=d), r.randint(0, 2))
            if self.k.probe and r.random() < 0.5:
                h.append(["expr", ["probe"], []])
            if sc.loopctx and r.random() < 0.5:
                h.append(["expr", ["loopindex"], []])
            return ["try", self.body(sc.sub(depth=d)), h]
        if k == "def":
            return self.gen_def(sc)
        if k == "block":
            return self.gen_block(sc)
        if k == "call":
            return self.gen_call(sc)
        if k == "texttag":
            return ["texttag", [r.randrange(6) for _ in range(r.choice([0, 1, 1, 2]))], self.text().replace("\n", "")]
        if k == "inc":
            return ["inc", r.choice(self.includable)]
        if k in ("ret", "brk", "cont"):
            return [k]
        raise AssertionError(k)

    def gen_def(self, sc, exported_into=None):
        r = self.rng
        name = self.fresh_def()
        params = [self.fresh_var() for _ in range(r.choice([0, 0, 1, 1, 2]))]
        fl = self.flags()
        if not sc.top and fl["buffered"] and fl["cached"] and not self.k.nested_buffered_cached:
            fl["cached"] = False
        s2 = sc.sub(depth=sc.depth + 1, in_def=True, in_block=False, in_loop=False, loopctx=False, top=False,
                    buffering=fl["buffered"] or fl["cached"] or bool(fl["filters"]), in_call_expr=False)
        s2.vars = [v for v in sc.vars if v in self._param_vars and v not in sc.bargs] + params
        s2.bargs = set()
        self._param_vars.update(params)
        body = self.body(s2)
        uses = _uses_caller(body)
        self.info[name] = {"arity": len(params), "uses_caller": uses, "exports": []}
        sc.defs.append(name)           # complete from here on (hoisted: visible in the whole scope)
        return ["def", name, params, fl, body]

    def gen_block(self, sc):
        r = self.rng
        name = self.fresh_def()
        anon = not (sc.top and r.random() < 0.5)
        fl = self.flags()
        if fl["deco"] and not anon:
            fl["deco"] = False        # named blocks take **pageargs; keep the decorator for defs/anonymous blocks
        fl["deco"] = False            # blocks have no decorator attribute
        if anon and fl["buffered"] and fl["cached"] and not self.k.nested_buffered_cached:
            fl["cached"] = False
        s2 = sc.sub(depth=sc.depth + 1, in_def=sc.in_def, in_block=True, in_loop=False,
                    buffering=fl["buffered"] or fl["cached"] or bool(fl["filters"]), top=False, in_call_expr=False)
        if not anon:
            s2.vars = []
            s2.loopctx = False
        else:
            s2.vars = [v for v in sc.vars if v in self._param_vars and v not in sc.bargs]
            s2.loopctx = False
        s2.bargs = set()
        body = self.body(s2)
        self.info[name] = {"arity": 0, "uses_caller": False, "exports": []}
        return ["block", name, anon, fl, body]

    def gen_call(self, sc):
        r = self.rng
        # prefer callees that use `caller`
        cands = [d for d in sc.defs if self.info[d]["uses_caller"]] or sc.defs
        callee = r.choice(cands if r.random() < 0.8 else sc.defs)
        se = sc.sub(in_call_expr=True)
        e = ["call", callee, self.args_for(se, callee, 0)]
        if r.random() < 0.2:
            e = ["cat", ["lit", self.lit()], e]
        bargs = [self.fresh_var() for _ in range(r.choice([0, 0, 0, 1]))]
        # call-body scope: `caller` is the enclosing callable's; loops/locals of the call site are visible
        s2 = sc.sub(depth=sc.depth + 1, in_loop=False, loopctx=False, top=False, buffering=False, in_block=False)
        s2.vars = list(sc.vars) + bargs
        s2.bargs = set(bargs)
        self._param_vars.update(bargs)
        nested = []
        if r.random() < 0.4 and sc.depth + 1 < self.k.max_depth and not sc.in_block:
            sd = sc.sub(depth=sc.depth + 1, top=False)
            nd = self.gen_def(sd)
            self.budget -= 1
            nested.append(nd)
            self.exported.append(nd[1])
            s2.defs.append(nd[1])
        body = nested + self.body(s2)
        r.shuffle(body)
        return ["call", e, bargs, body]

    def template(self, index, includable):
        self.includable = includable
        self.budget = self.k.budget if index == 0 else max(4, self.k.budget // 3)
        self._param_vars = set()
        sc = _Scope(top=True)
        r = self.rng
        body = []
        # top-level defs first (they are visible everywhere in the template), then the body
        ndefs = r.choice([0, 1, 2, 2, 3]) if "def" in self.k.constructs else 0
        for _ in range(ndefs):
            self.budget -= 1
            body.append(self.gen_def(sc))
        rest = self.body(sc, r.randint(2, self.k.max_body + 2))
        # every top-level def is reached from the body at least once (otherwise its evaluation points are dead)
        called = _called_defs(rest)
        for dnode in body:
            if dnode[1] not in called and r.random() < 0.9:
                self.budget += 2
                if self.info[dnode[1]]["uses_caller"] or r.random() < 0.3:
                    sc.defs = [dnode[1]]
                    rest.insert(r.randint(0, len(rest)), self.gen_call(sc))
                else:
                    e = ["call", dnode[1], self.args_for(sc, dnode[1], 0)]
                    if r.random() < 0.25:
                        e = ["capture", dnode[1], e[2]]
                    rest.insert(r.randint(0, len(rest)), ["expr", e, []])
        sc.defs = [d[1] for d in body]
        body = body + rest
        if index == 0:
            r.shuffle(body)
        return body

    def template_set(self):
        r = self.rng
        n = r.randint(*self.k.templates)
        bodies = [None] * n
        # later templates first so that earlier ones can include them
        for i in range(n - 1, -1, -1):
            bodies[i] = self.template(i, list(range(i + 1, n)))
        return bodies


def _called_defs(body):
    """ids of defs called (by name) from the expressions of this scope"""
    res = set()

    def ex(e):
        if e[0] in ("call", "capture"):
            res.add(e[1])
        if e[0] == "cat":
            ex(e[1]); ex(e[2])
        elif e[0] == "filt":
            ex(e[2])
        elif e[0] in ("call", "caller", "capture"):
            for a in e[2]:
                ex(a)
    for _, n in walk(body):
        k = n[0]
        if k == "expr" or k == "if" or k == "call":
            ex(n[1])
        elif k == "for":
            for e in n[2]:
                ex(e)
    return res


def _mentions_loop_scope(body):
    """does the scope reference `loop` itself (not through nested defs / call bodies)?"""
    for n in body:
        k = n[0]
        if k == "expr" and _ex_mentions_loop(n[1]):
            return True
        if k == "if" and (_ex_mentions_loop(n[1]) or _mentions_loop_scope(n[2]) or _mentions_loop_scope(n[3])):
            return True
        if k == "for" and (any(_ex_mentions_loop(e) for e in n[2]) or _mentions_loop_scope(n[3])):
            return True
        if k == "while" and _mentions_loop_scope(n[2]):
            return True
        if k == "try" and (_mentions_loop_scope(n[1]) or _mentions_loop_scope(n[2])):
            return True
        if k == "block" and _mentions_loop_scope(n[4]):
            return True
        if k == "call" and _ex_mentions_loop(n[1]):
            return True
    return False


def _ex_mentions_loop(e):
    if e[0] == "loopindex":
        return True
    if e[0] == "cat":
        return _ex_mentions_loop(e[1]) or _ex_mentions_loop(e[2])
    if e[0] == "filt":
        return _ex_mentions_loop(e[2])
    if e[0] in ("call", "caller", "capture"):
        return any(_ex_mentions_loop(a) for a in e[2])
    return False


def _ex_uses_caller(e):
    if e[0] == "caller":
        return True
    if e[0] == "cat":
        return _ex_uses_caller(e[1]) or _ex_uses_caller(e[2])
    if e[0] == "filt":
        return _ex_uses_caller(e[2])
    if e[0] in ("call", "capture"):
        return any(_ex_uses_caller(a) for a in e[2])
    return False


def _uses_caller(body):
    """does this callable's own scope use `caller` (not nested defs)?"""
    for n in body:
        k = n[0]
        if k == "expr" and _ex_uses_caller(n[1]):
            return True
        if k == "if" and (_ex_uses_caller(n[1]) or _uses_caller(n[2]) or _uses_caller(n[3])):
            return True
        if k == "for" and (any(_ex_uses_caller(e) for e in n[2]) or _uses_caller(n[3])):
            return True
        if k == "while" and _uses_caller(n[2]):
            return True
        if k == "try" and (_uses_caller(n[1]) or _uses_caller(n[2])):
            return True
        if k == "call" and (_ex_uses_caller(n[1]) or _uses_caller(n[3])):
            return True
    return False
