"""Deterministic scheduler for REAL threads (property C16).

Exactly one worker thread runs at any time.  A worker gives the processor back at *scheduling points*
(`Scheduler.point(label, enabled)`); the scheduler (whichever thread holds the token makes the decision,
so a decision that keeps the same thread running costs no hand-over) then picks the next thread according to
a *strategy*:

* `Follow(schedule)`  – follow a given list of thread ids (an entry naming a finished or blocked thread is a
                        no-op, recorded as `(tid, '!')`), afterwards the lowest runnable thread;
* `Prefix(prefix)`    – follow a prefix of decisions, afterwards stay on the running thread while it can run
                        (used by `explore`, which enumerates ALL schedules of a scenario, fewest preemptions first);
* `PCT(rng, depth, k)`– randomised priorities with `depth-1` priority change points (Burckhardt et al.);
* `StopLine(a, k, b)` – thread `a` runs `k` steps, then `b` runs to completion, then the rest (stop-line enumeration);
* `SoloFirst(t, s)`   – a sequential prologue thread `t`, then strategy `s`.

Scheduling points come from two sources:

* the **model's points**, by patching (no hooks in /repo): `MakoWorld` replaces `TemplateLookup._mutex` by an
  `InstrLock`, the collection and `_uri_cache` by instrumented subclasses of the real `dict`/`util.LRUCache`, `os.stat` /
  `os.path.isfile` as seen by `mako.lookup`, `Template` as seen by `mako.lookup`, the `memoized_property`
  descriptors of `Template`, `__import__` as seen by `mako.runtime` (the per-module import lock as an instrumented
  lock; a test module's top level may call `module_point()`), and the clocks (`time.time` in `mako.codegen`,
  `timeit.default_timer` in `mako.util`);
* **every executed line of mako code** and every call into a generated template module (`sys.settrace` in the
  worker threads), for the randomised schedules; or every executed line of ONE mako source file
  (`file_lines_predicate`) or of one class (`class_lines_predicate`), for the stop-line enumerations.

A thread that wants the instrumented lock while it is held is *blocked* (not runnable).  Deadlock = some thread
is unfinished and none is runnable; the scheduler then aborts every worker by raising `Abort` (a
`BaseException`) at its scheduling point, so that no thread is left behind.  A wall-clock bound is enforced by
the main thread.
"""
from __future__ import annotations

import heapq
import os
import sys
import threading
import time


class Abort(BaseException):
    """raised inside a worker at a scheduling point when the run is being torn down"""


class Worker:
    __slots__ = ("tid", "fn", "sem", "label", "enabled", "finished", "thread", "error", "started", "steps")

    def __init__(self, tid, fn):
        self.tid = tid
        self.fn = fn
        self.sem = threading.Semaphore(0)
        self.label = "start"
        self.enabled = None
        self.finished = False
        self.thread = None
        self.error = None
        self.started = False
        self.steps = 0


class Scheduler:
    def __init__(self, strategy, wall_limit=20.0, max_steps=200000, trace_lines=None):
        self.strategy = strategy
        self.wall_limit = wall_limit
        self.max_steps = max_steps
        self.workers = {}
        self.order = []
        self.tls = threading.local()
        self.trace = []            # (tid, label) in execution order; label '!' = no-op entry of a followed schedule
        self.decisions = []        # (chosen tid, tuple of runnable tids) – only real decisions
        self.deadlock = False
        self.timed_out = False
        self.step_limit_hit = False
        self.aborting = False
        self.done = threading.Event()
        self.blocked_at_end = []   # tids that were blocked when a deadlock was declared
        self.trace_lines = trace_lines   # None or a predicate on code objects (line-level mode)
        self.current = None
        self.diverged = False
        self.prologue_len = 0      # number of leading decisions that belong to a solo prologue thread
        self.after_point = None    # hook(worker, label): called in the worker when it has been scheduled
        self.stray = []
        self.locks = []            # instrumented locks (for the deadlock report)
        self.lock_owners_at_deadlock = []
        self.warming = False
        self._warm_evt = threading.Event()
        self._lock = threading.Lock()    # protects the teardown only
        self._alive = 0

    # ------------------------------------------------------------------ workers
    def spawn(self, tid, fn):
        w = Worker(tid, fn)
        self.workers[tid] = w
        self.order.append(tid)
        return w

    def me(self):
        return getattr(self.tls, "worker", None)

    def _body(self, w):
        self.tls.worker = w
        try:
            w.sem.acquire()                      # parked until first scheduled
            if self.aborting:
                raise Abort()
            if self.trace_lines is not None:
                sys.settrace(self._make_tracer())
            try:
                w.fn()
            finally:
                if self.trace_lines is not None:
                    sys.settrace(None)
        except Abort:
            pass
        except BaseException as e:               # a bug in the harness' worker function
            w.error = e
        finally:
            w.finished = True
            self.tls.worker = None
            self._retire(w)

    def _retire(self, w):
        if self.warming:                 # finished before reaching any scheduling point
            with self._lock:
                self._alive -= 1
            self._warm_evt.set()
            return
        with self._lock:
            self._alive -= 1
            last = self._alive <= 0
        if last:
            self.done.set()
            return
        if self.aborting:
            return
        nxt = self._choose()             # may declare a deadlock and abort the others
        if nxt is not None:
            nxt.sem.release()

    # ------------------------------------------------------------------ points
    def point(self, label, enabled=None):
        """scheduling point of the calling worker: its NEXT action is `label`; it can perform it when
        `enabled()` (None = always)"""
        w = self.me()
        if w is None:
            return
        if self.aborting:
            raise Abort()
        w.label = label
        w.enabled = enabled
        if self.warming:                 # first point of this worker: park, the main thread starts the next one
            self._warm_evt.set()
            w.sem.acquire()
        else:
            nxt = self._choose()
            if nxt is not w:
                if nxt is not None:
                    nxt.sem.release()
                w.sem.acquire()
        if self.aborting:
            raise Abort()
        w.enabled = None
        if self.after_point is not None:
            self.after_point(w, label)

    def runnable(self):
        res = []
        for tid in self.order:
            w = self.workers[tid]
            if w.finished:
                continue
            if w.enabled is None or w.enabled():
                res.append(tid)
        return res

    def _choose(self):
        """decide who performs the next step; returns its Worker, or None (all finished / deadlock / abort)"""
        if self.aborting:
            return None
        while True:
            run = self.runnable()
            if not run:
                unfinished = [t for t in self.order if not self.workers[t].finished]
                if unfinished:
                    self.deadlock = True
                    self.blocked_at_end = unfinished
                    self.lock_owners_at_deadlock = [l.owner for l in self.locks]
                    self._abort()
                return None
            if len(self.trace) >= self.max_steps:
                self.step_limit_hit = True
                self._abort()
                return None
            tid = self.strategy.pick(run, self)
            if tid is None:
                # the strategy gives up (e.g. a followed schedule is exhausted and asked not to complete)
                self._abort()
                return None
            w = self.workers.get(tid)
            if w is None or w.finished or tid not in run:
                self.trace.append((tid, "!"))
                continue
            self.trace.append((tid, w.label))
            self.decisions.append((tid, tuple(run)))
            w.steps += 1
            self.current = tid
            return w

    def _abort(self):
        self.aborting = True
        for w in self.workers.values():
            if not w.finished:
                w.sem.release()

    # ------------------------------------------------------------------ line-level tracing
    def _make_tracer(self):
        pred = self.trace_lines
        sched = self

        def local(frame, event, arg):
            if event == "line":
                sched.point("l")
            return local

        def tracer(frame, event, arg):
            if event != "call":
                return None
            kind = pred(frame.f_code)
            if not kind:
                return None
            if kind == "call":                   # template-level call: a point at the call
                sched.point("c")
                return None
            return local
        return tracer

    # ------------------------------------------------------------------ run
    def run(self):
        """start the workers, run them under the strategy until all finished / deadlock / time-out"""
        self._alive = len(self.workers)
        if not self.workers:
            return self
        # warm-up: every worker runs, one at a time, up to its first scheduling point and parks there
        self.warming = True
        for tid in self.order:
            w = self.workers[tid]
            w.thread = threading.Thread(target=self._body, args=(w,), name="c16-w%d" % tid, daemon=True)
            self._warm_evt.clear()
            w.thread.start()
            w.sem.release()
            if not self._warm_evt.wait(self.wall_limit):
                self.timed_out = True
                break
        self.warming = False
        if self.timed_out:
            self._abort()
            for w in self.workers.values():
                if w.thread is not None:
                    w.thread.join(2.0)
            self.stray = [w.tid for w in self.workers.values() if w.thread is not None and w.thread.is_alive()]
            return self
        if self._alive <= 0:
            return self
        first = self._choose()
        if first is not None:
            first.sem.release()
        if not self.done.wait(self.wall_limit):
            self.timed_out = True
            self._abort()
            self.done.wait(2.0)
        for w in self.workers.values():
            w.thread.join(2.0)
        self.stray = [w.tid for w in self.workers.values() if w.thread.is_alive()]
        return self


# --------------------------------------------------------------------------- strategies

class Follow:
    """follow `schedule`; afterwards (if `complete`) the lowest runnable thread"""

    def __init__(self, schedule, complete=True):
        self.schedule = list(schedule)
        self.i = 0
        self.complete = complete

    def pick(self, runnable, sched):
        if self.i < len(self.schedule):
            t = self.schedule[self.i]
            self.i += 1
            return t
        if not self.complete:
            return None
        return runnable[0]


class Prefix:
    """follow the decisions of `prefix`, afterwards keep the running thread while it is runnable, else the
    lowest runnable one (no preemption beyond the prefix)"""

    def __init__(self, prefix):
        self.prefix = list(prefix)

    def pick(self, runnable, sched):
        i = len(sched.decisions) - sched.prologue_len
        if i < len(self.prefix):
            t = self.prefix[i]
            if t in runnable:
                return t
            # the prefix is not realisable (the implementation is not deterministic?) - flagged by the caller
            sched.diverged = True
        if sched.current in runnable:
            return sched.current
        return runnable[0]


class PCT:
    """probabilistic concurrency testing: random priorities, `depth-1` change points among `k` steps"""

    def __init__(self, rng, tids, depth, k):
        tids = list(tids)
        rng.shuffle(tids)
        self.prio = {t: depth + i for i, t in enumerate(tids)}       # higher = runs first
        self.change = sorted(rng.randrange(1, max(2, k)) for _ in range(max(0, depth - 1)))
        self.low = depth - 1
        self.n = 0

    def pick(self, runnable, sched):
        self.n += 1
        t = max(runnable, key=lambda x: self.prio[x])
        while self.change and self.change[0] <= self.n:
            self.change.pop(0)
            self.prio[t] = self.low
            self.low -= 1
            t = max(runnable, key=lambda x: self.prio[x])
        return t


class SoloFirst:
    """run thread `tid` alone until it has finished (a sequential prologue), then delegate to `inner`"""

    def __init__(self, tid, inner):
        self.tid = tid
        self.inner = inner
        self.over = False

    def pick(self, runnable, sched):
        if not self.over:
            if self.tid in runnable:
                return self.tid
            self.over = True
            sched.prologue_len = len(sched.decisions)
        return self.inner.pick(runnable, sched)


class StopLine:
    """thread `first` runs `k` steps, then thread `second` runs to completion, then the lowest runnable thread"""

    def __init__(self, first, k, second):
        self.first, self.k, self.second = first, k, second
        self.n = 0

    def pick(self, runnable, sched):
        if self.n < self.k and self.first in runnable:
            self.n += 1
            return self.first
        self.n = self.k
        if self.second in runnable:
            return self.second
        return runnable[0]


def preemptions(decisions):
    n = 0
    for i in range(1, len(decisions)):
        prev = decisions[i - 1][0]
        if decisions[i][0] != prev and prev in decisions[i][1]:
            n += 1
    return n


def explore(run_one, budget, max_preemptions=None, deadline=None):
    """Enumerate the schedules of a scenario: `run_one(prefix) -> Scheduler` (already run).  Every maximal
    schedule is executed exactly once, in order of increasing number of preemptions.  Returns
    (number of executions, exhausted?) – `exhausted` is True when the whole tree (within `max_preemptions`, if
    given) was covered."""
    heap = [(0, 0, [])]
    counter = 1
    runs = 0
    while heap:
        if runs >= budget or (deadline is not None and time.time() > deadline):
            return runs, False
        _, _, prefix = heapq.heappop(heap)
        s = run_one(prefix)
        runs += 1
        dec = s.decisions[s.prologue_len:]
        for i in range(len(prefix), len(dec)):
            chosen, runnable = dec[i]
            for alt in runnable:
                if alt == chosen:
                    continue
                child = [d[0] for d in dec[:i]] + [alt]
                # preemptions of the child prefix
                p = preemptions(dec[:i] + [(alt, runnable)])
                if max_preemptions is not None and p > max_preemptions:
                    continue
                heapq.heappush(heap, (p, counter, child))
                counter += 1
    return runs, True


# --------------------------------------------------------------------------- instrumented primitives

class InstrLock:
    """stands in for `threading.Lock()` of `TemplateLookup._mutex`"""

    def __init__(self, sched):
        self.sched = sched
        sched.locks.append(self)
        self.owner = None
        self.acquisitions = 0
        self.log = []

    def _free(self):
        return self.owner is None

    def acquire(self, blocking=True, timeout=-1):
        w = self.sched.me()
        if w is None:
            if self.owner is not None:
                raise RuntimeError("InstrLock used outside the scheduler while held")
            self.owner = "main"
            return True
        self.sched.point("A", self._free)
        assert self.owner is None
        self.owner = w.tid
        self.acquisitions += 1
        self.log.append(("acq", w.tid))
        return True

    def release(self):
        w = self.sched.me()
        if w is not None and not self.sched.aborting:
            self.sched.point("X")
        if self.owner is None:
            raise RuntimeError("release unlocked lock")
        self.log.append(("rel", self.owner))
        self.owner = None

    def locked(self):
        return self.owner is not None

    __enter__ = acquire

    def __exit__(self, *a):
        self.release()


class _Proxy:
    """module proxy: attribute access falls through to the wrapped module"""

    def __init__(self, real, **over):
        self.__dict__["_real"] = real
        self.__dict__.update(over)

    def __getattr__(self, name):
        return getattr(self._real, name)


_MISSING = object()
_CURRENT_WORLD = [None]


def module_point():
    """called from the top level of a test module while it is being imported: a scheduling point inside the import"""
    w = _CURRENT_WORLD[0]
    if w is not None and w.sched is not None:
        w.sched.point("m")


class MakoWorld:
    """Patches the real mako modules so that the model's scheduling points yield to `sched`, and simulates the
    clocks.  Use as a context manager; everything is restored on exit."""

    def __init__(self, clock=100):
        import mako.lookup
        import mako.template
        import mako.util
        import mako.codegen
        import mako.runtime       # noqa: F401  (imported now: no import may happen under the scheduler)
        import mako.cache         # noqa: F401
        import mako.lexer         # noqa: F401
        import mako.exceptions    # noqa: F401
        self.L, self.T, self.U, self.G = mako.lookup, mako.template, mako.util, mako.codegen
        self.clock = clock
        self.timer = 0
        self.sched = None
        self.constructions = 0
        self.constructing = 0
        self.importing = {}             # module name -> tid of the thread executing its first import
        self.memo_inits = {}            # (id(template), property) -> number of initialisations by renders
        self.lru_del_keyerrors = 0
        self.lru_inside = 0             # number of threads inside LRUCache.__setitem__ / _manage_size
        self.construction_log = []      # (id, tid) in order
        self._saved = []

    # -- clocks
    def now(self):
        return float(self.clock)

    def next_timer(self):
        t = self.timer
        self.timer += 1
        return t

    def __enter__(self):
        L, T, U, G = self.L, self.T, self.U, self.G
        world = self
        _CURRENT_WORLD[0] = self

        def save(obj, name):
            self._saved.append((obj, name, obj.__dict__[name] if isinstance(obj, type) else getattr(obj, name)))

        real_os = L.os

        def isfile(p):
            if world.sched is not None:
                world.sched.point("F")
            return real_os.path.isfile(p)

        def stat(p, *a, **k):
            if world.sched is not None:
                world.sched.point("S")
            return real_os.stat(p, *a, **k)

        save(L, "os")
        L.os = _Proxy(real_os, path=_Proxy(real_os.path, isfile=isfile), stat=stat)

        real_template = T.Template

        def make_template(*a, **k):
            if world.sched is not None:
                world.sched.point("C")
            n = world.constructions
            world.constructions += 1
            w = world.sched.me() if world.sched is not None else None
            world.construction_log.append((n, w.tid if w else None))
            world.constructing += 1          # the object under construction is not shared yet: its memo
            try:                             # cells are not scheduling points
                t = real_template(*a, **k)
            finally:
                world.constructing -= 1
            t._c16_id = n
            return t
        save(L, "Template")
        L.Template = make_template

        save(G, "time")
        G.time = _Proxy(G.time, time=self.now)
        save(U, "timeit")
        U.timeit = _Proxy(U.timeit, default_timer=self.next_timer)

        # `__import__` as seen by mako.runtime (ModuleNamespace.__init__): the per-module import lock as an instrumented
        # lock - a thread that imports a module while another thread is still executing its FIRST import is blocked
        # until that import has finished (that is what importlib's module lock does); the module body itself may call
        # `module_point()` so that other threads run while the module is half initialised
        import builtins
        import mako.runtime as R
        real_import = builtins.__import__

        def instr_import(name, *a, **k):
            sch = world.sched
            if sch is None or sch.me() is None:
                return real_import(name, *a, **k)
            me = sch.me().tid
            sch.point("I", lambda: world.importing.get(name, me) == me)
            if name in sys.modules or name in world.importing:
                return real_import(name, *a, **k)
            world.importing[name] = me
            try:
                return real_import(name, *a, **k)
            finally:
                world.importing.pop(name, None)
        self._saved.append((R, "__import__", R.__dict__.get("__import__", _MISSING)))
        R.__import__ = instr_import

        class InstrMemo(U.memoized_property):
            def __get__(self_, obj, cls):
                if obj is not None and world.sched is not None and not world.constructing:
                    world.sched.point("K")
                    key = (id(obj), self_.__name__)
                    world.memo_inits[key] = world.memo_inits.get(key, 0) + 1
                return U.memoized_property.__get__(self_, obj, cls)

        for name in ("cache", "reserved_names"):
            d = T.Template.__dict__.get(name)
            if isinstance(d, U.memoized_property):
                save(T.Template, name)
                setattr(T.Template, name, InstrMemo(d.fget))
        return self

    def __exit__(self, *exc):
        for obj, name, val in reversed(self._saved):
            if val is _MISSING:
                try:
                    delattr(obj, name)
                except AttributeError:
                    pass
            else:
                setattr(obj, name, val)
        self._saved = []
        self.sched = None
        _CURRENT_WORLD[0] = None
        return False

    # -- per-lookup instrumentation
    def instrument(self, lookup, sched):
        """replace the mutex and the collection of `lookup` (which must be freshly made) by instrumented ones"""
        U = self.U
        world = self
        self.sched = sched
        lookup._mutex = InstrLock(sched)

        class InstrDict(dict):
            def __getitem__(s, k):
                sched.point("R")
                return dict.__getitem__(s, k)

            def __setitem__(s, k, v):
                sched.point("W")
                return dict.__setitem__(s, k, v)

            def pop(s, k, *d):
                sched.point("P")
                return dict.pop(s, k, *d)

        class InstrLRU(U.LRUCache):
            def __getitem__(s, k):
                sched.point("R")
                return U.LRUCache.__getitem__(s, k)

            def __setitem__(s, k, v):
                sched.point("W")
                world.lru_inside += 1
                try:
                    return U.LRUCache.__setitem__(s, k, v)
                finally:
                    world.lru_inside -= 1

            def pop(s, k, *d):
                sched.point("P")
                return dict.pop(s, k, *d)

            def __len__(s):
                sched.point("L")
                return dict.__len__(s)

            def __delitem__(s, k):
                sched.point("D")
                try:
                    return dict.__delitem__(s, k)
                except KeyError:
                    world.lru_del_keyerrors += 1      # tolerated by `_manage_size` (break, loop again)
                    raise

        # `_uri_cache` (adjust_uri): points at the membership test, the read and the store; the LRU's
        # `_manage_size` runs inside the store step (no point at its `len`/`del`)
        class UriDict(dict):
            def __contains__(s, k):
                sched.point("c")
                return dict.__contains__(s, k)

            def __getitem__(s, k):
                sched.point("g")
                return dict.__getitem__(s, k)

            def __setitem__(s, k, v):
                sched.point("s")
                return dict.__setitem__(s, k, v)

        class UriLRU(U.LRUCache):
            def __contains__(s, k):
                sched.point("c")
                return dict.__contains__(s, k)

            def __getitem__(s, k):
                sched.point("g")
                return U.LRUCache.__getitem__(s, k)

            def __setitem__(s, k, v):
                sched.point("s")
                return U.LRUCache.__setitem__(s, k, v)

        if isinstance(lookup._collection, U.LRUCache):
            lookup._collection = InstrLRU(lookup._collection.capacity, lookup._collection.threshold)
            lookup._uri_cache = UriLRU(lookup._uri_cache.capacity, lookup._uri_cache.threshold)
        else:
            lookup._collection = InstrDict()
            lookup._uri_cache = UriDict()
        return lookup


_MEM_CACHE = {}


def mem_cache_impl():
    """a minimal `CacheImpl` keyed globally by (cache id, key) – as Beaker and dogpile are; no locks of its own
    (under the deterministic scheduler a lock that the scheduler does not know would hang the run)"""
    from mako.cache import CacheImpl, register_plugin

    class MemCacheImpl(CacheImpl):
        def get_or_create(self, key, creation_function, **kw):
            k = (self.cache.id, key)
            if k not in _MEM_CACHE:
                _MEM_CACHE[k] = creation_function()
            return _MEM_CACHE[k]

        def set(self, key, value, **kw):
            _MEM_CACHE[(self.cache.id, key)] = value

        def get(self, key, **kw):
            return _MEM_CACHE.get((self.cache.id, key))

        def invalidate(self, key, **kw):
            _MEM_CACHE.pop((self.cache.id, key), None)

    globals()["MemCacheImpl"] = MemCacheImpl
    register_plugin("c16mem", __name__, "MemCacheImpl")
    return "c16mem"


def region_cache_impl():
    """a recording back end that DEPENDS on a per-def cache argument, as dogpile's plugin does (`kw['region']`
    raises KeyError when the def's own arguments did not arrive)"""
    from mako.cache import CacheImpl, register_plugin

    class RegionCacheImpl(CacheImpl):
        def get_or_create(self, key, creation_function, **kw):
            region = kw["region"]
            k = (self.cache.id, region, key)
            if k not in _MEM_CACHE:
                _MEM_CACHE[k] = creation_function()
            return _MEM_CACHE[k]

        def set(self, key, value, **kw):
            _MEM_CACHE[(self.cache.id, kw["region"], key)] = value

        def get(self, key, **kw):
            return _MEM_CACHE.get((self.cache.id, kw["region"], key))

        def invalidate(self, key, **kw):
            _MEM_CACHE.pop((self.cache.id, kw["region"], key), None)

    globals()["RegionCacheImpl"] = RegionCacheImpl
    register_plugin("c16region", __name__, "RegionCacheImpl")
    return "c16region"


def file_lines_predicate(relname):
    """line-level predicate for ONE mako source file (e.g. 'cache.py')"""
    import mako
    path = os.path.join(os.path.dirname(os.path.abspath(mako.__file__)), relname)

    def pred(code):
        return "line" if code.co_filename == path else ""
    return pred


def class_lines_predicate(relname, qualprefix):
    """line-level predicate for the methods of ONE class of a mako source file (e.g. 'util.py', 'LRUCache')"""
    import mako
    path = os.path.join(os.path.dirname(os.path.abspath(mako.__file__)), relname)

    def pred(code):
        if code.co_filename == path and getattr(code, "co_qualname", code.co_name).startswith(qualprefix):
            return "line"
        return ""
    return pred


def mako_code_predicate():
    """predicate for the line-level mode: 'line' for code of mako's own modules, 'call' for functions of
    generated template modules, None otherwise"""
    import mako
    root = os.path.dirname(os.path.abspath(mako.__file__)) + os.sep
    here = os.path.dirname(os.path.abspath(__file__)) + os.sep
    cache = {}

    def pred(code):
        r = cache.get(code)
        if r is None:
            fn = code.co_filename
            if fn.startswith(root):
                r = "line"
            elif fn.startswith(here) or fn.startswith("<") and not fn.startswith("<mako") :
                r = ""
            elif code.co_name.startswith("render_") or "_mako_" in code.co_name:
                r = "call"
            else:
                r = ""
            cache[code] = r
        return r
    return pred
