"""C05 (part): "calling a def binds its arguments by Python's calling rules" - the DEFAULT values.

Mako does not copy the text of a parameter default into the generated module: `ParseFunc` keeps the AST and
`FunctionDecl.get_argument_expressions` prints it back (`pyparser.ExpressionGenerator`).  A parameter left to its
default must be bound to the VALUE - and the type - Python itself binds for `def f(<the same signature text>)`.

oracle.sig.defaults   NO Lean.  Default expressions from a grammar (tuples of length 0/1/2, nested containers, unary /
                      binary / boolean operators, comparisons, conditionals, lambdas, subscripts and slices, strings
                      with quotes and backslashes) x 3 declarations of the parameter (positional, keyword-only after `*`,
                      after `*args`) x 6 calling routes (by name, `self.`, capture in a concatenation, nested def
                      called with content, `<%self:f>` tag on a buffered def, <%call> with content), plus one more
                      shape: the body argument of a <%call>, reached by `caller.body(1)` - 19 shapes in all.
                      Every call leaves the parameter to its default; the def renders `tr(x)` (harness/c05_rt.py:
                      a repr that also names the type of every container and element and calls callables);
                      expected = the same `tr` inside a real Python function with the same signature text.
oracle.sig.default_names   the same with defaults that mention a NAME (a builtin): the names of a default are looked
                      up when the `def` statement runs.
corr.sig.defaults     the parameter list `get_argument_expressions()` writes for `a, x=<D>` / `a, *, x=<D>` /
                      `a, *r, x=<D>, **kw` (real `FunctionDecl`) vs the Lean model `ASig.decl` = signature model
                      composed with the printer model (driver op `c05 dsig`, the tree in PyExpr's wire syntax).
"""
from __future__ import annotations

import ast as pyast
import json
import warnings

from harness.common import enc, dec

RULE_DEFAULTS = (
    "default expressions: %d fixed ones (every container kind with 0/1/2 items, nested one-element tuples, tuples "
    "under every operator kind, conditionals, lambdas with defaults, slices, strings with both quotes and "
    "backslashes) plus random ones from the same grammar to depth 3 (those Python evaluates without an exception); "
    "each in 3 declarations (positional, keyword-only after *, after *args) x 6 calling routes, plus the body "
    "argument of a <%call> reached by caller.body(1) - 19 shapes, all leaving the parameter to its default; "
    "non-trivial = the default "
    "is not a bare literal; distinct = distinct (default, declaration, route)")

# the grammar's fixed part: written from Python's expression grammar, not from any particular printer method
FIXED = [
    # atoms
    "1", "-2", "1.5", "None", "True", "'a'", "'it\\'s'", "\"q'r\"", "'back\\\\slash'", "b'x'", "''",
    # containers with 0 / 1 / 2 items
    "()", "(1,)", "(1, 2)", "[]", "[1]", "[1, 2]", "{}", "{1: 2}", "{1: 2, 3: 4}", "{1}", "{1, 2}",
    # nesting
    "((1,),)", "((),)", "([1],)", "[(1,)]", "[(1,), (2, 3)]", "{'k': (0,)}", "{(1,): (2,)}", "{(1,)}", "((1, 2), (3,))",
    "('a',)", "(None,)", "(1.5,)", "((1,), [2], {3: (4,)})",
    # operators over containers
    "(1,) + (2,)", "(1,) * 3", "2 * (1,)", "(7,)[0]", "(1, 2, 3)[1:]", "(1, 2, 3)[::2]", "[1, 2][-1]", "-(3)", "not ()",
    "not (0,)", "~5", "+(2)", "(1,) == (1,)", "(1,) < (1, 2)", "1 in (1,)", "(1,) is None", "() or (1,)",
    "(1,) and (2,)", "1 + 2 * 3", "(1 + 2) * 3", "2 ** 3 ** 2", "(2 ** 3) ** 2", "-2 ** 2", "7 // 2", "7 % 3", "1 - (2 - 3)",
    "'a' + 'b'", "'ab' * 2", "'%s' % (1,)", "'%s-%s' % (1, 2)", "1 < 2 < 3", "1 if () else 2", "(1,) if (0,) else ()",
    "(1 if True else 2,)", "(1 if True else 2) + 3", "1 if True else 2 if False else 3", "[1 if True else 2]",
    # callables and calls (no free names)
    "lambda: (1,)", "lambda q: (q,)", "lambda q, w=(2,): (q, w)", "lambda *a: a", "lambda **k: k", "(lambda: (1,))()",
    "(lambda q: q * 2)((1,))", "'a'.upper()", "'a,b'.split(',')", "(1, 2).count(1)", "[q for q in (1,)]",
    "[(q,) for q in (1, 2)]", "{q: (q,) for q in (1,)}", "[q + 1 for q in [1, 2] if q]",
]

# defaults that mention names (builtins): a separate dimension
NAMED = ["len((7,))", "str((1,))", "max(1, 2)", "list((1,))", "dict(a=(1,))", "abs(-1)"]

DECLS = {
    "pos": "f(a, x=%s)",
    "kwonly": "f(a, *, x=%s)",
    "vararg": "f(a, *r, x=%s, **kw)",
}
ROUTES = ("name", "self", "capture-cat", "nested-content", "tag-buffered", "call-content", "callargs")

PRELUDE = "<%! from harness.c05_rt import typed_repr as tr %>"


def attr_quote(text):
    """the quote character the tag attribute holding `text` can be written with, None when neither works"""
    if '"' not in text:
        return '"'
    if "'" not in text:
        return "'"
    return None


def sig_text(default, decl, fname="f"):
    return DECLS[decl].replace("%s", default).replace("f(", fname + "(", 1)


def template_for(default, decl, route, fname="f"):
    """Mako source for one case, None when it cannot be written (quotes)"""
    q = attr_quote(default)
    if q is None or "\n" in default:
        return None
    if route == "callargs":
        if decl != "pos":
            return None
        # a body argument of a <%call>: caller.body(1) leaves x to its default
        return (PRELUDE + '<%def name="g()">${caller.body(1)}</%def><%call expr="g()" args=' + q + "a, x=" + default + q +
                ">${a}:${tr(x)}</%call>")
    sig = sig_text(default, decl, fname)

    def d(flags, tail):
        return "<%def name=" + q + sig + q + flags + ">${a}:${tr(x)}" + tail + "</%def>"
    if route == "name":
        return PRELUDE + d("", "") + "${" + fname + "(1)}"
    if route == "self":
        return PRELUDE + d("", "") + "${self." + fname + "(1)}"
    if route == "capture-cat":
        return PRELUDE + d("", "") + "${'' + capture(" + fname + ", 1)}"
    if route == "nested-content":
        return (PRELUDE + '<%def name="outer()">' + d("", "${caller.body()}") + '<%call expr="' + fname +
                '(1)">!</%call></%def>${outer()}')
    if route == "tag-buffered":
        return PRELUDE + d(' buffered="True"', "") + "<%self:" + fname + ' a="${1}"/>'
    if route == "call-content":
        return PRELUDE + d("", "${caller.body()}") + '<%call expr="' + fname + '(1)">!</%call>'
    raise ValueError(route)


def expected_for(default, decl, route):
    """what Python binds: a real function with the same signature text"""
    from harness.c05_rt import typed_repr
    env = {"tr": typed_repr}
    sig = sig_text(default, "pos" if route == "callargs" else decl)
    with warnings.catch_warnings():
        warnings.simplefilter("ignore")
        exec("def " + sig + ":\n    return '%s:%s' % (a, tr(x))\n", env)
    out = env["f"](1)
    if route in ("nested-content", "call-content"):
        out += "!"
    return out


def render_case(default, decl, route, fname="f"):
    from mako.template import Template
    src = template_for(default, decl, route, fname)
    if src is None:
        return None
    with warnings.catch_warnings():
        warnings.simplefilter("ignore")
        try:
            t = Template(src)
        except SyntaxError as e:
            return ("compile", "SyntaxError: %s" % e.msg)
        except Exception as e:      # noqa
            return ("compile", "%s: %s" % (type(e).__name__, str(e)[:160]))
        try:
            return ("ok", t.render_unicode())
        except Exception as e:      # noqa
            return ("render", "%s: %s" % (type(e).__name__, str(e)[:160]))


def case_fails(default, decl, route, fname="f"):
    """None | (site, detail)"""
    r = render_case(default, decl, route, fname)
    if r is None:
        return None
    want = expected_for(default, decl, route)
    if r[0] == "compile":
        return "default-reemitted-does-not-compile", {"error": r[1], "python_binds": want}
    if r[0] == "render":
        return "default-raises-at-call", {"error": r[1], "python_binds": want}
    if r[1] != want:
        return "default-bound-to-other-value", {"template_def_saw": r[1], "python_binds": want}
    return None


# --------------------------------------------------------------------------------------------- the random part

def gen_default(r, depth=0):
    """random expression text of the grammar (may raise when evaluated: the caller keeps those Python evaluates)"""
    atoms = ["1", "2", "0", "-1", "1.5", "'a'", "'b c'", "'it\\'s'", "None", "True", "False", "()", "[]", "{}", "''"]
    if depth >= 3 or r.random() < 0.25:
        return r.choice(atoms)
    g = lambda: gen_default(r, depth + 1)   # noqa
    k = r.choice(["t0", "t1", "t1", "t1", "t2", "t3", "list", "list1", "dict", "set", "unary", "bin", "bin", "cmp",
                  "bool", "if", "lambda", "lamcall", "sub", "slice", "method", "comp", "paren"])
    if k == "t0":
        return "()"
    if k == "t1":
        return "(%s,)" % g()
    if k == "t2":
        return "(%s, %s)" % (g(), g())
    if k == "t3":
        return "(%s, %s, %s)" % (g(), g(), g())
    if k == "list":
        return "[%s, %s]" % (g(), g())
    if k == "list1":
        return "[%s]" % g()
    if k == "dict":
        return "{%s: %s}" % (r.choice(["1", "'k'", "(1,)", "(1, 2)", "None"]), g())
    if k == "set":
        return "{%s}" % r.choice(["1", "'a'", "(1,)", "()", "(1, (2,))"])
    if k == "unary":
        return "%s%s" % (r.choice(["-", "+", "~", "not "]), g())
    if k == "bin":
        return "%s %s %s" % (g(), r.choice(["+", "*", "-", "//", "%", "**", "|", "&"]), g())
    if k == "cmp":
        return "%s %s %s" % (g(), r.choice(["==", "!=", "<", "in", "not in", "is", "is not"]), g())
    if k == "bool":
        return "%s %s %s" % (g(), r.choice(["and", "or"]), g())
    if k == "if":
        return "%s if %s else %s" % (g(), g(), g())
    if k == "lambda":
        return r.choice(["lambda: %s", "lambda q: (q, %s)", "lambda q, w=%s: (q, w)", "lambda *a: (a, %s)"]) % g()
    if k == "lamcall":
        return "(lambda q: %s)(%s)" % (r.choice(["(q,)", "q", "[q]", "q * 2"]), g())
    if k == "sub":
        return "%s[%s]" % (g(), r.choice(["0", "-1", "'k'"]))
    if k == "slice":
        return "%s[%s]" % (g(), r.choice(["1:", ":1", "::2", ":"]))
    if k == "method":
        return r.choice(["'a,b'.split(',')", "'a'.upper()", "(1, 2).count(1)", "'%%s' %% (%s,)" % g()])
    if k == "comp":
        return "[%s for q in (%s,)]" % (r.choice(["(q,)", "q", "[q]"]), g())
    return "(%s)" % g()


def evaluates(text):
    """Python evaluates the expression without an exception (and without names)"""
    from harness.c05_rt import typed_repr
    try:
        with warnings.catch_warnings():
            warnings.simplefilter("error")
            tree = pyast.parse(text, mode="eval")
            free = [n.id for n in pyast.walk(tree) if isinstance(n, pyast.Name) and n.id not in ("q", "w", "a", "x", "k")]
            if free:
                return False
            v = eval(compile(tree, "<default>", "eval"), {"__builtins__": {}})
            v2 = eval(compile(tree, "<default>", "eval"), {"__builtins__": {}})
            # the value must be the same every time it is computed (a function formatted into a string shows an address)
            if typed_repr(v) != typed_repr(v2) or " at 0x" in typed_repr(v):
                return False
        return True
    except Exception:      # noqa
        return False


def defaults_of(ctx):
    out = [d for d in FIXED if evaluates(d)]
    seen = set(out)
    n = 60 if ctx.quick else 900
    tries = 0
    while len(out) < len([d for d in FIXED if evaluates(d)]) + n and tries < 40 * n:
        tries += 1
        d = gen_default(ctx.rng)
        if d in seen or len(d) > 90 or not evaluates(d):
            continue
        seen.add(d)
        out.append(d)
    return out


def is_literal(text):
    try:
        return isinstance(pyast.parse(text, mode="eval").body, pyast.Constant)
    except SyntaxError:
        return False


# --------------------------------------------------------------------------------------------- streams

def oracle(ctx):
    st = ctx.stream("oracle.sig.defaults", "oracle")
    defaults = defaults_of(ctx)
    reported = set()
    for i, d in enumerate(defaults):
        fixed = d in FIXED
        decls = list(DECLS) if fixed or ctx.rng.random() < 0.3 else [ctx.rng.choice(list(DECLS))]
        for decl in decls:
            routes = ROUTES if fixed else ctx.rng.sample(ROUTES, 3)
            for route in routes:
                if template_for(d, decl, route) is None:
                    continue
                st["cases"] += 1
                r = case_fails(d, decl, route)
                ctx.branch("default:%s/%s -> %s" % (decl, route, "ok" if r is None else r[0]))
                if not is_literal(d):
                    ctx.nontriv(("dflt", d, decl, route))
                if r is None:
                    continue
                key = (r[0], d)
                if key in reported or len(reported) >= 12:
                    ctx.branch("default:violations not listed (same default or more than 12)")
                    continue
                reported.add(key)
                small = shrink_default(d, decl, route, r[0])
                r2 = case_fails(small, decl, route) or r
                ctx.violation(r2[0], {"kind": "sigdefault", "input": template_for(small, decl, route),
                                      "default": small, "decl": decl, "route": route, "fname": "f",
                                      "original_default": d}, r2[1], "oracle.sig.defaults")
    ctx.log("oracle.sig.defaults: %d cases over %d default expressions" % (st["cases"], len(defaults)))
    # names in defaults
    st2 = ctx.stream("oracle.sig.default_names", "oracle")
    seen = set()
    for d in NAMED:
        for fname in ("f", "zz"):
            for decl in DECLS:
                for route in ROUTES:
                    if template_for(d, decl, route, fname) is None:
                        continue
                    st2["cases"] += 1
                    r = case_fails(d, decl, route, fname)
                    ctx.branch("default-name:%s/%s/%s -> %s" % (fname, decl, route, "ok" if r is None else r[0]))
                    ctx.nontriv(("dfltname", d, decl, route, fname))
                    if r is None:
                        continue
                    shape = name_fetch_shape(d, fname, r)
                    site = "default-name-read-before-it-is-fetched" if shape else r[0]
                    key = (site, shape, route in ("callargs",))
                    if key in seen:
                        ctx.branch("default-name:violations not listed (same class)")
                        continue
                    seen.add(key)
                    ctx.violation(site, {"kind": "sigdefault", "input": template_for(d, decl, route, fname),
                                         "default": d, "decl": decl, "route": route, "fname": fname,
                                         "shape": shape or "other"}, r[1], "oracle.sig.default_names")
    ctx.log("oracle.sig.default_names: %d cases" % st2["cases"])


def name_fetch_shape(default, fname, r):
    """the recorded defect F-C05-6: the callable of a def called by name is written (in sorted order of all names)
    BEFORE the `name = context.get(...)` lines of the names its default mentions: necessary features - the failure is
    an UnboundLocalError / NameError on a name of the default, and the def's name sorts before that name"""
    err = (r[1] or {}).get("error", "")
    if not (err.startswith("UnboundLocalError") or err.startswith("NameError")):
        return None
    names = sorted(set(n.id for n in pyast.walk(pyast.parse(default, mode="eval")) if isinstance(n, pyast.Name)))
    for n in names:
        if ("'%s'" % n) in err and fname < n:
            return "def-name-sorts-before-name-in-default"
    return None


def shrink_default(d, decl, route, site):
    """sub-expressions of the default that still fail at the same site (greedy, by source segments)"""
    cur = d
    for _ in range(6):
        try:
            tree = pyast.parse(cur, mode="eval")
        except SyntaxError:
            break
        cands = []
        for n in pyast.walk(tree.body):
            if n is tree.body or not isinstance(n, pyast.expr):
                continue
            seg = pyast.get_source_segment(cur, n)
            if seg and len(seg) < len(cur) and evaluates(seg):
                cands.append(seg)
        cands.sort(key=len)
        for c in cands:
            r = case_fails(c, decl, route)
            if r and r[0] == site:
                cur = c
                break
        else:
            break
    return cur


def corr(ctx):
    """real get_argument_expressions vs the Lean composition (signature model . printer model)"""
    from mako import ast as mast
    from harness.props import C19
    st = ctx.stream("corr.sig.defaults")
    defaults = defaults_of(ctx) + NAMED
    reqs, cases = [], []
    for d in defaults:
        try:
            w = C19.wire_expr(pyast.parse(d, mode="eval").body)
        except C19.Unsupported as e:
            ctx.branch("corr.sig.defaults:unsupported:%s" % e)
            continue
        for decl in DECLS:
            reqs.append("c05 dsig %s %s" % (decl, w))
            cases.append((d, decl))
    outs = ctx.driver().ask_many(reqs)
    for (d, decl), o in zip(cases, outs):
        st["cases"] += 1
        try:
            with warnings.catch_warnings():
                warnings.simplefilter("ignore")
                fd = mast.FunctionDecl("def " + sig_text(d, decl) + ":pass", source="", lineno=0, pos=0, filename="t")
                real = [fd.get_argument_expressions(), fd.get_argument_expressions(as_call=True)]
        except Exception as e:      # noqa
            real = ["raises %s" % type(e).__name__] * 2
        parts = o.split(" | ")
        model = []
        for p in parts:
            f = p.split(" ") if p else []
            if f == ["err"] or not f:
                model.append("raises")
            else:
                model.append([dec(x) for x in f[1:1 + int(f[0])]])
        real = [x if isinstance(x, list) else "raises" for x in real]
        if model != real:
            ctx.disagree("corr.sig.defaults", {"input": sig_text(d, decl)}, model, real)
        if not is_literal(d):
            ctx.nontriv(("corrdflt", d, decl))
    ctx.log("corr.sig.defaults: %d cases" % st["cases"])


def replay(ctx, case):
    d, decl, route, fname = case["default"], case["decl"], case["route"], case.get("fname", "f")
    print("template :", template_for(d, decl, route, fname))
    print("python   :", expected_for(d, decl, route))
    r = case_fails(d, decl, route, fname)
    print("result   :", json.dumps(r) if r else "the def saw what Python binds")
    return r is None
