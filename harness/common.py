"""Shared machinery of the checks: build/audit of the Lean side, the driver pipe, PRNG, shrinking,
known findings, replay and evidence files, classification of the outcome.

Everything here runs under /venv/bin/python with /repo first on sys.path, so `import mako` is the
working tree of /repo.
"""
from __future__ import annotations

import fcntl
import hashlib
import json
import os
import random
import re
import subprocess
import sys
import time
import traceback

VERIF = os.path.dirname(os.path.dirname(os.path.abspath(__file__)))
LEAN = os.path.join(VERIF, "lean")
REPO = os.environ.get("MAKO_REPO", "/repo")
DRV = os.path.join(LEAN, ".lake", "build", "bin", "makodrv")
STD_AXIOMS = {"propext", "Classical.choice", "Quot.sound"}
FORBIDDEN = re.compile(
    r"\bsorry\b|\badmit\b|^\s*axiom\s|native_decide|bv_decide|implemented_by|\bunsafe\s|maxHeartbeats\s+0\b",
    re.M,
)

TRUSTED_BASE = [
    "Lean 4.33.0 kernel (lake build); leanchecker re-check in the thorough tier",
    "axioms allowed: propext, Classical.choice, Quot.sound (audited with #print axioms on every property theorem)",
    "tools/regen.py (translator of tables/constants from /repo into lean/MakoModel/Generated)",
    "the correspondence harness (generators, canonicalisers, line protocol, Lean driver makodrv)",
    "CPython 3.12.1 at /venv/bin/python (re, posixpath, codecs, ast, import system) - modelled and compared, not verified",
]


# --------------------------------------------------------------------------- wire format

def enc(s: str) -> str:
    if s == "":
        return "-"
    return ",".join(str(ord(c)) for c in s)


def dec(f: str) -> str:
    if f == "-":
        return ""
    return "".join(chr(int(t)) for t in f.split(","))


def has_surrogate(s: str) -> bool:
    return any(0xD800 <= ord(c) <= 0xDFFF for c in s)


# --------------------------------------------------------------------------- Lean build / audit

class LeanError(Exception):
    pass


def _lock():
    os.makedirs(os.path.join(LEAN, ".lake"), exist_ok=True)
    f = open(os.path.join(LEAN, ".lake", "verif.lock"), "w")
    fcntl.flock(f, fcntl.LOCK_EX)
    return f


def sh(cmd, cwd=None, timeout=3600, env=None):
    e = dict(os.environ)
    if env:
        e.update(env)
    p = subprocess.run(cmd, cwd=cwd, stdout=subprocess.PIPE, stderr=subprocess.STDOUT, text=True,
                       timeout=timeout, env=e)
    return p.returncode, p.stdout


def strip_lean_comments(src: str) -> str:
    """remove /- … -/ (nested) and -- … comments and string literals are kept"""
    out = []
    i, n, depth = 0, len(src), 0
    while i < n:
        if src.startswith("/-", i):
            depth += 1
            i += 2
            continue
        if depth and src.startswith("-/", i):
            depth -= 1
            i += 2
            continue
        if depth:
            if src[i] == "\n":
                out.append("\n")
            i += 1
            continue
        if src.startswith("--", i):
            j = src.find("\n", i)
            i = n if j < 0 else j
            continue
        out.append(src[i])
        i += 1
    return "".join(out)


def lean_sources():
    res = []
    for root, dirs, files in os.walk(LEAN):
        dirs[:] = [d for d in dirs if d != ".lake"]
        for f in files:
            if f.endswith(".lean"):
                res.append(os.path.join(root, f))
    return sorted(res)


def import_closure(roots):
    """files of this project reachable through `import` lines from the given module names"""
    seen, todo = {}, list(roots)
    while todo:
        m = todo.pop()
        if m in seen:
            continue
        path = os.path.join(LEAN, *m.split(".")) + ".lean"
        if not os.path.exists(path):
            continue
        seen[m] = path
        for line in open(path, encoding="utf-8"):
            mm = re.match(r"\s*(?:public\s+)?import\s+(\S+)", line)
            if mm and (mm.group(1).startswith("MakoModel") or mm.group(1).startswith("Driver")):
                todo.append(mm.group(1))
    return seen


def grep_forbidden(pid=None, ops=None):
    """forbidden tokens (comments stripped) in the Lean sources the property's theorems and the driver depend on
    (import closure of Props/<pid> and of the per-area drivers the check talks to); every source of the project when pid is None"""
    if pid is None:
        paths = [p for p in lean_sources() if os.sep + "Audit" + os.sep not in p]
    else:
        roots = ["MakoModel.Props." + pid, "Driver.Loop"] + ["Driver.Exe." + op for op in (ops or [])]
        paths = sorted(import_closure(roots).values())
    hits = []
    for path in paths:
        txt = strip_lean_comments(open(path, encoding="utf-8").read())
        for m in FORBIDDEN.finditer(txt):
            line = txt.count("\n", 0, m.start()) + 1
            hits.append("%s:%d: %s" % (os.path.relpath(path, VERIF), line, m.group(0).strip()))
    return hits


def props_theorems(pid: str):
    """(namespace-qualified theorem names, count of `example`s) declared in Props/<pid>.lean"""
    path = os.path.join(LEAN, "MakoModel", "Props", pid + ".lean")
    txt = strip_lean_comments(open(path, encoding="utf-8").read())
    ns = []
    names = []
    examples = 0
    for line in txt.splitlines():
        m = re.match(r"\s*namespace\s+(\S+)", line)
        if m:
            ns.append(m.group(1))
            continue
        m = re.match(r"\s*end\s+(\S+)\s*$", line)
        if m and ns and ns[-1] == m.group(1):
            ns.pop()
            continue
        m = re.match(r"\s*(?:@\[[^\]]*\]\s*)?(?:protected\s+|private\s+)?theorem\s+([^\s:({\[]+)", line)
        if m:
            names.append(".".join(ns + [m.group(1)]))
        if re.match(r"\s*example\b", line):
            examples += 1
    return names, examples


def lean_build(targets, log):
    """lake build of the given targets (+ driver).  Returns (ok, output)."""
    lk = _lock()
    try:
        t0 = time.time()
        rc, out = sh(["lake", "build"] + (list(targets) or ["makodrv"]), cwd=LEAN, timeout=3000)
        log("lake build %s: rc=%d in %.1fs" % (" ".join(targets), rc, time.time() - t0))
        return rc == 0, out
    finally:
        lk.close()


def lean_audit(pid, theorems, log):
    """#print axioms on every theorem; returns (ok, {thm: [axioms]}, output)"""
    os.makedirs(os.path.join(LEAN, "Audit"), exist_ok=True)
    path = os.path.join(LEAN, "Audit", pid + ".lean")
    body = "import MakoModel.Props.%s\n" % pid + "".join("#print axioms %s\n" % t for t in theorems)
    old = open(path).read() if os.path.exists(path) else None
    if old != body:
        tmp = path + ".tmp%d" % os.getpid()
        open(tmp, "w").write(body)
        os.replace(tmp, path)
    lk = _lock()
    try:
        rc, out = sh(["lake", "env", "lean", os.path.join("Audit", pid + ".lean")], cwd=LEAN, timeout=1200)
    finally:
        lk.close()
    axioms = {}
    flat = re.sub(r"\s+", " ", out)
    for m in re.finditer(r"'([^']+)' depends on axioms: \[([^\]]*)\]", flat):
        axioms[m.group(1)] = [a.strip() for a in m.group(2).split(",") if a.strip()]
    for m in re.finditer(r"'([^']+)' does not depend on any axioms", flat):
        axioms[m.group(1)] = []
    ok = rc == 0
    bad = []
    for t in theorems:
        if t not in axioms:
            ok = False
            bad.append("%s: not reported by #print axioms" % t)
        elif not set(axioms[t]) <= STD_AXIOMS:
            ok = False
            bad.append("%s: non-standard axioms %s" % (t, sorted(set(axioms[t]) - STD_AXIOMS)))
    log("audit %s: %d theorems, ok=%s" % (pid, len(theorems), ok))
    return ok, axioms, out + "\n".join(bad)


def leanchecker(mods, log):
    lk = _lock()
    try:
        t0 = time.time()
        rc, out = sh(["lake", "env", "leanchecker"] + list(mods), cwd=LEAN, timeout=3000)
        log("leanchecker %s: rc=%d in %.1fs" % (" ".join(mods), rc, time.time() - t0))
        return rc == 0, out
    finally:
        lk.close()


# --------------------------------------------------------------------------- driver

_DRV_COPIES = {}


def gen_drivers(log=None):
    """(re)generate the per-area driver roots and the lakefile from the registry Driver/Table.lean"""
    rc, out = sh([sys.executable, os.path.join(VERIF, "tools", "gen_drivers.py"), "-q"], cwd=VERIF)
    if rc != 0:
        raise LeanError("gen_drivers failed: " + out[-2000:])


def driver_for(op, log=print):
    """private copy of the driver executable serving `op` (built on demand, copied under the build lock:
    other checks/builders may relink binaries while this check is running)"""
    import atexit
    import shutil
    import tempfile
    if op in _DRV_COPIES and os.path.exists(_DRV_COPIES[op]):
        return _DRV_COPIES[op]
    exe = os.path.join(LEAN, ".lake", "build", "bin", "makodrv_" + op)
    lk = _lock()
    try:
        t0 = time.time()
        rc, out = sh(["lake", "build", "makodrv_" + op], cwd=LEAN, timeout=3000)
        log("lake build makodrv_%s: rc=%d in %.1fs" % (op, rc, time.time() - t0))
        if rc != 0 or not os.path.exists(exe):
            raise LeanError("driver for op %r does not build:\n%s" % (op, out[-3000:]))
        d = os.path.join(LEAN, ".lake", "drvcopies")
        os.makedirs(d, exist_ok=True)
        fd, path = tempfile.mkstemp(prefix="makodrv_%s." % op, dir=d)
        os.close(fd)
        shutil.copy2(exe, path)
        os.chmod(path, 0o755)
    finally:
        lk.close()
    _DRV_COPIES[op] = path
    atexit.register(lambda: os.path.exists(path) and os.remove(path))
    return path


def snapshot_driver():
    """kept for harness modules written against the single-binary driver: returns the `path` driver"""
    return driver_for("path")


class Driver:
    """Pipe to the compiled Lean drivers (one executable per model area, chosen by the op = first field of
    a request).  `ask_many` sends a batch and reads the answers, in order."""

    def __init__(self, log=print):
        self.n = 0
        self.log = log

    def _run(self, op, lines):
        path = driver_for(op, self.log)
        data = "\n".join(lines) + "\n"
        p = subprocess.run([path], input=data.encode("ascii"), stdout=subprocess.PIPE, stderr=subprocess.PIPE,
                           timeout=3000)
        if p.returncode != 0:
            raise LeanError("driver %s exited %d: %s" % (op, p.returncode, p.stderr.decode()[-2000:]))
        out = p.stdout.decode("ascii").split("\n")
        if out and out[-1] == "":
            out.pop()
        if len(out) != len(lines):
            raise LeanError("driver %s answered %d lines for %d requests" % (op, len(out), len(lines)))
        return out

    def ask_many(self, lines):
        lines = list(lines)
        if not lines:
            return []
        ops = [l.split(" ", 1)[0] for l in lines]
        first = ops[0]
        if all(o == first for o in ops):
            out = self._run(first, lines)
        else:
            groups = {}
            for i, o in enumerate(ops):
                groups.setdefault(o, []).append(i)
            out = [None] * len(lines)
            for o, idx in groups.items():
                for i, r in zip(idx, self._run(o, [lines[i] for i in idx])):
                    out[i] = r
        self.n += len(lines)
        return out

    def ask(self, line):
        return self.ask_many([line])[0]


# --------------------------------------------------------------------------- shrinking

def ddmin(items, fails, max_tests=2000):
    """Zeller's ddmin over a list; `fails(list) -> bool`.  Returns a 1-minimal failing sublist."""
    items = list(items)
    n = 2
    tests = 0
    while len(items) >= 2 and tests < max_tests:
        chunk = max(1, len(items) // n)
        subsets = [items[i:i + chunk] for i in range(0, len(items), chunk)]
        reduced = False
        for i, sub in enumerate(subsets):
            tests += 1
            if fails(sub):
                items, n, reduced = sub, 2, True
                break
        if not reduced:
            for i in range(len(subsets)):
                comp = [x for j, s in enumerate(subsets) if j != i for x in s]
                tests += 1
                if comp and fails(comp):
                    items, n, reduced = comp, max(n - 1, 2), True
                    break
        if not reduced:
            if n >= len(items):
                break
            n = min(len(items), n * 2)
    if len(items) == 1 and tests < max_tests:
        try:
            if fails([]):
                return []
        except Exception:
            pass
    return items


def shrink_str(s, fails, max_tests=2000):
    def f(chars):
        try:
            return bool(fails("".join(chars)))
        except Exception:
            return False
    return "".join(ddmin(list(s), f, max_tests))


# --------------------------------------------------------------------------- known findings

def load_known():
    path = os.path.join(VERIF, "known_findings.json")
    if not os.path.exists(path):
        return {"findings": [], "fixed": []}
    return json.load(open(path))


def finding_matches(entry, pid, v):
    """entry: {"property": id, "id": ..., "match": {...}}.  v: violation dict with keys
    `site` (a stable name of the failing call site / class of input, chosen by the oracle) and `case`.
    match keys: site (exact), input (exact string of v['case'] when it is a string or v['case']['input']),
    input_regex, where (dict subset of v['case'])."""
    if entry.get("property") != pid:
        return False
    m = entry.get("match", {})
    if not m:
        return False
    if "site" in m and m["site"] != v.get("site"):
        return False
    case = v.get("case")
    inp = case if isinstance(case, str) else (case.get("input") if isinstance(case, dict) else None)
    if "input" in m and m["input"] != inp:
        return False
    if "input_regex" in m and (not isinstance(inp, str) or not re.search(m["input_regex"], inp, re.S)):
        return False
    if "where" in m:
        if not isinstance(case, dict):
            return False
        for k, val in m["where"].items():
            if case.get(k) != val:
                return False
    return True


# --------------------------------------------------------------------------- context of one check run

class Ctx:
    def __init__(self, pid, tier, seed, replay=None):
        self.pid = pid
        self.tier = tier
        self.seed = seed
        self.rng = random.Random(seed)
        self.replay = replay
        self.t0 = time.time()
        self.logs = []
        self.streams = {}          # name -> {"cases": n, "disagreements": n, "kind": corr|oracle}
        self.branches = {}         # histogram
        self.samples = []
        self.disagreements = []    # correspondence
        self.violations = []       # oracle (property violated on the implementation)
        self.broken = []           # proof / audit / regen failures: (what, detail)
        self.notes = []
        self.nontrivial = set()
        self.exhaustive = {}
        self.obligations = []
        self.discharged = []
        self.axioms = {}
        self.assumptions = []
        self._drv = None

    # -- logging
    def log(self, msg):
        line = "[%s %6.1fs] %s" % (self.pid, time.time() - self.t0, msg)
        self.logs.append(line)
        print(line, flush=True)

    @property
    def quick(self):
        return self.tier == "quick"

    def driver(self):
        if self._drv is None:
            self._drv = Driver(self.log)
        return self._drv

    # -- bookkeeping used by property modules
    def stream(self, name, kind="corr", exhaustive=None):
        s = self.streams.setdefault(name, {"kind": kind, "cases": 0, "disagreements": 0})
        if exhaustive is not None:
            s["exhaustive"] = bool(exhaustive)
        return s

    def count(self, name, n=1, kind="corr"):
        self.stream(name, kind)["cases"] += n

    def branch(self, name, n=1):
        self.branches[name] = self.branches.get(name, 0) + n

    def sample(self, x, limit=12):
        if len(self.samples) < limit:
            self.samples.append(x)

    def nontriv(self, key):
        """register a distinct non-trivial case (hashable key; stored as a short hash)"""
        if len(self.nontrivial) < 2_000_000:
            self.nontrivial.add(hash(key))

    def disagree(self, stream, case, model, impl):
        """model and implementation differ on `case` (correspondence broken)"""
        self.stream(stream)["disagreements"] += 1
        if len(self.disagreements) < 50:
            self.disagreements.append({"stream": stream, "case": case, "model": model, "impl": impl})

    def violation(self, site, case, detail, stream="oracle"):
        """the implementation violates the property on `case` (direct oracle, no Lean involved)"""
        self.stream(stream, "oracle")["disagreements"] += 1
        if len(self.violations) < 200:
            self.violations.append({"site": site, "case": case, "detail": detail, "stream": stream})

    def broke(self, what, detail):
        self.broken.append({"what": what, "detail": detail[-4000:] if isinstance(detail, str) else detail})

    def elapsed(self):
        return time.time() - self.t0


def jsonable(x):
    try:
        json.dumps(x)
        return x
    except Exception:
        if isinstance(x, dict):
            return {str(k): jsonable(v) for k, v in x.items()}
        if isinstance(x, (list, tuple, set)):
            return [jsonable(v) for v in x]
        if isinstance(x, bytes):
            return {"bytes": x.hex()}
        return repr(x)


def write_json_atomic(path, obj):
    os.makedirs(os.path.dirname(path), exist_ok=True)
    tmp = path + ".tmp%d" % os.getpid()
    with open(tmp, "w") as f:
        json.dump(jsonable(obj), f, indent=1, ensure_ascii=True, sort_keys=False)
        f.write("\n")
    os.replace(tmp, path)


def case_hash(x):
    return hashlib.sha1(json.dumps(jsonable(x), sort_keys=True).encode()).hexdigest()[:12]
