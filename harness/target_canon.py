"""Canonical structure of generated code, shared by the codegen properties (C13, C05, C03).

Two routes to the same canonical form (nested Python lists):
  * `from_python(code, anon_map)` - the real `Template.code`, parsed with `ast`, reduced to the statements that
    matter for the runtime stacks: writes, pushes/pops, try/finally/except, loops, def boundaries, calls;
  * `from_lean(sexpr)` - the S-expression printed by the Lean `codegenModule` (driver op `tgt gen`).

Canonical statement (a scope is a list of statements; nested `seq` flattened, `skip`/`pass` dropped, adjacent
literal writes merged, neighbouring `def`s sorted by name because mako emits them in set order):

  ["w", E] ["x", E] ["if", E, S, S] ["for", var, [E…], S] ["forloop", var, S] ["while", n, S]
  ["tryx", S, S] ["tryf", S, S] ["ret", E] "brk" "cont" ["raise", n] ["loopenter", [E…]]
  "pushFrame" "popFrame" "pushBuffer" "popBuffer" "popBufferAndWriter" "pushWriter" "getWriter"
  "saveNextCaller" "restoreNextCaller" "loopExit"
  ["def", name, [params], ownLoops, deco, lex | "-", S]      ["nextcaller", S]
  E: ["lit", s] ["var", n] ["cat", E, E] ["call", f, [E…]] ["caller", name, [E…]] ["capture", f, [E…]]
     "boom" ["filt", i, E] "loopindex" "mbuf" ["include", i] "probe"
"""
from __future__ import annotations

import ast
import re

from harness.common import dec

INNER = 1000000


class CanonError(Exception):
    pass


# --------------------------------------------------------------------------------------------- S-expressions

def parse_sexpr(s):
    toks = re.findall(r"\(|\)|[^\s()]+", s)
    pos = [0]

    def rd():
        t = toks[pos[0]]
        pos[0] += 1
        if t == "(":
            lst = []
            while toks[pos[0]] != ")":
                lst.append(rd())
            pos[0] += 1
            return lst
        return t
    r = rd()
    if pos[0] != len(toks):
        raise CanonError("trailing tokens")
    return r


def _lean_expr(x):
    if isinstance(x, str):
        if x in ("boom", "loopindex", "mbuf", "probe"):
            return x
        raise CanonError("expr atom " + x)
    h = x[0]
    if h == "lit":
        return ["lit", dec(x[1])]
    if h == "var":
        return ["var", int(x[1])]
    if h == "cat":
        return ["cat", _lean_expr(x[1]), _lean_expr(x[2])]
    if h in ("call", "caller", "capture"):
        return [h, int(x[1]), [_lean_expr(a) for a in x[2:]]]
    if h == "filt":
        return ["filt", int(x[1]), _lean_expr(x[2])]
    if h == "include":
        return ["include", int(x[1])]
    raise CanonError("expr " + str(h))


PRIMS = {"pushFrame", "popFrame", "pushBuffer", "popBuffer", "popBufferAndWriter", "pushWriter", "getWriter",
         "saveNextCaller", "restoreNextCaller", "loopExit"}


def _lean_stmts(x, out):
    """append the canonical statements of S-expression x to out"""
    if isinstance(x, str):
        if x == "skip":
            return
        if x in PRIMS or x in ("brk", "cont"):
            out.append(x)
            return
        raise CanonError("stmt atom " + x)
    h = x[0]
    if h == "seq":
        _lean_stmts(x[1], out)
        _lean_stmts(x[2], out)
    elif h in ("w", "x", "ret"):
        out.append([h, _lean_expr(x[1])])
    elif h == "if":
        out.append(["if", _lean_expr(x[1]), _lean_body(x[2]), _lean_body(x[3])])
    elif h == "for":
        out.append(["for", int(x[1]), [_lean_expr(a) for a in x[2][1:]], _lean_body(x[3])])
    elif h == "forloop":
        out.append(["forloop", int(x[1]), _lean_body(x[2])])
    elif h == "while":
        out.append(["while", int(x[1]), _lean_body(x[2])])
    elif h in ("tryx", "tryf"):
        out.append([h, _lean_body(x[1]), _lean_body(x[2])])
    elif h == "raise":
        out.append(["raise", int(x[1])])
    elif h in ("loopenter", "loopenter!"):
        out.append([h, [_lean_expr(a) for a in x[1:]]])
    elif h == "def":
        out.append(["def", int(x[1]), [int(p) for p in x[2][1:]], x[3] == "1", x[4] == "1", x[5] == "1",
                    _lean_body(x[6])])
    elif h == "nextcaller":
        out.append(["nextcaller", _lean_body(x[1])])
    else:
        raise CanonError("stmt " + str(h))


def _lean_body(x):
    out = []
    _lean_stmts(x, out)
    return out


def from_lean(sexpr):
    m = parse_sexpr(sexpr)
    if m[0] != "module":
        raise CanonError("not a module")
    out = []
    for f in m[1:]:
        _lean_stmts(f, out)
    return normalise(out)


# --------------------------------------------------------------------------------------------- normal form

def _uses_caller_direct(body):
    """does the scope itself (not nested defs) contain a `caller.x()` expression?"""
    def ex(e):
        if isinstance(e, str):
            return False
        if e[0] == "caller":
            return True
        if e[0] == "cat":
            return ex(e[1]) or ex(e[2])
        if e[0] == "filt":
            return ex(e[2])
        if e[0] in ("call", "capture"):
            return any(ex(a) for a in e[2])
        return False
    for s in body:
        if isinstance(s, str):
            continue
        h = s[0]
        if h in ("w", "x", "ret") and ex(s[1]):
            return True
        if h == "if" and (ex(s[1]) or _uses_caller_direct(s[2]) or _uses_caller_direct(s[3])):
            return True
        if h == "for" and (any(ex(a) for a in s[2]) or _uses_caller_direct(s[3])):
            return True
        if h in ("loopenter", "loopenter!") and any(ex(a) for a in s[1]):
            return True
        if h in ("forloop", "while") and _uses_caller_direct(s[2]):
            return True
        if h in ("tryx", "tryf") and (_uses_caller_direct(s[1]) or _uses_caller_direct(s[2])):
            return True
    return False


def normalise(body):
    out = []
    for s in body:
        if not isinstance(s, str):
            h = s[0]
            if h == "if":
                s = ["if", s[1], normalise(s[2]), normalise(s[3])]
            elif h == "for":
                s = ["for", s[1], s[2], normalise(s[3])]
            elif h in ("forloop", "while"):
                s = [h, s[1], normalise(s[2])]
            elif h in ("tryx", "tryf"):
                s = [h, normalise(s[1]), normalise(s[2])]
            elif h == "nextcaller":
                s = ["nextcaller", normalise(s[1])]
            elif h == "def":
                b = normalise(s[6])
                lex = s[5] if _uses_caller_direct(b) else "-"
                s = ["def", s[1], s[2], s[3], s[4], lex, b]
            elif h == "w" and s[1][0] == "lit" and out and not isinstance(out[-1], str) and out[-1][0] == "w" \
                    and out[-1][1][0] == "lit":
                out[-1] = ["w", ["lit", out[-1][1][1] + s[1][1]]]
                continue
        out.append(s)
    # neighbouring defs: sorted by name
    res, run = [], []

    def flush():
        prev = None
        for d in sorted(run, key=lambda d: (d[1], repr(d))):
            if d != prev:           # the same def written several times (control-line children lists)
                res.append(d)
            prev = d
        del run[:]
    for s in out:
        if not isinstance(s, str) and s[0] == "def":
            run.append(s)
        else:
            flush()
            res.append(s)
    flush()
    return res


# --------------------------------------------------------------------------------------------- real code

def _name_id(name, anon_map):
    m = re.fullmatch(r"(?:render_)?d(\d+)", name)
    if m:
        return int(m.group(1))
    m = re.fullmatch(r"(?:render_)?__M_anon_(\d+)", name)
    if m:
        line = int(m.group(1))
        if line not in anon_map:
            raise CanonError("anonymous block at unknown line %d" % line)
        return anon_map[line]
    if name in ("render_body",):
        return 0
    if name == "body":
        return 0
    raise CanonError("callable name " + name)


def _src(n):
    return ast.unparse(n)


def _binds_caller_from_context(fn):
    """`caller = context.get('caller', UNDEFINED)` among the function's own statements (not nested defs)"""
    todo = list(fn.body)
    while todo:
        n = todo.pop()
        if isinstance(n, ast.FunctionDef):
            continue
        if isinstance(n, ast.Assign) and _src(n).startswith("caller = context.get('caller'"):
            return True
        todo += list(ast.iter_child_nodes(n))
    return False


class _Py:
    def __init__(self, anon_map, params=None):
        self.anon = anon_map     # line -> block id
        self.fn = [{}]           # flags of the function being translated (innermost last)
        self.params = params or {}   # top-level def name -> parameter names (keyword arguments of <%ns:def>)

    def call_args(self, name, n):
        """positional argument list of a call; keyword arguments (`<%self:d3 v1="..">`) are put at the positions
        of the def's parameter list"""
        args = [self.expr(a) for a in n.args]
        if n.keywords:
            ps = self.params.get(name)
            if ps is None:
                raise CanonError("keyword arguments for unknown def " + name)
            kw = {}
            for k in n.keywords:
                if k.arg is None or k.arg in kw:
                    raise CanonError("keyword argument " + _src(n))
                kw[k.arg] = self.expr(k.value)
            for p in ps[len(args):]:
                if p not in kw:
                    raise CanonError("missing argument %s in %s" % (p, _src(n)))
                args.append(kw.pop(p))
            if kw:
                raise CanonError("unexpected keyword in " + _src(n))
        return args

    def expr(self, n):
        if isinstance(n, ast.Constant) and isinstance(n.value, str):
            return ["lit", n.value]
        if isinstance(n, ast.Name):
            m = re.fullmatch(r"v(\d+)", n.id)
            if m:
                return ["var", int(m.group(1))]
            raise CanonError("name " + n.id)
        if isinstance(n, ast.BinOp) and isinstance(n.op, ast.Add):
            return ["cat", self.expr(n.left), self.expr(n.right)]
        if isinstance(n, ast.BoolOp) and isinstance(n.op, ast.Or) and len(n.values) == 2 and \
                isinstance(n.values[1], ast.Constant) and n.values[1].value == "":
            return self.expr(n.values[0])           # `block() or ''`
        if isinstance(n, ast.Attribute) and _src(n) == "loop.index":
            return "loopindex"
        if isinstance(n, ast.Call):
            f = n.func
            fs = _src(f)
            if fs == "str" and len(n.args) == 1:
                return self.expr(n.args[0])
            if fs == "boom":
                return "boom"
            if fs == "probe":
                return "probe"
            if fs == "__M_buf.getvalue":
                return "mbuf"
            m = re.fullmatch(r"flt(\d+)", fs)
            if m:
                return ["filt", int(m.group(1)), self.expr(n.args[0])]
            if fs == "capture":
                cn = re.sub(r"^(self|local)\.", "", _src(n.args[0]))
                return ["capture", _name_id(cn, self.anon), [self.expr(a) for a in n.args[1:]]]
            m = re.fullmatch(r"(?:self|local)\.(d\d+)", fs)
            if m:
                # a top-level def of the same template through its namespace: the same call
                return ["call", _name_id(m.group(1), self.anon), self.call_args(m.group(1), n)]
            m = re.fullmatch(r"caller\.(\w+)", fs)
            if m:
                return ["caller", _name_id(m.group(1), self.anon), [self.expr(a) for a in n.args]]
            if fs == "runtime._include_file":
                m = re.search(r"t(\d+)\.html$", n.args[1].value)
                return ["include", int(m.group(1))]
            if fs == "context.get('local').cache._ctx_get_or_create":
                lam = n.args[1]
                call = lam.body
                m = re.fullmatch(r"__M_(\w+)", _src(call.func))
                args = [a for a in call.args if _src(a) != "context"]
                return ["call", INNER + _name_id(m.group(1), self.anon), [self.expr(a) for a in args]]
            if isinstance(f, ast.Name):
                return ["call", _name_id(f.id, self.anon), self.call_args(f.id, n)]
            m = re.fullmatch(r"context\['self'\]\.(\w+)", fs)
            if m:
                return ["call", _name_id(m.group(1), self.anon), []]
        raise CanonError("expression " + _src(n))

    def body(self, stmts):
        out = []
        i = 0
        while i < len(stmts):
            s = stmts[i]
            i += 1
            txt = _src(s) if not isinstance(s, (ast.FunctionDef, ast.Try, ast.For, ast.While, ast.If)) else None
            if isinstance(s, ast.FunctionDef):
                if s.name == "ccall":
                    nxt = stmts[i]
                    i += 1
                    if _src(nxt) == "__M_nextcaller = context.caller_stack.nextcaller":
                        # (since 555117c) the pending caller is saved between `def ccall` and its use
                        out.append("saveNextCaller")
                        nxt = stmts[i]
                        i += 1
                    if not _src(nxt).startswith("context.caller_stack.nextcaller = runtime.Namespace('caller', context, callables=ccall(__M_caller))"):
                        raise CanonError("ccall not followed by nextcaller assignment")
                    inner = [x for x in s.body if not isinstance(x, ast.Return)]
                    self.fn.append({"caller": "param"})
                    try:
                        out.append(["nextcaller", self.body(inner)])
                    finally:
                        self.fn.pop()
                    continue
                if len(s.body) == 1 and isinstance(s.body[0], ast.Return) and \
                        re.match(r"render_\w+\(context", _src(s.body[0].value) or ""):
                    continue          # stub of a top-level def
                d = self.fundef(s)
                # cached: `__M_name = name` follows, then the replacement
                if i < len(stmts) and isinstance(stmts[i], ast.Assign) and _src(stmts[i]) == "__M_%s = %s" % (s.name, s.name):
                    i += 1
                    d[1] += INNER
                out.append(d)
                continue
            if isinstance(s, ast.Try):
                if s.finalbody:
                    if s.handlers or s.orelse:
                        raise CanonError("try/except/finally mix")
                    out.append(["tryf", self.body(s.body), self.body(s.finalbody)])
                else:
                    if len(s.handlers) != 1 or s.orelse:
                        raise CanonError("try shape")
                    out.append(["tryx", self.body(s.body), self.body(s.handlers[0].body)])
                continue
            if isinstance(s, ast.For):
                var = re.fullmatch(r"v(\d+)", _src(s.target))
                if not var or s.orelse:
                    raise CanonError("for target")
                if _src(s.iter) == "loop":
                    out.append(["forloop", int(var.group(1)), self.body(s.body)])
                elif isinstance(s.iter, ast.List):
                    out.append(["for", int(var.group(1)), [self.expr(e) for e in s.iter.elts], self.body(s.body)])
                else:
                    raise CanonError("for iterable")
                continue
            if isinstance(s, ast.While):
                m = re.fullmatch(r"below\((\d+)\)", _src(s.test))
                if not m:
                    raise CanonError("while test")
                out.append(["while", int(m.group(1)), self.body(s.body)])
                continue
            if isinstance(s, ast.If):
                t = _src(s.test)
                if t.startswith("'parent' not in context._data"):
                    out += self.body(s.body)
                    continue
                out.append(["if", self.expr(s.test), self.body(s.body), self.body(s.orelse)])
                continue
            if isinstance(s, ast.Return):
                out.append(["ret", self.expr(s.value)])
                continue
            if isinstance(s, ast.Break):
                out.append("brk")
                continue
            if isinstance(s, ast.Continue):
                out.append("cont")
                continue
            if isinstance(s, ast.Pass):
                continue
            simple = {
                "__M_caller = context.caller_stack._push_frame()": "pushFrame",
                "context.caller_stack._pop_frame()": "popFrame",
                "context._push_buffer()": "pushBuffer",
                "__M_buf = context._pop_buffer()": "popBuffer",
                "__M_buf, __M_writer = context._pop_buffer_and_writer()": "popBufferAndWriter",
                "__M_writer = context._push_writer()": "pushWriter",
                "__M_writer = context.writer()": "getWriter",
                "__M_nextcaller = context.caller_stack.nextcaller": "saveNextCaller",
                "context.caller_stack.nextcaller = __M_nextcaller": "restoreNextCaller",
                "loop = __M_loop._exit()": "loopExit",
            }
            if txt in simple:
                out.append(simple[txt])
                continue
            if txt == "loop = __M_loop = runtime.LoopStack()":
                self.fn[-1]["own"] = True
                continue
            if isinstance(s, ast.Assign):
                if txt.startswith("loop = __M_loop._enter("):
                    arg = s.value.args[0]
                    if not isinstance(arg, ast.List):
                        raise CanonError("loop iterable")
                    have = any(f.get("own") for f in self.fn)
                    out.append(["loopenter" if have else "loopenter!", [self.expr(e) for e in arg.elts]])
                    continue
                if re.match(r"\w+ = context\.get\('\w+', UNDEFINED\)$", txt) or txt.startswith("__M_locals = ") \
                        or re.match(r"\w+ = _mako_get_namespace\(", txt):
                    continue
                raise CanonError("assignment " + txt)
            if isinstance(s, ast.Expr):
                v = s.value
                if isinstance(v, ast.Call) and _src(v.func) == "__M_writer":
                    out.append(["w", self.expr(v.args[0])])
                    continue
                if isinstance(v, ast.Constant):
                    continue
                out.append(["x", self.expr(v)])
                continue
            raise CanonError("statement " + (txt or type(s).__name__))
        return out

    def fundef(self, s):
        deco = False
        for d in s.decorator_list:
            if re.match(r"runtime\._decorate_(toplevel|inline)\((context, )?deco\)", _src(d)):
                deco = True
            else:
                raise CanonError("decorator " + _src(d))
        params = []
        for a in s.args.args:
            if a.arg == "context":
                continue
            m = re.fullmatch(r"v(\d+)", a.arg)
            if not m:
                raise CanonError("parameter " + a.arg)
            params.append(int(m.group(1)))
        # which `caller` does this function see: its own `caller = context.get('caller')` (the caller stack),
        # or the nearest enclosing binding (the `caller` parameter of a ccall, or an outer context.get)
        binding = "ctx" if _binds_caller_from_context(s) else None
        self.fn.append({"caller": binding} if binding else {})
        try:
            body = self.body(s.body)
            fl = self.fn[-1]
        finally:
            self.fn.pop()
        if binding is None:
            for outer in reversed(self.fn):
                if outer.get("caller"):
                    binding = outer["caller"]
                    break
        return ["def", _name_id(s.name, self.anon), params, bool(fl.get("own")), deco, binding == "param", body]


def from_python(code, anon_lines):
    """anon_lines: {block id: line}"""
    tree = ast.parse(code)
    params = {}
    for s in tree.body:
        if isinstance(s, ast.FunctionDef) and s.name.startswith("render_"):
            params[s.name[7:]] = [a.arg for a in s.args.args if a.arg != "context"]
    py = _Py({line: bid for bid, line in anon_lines.items()}, params)
    out = []
    body = tree.body
    i = 0
    while i < len(body):
        s = body[i]
        i += 1
        if isinstance(s, ast.FunctionDef) and s.name.startswith("render_"):
            d = py.fundef(s)
            if i < len(body) and isinstance(body[i], ast.Assign) and _src(body[i]) == "__M_%s = %s" % (s.name, s.name):
                i += 1
                d[1] += INNER
            out.append(d)
    return normalise(out)
