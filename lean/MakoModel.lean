-- Root of the `MakoModel` library: every property module.
import MakoModel.Props.C09
