-- Root of the `MakoModel` library: every property module.
import MakoModel.Props.C01
import MakoModel.Props.C02
import MakoModel.Props.C03
import MakoModel.Props.C04
import MakoModel.Props.C05
import MakoModel.Props.C06
import MakoModel.Props.C07
import MakoModel.Props.C08
import MakoModel.Props.C09
import MakoModel.Props.C10
import MakoModel.Props.C11
import MakoModel.Props.C12
import MakoModel.Props.C13
import MakoModel.Props.C14
import MakoModel.Props.C15
import MakoModel.Props.C16
import MakoModel.Props.C17
import MakoModel.Props.C18
import MakoModel.Props.C19
import MakoModel.Props.C20
import MakoModel.Pipeline.LemmasSites   -- relates C02's and C10's transcriptions of write_def_finish (in no check's import closure)
