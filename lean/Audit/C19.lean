import MakoModel.Props.C19
#print axioms MakoModel.C19.symbols_agree
#print axioms MakoModel.C19.operators_without_symbol
#print axioms MakoModel.C19.kinds_without_visitor
#print axioms MakoModel.C19.wrapping_visitors
#print axioms MakoModel.C19.print_total_partial
#print axioms MakoModel.C19.print_total_counterexample
#print axioms MakoModel.C19.print_complete_partial
#print axioms MakoModel.C19.print_complete_counterexample
#print axioms MakoModel.C19.print_balanced
#print axioms MakoModel.C19.print_well_parenthesised_partial
#print axioms MakoModel.C19.print_root_well_parenthesised_partial
#print axioms MakoModel.C19.print_well_parenthesised_counterexample
#print axioms MakoModel.C19.print_well_parenthesised_counterexample_lambda
#print axioms MakoModel.C19.print_well_parenthesised_counterexample_int
