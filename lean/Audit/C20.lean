import MakoModel.Props.C20
#print axioms MakoModel.C20.every_call_once_partial
#print axioms MakoModel.C20.every_call_reported_once_babel
#print axioms MakoModel.C20.every_call_reported_once_lingua
#print axioms MakoModel.C20.nothing_from_text
#print axioms MakoModel.C20.every_call_once_counterexample
#print axioms MakoModel.C20.every_call_once_counterexample_namespace
#print axioms MakoModel.C20.reported_line_partial
#print axioms MakoModel.C20.reported_line_verbatim
#print axioms MakoModel.C20.reported_line_counterexample
#print axioms MakoModel.C20.reported_line_lingua
#print axioms MakoModel.C20.reported_line_lingua_counterexample
#print axioms MakoModel.C20.translator_comments_window_partial
#print axioms MakoModel.C20.translator_comments_attached_iff
#print axioms MakoModel.C20.translator_comments_cleared_after_use
#print axioms MakoModel.C20.translator_comments_on_every_message
#print axioms MakoModel.C20.translator_comments_window_counterexample
