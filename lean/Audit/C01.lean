import MakoModel.Props.C01
#print axioms MakoModel.C01.matcher_order_is_modelled
#print axioms MakoModel.C01.lex_progress
#print axioms MakoModel.C01.lex_init_invariant
#print axioms MakoModel.C01.lex_terminates
#print axioms MakoModel.C01.lex_never_assertion
#print axioms MakoModel.C01.lex_accounts_with_skipped
#print axioms MakoModel.C01.lex_accounts_fixed
#print axioms MakoModel.C01.lex_accounts
#print axioms MakoModel.C01.current_is_fixed
#print axioms MakoModel.C01.history_as_found_drops_lt
#print axioms MakoModel.C01.history_as_found_drops_percent
#print axioms MakoModel.C01.repaired_witnesses
#print axioms MakoModel.C01.text_fidelity
#print axioms MakoModel.C01.plain_is_verbatim
#print axioms MakoModel.C01.plain_empty
#print axioms MakoModel.C01.positions_correct
#print axioms MakoModel.C01.tokens_before_error_tile_a_prefix
