import MakoModel.Props.C01
#print axioms MakoModel.C01.matcher_order_is_modelled
#print axioms MakoModel.C01.lex_progress
#print axioms MakoModel.C01.lex_init_invariant
#print axioms MakoModel.C01.lex_terminates
#print axioms MakoModel.C01.lex_never_assertion
#print axioms MakoModel.C01.lex_accounts_with_skipped
#print axioms MakoModel.C01.lex_accounts_fixed
#print axioms MakoModel.C01.lex_accounts_partial
#print axioms MakoModel.C01.lex_accounts_current
#print axioms MakoModel.C01.lex_accounts_counterexample
#print axioms MakoModel.C01.lex_accounts_counterexample_cr
#print axioms MakoModel.C01.text_fidelity
#print axioms MakoModel.C01.plain_is_verbatim
#print axioms MakoModel.C01.plain_empty
#print axioms MakoModel.C01.positions_correct
