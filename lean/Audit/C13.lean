import MakoModel.Props.C13
#print axioms MakoModel.C13.balanced_codegen
#print axioms MakoModel.C13.balanced_construct
#print axioms MakoModel.C13.balanced_expression
#print axioms MakoModel.C13.abandoned_buffers_discarded
#print axioms MakoModel.C13.call_appends_suffix
#print axioms MakoModel.C13.abandoned_buffer_content_is_dropped
#print axioms MakoModel.C13.caller_and_loop_restored
#print axioms MakoModel.C13.handled_equals_spec_partial
#print axioms MakoModel.C13.handled_equals_spec_render_partial
#print axioms MakoModel.C13.handled_equals_spec_counterexample
#print axioms MakoModel.C13.rerender_same
#print axioms MakoModel.C13.output_kept_after_failed_render
#print axioms MakoModel.C13.unhandled_propagates_unchanged
#print axioms MakoModel.C13.error_handler_true_swallows
#print axioms MakoModel.C13.error_handler_false_reraises
#print axioms MakoModel.C13.format_exceptions_renders_error_page
#print axioms MakoModel.C13.include_error_handler
