import MakoModel.Props.C16
#print axioms MakoModel.C16.mutex_discipline
#print axioms MakoModel.C16.mutex_released_on_every_path
#print axioms MakoModel.C16.recheck_outside_mutex
#print axioms MakoModel.C16.no_deadlock
#print axioms MakoModel.C16.returns_complete
#print axioms MakoModel.C16.built_by_construction_only
#print axioms MakoModel.C16.returns_fresh
#print axioms MakoModel.C16.first_requests_compile_once
#print axioms MakoModel.C16.lru_bound_quiescent
#print axioms MakoModel.C16.memo_cells_stored_complete
#print axioms MakoModel.C16.module_namespace_imports_through_lock
#print axioms MakoModel.C16.lru_entry_published_with_value
#print axioms MakoModel.C16.renders_independent
#print axioms MakoModel.C16.uri_cache_reads_succeed
