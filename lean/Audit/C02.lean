import MakoModel.Props.C02
#print axioms MakoModel.C02.pipeline_order
#print axioms MakoModel.C02.visit_expression_order
#print axioms MakoModel.C02.n_local_disables_both
#print axioms MakoModel.C02.n_in_page_disables_default_only
#print axioms MakoModel.C02.default_then_page_then_local
#print axioms MakoModel.C02.no_config_is_str
#print axioms MakoModel.C02.def_block_text_filters_skip_D_and_P
#print axioms MakoModel.C02.buffer_filters_after_def_filters
#print axioms MakoModel.C02.resolve_builtin
#print axioms MakoModel.C02.resolve_decode
#print axioms MakoModel.C02.resolve_other_name
#print axioms MakoModel.C02.resolve_call
#print axioms MakoModel.C02.builtin_flags_are_not_context_names
#print axioms MakoModel.C02.eval_pipeline
#print axioms MakoModel.C02.scan_expr_spec
#print axioms MakoModel.C02.scan_filters_spec
#print axioms MakoModel.C02.match_expression_spec
