import MakoModel.Props.C09
#print axioms MakoModel.C09.check_gives_names
#print axioms MakoModel.C09.lookup_contained
#print axioms MakoModel.C09.dirs_normalised
#print axioms MakoModel.C09.lookup_contained_normalised
#print axioms MakoModel.C09.include_contained
#print axioms MakoModel.C09.rejected_or_contained
#print axioms MakoModel.C09.normpath_shape
#print axioms MakoModel.C09.module_path_contained
#print axioms MakoModel.C09.history_contained
#print axioms MakoModel.C09.has_agrees_get
#print axioms MakoModel.C09.has_true_contained
#print axioms MakoModel.C09.uri_check_unconditional_and_first
#print axioms MakoModel.C09.has_template_is_get_template
#print axioms MakoModel.C09.lookup_returns_only_loaded_templates
#print axioms MakoModel.C09.temporary_files_beside_module
