import MakoModel.Props.C09
#print axioms MakoModel.C09.check_gives_names
#print axioms MakoModel.C09.lookup_contained
#print axioms MakoModel.C09.dirs_normalised
#print axioms MakoModel.C09.lookup_contained_normalised
#print axioms MakoModel.C09.include_contained
#print axioms MakoModel.C09.rejected_or_contained
#print axioms MakoModel.C09.normpath_shape
#print axioms MakoModel.C09.module_path_contained
#print axioms MakoModel.C09.history_contained
#print axioms MakoModel.C09.has_agrees_get
#print axioms MakoModel.C09.has_true_contained
