import MakoModel.Props.C09
#print axioms MakoModel.C09.placeholder
