import MakoModel.Props.C15
#print axioms MakoModel.C15.mtimes_whole_seconds
#print axioms MakoModel.C15.records_filename_verbatim
#print axioms MakoModel.C15.rewrite_iff_due
#print axioms MakoModel.C15.respelled_name_reused_regression
#print axioms MakoModel.C15.writer_called_iff_due
#print axioms MakoModel.C15.path_never_partial
#print axioms MakoModel.C15.after_rewrite_current
#print axioms MakoModel.C15.concurrent_writers_safe
#print axioms MakoModel.C15.concurrent_loader_sees_complete
#print axioms MakoModel.C15.concurrent_constructs_safe
#print axioms MakoModel.C15.concurrent_constructs_converge
#print axioms MakoModel.C15.concurrent_constructs_need_stable_source_counterexample
#print axioms MakoModel.C15.verify_directory_bounded
