import Driver.Table
/-! Line-protocol driver (`makodrv`).  Reads requests from stdin, one per line, answers one line each. -/
open MakoModel

partial def loop (h out : IO.FS.Stream) : IO Unit := do
  let line ← h.getLine
  if line.isEmpty then return ()
  let l := (line.dropEndWhile (fun c => c == '\n' || c == '\r')).toString
  let fields := l.splitOn " "
  let resp :=
    match fields with
    | [] => "bad-request"
    | op :: args =>
      match Driver.table.find? (fun p => p.1 == op) with
      | none => "bad-op"
      | some (_, hd) => (hd args).getD "bad-args"
  out.putStrLn resp
  loop h out

def main : IO Unit := do
  let i ← IO.getStdin
  let o ← IO.getStdout
  loop i o
  o.flush
