import MakoModel.Basic.Wire
import MakoModel.Path.Drv
/-! Dispatch table of the driver: one line per model area (`op prefix`, handler). -/
namespace Driver
open MakoModel

def table : List (String × Wire.Handler) :=
  [ ("path", Path.Drv.handle)
  ]

end Driver
