import MakoModel.Basic.Wire
import MakoModel.Path.Drv
import MakoModel.Lookup.Drv
import MakoModel.Filters.Drv
import MakoModel.Pipeline.Drv
import MakoModel.Lexer.Drv
import MakoModel.Conc.Drv
import MakoModel.Extract.Drv
import MakoModel.Printer.Drv
/-! Dispatch table of the driver: one line per model area (`op prefix`, handler). -/
namespace Driver
open MakoModel

def table : List (String × Wire.Handler) :=
  [ ("path", Path.Drv.handle)
  , ("lookup", Lookup.Drv.handle)
  , ("filt", Filters.Drv.handle)
  , ("pipe", Pipeline.Drv.handle)
  , ("lex", Lexer.Drv.handle)
  , ("conc", Conc.Drv.handle)
  , ("extr", Extract.Drv.handle)
  , ("prn", Printer.Drv.handle)
  ]

end Driver
