import MakoModel.Basic.Wire
import MakoModel.Path.Drv
import MakoModel.Lookup.Drv
import MakoModel.Filters.Drv
import MakoModel.Pipeline.Drv
import MakoModel.Lexer.Drv
import MakoModel.Conc.Drv
import MakoModel.Extract.Drv
import MakoModel.Printer.Drv
import MakoModel.Cache.Drv
import MakoModel.Encoding.Drv
import MakoModel.Inherit.Drv
import MakoModel.Namespace.Drv
import MakoModel.Target.Drv
import MakoModel.Paths8.Drv
import MakoModel.Names.Drv
import MakoModel.ModFile.Drv
import MakoModel.PyExpr.Drv
import MakoModel.Control.Drv
import MakoModel.Codegen.Attrs.Drv
import MakoModel.ErrPos.Drv
/-! Dispatch table of the driver: one line per model area (`op prefix`, handler). -/
namespace Driver
open MakoModel

def table : List (String × Wire.Handler) :=
  [ ("path", Path.Drv.handle)
  , ("lookup", Lookup.Drv.handle)
  , ("filt", Filters.Drv.handle)
  , ("pipe", Pipeline.Drv.handle)
  , ("lex", Lexer.Drv.handle)
  , ("conc", Conc.Drv.handle)
  , ("extr", Extract.Drv.handle)
  , ("printer", Printer.Drv.handle)
  , ("cache", Cache.Drv.handle)
  , ("encd", Encoding.Drv.handle)
  , ("inh", Inherit.Drv.handle)
  , ("ns", Namespace.Drv.handle)
  , ("tgt", Target.Drv.handle)
  , ("p8", Paths8.Drv.handle)
  , ("names", Names.Drv.handle)
  , ("modfile", ModFile.Drv.handle)
  , ("py", PyExpr.Drv.handle)
  , ("ctl", Control.Drv.handle)
  , ("c05", Codegen.Attrs.Drv.handle)
  , ("errpos", ErrPos.Drv.handle)
  ]

end Driver
