import MakoModel.Basic.Wire
/-! Line-protocol loop shared by the per-area drivers (`makodrv_<op>`): reads requests from stdin, one per
line (`op field field …`), answers one line each. -/
namespace Driver
open MakoModel

partial def loop (table : List (String × Wire.Handler)) (h out : IO.FS.Stream) : IO Unit := do
  let line ← h.getLine
  if line.isEmpty then return ()
  let l := (line.dropEndWhile (fun c => c == '\n' || c == '\r')).toString
  let fields := l.splitOn " "
  let resp :=
    match fields with
    | [] => "bad-request"
    | op :: args =>
      match table.find? (fun p => p.1 == op) with
      | none => "bad-op"
      | some (_, hd) => (hd args).getD "bad-args"
  out.putStrLn resp
  loop table h out

def run (table : List (String × Wire.Handler)) : IO Unit := do
  let i ← IO.getStdin
  let o ← IO.getStdout
  loop table i o
  o.flush

end Driver
