import MakoModel.ModFile.LemmasHook
/-! Helper lemmas for C15: code that writes until complete and drops the cached bytecode after every
(re)write keeps "complete module path" and "bytecode cache coherent with the file" along every history
whose external replacements do not collide with the cache key. -/
namespace MakoModel.ModFile
open MakoModel.Generated.ModFile

/-! ### obligations on the regenerated constants (the two repairs) -/

/-- `_compile_module_file` writes until every byte is written (a buffered file object; repaired in /repo 626444f -
undoing the repair breaks this obligation) -/
theorem writeLoops_on : writeLoops = true := by decide
/-- `_compile_module_file` removes the cached bytecode of the file it replaced (repaired in /repo 0e8e31e - undoing
the repair breaks this obligation) -/
theorem dropsBytecode_on : dropsBytecode = true := by decide
/-- … also after a user-supplied `module_writer` (the removal sits after the if/else) -/
theorem dropsBytecodeHook_on : dropsBytecodeHook = true := by decide
theorem guard_all (p : Plan) : p.guard := Or.inl writeLoops_on

theorem afterGroup_coherent (w : World) (g : GroupOut) : PycCoherent (afterGroup w g) := by
  intro m s c f hp
  have := (afterGroup_pyc' hp).1
  rw [dropsBytecode_on, dropsBytecodeHook_on] at this
  cases hv : g.viaHook <;> simp [hv] at this

theorem loadMod_pyc_cases (w : World) :
    (loadMod w).2 = w.pyc ∨ ∃ f, w.fs .mod = some f ∧ (loadMod w).2 = some (f.mtime, f.content.size, f.content) := by
  unfold loadMod
  cases hf : w.fs .mod with
  | none => left; rfl
  | some f =>
    cases hp : w.pyc with
    | none =>
      simp only
      split
      · split
        · right; exact ⟨f, rfl, rfl⟩
        · left; rfl
      · left; rfl
    | some t =>
      obtain ⟨m0, s0, c0⟩ := t
      simp only
      split
      · left; rfl
      · split
        · split
          · right; exact ⟨f, rfl, rfl⟩
          · left; rfl
        · left; rfl

theorem loadMod_coherent (w : World) (h : PycCoherent w) : PycCoherent { w with pyc := (loadMod w).2 } := by
  intro m s c f' hpyc hf' h1 h2
  have hpyc' : (loadMod w).2 = some (m, s, c) := hpyc
  have hf'' : w.fs .mod = some f' := hf'
  rcases loadMod_pyc_cases w with e | ⟨f, hf, e⟩
  · rw [e] at hpyc'; exact h m s c f' hpyc' hf'' h1 h2
  · rw [e] at hpyc'
    rw [hf] at hf''
    cases hf''
    simp only [Option.some.injEq, Prod.mk.injEq] at hpyc'
    exact hpyc'.2.2.symm

theorem phase2_coherent (wr : Writer) (w1 : World) (p : Plan) (left : Option Nat) (acts : List Act) (n : Nat)
    (calls : List (Content × P)) (h : PycCoherent w1) : PycCoherent (phase2 wr w1 p left acts n calls).world := by
  unfold phase2
  split
  · exact h
  · rename_i c pyc1 heq
    have h1 : PycCoherent { w1 with pyc := pyc1 } := by
      have := loadMod_coherent w1 h; rw [heq] at this; exact this
    dsimp only
    split
    · split
      · exact afterGroup_coherent _ _
      · split
        · exact afterGroup_coherent _ _
        · rename_i c2 pyc2 heq2
          have := loadMod_coherent _ (afterGroup_coherent { w1 with pyc := pyc1 }
            (wr { w1 with pyc := pyc1 } (newContent { w1 with pyc := pyc1 } p.size2) p.fates2 left))
          rw [heq2] at this; exact this
    · exact h1

theorem construct_coherent (wr : Writer) (w : World) (p : Plan) (h : PycCoherent w) :
    PycCoherent (construct wr w p).world := by
  unfold construct
  dsimp only
  split
  · split
    · exact afterGroup_coherent _ _
    · exact phase2_coherent wr _ p _ _ _ _ (afterGroup_coherent _ _)
  · exact phase2_coherent wr w p _ _ _ _ h

/-- the invariant of histories -/
def Inv (w : World) : Prop := Good w.fs ∧ PycCoherent w

theorem stepH_inv (w : World) (op : HOp) (hop : op.okAt w) (h : Inv w) : Inv (stepH w op) := by
  obtain ⟨hg, hc⟩ := h
  cases op with
  | modifySrc m => exact ⟨hg, fun m' s c f hp hf => hc m' s c f hp hf⟩
  | deleteMod =>
    refine ⟨?_, ?_⟩
    · intro f hf; simp [stepH] at hf
    · intro m s c f hp hf; simp [stepH] at hf
  | replaceMod c m =>
    refine ⟨?_, ?_⟩
    · intro f hf; simp [stepH] at hf; subst hf; exact hop.1
    · intro m' s c' f hp hf h1 h2
      simp [stepH] at hf; subst hf
      exact hop.2 m' s c' hp h1 h2
  | setClock t => exact ⟨hg, fun m' s c f hp hf => hc m' s c f hp hf⟩
  | respell n => exact ⟨hg, fun m' s c f hp hf => hc m' s c f hp hf⟩
  | construct p => exact ⟨construct_good w p (guard_all p) hg, construct_coherent defaultWriter w p hc⟩

theorem runH_inv : ∀ (h : List HOp) (w : World), HistOkFrom w h → Inv w → Inv (runH w h) := by
  intro h
  induction h with
  | nil => intro w _ hw; exact hw
  | cons op r ih =>
    intro w hok hw
    exact ih (stepH w op) hok.2 (stepH_inv w op hok.1 hw)

/-- without a bytecode cache nothing can collide: only completeness of foreign module files is left -/
theorem histOkFrom_of_nopyc : ∀ (h : List HOp) (w : World), NoPyc w →
    (∀ c m, HOp.replaceMod c m ∈ h → c.complete = true) → HistOkFrom w h := by
  intro h
  induction h with
  | nil => intro w _ _; trivial
  | cons op r ih =>
    intro w hw hc
    refine ⟨?_, ih (stepH w op) ?_ (fun c m hm => hc c m (by simp [hm]))⟩
    · cases op with
      | replaceMod c m =>
        exact ⟨hc c m (by simp), fun m' s c' hp => by rw [hw.1] at hp; cases hp⟩
      | _ => trivial
    · cases op with
      | construct p => exact construct_nopyc defaultWriter w p hw
      | _ => exact hw

theorem exHist_okFrom : HistOkFrom World.init exHist := by
  apply histOkFrom_of_nopyc _ _ init_nopyc
  intro c m hm
  simp [exHist] at hm
  obtain ⟨h1, _⟩ := hm
  subst h1; rfl

theorem init_inv_world : Inv World.init := ⟨init_good, init_nopyc.coherent⟩

end MakoModel.ModFile
