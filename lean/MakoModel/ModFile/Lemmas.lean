import MakoModel.ModFile.Model
/-! Helper lemmas for C15: safe action lists, the regenerated writer is safe, execution of safe lists. -/
namespace MakoModel.ModFile
open MakoModel.Generated.ModFile

@[simp] theorem FS.set_same (fs : FS) (p : P) (v : Option File) : (fs.set p v) p = v := by
  simp [FS.set]

theorem FS.set_other (fs : FS) (p q : P) (v : Option File) (h : q ≠ p) : (fs.set p v) q = fs q := by
  simp [FS.set, h]

/-- A list of actions of the process with temp name `i` that can never put an incomplete file at the
module path: it touches `tmp i` only, and moves it only when `full` (all bytes written since it was created). -/
def safeTr (i : Nat) : Bool → List Act → Bool
  | _, [] => true
  | _, .create j :: r => j == i && safeTr i false r
  | _, .fill p b :: r => p == .tmp i && safeTr i b r
  | full, .nop :: r => safeTr i full r
  | full, .move j :: r => j == i && full && safeTr i false r
  | _, .trunc :: _ => false
  | _, .copy _ :: _ => false
  | _, .unlink _ :: _ => false

/-- Syntactic safety of a primitive sequence: no open of the destination, writes go to a temp file, the
rename comes after a write with nothing but close/fsync in between, and stays within the directory. -/
def safeOps : (curTmp ht full : Bool) → List WOp → Bool
  | _, _, _, [] => true
  | _, _, _, .mkstemp :: r => safeOps true true false r
  | _, _, _, .openDest :: _ => false
  | curTmp, ht, _, .write :: r => curTmp && safeOps curTmp ht true r
  | curTmp, ht, full, .fsync :: r => safeOps curTmp ht full r
  | curTmp, ht, full, .close :: r => safeOps curTmp ht full r
  | curTmp, ht, full, .rename :: r => ht && full && tmpInTargetDir && safeOps curTmp false false r

/-- **obligation on the regenerated writer** -/
theorem writerOps_safe : safeOps false false false writerOps = true := by decide

theorem safeTr_mono (i : Nat) (acts : List Act) : safeTr i false acts = true → safeTr i true acts = true := by
  induction acts with
  | nil => simp [safeTr]
  | cons a r ih => cases a <;> simp [safeTr] <;> exact ih

theorem trace_cons_none {i : Nat} {cur : Option P} {ht : Bool} {op : WOp} {ops : List WOp} {fates : List Fate}
    {acts : List Act} (h : opActs i cur ht op (fateHd fates) = (acts, none)) :
    trace i cur ht (op :: ops) fates = (acts, true) := by
  simp only [trace, h]

theorem trace_cons_some {i : Nat} {cur : Option P} {ht : Bool} {op : WOp} {ops : List WOp} {fates : List Fate}
    {acts : List Act} {c : Option P} {h' : Bool}
    (h : opActs i cur ht op (fateHd fates) = (acts, some (c, h'))) :
    trace i cur ht (op :: ops) fates =
      (acts ++ (trace i c h' ops fates.tail).1, (trace i c h' ops fates.tail).2) := by
  simp only [trace, h]

theorem safeTr_take (i : Nat) : ∀ (acts : List Act) (full : Bool) (k : Nat),
    safeTr i full acts = true → safeTr i full (acts.take k) = true := by
  intro acts
  induction acts with
  | nil => intro full k _; simp [safeTr]
  | cons a r ih =>
    intro full k h
    cases k with
    | zero => simp [safeTr]
    | succ k =>
      cases a <;> simp [safeTr, List.take] at h ⊢
      all_goals first | (exact ⟨h.1, ih _ _ h.2⟩) | (exact ih _ _ h) | (exact ⟨h.1, ih _ _ h.2⟩)

theorem noShort_head {fates : List Fate} (h : Fate.short ∉ fates) : fateHd fates ≠ .short := by
  cases fates with
  | nil => simp [fateHd]
  | cons a r => intro e; simp [fateHd] at e; subst e; simp at h

theorem noShort_tail {fates : List Fate} (h : Fate.short ∉ fates) : Fate.short ∉ fates.tail := by
  cases fates with
  | nil => simp
  | cons a r => simp at h ⊢; exact h.2

/-- every trace of a syntactically safe primitive sequence is a safe action list, whatever raises -
provided no write is short (or the code writes until complete) -/
theorem trace_safe (i : Nat) : ∀ (ops : List WOp) (curTmp ht full : Bool) (fates : List Fate),
    safeOps curTmp ht full ops = true → (writeLoops = true ∨ Fate.short ∉ fates) →
    safeTr i full (trace i (if curTmp then some (.tmp i) else none) ht ops fates).1 = true := by
  intro ops
  induction ops with
  | nil => intro _ _ _ _ _ _; simp [trace, safeTr]
  | cons op ops ih =>
    intro curTmp ht full fates hs hg
    have hg' : writeLoops = true ∨ Fate.short ∉ fates.tail := by
      cases hg with
      | inl h => exact Or.inl h
      | inr h => exact Or.inr (noShort_tail h)
    cases op with
    | mkstemp =>
      simp only [safeOps] at hs
      have := ih true true false fates.tail hs hg'
      by_cases hf : fateHd fates = .raise
      · simp [trace, opActs, hf, safeTr]
      · simpa [trace, opActs, hf, safeTr] using this
    | openDest => simp [safeOps] at hs
    | write =>
      simp only [safeOps, Bool.and_eq_true] at hs
      obtain ⟨hc, hs⟩ := hs
      subst hc
      have := ih true ht true fates.tail hs hg'
      cases hf : fateHd fates with
      | ok => simpa [trace, opActs, hf, safeTr] using this
      | raise => cases hc : closeOnRaise <;> simp [trace, opActs, hf, safeTr, hc]
      | short =>
        cases hg with
        | inl h => simpa [trace, opActs, hf, h, safeTr] using this
        | inr h => exact absurd hf (noShort_head h)
    | fsync =>
      simp only [safeOps] at hs
      have := ih curTmp ht full fates.tail hs hg'
      by_cases hf : fateHd fates = .raise
      · simp [trace, opActs, hf, safeTr]
      · simpa [trace, opActs, hf, safeTr] using this
    | close =>
      simp only [safeOps] at hs
      have := ih curTmp ht full fates.tail hs hg'
      by_cases hf : fateHd fates = .raise
      · simp [trace, opActs, hf, safeTr]
      · simpa [trace, opActs, hf, safeTr] using this
    | rename =>
      simp only [safeOps, Bool.and_eq_true] at hs
      obtain ⟨⟨⟨hht, hfull⟩, hdir⟩, hs⟩ := hs
      subst hht; subst hfull
      have := ih curTmp false false fates.tail hs hg'
      by_cases hf : fateHd fates = .raise
      · simp [trace, opActs, hf, safeTr]
      · simpa [trace, opActs, hf, hdir, safeTr] using this

/-- the regenerated writer, any fates without a short write, any temp name -/
theorem writer_trace_safe (i : Nat) (fates : List Fate) (hg : writeLoops = true ∨ Fate.short ∉ fates) :
    safeTr i false (trace i none false writerOps fates).1 = true := by
  have := trace_safe i writerOps false false false fates writerOps_safe hg
  simpa using this

/-- some action of the list is a move -/
def movedIn : List Act → Bool
  | [] => false
  | .move _ :: _ => true
  | _ :: r => movedIn r

/-- Executing a safe action list: the module path keeps its file or receives the complete new one (it
does receive it when the list contains a move); other temp files are untouched. -/
theorem safe_exec (i now : Nat) (new : Content) : ∀ (acts : List Act) (full : Bool) (fs : FS),
    safeTr i full acts = true → (full = true → fs (.tmp i) = some ⟨new, now⟩) →
    ((exec now new acts fs) .mod = fs .mod ∨ (exec now new acts fs) .mod = some ⟨new, now⟩) ∧
    (∀ j, j ≠ i → (exec now new acts fs) (.tmp j) = fs (.tmp j)) ∧
    (movedIn acts = true → (exec now new acts fs) .mod = some ⟨new, now⟩) := by
  intro acts
  induction acts with
  | nil => intro full fs _ _; simp [exec, movedIn]
  | cons a r ih =>
    intro full fs hs hfull
    cases a with
    | create j =>
      simp only [safeTr, Bool.and_eq_true, beq_iff_eq] at hs
      obtain ⟨hj, hs⟩ := hs
      subst hj
      have := ih false (apply now new (.create j) fs) hs (by simp)
      simp only [exec, List.foldl_cons] at this ⊢
      refine ⟨?_, ?_, ?_⟩
      · rcases this.1 with h | h
        · left; rw [h]; simp [apply, FS.set]
        · right; exact h
      · intro k hk; rw [this.2.1 k hk]; simp [apply, FS.set, hk]
      · intro hm; exact this.2.2 (by simpa [movedIn] using hm)
    | fill p b =>
      simp only [safeTr, Bool.and_eq_true, beq_iff_eq] at hs
      obtain ⟨hp, hs⟩ := hs
      subst hp
      have := ih b (apply now new (.fill (.tmp i) b) fs) hs (by intro hb; simp [apply, hb])
      simp only [exec, List.foldl_cons] at this ⊢
      refine ⟨?_, ?_, ?_⟩
      · rcases this.1 with h | h
        · left; rw [h]; simp [apply, FS.set]
        · right; exact h
      · intro k hk; rw [this.2.1 k hk]; simp [apply, FS.set, hk]
      · intro hm; exact this.2.2 (by simpa [movedIn] using hm)
    | nop =>
      simp only [safeTr] at hs
      have := ih full fs hs hfull
      simpa [exec, apply, movedIn] using this
    | move j =>
      simp only [safeTr, Bool.and_eq_true, beq_iff_eq] at hs
      obtain ⟨⟨hj, hf⟩, hs⟩ := hs
      subst hj
      have htmp := hfull hf
      have := ih false (apply now new (.move j) fs) hs (by simp)
      simp only [exec, List.foldl_cons] at this ⊢
      have hmod : List.foldl (fun fs a => apply now new a fs) (apply now new (.move j) fs) r .mod
          = some ⟨new, now⟩ := by
        rcases this.1 with h | h
        · rw [h]; simp [apply, FS.set, htmp]
        · exact h
      refine ⟨Or.inr hmod, ?_, fun _ => hmod⟩
      · intro k hk; rw [this.2.1 k hk]; simp [apply, FS.set, hk]
    | trunc => simp [safeTr] at hs
    | copy j => simp [safeTr] at hs
    | unlink j => simp [safeTr] at hs

end MakoModel.ModFile
