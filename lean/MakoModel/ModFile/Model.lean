import MakoModel.Generated.ModFile
/-!
# L7 (module files): the module-file protocol of `Template._compile_from_file`,
`_compile_module_file`, `util.verify_directory` and `compat.load_module`.

* the file system of the module directory is a map `P → Option File` (`P` = the module path or a
  temp name); a file carries a `Content` (which source version and which template *file* it was generated
  from, the magic number baked in, whether all bytes are there, which write produced it, its size) and an
  mtime in whole seconds (both sides of the staleness test are `[stat.ST_MTIME]`: `mtimesWholeSeconds`);
* the writer is **the regenerated list** `Generated.ModFile.writerOps` (as read from the AST of
  `_compile_module_file`: `mkstemp ; write ; close ; rename` - since 626444f the write goes through a
  buffered file object inside a `with` block, the bytes are in the file for sure at its close, the move
  follows the block) interpreted primitive by primitive into *atomic file-system actions* (`trace`); a
  `write` passes through a state in which only a prefix of the bytes is there; per primitive a `Fate` says
  whether it completes, raises (Python unwinds; the only cleanup is the close of the `with` block,
  `closeOnRaise`; the temp file stays) or - for `write` - is short: code that writes until complete
  (`writeLoops`, the file object does) finishes the write, code that dropped `os.write`'s result carried on
  with a truncated file; after the write group - built-in writer (`dropsBytecode`) or user-supplied
  `module_writer` (`dropsBytecodeHook`) - the cached bytecode of the module path is removed (0e8e31e);
* a crash is the truncation of the action sequence after `k` actions (`Plan.crash`);
* `construct` is one `Template(filename=…, module_directory=…)`: staleness test, write group, load,
  re-check (other magic number, or generated from another template file - b4d0d5f), second write group,
  load; the loader goes through CPython's bytecode cache, which is keyed by (mtime second, size) of the
  module file;
* histories (`HOp`) modify the source with any mtime, delete / replace the module file, move the
  clock, construct (with any plan of faults);
* concurrency: writer processes are action lists (`Proc`), whole constructs are step machines (`CProc`, see
  `ModFile/Conc.lean`); a schedule is a list of process ids.
-/
namespace MakoModel.ModFile
open MakoModel.Generated.ModFile

def cmpEval : Cmp → Nat → Nat → Bool
  | .lt, a, b => decide (a < b)
  | .le, a, b => decide (a ≤ b)
  | .gt, a, b => decide (a > b)
  | .ge, a, b => decide (a ≥ b)
  | .eq, a, b => decide (a = b)
  | .ne, a, b => decide (a ≠ b)

/-- what a module file holds -/
structure Content where
  /-- id of the source version it was generated from -/
  src : Nat
  /-- `_magic_number` baked in -/
  magic : Nat
  /-- every byte is there (it compiles, has `_magic_number`, renders) -/
  complete : Bool
  /-- which write produced it (`_modified_time`) -/
  stamp : Nat
  size : Nat
  /-- id of the template *file name* it was generated from (`_template_filename`) -/
  file : Nat
  deriving DecidableEq, Repr

structure File where
  content : Content
  mtime : Nat
  deriving DecidableEq, Repr

/-- names in the module directory: the module path, temp files -/
inductive P | mod | tmp (i : Nat)
  deriving DecidableEq, Repr

abbrev FS := P → Option File

def FS.empty : FS := fun _ => none
def FS.set (fs : FS) (p : P) (v : Option File) : FS := fun q => if q = p then v else fs q

/-- a strict prefix of the bytes -/
def Content.cut (c : Content) : Content := { c with complete := false, size := c.size / 2 }
/-- no byte yet -/
def Content.none (c : Content) : Content := { c with complete := false, size := 0 }

/-- atomic file-system actions -/
inductive Act
  | create (i : Nat)              -- mkstemp: empty file `tmp i`
  | trunc                         -- open(path, 'wb') on the module path itself
  | fill (p : P) (full : Bool)    -- bytes arrive in `p`: a prefix, or all of them
  | nop                           -- close / fsync: no change of the name space or of contents
  | move (i : Nat)                -- rename(tmp i, path): atomic
  | copy (i : Nat)                -- copy of tmp i over the path (move across directories)
  | unlink (i : Nat)
  deriving DecidableEq, Repr

def apply (now : Nat) (new : Content) : Act → FS → FS
  | .create i, fs => fs.set (.tmp i) (some ⟨new.none, now⟩)
  | .trunc, fs => fs.set .mod (some ⟨new.none, now⟩)
  | .fill p full, fs => fs.set p (some ⟨if full then new else new.cut, now⟩)
  | .nop, fs => fs
  | .move i, fs => (fs.set .mod (fs (.tmp i))).set (.tmp i) none
  | .copy i, fs => fs.set .mod (fs (.tmp i))
  | .unlink i, fs => fs.set (.tmp i) none

def exec (now : Nat) (new : Content) (acts : List Act) (fs : FS) : FS :=
  acts.foldl (fun fs a => apply now new a fs) fs

/-- what happens at a primitive -/
inductive Fate | ok | raise | short
  deriving DecidableEq, Repr

/-- The actions of one primitive under a fate; `cur` = the file the descriptor points to, `ht` = a
temp name is held.  Second component: `none` = the primitive raised (unwinding, nothing more is done),
`some (cur', ht')` = carry on. -/
def opActs (i : Nat) (cur : Option P) (ht : Bool) (op : WOp) (fate : Fate) :
    List Act × Option (Option P × Bool) :=
  match op with
  | .mkstemp => if fate = .raise then ([], none) else ([.create i], some (some (.tmp i), true))
  | .openDest => if fate = .raise then ([], none) else ([.trunc], some (some .mod, ht))
  | .write =>
    match cur with
    | none => ([], none)                                  -- no descriptor: raises
    | some p =>
      match fate with
      | .ok => ([.fill p false, .fill p true], some (cur, ht))
      | .raise => (.fill p false :: (if closeOnRaise then [.nop] else []), none)  -- a prefix may be there; OSError;
                                            -- the only cleanup is the close of a `with` block, if the code has one
      | .short => if writeLoops then ([.fill p false, .fill p true], some (cur, ht))
                  else ([.fill p false], some (cur, ht))  -- result of os.write dropped: carries on
  | .fsync => if fate = .raise then ([], none) else ([.nop], some (cur, ht))
  | .close => if fate = .raise then ([], none) else ([.nop], some (cur, ht))
  | .rename =>
    if fate = .raise || !ht then ([], none)
    else if tmpInTargetDir then ([.move i], some (cur, false))
    else ([.trunc, .copy i, .unlink i], some (cur, false))

/-- the fate of the next primitive (`ok` when the list has run out) -/
def fateHd : List Fate → Fate
  | [] => .ok
  | f :: _ => f

/-- all actions of a writer made of `ops`; second component: it ended by raising -/
def trace (i : Nat) : Option P → Bool → List WOp → List Fate → List Act × Bool
  | _, _, [], _ => ([], false)
  | cur, ht, op :: ops, fates =>
    match opActs i cur ht op (fateHd fates) with
    | (acts, none) => (acts, true)
    | (acts, some (cur', ht')) =>
      let r := trace i cur' ht' ops fates.tail
      (acts ++ r.1, r.2)

/-- state of everything a history touches -/
structure World where
  fs : FS
  srcVer : Nat
  srcMtime : Nat
  clock : Nat
  nextTmp : Nat
  stamp : Nat
  /-- CPython's bytecode cache for the module path: (mtime, size) of the file it was compiled from, content -/
  pyc : Option (Nat × Nat × Content)
  /-- this interpreter writes bytecode (`sys.dont_write_bytecode` is false) -/
  pycOn : Bool
  /-- id of the file name of the Template being constructed (`filename`) -/
  fileId : Nat

def World.init : World :=
  { fs := FS.empty, srcVer := 0, srcMtime := 0, clock := 0, nextTmp := 0, stamp := 0, pyc := none, pycOn := false, fileId := 0 }

inductive Status | done | raised | died
  deriving DecidableEq, Repr

/-- result of one write group -/
structure GroupOut where
  fs : FS
  acts : List Act
  status : Status
  /-- crash budget left -/
  left : Option Nat
  /-- `module_writer` invocations: (source handed over, destination) -/
  calls : List (Content × P)
  /-- the group went through a user-supplied `module_writer` -/
  viaHook : Bool := false

abbrev Writer := World → Content → List Fate → Option Nat → GroupOut

/-- a crash budget `some k`: the process dies once it has performed `k` actions -/
def cutBudget (acts : List Act) (raised : Bool) (budget : Option Nat) : List Act × Status × Option Nat :=
  match budget with
  | none => (acts, if raised then .raised else .done, none)
  | some k =>
    if k < acts.length then (acts.take k, .died, some 0)
    else (acts, if raised then .raised else .done, some (k - acts.length))

/-- the default branch of `_compile_module_file` -/
def defaultWriter : Writer := fun w new fates budget =>
  let tr := trace w.nextTmp none false writerOps fates
  let c := cutBudget tr.1 tr.2 budget
  { fs := exec w.clock new c.1 w.fs, acts := c.1, status := c.2.1, left := c.2.2, calls := [] }

/-- the `module_writer` branch: whatever the hook does to the file system is `eff` -/
def hookWriter (eff : Content → FS → FS) : Writer := fun w new _ budget =>
  { fs := eff new w.fs, acts := [], status := .done, left := budget,
    calls := if hookArgsOk then [(new, .mod)] else [], viaHook := true }

/-- the template file name a module records (`_template_filename`) when the Template was given the name `n`:
the same name, because `_CompileContext` stores it unchanged (`recordsFilenameVerbatim`, regenerated; obligation
`recordsFilenameVerbatim_on`, so the `else` branch is dead for the code as it is).  The `else` branch is what
the model says of code that records a *rewritten* name with another normalised path - e.g. the absolute name for
a relative one: name `n + 2` (`normOf (n + 2) ≠ normOf n`), so that the re-check after loading fires on every
construction.  (A recorded name that is merely another spelling of the same normalised path would be harmless
since the re-check compares `os.path.normpath` of both names.) -/
def recordedName (n : Nat) : Nat := if recordsFilenameVerbatim then n else n + 2

/-- what `_compile` produces from the current source -/
def newContent (w : World) (size : Nat) : Content :=
  { src := w.srcVer, magic := magicNumber, complete := true, stamp := w.stamp, size := size,
    file := recordedName w.fileId }

/-- faults of one construct -/
structure Plan where
  fates1 : List Fate := []
  fates2 : List Fate := []
  crash : Option Nat := none
  size1 : Nat := 1
  size2 : Nat := 1
  deriving Repr

/-- `not os.path.exists(path) or os.stat(path)[ST_MTIME] < filemtime` -/
/- both mtimes are whole seconds (`mtimesWholeSeconds`, regenerated; obligation `mtimes_whole_seconds`):
   that is why `Nat` stamps are a faithful model of the comparison -/
def needsRewrite (exists_ : Bool) (modMtime srcMtime : Nat) : Bool :=
  (missingCheck && !exists_) || (exists_ && cmpEval staleCmp modMtime srcMtime)

def isDue (w : World) : Bool :=
  match w.fs .mod with
  | none => needsRewrite false 0 w.srcMtime
  | some f => needsRewrite true f.mtime w.srcMtime

/-- `compat.load_module(path)`: the import system serves the cached bytecode when mtime and size of the
file match the cache entry; otherwise it compiles the file (fails on a truncated one) and, when allowed,
caches the result.  `none` = the load raised. -/
def loadMod (w : World) : Option Content × Option (Nat × Nat × Content) :=
  match w.fs .mod with
  | none => (none, w.pyc)
  | some f =>
    match w.pyc with
    | some (m, s, c) =>
      if m = f.mtime ∧ s = f.content.size then (some c, w.pyc)
      else if f.content.complete then
        (some f.content, if w.pycOn then some (f.mtime, f.content.size, f.content) else w.pyc)
      else (none, w.pyc)
    | none =>
      if f.content.complete then
        (some f.content, if w.pycOn then some (f.mtime, f.content.size, f.content) else w.pyc)
      else (none, w.pyc)

inductive Res | served (c : Content) | failed | died
  deriving DecidableEq, Repr

structure Out where
  world : World
  res : Res
  acts : List Act
  writes : Nat
  calls : List (Content × P)

def afterGroup (w : World) (g : GroupOut) : World :=
  { w with fs := g.fs, nextTmp := w.nextTmp + 1, stamp := w.stamp + 1,
           pyc := if (if g.viaHook then dropsBytecodeHook else dropsBytecode) then none else w.pyc }

def resOf (s : Status) : Res := if s = .died then .died else .failed

/-- File names are numbers: name `n` stands for the spelling number `n % 2` of the normalised path number
`n / 2` - two names with the same `normOf` are two spellings with the same `os.path.normpath` (`./tmpl//x.html`
and `tmpl/x.html`); names of different files, but also a symlinked, or a relative and an absolute spelling of
one file, have different `normOf`. -/
def normOf (n : Nat) : Nat := n / 2

/-- the two names differ as the code compares them: their `os.path.normpath` (`fileCmpNormalised`), or the raw strings -/
def namesDiffer (a b : Nat) : Bool := if fileCmpNormalised then normOf a != normOf b else a != b

/-- the re-check after loading: `module._magic_number != MAGIC_NUMBER or
os.path.normpath(module._template_filename) != os.path.normpath(filename)` -/
def needsRegen (w : World) (c : Content) : Bool :=
  (magicRecheck && c.magic != magicNumber) || (fileRecheck && namesDiffer c.file w.fileId)

/-- second half of `_compile_from_file`: load, magic re-check, rewrite, reload -/
def phase2 (wr : Writer) (w1 : World) (p : Plan) (left : Option Nat) (acts1 : List Act) (n1 : Nat)
    (calls1 : List (Content × P)) : Out :=
  match loadMod w1 with
  | (none, _) => ⟨w1, .failed, acts1, n1, calls1⟩
  | (some c, pyc1) =>
    let w1' := { w1 with pyc := pyc1 }
    if needsRegen w1 c then
      let g2 := wr w1' (newContent w1' p.size2) p.fates2 left
      let w2 := afterGroup w1' g2
      if g2.status ≠ .done then ⟨w2, resOf g2.status, acts1 ++ g2.acts, n1 + 1, calls1 ++ g2.calls⟩
      else
        match loadMod w2 with
        | (none, _) => ⟨w2, .failed, acts1 ++ g2.acts, n1 + 1, calls1 ++ g2.calls⟩
        | (some c2, pyc2) => ⟨{ w2 with pyc := pyc2 }, .served c2, acts1 ++ g2.acts, n1 + 1, calls1 ++ g2.calls⟩
    else ⟨w1', .served c, acts1, n1, calls1⟩

/-- one `Template(filename=…, module_directory=…)` -/
def construct (wr : Writer) (w : World) (p : Plan) : Out :=
  if isDue w then
    let g := wr w (newContent w p.size1) p.fates1 p.crash
    let w1 := afterGroup w g
    if g.status ≠ .done then ⟨w1, resOf g.status, g.acts, 1, g.calls⟩
    else phase2 wr w1 p g.left g.acts 1 g.calls
  else phase2 wr w p p.crash [] 0 []

/-- operations of a history -/
inductive HOp
  | modifySrc (mtime : Nat)                 -- new source text with any mtime (newer / older / equal)
  | deleteMod
  | replaceMod (c : Content) (mtime : Nat)  -- somebody installs another module file (e.g. other magic number)
  | setClock (t : Nat)
  | construct (p : Plan)
  | respell (name : Nat)                    -- later Templates are given another spelling of the template file's name

def stepH (w : World) : HOp → World
  | .modifySrc m => { w with srcVer := w.srcVer + 1, srcMtime := m }
  | .deleteMod => { w with fs := w.fs.set .mod none }
  | .replaceMod c m => { w with fs := w.fs.set .mod (some ⟨c, m⟩) }
  | .setClock t => { w with clock := t }
  | .construct p => (construct defaultWriter w p).world
  | .respell n => { w with fileId := n }

def runH (w : World) (h : List HOp) : World := h.foldl stepH w

/-! ### predicates used by the theorems -/

/-- the module path holds no file or a complete module -/
def Good (fs : FS) : Prop := ∀ f, fs .mod = some f → f.content.complete = true

def Plan.noShort (p : Plan) : Prop := Fate.short ∉ p.fates1 ∧ Fate.short ∉ p.fates2

/-- "no short write, or the code writes until complete": the helper lemmas are stated under this condition so that
they also speak about code that drops `os.write`'s result; for the code as it is the first disjunct holds
(obligation `writeLoops_on`) and the property theorems carry no such hypothesis -/
def Plan.guard (p : Plan) : Prop := writeLoops = true ∨ p.noShort

def HOp.ok : HOp → Prop
  | .replaceMod c _ => c.complete = true
  | .construct p => p.guard
  | _ => True

def HistOk (h : List HOp) : Prop := ∀ op ∈ h, op.ok

/-- What remains assumed about a history: a module file installed by somebody else is complete, and - the
one thing mako cannot repair - it does not collide in (mtime second, size) with the bytecode cache entry
of the module path unless it is the very file the entry was compiled from. -/
def HOp.okAt (w : World) : HOp → Prop
  | .replaceMod c m => c.complete = true ∧
      ∀ m' s c', w.pyc = some (m', s, c') → m' = m → s = c.size → c' = c
  | _ => True

def HistOkFrom : World → List HOp → Prop
  | _, [] => True
  | w, op :: r => op.okAt w ∧ HistOkFrom (stepH w op) r

/-- the property's "a (re)write is due": missing, older than the source, other magic number, or not generated
from this template file at all (another file, whose name maps to the same module path; file identity up to
`os.path.normpath` of the names) -/
def Due (w : World) : Prop :=
  w.fs .mod = none ∨ ∃ f, w.fs .mod = some f ∧
    (f.mtime < w.srcMtime ∨ f.content.magic ≠ magicNumber ∨ normOf f.content.file ≠ normOf w.fileId)

/-- the bytecode cache agrees with the file whenever its key matches -/
def PycCoherent (w : World) : Prop :=
  ∀ m s c f, w.pyc = some (m, s, c) → w.fs .mod = some f → m = f.mtime → s = f.content.size → c = f.content

/-- a file written now (sizes of the plan) collides in (mtime, size) neither with the cache key nor with the
file it replaces; only needed by the helper lemmas for code that does NOT remove the cached bytecode after a
write (the code as it is does: obligations `dropsBytecode_on`, `dropsBytecodeHook_on`) -/
def PycFresh (w : World) (p : Plan) : Prop :=
  (∀ m s c, w.pyc = some (m, s, c) → ¬ (m = w.clock ∧ (s = p.size1 ∨ s = p.size2))) ∧
  (w.pycOn = true → ∀ f, w.fs .mod = some f → ¬ (f.mtime = w.clock ∧ f.content.size = p.size2))

/-! ### `util.verify_directory` -/

/-- the loop of `verify_directory` when the directory is missing and the first `failures` calls of
`os.makedirs` fail: (number of `makedirs` calls, raised?) -/
def verifyDirLoop : (fuel : Nat) → (tries : Nat) → (failures : Nat) → Nat × Bool
  | 0, tries, _ => (tries, true)
  | fuel + 1, tries, failures =>
    if failures = 0 then (tries + 1, false)                       -- makedirs succeeds, the loop test ends it
    else if tries + 1 ≥ verifyDirMaxTries then (tries + 1, true)  -- `if tries > 5: raise`
    else verifyDirLoop fuel (tries + 1) (failures - 1)

def verifyDir (exists_ : Bool) (failures : Nat) : Nat × Bool :=
  if exists_ then (0, false) else verifyDirLoop verifyDirMaxTries 0 failures

/-! ### concurrency: processes are action lists, a schedule is a list of process ids -/

/-- a writer process: its temp name is its id; `rem` = actions still to do -/
structure Proc where
  new : Content
  now : Nat
  rem : List Act

def Proc.setRem (p : Proc) (r : List Act) : Proc := ⟨p.new, p.now, r⟩

abbrev Procs := Nat → Proc

def Procs.set (ps : Procs) (pid : Nat) (p : Proc) : Procs := fun q => if q = pid then p else ps q

/-- process `pid` performs its next action (nothing if it has finished or died) -/
def stepSched (st : FS × Procs) (pid : Nat) : FS × Procs :=
  match (st.2 pid).rem with
  | [] => st
  | a :: r => (apply (st.2 pid).now (st.2 pid).new a st.1, st.2.set pid ((st.2 pid).setRem r))

def runSched (st : FS × Procs) (sched : List Nat) : FS × Procs := sched.foldl stepSched st

/-- the action list of writer `pid` (any fates, dying after `k` actions if `crash = some k`) -/
def writerProc (pid : Nat) (new : Content) (now : Nat) (fates : List Fate) (crash : Option Nat) : Proc :=
  { new := new, now := now,
    rem := (cutBudget (trace pid none false writerOps fates).1 false crash).1 }

end MakoModel.ModFile
