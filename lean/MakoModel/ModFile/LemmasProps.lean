import MakoModel.ModFile.LemmasHook
/-! Cores of `rewrite_iff_due` and `after_rewrite_current` with the guard of F-C15-2 in the form
"the code drops the cached bytecode after a write, or the new file does not collide with the cache key". -/
namespace MakoModel.ModFile
open MakoModel.Generated.ModFile

theorem rewrite_iff_due_core (w0 : World) (h : List HOp) (p : Plan) (hw0 : Good w0.fs) (hh : HistOk h)
    (hp : p.noFault) (hcoh : PycCoherent (runH w0 h)) (hfresh : dropsBytecode = true ∨ PycFresh (runH w0 h) p) :
    ((construct defaultWriter (runH w0 h) p).writes ≥ 1 ↔ Due (runH w0 h)) ∧
    (construct defaultWriter (runH w0 h) p).writes ≤ 1 ∧
    (¬ Due (runH w0 h) → (construct defaultWriter (runH w0 h) p).world.fs = (runH w0 h).fs ∧
      (construct defaultWriter (runH w0 h) p).acts = []) := by
  have hgood := runH_good h w0 hh hw0
  generalize runH w0 h = w at *
  by_cases hd : isDue w = true
  · obtain ⟨h1, _, _⟩ := construct_due w p hp hfresh hd
    have hdue := due_of_isDue w hd
    exact ⟨⟨fun _ => hdue, fun _ => by omega⟩, by omega, fun hn => absurd hdue hn⟩
  · have hd' : isDue w = false := by simpa using hd
    have hnd : ¬ (w.fs .mod = none ∨ ∃ f, w.fs .mod = some f ∧ f.mtime < w.srcMtime) :=
      fun h => hd ((isDue_iff w).2 h)
    cases hf : w.fs .mod with
    | none => exact absurd (Or.inl hf) hnd
    | some f =>
      by_cases hm : f.content.magic = magicNumber
      · obtain ⟨h1, _, h3, h4⟩ := construct_reuse w p hgood hcoh hd' f hf hm
        have hnot : ¬ Due w := by
          intro hdue
          rcases hdue with h | ⟨f', hf', h⟩
          · rw [hf] at h; cases h
          · rw [hf] at hf'; cases hf'
            rcases h with h | h
            · exact hnd (Or.inr ⟨f, hf, h⟩)
            · exact h hm
        exact ⟨⟨fun h => by omega, fun h => absurd h hnot⟩, by omega, fun _ => ⟨h3, h4⟩⟩
      · obtain ⟨h1, _, _⟩ := construct_magic w p hp hgood hcoh hfresh hd' f hf hm
        have hdue : Due w := Or.inr ⟨f, hf, Or.inr hm⟩
        exact ⟨⟨fun _ => hdue, fun _ => by omega⟩, by omega, fun hn => absurd hdue hn⟩

theorem after_rewrite_current_core (w0 : World) (h : List HOp) (p : Plan) (hw0 : Good w0.fs)
    (hh : HistOk h) (hp : p.noFault) (hcoh : PycCoherent (runH w0 h)) (hfresh : dropsBytecode = true ∨ PycFresh (runH w0 h) p) :
    ∃ c t, (construct defaultWriter (runH w0 h) p).res = .served c ∧
      (construct defaultWriter (runH w0 h) p).world.fs .mod = some ⟨c, t⟩ ∧ c.complete = true ∧
      (((construct defaultWriter (runH w0 h) p).writes ≥ 1 ∨
          ∃ f, (runH w0 h).fs .mod = some f ∧ f.content.src = (runH w0 h).srcVer) → c.src = (runH w0 h).srcVer) := by
  have hgood := runH_good h w0 hh hw0
  generalize runH w0 h = w at *
  by_cases hd : isDue w = true
  · obtain ⟨_, h2, h3⟩ := construct_due w p hp hfresh hd
    exact ⟨_, _, h2, h3, by simp [newContent], fun _ => by simp [newContent]⟩
  · have hd' : isDue w = false := by simpa using hd
    have hnd : ¬ (w.fs .mod = none ∨ ∃ f, w.fs .mod = some f ∧ f.mtime < w.srcMtime) :=
      fun h => hd ((isDue_iff w).2 h)
    cases hf : w.fs .mod with
    | none => exact absurd (Or.inl hf) hnd
    | some f =>
      by_cases hm : f.content.magic = magicNumber
      · obtain ⟨h1, h2, h3, _⟩ := construct_reuse w p hgood hcoh hd' f hf hm
        refine ⟨f.content, f.mtime, h2, by rw [h3, hf], hgood f hf, ?_⟩
        intro hor
        rcases hor with hw | ⟨f', hf', hs⟩
        · omega
        · cases hf'; exact hs
      · obtain ⟨_, h2, h3⟩ := construct_magic w p hp hgood hcoh hfresh hd' f hf hm
        exact ⟨_, _, h2, h3, by simp [newContent], fun _ => by simp [newContent]⟩

end MakoModel.ModFile
