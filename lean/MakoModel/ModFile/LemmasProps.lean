import MakoModel.ModFile.LemmasCoh
/-! Cores of `rewrite_iff_due` and `after_rewrite_current` at a world satisfying the history invariant. -/
namespace MakoModel.ModFile
open MakoModel.Generated.ModFile

theorem not_due_cases (w : World) (hd : ¬ isDue w = true) :
    ∃ f, w.fs .mod = some f ∧ ¬ f.mtime < w.srcMtime := by
  have hnd : ¬ (w.fs .mod = none ∨ ∃ f, w.fs .mod = some f ∧ f.mtime < w.srcMtime) :=
    fun h => hd ((isDue_iff w).2 h)
  cases hf : w.fs .mod with
  | none => exact absurd (Or.inl hf) hnd
  | some f => exact ⟨f, rfl, fun h => hnd (Or.inr ⟨f, hf, h⟩)⟩

theorem rewrite_iff_due_at (w : World) (p : Plan) (hinv : Inv w) (hp : p.noFault) :
    ((construct defaultWriter w p).writes ≥ 1 ↔ Due w) ∧
    (construct defaultWriter w p).writes ≤ 1 ∧
    (¬ Due w → (construct defaultWriter w p).world.fs = w.fs ∧ (construct defaultWriter w p).acts = []) := by
  obtain ⟨hgood, hcoh⟩ := hinv
  by_cases hd : isDue w = true
  · obtain ⟨h1, _, _⟩ := construct_due w p hp (Or.inl dropsBytecode_on) hd
    have hdue := due_of_isDue w hd
    exact ⟨⟨fun _ => hdue, fun _ => by omega⟩, by omega, fun hn => absurd hdue hn⟩
  · have hd' : isDue w = false := by simpa using hd
    obtain ⟨f, hf, hnlt⟩ := not_due_cases w hd
    by_cases hm : f.content.magic = magicNumber ∧ normOf f.content.file = normOf w.fileId
    · obtain ⟨h1, _, h3, h4⟩ := construct_reuse w p hgood hcoh hd' f hf hm.1 hm.2
      have hnot : ¬ Due w := by
        intro hdue
        rcases hdue with h | ⟨f', hf', h⟩
        · rw [hf] at h; cases h
        · rw [hf] at hf'; cases hf'
          rcases h with h | h | h
          · exact hnlt h
          · exact h hm.1
          · exact h hm.2
      exact ⟨⟨fun h => by omega, fun h => absurd h hnot⟩, by omega, fun _ => ⟨h3, h4⟩⟩
    · have hm' : f.content.magic ≠ magicNumber ∨ normOf f.content.file ≠ normOf w.fileId := by
        by_cases h1 : f.content.magic = magicNumber
        · exact Or.inr (fun h2 => hm ⟨h1, h2⟩)
        · exact Or.inl h1
      obtain ⟨h1, _, _⟩ := construct_magic w p hp hgood hcoh (Or.inl dropsBytecode_on) hd' f hf hm'
      have hdue : Due w := Or.inr ⟨f, hf, Or.inr hm'⟩
      exact ⟨⟨fun _ => hdue, fun _ => by omega⟩, by omega, fun hn => absurd hdue hn⟩

theorem after_rewrite_current_at (w : World) (p : Plan) (hinv : Inv w) (hp : p.noFault) :
    ∃ c t, (construct defaultWriter w p).res = .served c ∧
      (construct defaultWriter w p).world.fs .mod = some ⟨c, t⟩ ∧ c.complete = true ∧
      c.magic = magicNumber ∧ normOf c.file = normOf w.fileId ∧
      (((construct defaultWriter w p).writes ≥ 1 ∨
          ∃ f, w.fs .mod = some f ∧ f.content.src = w.srcVer) → c.src = w.srcVer) := by
  obtain ⟨hgood, hcoh⟩ := hinv
  by_cases hd : isDue w = true
  · obtain ⟨_, h2, h3⟩ := construct_due w p hp (Or.inl dropsBytecode_on) hd
    exact ⟨_, _, h2, h3, by simp [newContent], by simp [newContent], by simp [newContent],
      fun _ => by simp [newContent]⟩
  · have hd' : isDue w = false := by simpa using hd
    obtain ⟨f, hf, hnlt⟩ := not_due_cases w hd
    by_cases hm : f.content.magic = magicNumber ∧ normOf f.content.file = normOf w.fileId
    · obtain ⟨h1, h2, h3, _⟩ := construct_reuse w p hgood hcoh hd' f hf hm.1 hm.2
      refine ⟨f.content, f.mtime, h2, by rw [h3, hf], hgood f hf, hm.1, hm.2, ?_⟩
      intro hor
      rcases hor with hw | ⟨f', hf', hs⟩
      · omega
      · rw [hf] at hf'; cases hf'; exact hs
    · have hm' : f.content.magic ≠ magicNumber ∨ normOf f.content.file ≠ normOf w.fileId := by
        by_cases h1 : f.content.magic = magicNumber
        · exact Or.inr (fun h2 => hm ⟨h1, h2⟩)
        · exact Or.inl h1
      obtain ⟨_, h2, h3⟩ := construct_magic w p hp hgood hcoh (Or.inl dropsBytecode_on) hd' f hf hm'
      exact ⟨_, _, h2, h3, by simp [newContent], by simp [newContent], by simp [newContent],
        fun _ => by simp [newContent]⟩

end MakoModel.ModFile
