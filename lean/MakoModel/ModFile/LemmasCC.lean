import MakoModel.ModFile.Conc
import MakoModel.ModFile.LemmasConc
import MakoModel.ModFile.LemmasCoh
/-! Helper lemmas for C15: the invariant of interleaved constructs. -/
namespace MakoModel.ModFile
open MakoModel.Generated.ModFile

theorem regenNeeded_iff (c : Content) :
    regenNeeded c = true ↔ (c.magic ≠ magicNumber ∨ normOf c.file ≠ normOf 0) := by
  simp [regenNeeded, magicRecheck_on, fileRecheck_on]

theorem tmpId_inj {p q : Nat} {a b : Bool} (h : tmpId p a = tmpId q b) : p = q := by
  unfold tmpId at h
  cases a <;> cases b <;> simp at h <;> omega

theorem NewLike.mono {v0 cur cur' : Nat} {c : Content} (hc : cur ≤ cur') (h : NewLike v0 cur c) :
    NewLike v0 cur' c := ⟨h.1, h.2.1, h.2.2.1, h.2.2.2.1, Nat.le_trans h.2.2.2.2 hc⟩

theorem PathNew.mono {v0 cur cur' : Nat} {fs : FS} (hc : cur ≤ cur') (h : PathNew v0 fs cur) :
    PathNew v0 fs cur' := by
  obtain ⟨f, hf, hn⟩ := h
  exact ⟨f, hf, hn.mono hc⟩

/-- what the phase of process `p` guarantees in a file system `fs` with current source version `cur` -/
def PhaseOk (init : Option File) (v0 : Nat) (fs : FS) (cur : Nat) (p : Nat) : Phase → Prop
  | .start => True
  | .statted _ => True
  | .toRead _ => True
  | .writing s new now rem raised =>
    NewLike v0 cur new ∧
    safeTr (tmpId p s) (decide (fs (.tmp (tmpId p s)) = some ⟨new, now⟩)) rem = true ∧
    (raised = false → PathNew v0 fs cur ∨ movedIn rem = true)
  | .toLoad s => fs .mod ≠ none ∧ (s = true → PathNew v0 fs cur)
  | .done r => ∀ c, r = some c → c.complete = true ∧ c.magic = magicNumber ∧ normOf c.file = normOf 0 ∧
      (NewLike v0 cur c ∨ ∃ t, init = some ⟨c, t⟩)

/-- the invariant of every schedule -/
structure J (init : Option File) (v0 : Nat) (st : CState) : Prop where
  path : st.fs .mod = init ∨ PathNew v0 st.fs st.srcVer
  initGood : ∀ f, init = some f → f.content.complete = true
  ver : v0 ≤ st.srcVer
  ph : ∀ p, PhaseOk init v0 st.fs st.srcVer p (st.procs p).phase

theorem PhaseOk.mono_cur {init : Option File} {v0 cur cur' p : Nat} {fs : FS} {ph : Phase} (hc : cur ≤ cur')
    (h : PhaseOk init v0 fs cur p ph) : PhaseOk init v0 fs cur' p ph := by
  cases ph with
  | start => trivial
  | statted _ => trivial
  | toRead _ => trivial
  | writing s new now rem raised =>
    obtain ⟨h1, h2, h3⟩ := h
    refine ⟨h1.mono hc, h2, fun hr => ?_⟩
    rcases h3 hr with h | h
    · exact Or.inl (h.mono hc)
    · exact Or.inr h
  | toLoad s => exact ⟨h.1, fun hs => (h.2 hs).mono hc⟩
  | done r =>
    intro c hr
    obtain ⟨a, b, c', d⟩ := h c hr
    refine ⟨a, b, c', ?_⟩
    rcases d with d | d
    · exact Or.inl (d.mono hc)
    · exact Or.inr d

/-- a change of the file system that leaves the temp names of `p` alone, keeps "the path holds a new
module" and keeps the path non-empty preserves what `p`'s phase guarantees -/
theorem PhaseOk.of_fs {init : Option File} {v0 cur p : Nat} {fs fs' : FS} {ph : Phase}
    (htmp : ∀ b, fs' (.tmp (tmpId p b)) = fs (.tmp (tmpId p b)))
    (hnew : PathNew v0 fs cur → PathNew v0 fs' cur)
    (hsome : fs .mod ≠ none → fs' .mod ≠ none)
    (h : PhaseOk init v0 fs cur p ph) : PhaseOk init v0 fs' cur p ph := by
  cases ph with
  | start => trivial
  | statted _ => trivial
  | toRead _ => trivial
  | writing s new now rem raised =>
    obtain ⟨h1, h2, h3⟩ := h
    refine ⟨h1, ?_, fun hr => ?_⟩
    · show safeTr (tmpId p s) (decide (fs' (.tmp (tmpId p s)) = some ⟨new, now⟩)) rem = true
      rw [htmp s]; exact h2
    · rcases h3 hr with h | h
      · exact Or.inl (hnew h)
      · exact Or.inr h
  | toLoad s => exact ⟨hsome h.1, fun hs => hnew (h.2 hs)⟩
  | done r => exact h

theorem setPhase_self (st : CState) (pid : Nat) (ph : Phase) : ((st.setPhase pid ph).procs pid).phase = ph := by
  simp [CState.setPhase]

theorem setPhase_other (st : CState) (pid q : Nat) (ph : Phase) (h : q ≠ pid) :
    (st.setPhase pid ph).procs q = st.procs q := by
  simp [CState.setPhase, h]

/-- a step that only changes the phase of `pid` -/
theorem J.setPhase {init : Option File} {v0 : Nat} {st : CState} (h : J init v0 st) (pid : Nat) (ph : Phase)
    (hp : PhaseOk init v0 st.fs st.srcVer pid ph) : J init v0 (st.setPhase pid ph) := by
  refine ⟨h.path, h.initGood, h.ver, fun q => ?_⟩
  by_cases hq : q = pid
  · subst hq; rw [setPhase_self]; exact hp
  · rw [setPhase_other _ _ _ _ hq]; exact h.ph q

theorem movedIn_cons_not_move {a : Act} {r : List Act} (h : ∀ j, a ≠ .move j) : movedIn (a :: r) = movedIn r := by
  cases a <;> simp [movedIn] at h ⊢

/-- the module path is never emptied by an action of a safe trace -/
theorem apply_mod_some (now : Nat) (new : Content) (a : Act) (fs : FS) (i : Nat) (full : Bool) (r : List Act)
    (hs : safeTr i full (a :: r) = true) (hfull : full = true → fs (.tmp i) = some ⟨new, now⟩)
    (h : fs .mod ≠ none) : (apply now new a fs) .mod ≠ none := by
  cases a with
  | create j => simpa [apply, FS.set] using h
  | fill p b =>
    simp only [safeTr, Bool.and_eq_true, beq_iff_eq] at hs
    rw [hs.1]; simpa [apply, FS.set] using h
  | nop => simpa [apply] using h
  | move j =>
    simp only [safeTr, Bool.and_eq_true, beq_iff_eq] at hs
    obtain ⟨⟨hj, hf⟩, _⟩ := hs
    subst hj
    simp [apply, FS.set, hfull hf]
  | trunc => simp [safeTr] at hs
  | copy j => simp [safeTr] at hs
  | unlink j => simp [safeTr] at hs

/-- one action of a process in a write group -/
theorem J.writeStep {init : Option File} {v0 : Nat} {st : CState} (h : J init v0 st) (pid : Nat)
    (s : Bool) (new : Content) (now : Nat) (a : Act) (r : List Act) (raised : Bool)
    (hph : (st.procs pid).phase = .writing s new now (a :: r) raised) :
    J init v0 ({ st with fs := apply now new a st.fs }.setPhase pid (.writing s new now r raised)) := by
  have hself := h.ph pid
  rw [hph] at hself
  obtain ⟨hnew, hsafe, hmv⟩ := hself
  have hfull : (decide (st.fs (.tmp (tmpId pid s)) = some ⟨new, now⟩)) = true →
      st.fs (.tmp (tmpId pid s)) = some ⟨new, now⟩ := by simp
  -- effect of the action on the module path and on foreign temp names
  have hforeign : ∀ j, j ≠ tmpId pid s → (apply now new a st.fs) (.tmp j) = st.fs (.tmp j) := by
    intro j hj
    cases a with
    | create k =>
      simp only [safeTr, Bool.and_eq_true, beq_iff_eq] at hsafe
      rw [hsafe.1]; simp [apply, FS.set, hj]
    | fill p b =>
      simp only [safeTr, Bool.and_eq_true, beq_iff_eq] at hsafe
      rw [hsafe.1]; simp [apply, FS.set, hj]
    | nop => simp [apply]
    | move k =>
      simp only [safeTr, Bool.and_eq_true, beq_iff_eq] at hsafe
      rw [hsafe.1.1]; simp [apply, FS.set, hj]
    | trunc => simp [safeTr] at hsafe
    | copy k => simp [safeTr] at hsafe
    | unlink k => simp [safeTr] at hsafe
  have hpathnew : PathNew v0 st.fs st.srcVer → PathNew v0 (apply now new a st.fs) st.srcVer := by
    intro hp
    cases a with
    | create k => simpa [PathNew, apply, FS.set] using hp
    | fill p b =>
      simp only [safeTr, Bool.and_eq_true, beq_iff_eq] at hsafe
      rw [hsafe.1]; simpa [PathNew, apply, FS.set] using hp
    | nop => simpa [apply] using hp
    | move k =>
      simp only [safeTr, Bool.and_eq_true, beq_iff_eq] at hsafe
      obtain ⟨⟨hk, hf⟩, _⟩ := hsafe
      subst hk
      exact ⟨⟨new, now⟩, by simp [apply, FS.set, hfull hf], hnew⟩
    | trunc => simp [safeTr] at hsafe
    | copy k => simp [safeTr] at hsafe
    | unlink k => simp [safeTr] at hsafe
  have hsome : st.fs .mod ≠ none → (apply now new a st.fs) .mod ≠ none :=
    apply_mod_some now new a st.fs (tmpId pid s) _ r hsafe hfull
  have hpath : (apply now new a st.fs) .mod = init ∨ PathNew v0 (apply now new a st.fs) st.srcVer := by
    rcases h.path with hp | hp
    · cases a with
      | create k => left; simpa [apply, FS.set] using hp
      | fill p b =>
        simp only [safeTr, Bool.and_eq_true, beq_iff_eq] at hsafe
        left; rw [hsafe.1]; simpa [apply, FS.set] using hp
      | nop => left; simpa [apply] using hp
      | move k =>
        simp only [safeTr, Bool.and_eq_true, beq_iff_eq] at hsafe
        obtain ⟨⟨hk, hf⟩, _⟩ := hsafe
        subst hk
        right; exact ⟨⟨new, now⟩, by simp [apply, FS.set, hfull hf], hnew⟩
      | trunc => simp [safeTr] at hsafe
      | copy k => simp [safeTr] at hsafe
      | unlink k => simp [safeTr] at hsafe
    · exact Or.inr (hpathnew hp)
  refine ⟨hpath, h.initGood, h.ver, fun q => ?_⟩
  by_cases hq : q = pid
  · subst hq
    rw [setPhase_self]
    show PhaseOk init v0 (apply now new a st.fs) st.srcVer q (.writing s new now r raised)
    refine ⟨hnew, ?_, fun hr => ?_⟩
    · -- the rest of the trace is safe in the new file system
      show safeTr (tmpId q s) (decide ((apply now new a st.fs) (.tmp (tmpId q s)) = some ⟨new, now⟩)) r = true
      cases a with
      | create k =>
        simp only [safeTr, Bool.and_eq_true, beq_iff_eq] at hsafe
        exact safeTr_of_false _ _ _ hsafe.2
      | fill p b =>
        simp only [safeTr, Bool.and_eq_true, beq_iff_eq] at hsafe
        obtain ⟨hp, hs⟩ := hsafe
        subst hp
        cases b with
        | false => exact safeTr_of_false _ _ _ hs
        | true =>
          have : decide ((apply now new (.fill (.tmp (tmpId q s)) true) st.fs) (.tmp (tmpId q s)) = some ⟨new, now⟩)
              = true := by simp [apply, FS.set]
          rw [this]; exact hs
      | nop =>
        simp only [safeTr] at hsafe
        exact hsafe
      | move k =>
        simp only [safeTr, Bool.and_eq_true, beq_iff_eq] at hsafe
        exact safeTr_of_false _ _ _ hsafe.2
      | trunc => simp [safeTr] at hsafe
      | copy k => simp [safeTr] at hsafe
      | unlink k => simp [safeTr] at hsafe
    · rcases hmv hr with hp | hm
      · exact Or.inl (hpathnew hp)
      · cases a with
        | move k =>
          simp only [safeTr, Bool.and_eq_true, beq_iff_eq] at hsafe
          obtain ⟨⟨hk, hf⟩, _⟩ := hsafe
          subst hk
          exact Or.inl ⟨⟨new, now⟩, by simp [apply, FS.set, hfull hf], hnew⟩
        | create k => exact Or.inr (by simpa [movedIn] using hm)
        | fill p b => exact Or.inr (by simpa [movedIn] using hm)
        | nop => exact Or.inr (by simpa [movedIn] using hm)
        | trunc => simp [safeTr] at hsafe
        | copy k => simp [safeTr] at hsafe
        | unlink k => simp [safeTr] at hsafe
  · rw [setPhase_other _ _ _ _ hq]
    have hq' := h.ph q
    show PhaseOk init v0 (apply now new a st.fs) st.srcVer q (st.procs q).phase
    exact PhaseOk.of_fs (fun b => hforeign _ (fun e => hq (tmpId_inj e))) hpathnew hsome hq'

theorem notDue_some (fs : FS) (sm : Nat) (h : dueAt fs sm = false) : fs .mod ≠ none := by
  intro hn
  unfold dueAt at h
  rw [hn] at h
  simp [needsRewrite, missingCheck_on] at h

/-- one step of a process keeps the invariant -/
theorem stepProc_J {init : Option File} {v0 : Nat} (st : CState) (pid : Nat) (h : J init v0 st) :
    J init v0 (stepProc st pid) := by
  unfold stepProc
  have hself := h.ph pid
  split
  · exact h.setPhase pid _ trivial
  · rename_i sm hph
    by_cases hd : dueAt st.fs sm = true
    · rw [if_pos hd]; exact h.setPhase pid _ trivial
    · rw [if_neg hd]
      exact h.setPhase pid _ ⟨notDue_some st.fs sm (by simpa using hd), fun hs => by cases hs⟩
  · rename_i s hph
    dsimp only
    refine h.setPhase pid _ ⟨⟨rfl, rfl, rfl, h.ver, Nat.le_refl _⟩, ?_, fun hr => ?_⟩
    · exact safeTr_of_false _ _ _ (writer_trace_safe _ _ (Or.inl writeLoops_on))
    · exact Or.inr (trace_moved _ writerOps none false _ hr writerOps_renames)
  · rename_i s new now a r raised hph
    exact h.writeStep pid s new now a r raised hph
  · rename_i s new now raised hph
    rw [hph] at hself
    obtain ⟨hnew, _, hmv⟩ := hself
    split
    · exact h.setPhase pid _ (fun c hc => by cases hc)
    · rename_i hr
      have hp : PathNew v0 st.fs st.srcVer := by
        rcases hmv (by simpa using hr) with hp | hm
        · exact hp
        · simp [movedIn] at hm
      obtain ⟨f, hf, _⟩ := hp
      exact h.setPhase pid _ ⟨by rw [hf]; simp, fun _ => ⟨f, hf, by assumption⟩⟩
  · rename_i s hph
    rw [hph] at hself
    obtain ⟨hsome, hsec⟩ := hself
    split
    · exact h.setPhase pid _ (fun c hc => by cases hc)
    · rename_i f hf
      split
      · exact h.setPhase pid _ (fun c hc => by cases hc)
      · rename_i hcomp
        split
        · exact h.setPhase pid _ trivial
        · rename_i hreg
          refine h.setPhase pid _ (fun c hc => ?_)
          cases hc
          have hc' : f.content.complete = true := by simpa using hcomp
          have horigin : NewLike v0 st.srcVer f.content ∨ ∃ t, init = some ⟨f.content, t⟩ := by
            rcases h.path with hp | ⟨f', hf', hn⟩
            · right; exact ⟨f.mtime, by rw [← hp, hf]⟩
            · left; rw [hf] at hf'; cases hf'; exact hn
          cases s with
          | true =>
            obtain ⟨f', hf', hn⟩ := hsec rfl
            rw [hf] at hf'; cases hf'
            exact ⟨hc', hn.2.1, by rw [hn.2.2.1], horigin⟩
          | false =>
            have hnr : ¬ regenNeeded f.content = true := fun hr => hreg ⟨rfl, hr⟩
            have : ¬ (f.content.magic ≠ magicNumber ∨ normOf f.content.file ≠ normOf 0) :=
              fun hor => hnr ((regenNeeded_iff f.content).2 hor)
            have hm : f.content.magic = magicNumber := by
              by_cases hm : f.content.magic = magicNumber
              · exact hm
              · exact absurd (Or.inl hm) this
            have hfi : normOf f.content.file = normOf 0 := by
              by_cases hfi : normOf f.content.file = normOf 0
              · exact hfi
              · exact absurd (Or.inr hfi) this
            exact ⟨hc', hm, hfi, horigin⟩
  · exact h

theorem stepItem_J {init : Option File} {v0 : Nat} (st : CState) (it : SItem) (h : J init v0 st) :
    J init v0 (stepItem st it) := by
  cases it with
  | proc pid => exact stepProc_J st pid h
  | modify m =>
    refine ⟨?_, h.initGood, Nat.le_succ_of_le h.ver, fun p => (h.ph p).mono_cur (Nat.le_succ _)⟩
    rcases h.path with hp | hp
    · exact Or.inl hp
    · exact Or.inr (hp.mono (Nat.le_succ _))
  | setClock t => exact ⟨h.path, h.initGood, h.ver, h.ph⟩

theorem runC_J {init : Option File} {v0 : Nat} : ∀ (sched : List SItem) (st : CState), J init v0 st →
    J init v0 (runC st sched) := by
  intro sched
  induction sched with
  | nil => intro st h; exact h
  | cons it r ih => intro st h; exact ih _ (stepItem_J st it h)

theorem initial_J (fs : FS) (srcVer srcMtime clock : Nat) (fates1 fates2 : Nat → List Fate) (hg : Good fs) :
    J (fs .mod) srcVer (CState.initial fs srcVer srcMtime clock fates1 fates2) :=
  ⟨Or.inl rfl, fun f hf => hg f hf, Nat.le_refl _, fun _ => trivial⟩

/-! ### "the path holds a new module" is never undone -/

theorem PathNew_step {init : Option File} {v0 : Nat} (st : CState) (it : SItem) (h : J init v0 st)
    (hp : PathNew v0 st.fs st.srcVer) : PathNew v0 (stepItem st it).fs (stepItem st it).srcVer := by
  have h' := stepItem_J st it h
  cases it with
  | modify m => exact hp.mono (Nat.le_succ _)
  | setClock t => exact hp
  | proc pid =>
    -- only a write step changes the file system; there the claim is part of `J.writeStep`'s proof; here we
    -- recover it from the invariant after the step: the path is `init` or new, and it was new before
    show PathNew v0 (stepProc st pid).fs (stepProc st pid).srcVer
    unfold stepProc
    split
    · exact hp
    · exact hp
    · exact hp
    · rename_i s new now a r raised hph
      have hself := h.ph pid
      rw [hph] at hself
      obtain ⟨hnew, hsafe, _⟩ := hself
      show PathNew v0 (apply now new a st.fs) st.srcVer
      obtain ⟨f, hf, hn⟩ := hp
      cases a with
      | create k => exact ⟨f, by simpa [apply, FS.set] using hf, hn⟩
      | fill p b =>
        simp only [safeTr, Bool.and_eq_true, beq_iff_eq] at hsafe
        rw [hsafe.1]; exact ⟨f, by simpa [apply, FS.set] using hf, hn⟩
      | nop => exact ⟨f, by simpa [apply] using hf, hn⟩
      | move k =>
        simp only [safeTr, Bool.and_eq_true, beq_iff_eq] at hsafe
        obtain ⟨⟨hk, hfull⟩, _⟩ := hsafe
        subst hk
        have : st.fs (.tmp (tmpId pid s)) = some ⟨new, now⟩ := by simpa using hfull
        exact ⟨⟨new, now⟩, by simp [apply, FS.set, this], hnew⟩
      | trunc => simp [safeTr] at hsafe
      | copy k => simp [safeTr] at hsafe
      | unlink k => simp [safeTr] at hsafe
    · split <;> exact hp
    · split
      · exact hp
      · split
        · exact hp
        · split <;> exact hp
    · exact hp

/-! ### processes without injected faults never fail -/

theorem stepProc_other (st : CState) (pid q : Nat) (hq : q ≠ pid) : (stepProc st pid).procs q = st.procs q := by
  unfold stepProc
  repeat' split
  all_goals first | rfl | (rw [setPhase_other _ _ _ _ hq])

/-- process `p` has no injected fault, and its phase shows none -/
def PhaseClean : Phase → Prop
  | .writing _ _ _ _ raised => raised = false
  | .done r => r ≠ none
  | _ => True

theorem stepProc_clean {init : Option File} {v0 : Nat} (st : CState) (pid q : Nat) (h : J init v0 st)
    (hf : (st.procs q).fates1 = [] ∧ (st.procs q).fates2 = [])
    (hc : PhaseClean (st.procs q).phase) :
    ((stepProc st pid).procs q).fates1 = [] ∧ ((stepProc st pid).procs q).fates2 = [] ∧
    PhaseClean ((stepProc st pid).procs q).phase := by
  have hgood : ∀ f, st.fs .mod = some f → f.content.complete = true := by
    intro f hf'
    rcases h.path with hp | ⟨f', hf'', hn⟩
    · exact h.initGood f (by rw [← hp]; exact hf')
    · rw [hf'] at hf''; cases hf''; exact hn.1
  by_cases hq : q = pid
  · subst hq
    have hself := h.ph q
    unfold stepProc
    split
    · simp [CState.setPhase, hf, PhaseClean]
    · split <;> simp [CState.setPhase, hf, PhaseClean]
    · rename_i s hph
      refine ⟨by simp [CState.setPhase, hf], by simp [CState.setPhase, hf], ?_⟩
      simp only [CState.setPhase, if_true, PhaseClean]
      cases s <;> simp [hf.1, hf.2, writerOps_completes]
    · rename_i s new now a r raised hph
      rw [hph] at hc
      simp [CState.setPhase, hf, PhaseClean] at hc ⊢
      exact hc
    · rename_i s new now raised hph
      rw [hph] at hc
      have : raised = false := hc
      subst this
      simp [CState.setPhase, hf, PhaseClean]
    · rename_i s hph
      rw [hph] at hself
      split
      · rename_i hnone; exact absurd hnone hself.1
      · rename_i f hf'
        have := hgood f hf'
        simp [this, CState.setPhase, hf]
        split <;> simp [PhaseClean]
    · rename_i r hph
      rw [hph] at hc
      exact ⟨hf.1, hf.2, by rw [hph]; exact hc⟩
  · have : (stepProc st pid).procs q = st.procs q := stepProc_other st pid q hq
    rw [this]; exact ⟨hf.1, hf.2, hc⟩

end MakoModel.ModFile
