import MakoModel.ModFile.LemmasConstruct
/-! Helper lemmas for C15: the `module_writer` hook; worlds without a bytecode cache; `verify_directory`. -/
namespace MakoModel.ModFile
open MakoModel.Generated.ModFile

theorem due_of_isDue (w : World) (h : isDue w = true) : Due w := by
  rcases (isDue_iff w).1 h with h | ⟨f, hf, hlt⟩
  · exact Or.inl h
  · exact Or.inr ⟨f, hf, Or.inl hlt⟩

/-- the argument of every hook call: the complete module generated from the current source, and the module path -/
def CallOk (w : World) (x : Content × P) : Prop :=
  x.2 = .mod ∧ x.1.src = w.srcVer ∧ x.1.magic = magicNumber ∧ x.1.complete = true ∧ x.1.file = w.fileId

theorem phase2_calls (wr : Writer) (w1 : World) (p : Plan) (left : Option Nat) (acts : List Act) (n : Nat)
    (calls : List (Content × P)) :
    (phase2 wr w1 p left acts n calls).calls = calls ∨
    ∃ pyc1, (phase2 wr w1 p left acts n calls).calls =
      calls ++ (wr { w1 with pyc := pyc1 } (newContent { w1 with pyc := pyc1 } p.size2) p.fates2 left).calls := by
  unfold phase2
  split
  · left; rfl
  · rename_i c pyc1 _
    dsimp only
    split
    · right
      refine ⟨pyc1, ?_⟩
      split
      · rfl
      · split <;> rfl
    · left; rfl

theorem hook_calls_ok (eff : Content → FS → FS) (w : World) (p : Plan) :
    ∀ x ∈ (construct (hookWriter eff) w p).calls, CallOk w x := by
  have hk : hookArgsOk = true := hookArgs_ok
  have hw : ∀ (w' : World) (sz : Nat) fates left, w'.srcVer = w.srcVer → w'.fileId = w.fileId →
      ∀ x ∈ (hookWriter eff w' (newContent w' sz) fates left).calls, CallOk w x := by
    intro w' sz fates left hv hfi x hx
    simp [hookWriter, hk] at hx
    subst hx
    simp [CallOk, newContent, hv, hfi]
  intro x hx
  unfold construct at hx
  dsimp only at hx
  split at hx
  · split at hx
    · exact hw w p.size1 p.fates1 p.crash rfl rfl x hx
    · rcases phase2_calls (hookWriter eff) _ p _ _ 1 _ with h | ⟨pyc1, h⟩
      · rw [h] at hx; exact hw w p.size1 p.fates1 p.crash rfl rfl x hx
      · rw [h] at hx
        rcases List.mem_append.1 hx with hx | hx
        · exact hw w p.size1 p.fates1 p.crash rfl rfl x hx
        · exact hw _ p.size2 p.fates2 _ (by simp [afterGroup]) (by simp [afterGroup]) x hx
  · rcases phase2_calls (hookWriter eff) w p p.crash [] 0 [] with h | ⟨pyc1, h⟩
    · rw [h] at hx; simp at hx
    · rw [h] at hx
      exact hw { w with pyc := pyc1 } p.size2 p.fates2 _ rfl rfl x (by simpa using hx)

theorem needsRegen_iff (w : World) (c : Content) :
    needsRegen w c = true ↔ (c.magic ≠ magicNumber ∨ normOf c.file ≠ normOf w.fileId) := by
  simp [needsRegen, magicRecheck_on, fileRecheck_on]

/-- the hook is called iff a (re)write is due -/
theorem hook_called_iff (eff : Content → FS → FS) (w : World) (p : Plan) (hgood : Good w.fs)
    (hcoh : PycCoherent w) :
    (construct (hookWriter eff) w p).calls ≠ [] ↔ Due w := by
  have hk : hookArgsOk = true := hookArgs_ok
  by_cases hd : isDue w = true
  · refine ⟨fun _ => due_of_isDue w hd, fun _ => ?_⟩
    unfold construct
    simp only [hd, if_true]
    have hst : (hookWriter eff w (newContent w p.size1) p.fates1 p.crash).status = .done := rfl
    simp only [hst, ne_eq, not_true_eq_false, if_false]
    rcases phase2_calls (hookWriter eff) (afterGroup w (hookWriter eff w (newContent w p.size1) p.fates1 p.crash)) p
      (hookWriter eff w (newContent w p.size1) p.fates1 p.crash).left
      (hookWriter eff w (newContent w p.size1) p.fates1 p.crash).acts 1
      (hookWriter eff w (newContent w p.size1) p.fates1 p.crash).calls with h | ⟨_, h⟩
    · rw [h]; simp [hookWriter, hk]
    · rw [h]; simp [hookWriter, hk]
  · have hd' : isDue w = false := by simpa using hd
    have hnd : ¬ (w.fs .mod = none ∨ ∃ f, w.fs .mod = some f ∧ f.mtime < w.srcMtime) :=
      fun h => hd ((isDue_iff w).2 h)
    cases hf : w.fs .mod with
    | none => exact absurd (Or.inl hf) hnd
    | some f =>
      obtain ⟨pyc1, hl, _⟩ := loadMod_fresh w f hf (hgood f hf) (fun m s c hp h1 h2 => hcoh m s c f hp hf h1 h2)
      have hc : construct (hookWriter eff) w p = phase2 (hookWriter eff) w p p.crash [] 0 [] := by
        unfold construct; simp [hd']
      by_cases hm : f.content.magic = magicNumber ∧ normOf f.content.file = normOf w.fileId
      · rw [hc, phase2_reuse _ _ _ _ _ _ _ _ _ hl hm.1 hm.2]
        constructor
        · intro h; exact absurd rfl h
        · intro h
          rcases h with h | ⟨f', hf', h⟩
          · rw [hf] at h; cases h
          · rw [hf] at hf'; cases hf'
            rcases h with h | h | h
            · exact absurd (Or.inr ⟨f, hf, h⟩) hnd
            · exact absurd hm.1 h
            · exact absurd hm.2 h
      · have hm' : f.content.magic ≠ magicNumber ∨ normOf f.content.file ≠ normOf w.fileId := by
          by_cases h1 : f.content.magic = magicNumber
          · exact Or.inr (fun h2 => hm ⟨h1, h2⟩)
          · exact Or.inl h1
        refine ⟨fun _ => Or.inr ⟨f, hf, Or.inr hm'⟩, fun _ => ?_⟩
        rw [hc]
        unfold phase2
        have hr := (needsRegen_iff w f.content).2 hm'
        simp only [hl, hr, if_true]
        have hst : ∀ w' c fates l, (hookWriter eff w' c fates l).status = .done := fun _ _ _ _ => rfl
        simp only [hst, ne_eq, not_true_eq_false, if_false]
        split <;> simp [hookWriter, hk]

/-- a hook that installs what it is given is called exactly once when a write is due (no bytecode cache) -/
theorem hook_called_once (eff : Content → FS → FS) (w : World) (p : Plan) (hgood : Good w.fs)
    (hcoh : PycCoherent w) (hpyc : dropsBytecodeHook = true ∨ w.pyc = none)
    (hinst : ∀ c fs, ∃ t, (eff c fs) .mod = some ⟨c, t⟩) (hdue : Due w) :
    (construct (hookWriter eff) w p).calls.length = 1 := by
  have hk : hookArgsOk = true := hookArgs_ok
  by_cases hd : isDue w = true
  · obtain ⟨t, ht⟩ := hinst (newContent w p.size1) w.fs
    have hload := loadMod_fresh (afterGroup w (hookWriter eff w (newContent w p.size1) p.fates1 p.crash))
      ⟨newContent w p.size1, t⟩ (by simpa [afterGroup, hookWriter] using ht) (by simp [newContent])
      (by
        intro m s c h
        obtain ⟨hnd, hp⟩ := afterGroup_pyc' h
        have hnd : dropsBytecodeHook = false := by simpa [hookWriter] using hnd
        rcases hpyc with hfix | hnone
        · rw [hfix] at hnd; cases hnd
        · rw [hnone] at hp; cases hp)
    obtain ⟨pyc1, hl, _⟩ := hload
    have hc : construct (hookWriter eff) w p =
        phase2 (hookWriter eff) (afterGroup w (hookWriter eff w (newContent w p.size1) p.fates1 p.crash)) p
          p.crash [] 1 [(newContent w p.size1, .mod)] := by
      unfold construct
      simp only [hd, if_true]
      have hst : (hookWriter eff w (newContent w p.size1) p.fates1 p.crash).status = .done := rfl
      simp only [hst, ne_eq, not_true_eq_false, if_false]
      simp [hookWriter, hk]
    rw [hc, phase2_reuse _ _ _ _ _ _ _ _ _ hl (by simp [newContent]) (by simp [newContent, afterGroup])]
    rfl
  · have hd' : isDue w = false := by simpa using hd
    have hnd : ¬ (w.fs .mod = none ∨ ∃ f, w.fs .mod = some f ∧ f.mtime < w.srcMtime) :=
      fun h => hd ((isDue_iff w).2 h)
    cases hf : w.fs .mod with
    | none => exact absurd (Or.inl hf) hnd
    | some f =>
      obtain ⟨pyc1, hl, _⟩ := loadMod_fresh w f hf (hgood f hf) (fun m s c hp h1 h2 => hcoh m s c f hp hf h1 h2)
      have hc : construct (hookWriter eff) w p = phase2 (hookWriter eff) w p p.crash [] 0 [] := by
        unfold construct; simp [hd']
      have hm : f.content.magic ≠ magicNumber ∨ normOf f.content.file ≠ normOf w.fileId := by
        rcases hdue with h | ⟨f', hf', h⟩
        · rw [hf] at h; cases h
        · rw [hf] at hf'; cases hf'
          rcases h with h | h
          · exact absurd (Or.inr ⟨f, hf, h⟩) hnd
          · exact h
      rw [hc]
      unfold phase2
      have hr := (needsRegen_iff w f.content).2 hm
      simp only [hl, hr, if_true]
      have hst : ∀ w' c fates l, (hookWriter eff w' c fates l).status = .done := fun _ _ _ _ => rfl
      simp only [hst, ne_eq, not_true_eq_false, if_false]
      split <;> simp [hookWriter, hk]

/-! ### worlds without a bytecode cache (no `__pycache__` entry, `sys.dont_write_bytecode`) -/

def NoPyc (w : World) : Prop := w.pyc = none ∧ w.pycOn = false

theorem loadMod_nopyc (w : World) (h : NoPyc w) : (loadMod w).2 = none := by
  obtain ⟨h1, h2⟩ := h
  unfold loadMod
  cases w.fs .mod with
  | none => simpa using h1
  | some f => simp only [h1, h2]; split <;> simp

theorem NoPyc.coherent {w : World} (h : NoPyc w) : PycCoherent w := by
  intro m s c f hp; rw [h.1] at hp; cases hp

theorem NoPyc.fresh {w : World} (h : NoPyc w) (p : Plan) : PycFresh w p := by
  refine ⟨fun m s c hp => ?_, fun hon => ?_⟩
  · rw [h.1] at hp; cases hp
  · rw [h.2] at hon; cases hon

theorem afterGroup_nopyc {w : World} (g : GroupOut) (h : NoPyc w) : NoPyc (afterGroup w g) := by
  refine ⟨?_, h.2⟩
  show (if (if g.viaHook then dropsBytecodeHook else dropsBytecode) = true then none else w.pyc) = none
  by_cases hb : (if g.viaHook then dropsBytecodeHook else dropsBytecode) = true
  · rw [if_pos hb]
  · rw [if_neg hb]; exact h.1

theorem phase2_nopyc (wr : Writer) (w1 : World) (p : Plan) (left : Option Nat) (acts : List Act) (n : Nat)
    (calls : List (Content × P)) (h : NoPyc w1) : NoPyc (phase2 wr w1 p left acts n calls).world := by
  unfold phase2
  split
  · exact h
  · rename_i c pyc1 heq
    have h1 : pyc1 = none := by
      have := loadMod_nopyc w1 h; rw [heq] at this; exact this
    subst h1
    dsimp only
    have hw1 : NoPyc { w1 with pyc := none } := ⟨rfl, h.2⟩
    split
    · split
      · exact afterGroup_nopyc _ hw1
      · split
        · exact afterGroup_nopyc _ hw1
        · rename_i c2 pyc2 heq2
          have h2 := loadMod_nopyc (afterGroup { w1 with pyc := none }
            (wr { w1 with pyc := none } (newContent { w1 with pyc := none } p.size2) p.fates2 left))
            (afterGroup_nopyc _ hw1)
          rw [heq2] at h2
          exact ⟨h2, h.2⟩
    · exact hw1

theorem construct_nopyc (wr : Writer) (w : World) (p : Plan) (h : NoPyc w) : NoPyc (construct wr w p).world := by
  unfold construct
  dsimp only
  split
  · split
    · exact afterGroup_nopyc _ h
    · exact phase2_nopyc wr _ p _ _ _ _ (afterGroup_nopyc _ h)
  · exact phase2_nopyc wr w p _ _ _ _ h

theorem runH_nopyc : ∀ (h : List HOp) (w : World), NoPyc w → NoPyc (runH w h) := by
  intro h
  induction h with
  | nil => intro w hw; exact hw
  | cons op r ih =>
    intro w hw
    apply ih
    cases op with
    | construct p => exact construct_nopyc defaultWriter w p hw
    | _ => exact hw

/-! ### `util.verify_directory` -/

theorem verifyDirMaxTries_pos : 0 < verifyDirMaxTries := by decide

theorem verifyDirLoop_spec : ∀ (fuel tries failures : Nat), tries + fuel = verifyDirMaxTries →
    verifyDirLoop fuel tries failures =
      if tries + failures < verifyDirMaxTries then (tries + failures + 1, false) else (verifyDirMaxTries, true) := by
  intro fuel
  induction fuel with
  | zero =>
    intro tries failures h
    have : ¬ tries + failures < verifyDirMaxTries := by omega
    simp [verifyDirLoop, this]; omega
  | succ fuel ih =>
    intro tries failures h
    unfold verifyDirLoop
    by_cases h0 : failures = 0
    · subst h0
      have : tries < verifyDirMaxTries := by omega
      simp [this]
    · simp only [h0, if_false]
      by_cases h1 : tries + 1 ≥ verifyDirMaxTries
      · have : ¬ tries + failures < verifyDirMaxTries := by omega
        simp only [h1, if_true, this, if_false]
        have : tries + 1 = verifyDirMaxTries := by omega
        rw [this]
      · simp only [h1, if_false]
        rw [ih (tries + 1) (failures - 1) (by omega)]
        have e : tries + 1 + (failures - 1) = tries + failures := by omega
        rw [e]

/-! ### a concrete non-trivial history used by the `example`s of `Props/C15.lean` -/

/-- a non-trivial history: written, source touched with an older, an equal and a newer mtime, module
replaced by one of another generator version, deleted -/
def exHist : List HOp :=
  [.modifySrc 5, .setClock 7, .construct {}, .modifySrc 3, .construct {}, .modifySrc 7, .construct {},
   .setClock 9, .replaceMod ⟨2, magicNumber + 1, true, 99, 4, 0⟩ 8, .construct {}, .deleteMod,
   .construct { fates1 := [.ok, .raise] }, .construct { crash := some 2 }, .modifySrc 12]

theorem exHist_ok : HistOk exHist := by
  intro op hop
  simp only [exHist, List.mem_cons, List.mem_nil_iff, or_false] at hop
  rcases hop with h | h | h | h | h | h | h | h | h | h | h | h | h | h <;> subst h <;>
    simp [HOp.ok, Plan.guard, Plan.noShort]

theorem init_good : Good World.init.fs := by intro f hf; simp [World.init, FS.empty] at hf
theorem init_nopyc : NoPyc World.init := ⟨rfl, rfl⟩

end MakoModel.ModFile
