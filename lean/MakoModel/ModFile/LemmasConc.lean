import MakoModel.ModFile.Lemmas
/-! Helper lemmas for C15: interleavings of writer processes. -/
namespace MakoModel.ModFile
open MakoModel.Generated.ModFile

/-- `tmp q` holds the complete new file of process `q` -/
def isFull (st : FS × Procs) (q : Nat) : Bool :=
  decide (st.1 (.tmp q) = some ⟨(st.2 q).new, (st.2 q).now⟩)

/-- invariant of every schedule -/
structure CInv (old : Option File) (news : Nat → Content) (nows : Nat → Nat) (st : FS × Procs) : Prop where
  path : st.1 .mod = old ∨ ∃ q, st.1 .mod = some ⟨news q, nows q⟩
  ident : ∀ q, (st.2 q).new = news q ∧ (st.2 q).now = nows q
  safe : ∀ q, safeTr q (isFull st q) (st.2 q).rem = true

theorem safeTr_of_false (i : Nat) (b : Bool) (acts : List Act) (h : safeTr i false acts = true) :
    safeTr i b acts = true := by
  cases b with
  | false => exact h
  | true => exact safeTr_mono i acts h

theorem stepSched_inv (old : Option File) (news : Nat → Content) (nows : Nat → Nat) (st : FS × Procs)
    (pid : Nat) (h : CInv old news nows st) : CInv old news nows (stepSched st pid) := by
  unfold stepSched
  cases hrem : (st.2 pid).rem with
  | nil => simpa using h
  | cons a r =>
    dsimp only
    have hs := h.safe pid
    rw [hrem] at hs
    have hid := h.ident
    -- facts about the other processes: their record is unchanged
    have hother : ∀ q, q ≠ pid → (st.2.set pid ((st.2 pid).setRem r)) q = st.2 q := by
      intro q hq; simp [Procs.set, hq]
    have hself : (st.2.set pid ((st.2 pid).setRem r)) pid = ((st.2 pid).setRem r) := by
      simp [Procs.set]
    have hsr : ((st.2 pid).setRem r).rem = r := rfl
    have hsn : ((st.2 pid).setRem r).new = (st.2 pid).new := rfl
    have hsw : ((st.2 pid).setRem r).now = (st.2 pid).now := rfl
    have hident' : ∀ q, ((st.2.set pid ((st.2 pid).setRem r)) q).new = news q ∧
        ((st.2.set pid ((st.2 pid).setRem r)) q).now = nows q := by
      intro q
      by_cases hq : q = pid
      · subst hq; rw [hself]; rw [hsn, hsw]; exact hid q
      · rw [hother q hq]; exact hid q
    -- a step that leaves `tmp q` (q ≠ pid) alone keeps q's part of the invariant
    have keep : ∀ (fs' : FS), (∀ q, q ≠ pid → fs' (.tmp q) = st.1 (.tmp q)) →
        ∀ q, q ≠ pid → safeTr q (isFull (fs', st.2.set pid ((st.2 pid).setRem r)) q)
          ((st.2.set pid ((st.2 pid).setRem r)) q).rem = true := by
      intro fs' hfs q hq
      have := h.safe q
      simpa [isFull, hother q hq, hfs q hq] using this
    cases a with
    | create j =>
      simp only [safeTr, Bool.and_eq_true, beq_iff_eq] at hs
      obtain ⟨hj, hs⟩ := hs
      subst hj
      refine ⟨?_, hident', ?_⟩
      · simpa [apply, FS.set] using h.path
      · intro q
        by_cases hq : q = j
        · subst hq; dsimp only; rw [hself, hsr]; exact safeTr_of_false _ _ _ hs
        · exact keep _ (by intro q' hq'; simp [apply, FS.set, hq']) q hq
    | fill p b =>
      simp only [safeTr, Bool.and_eq_true, beq_iff_eq] at hs
      obtain ⟨hp, hs⟩ := hs
      subst hp
      refine ⟨?_, hident', ?_⟩
      · simpa [apply, FS.set] using h.path
      · intro q
        by_cases hq : q = pid
        · subst hq
          dsimp only
          rw [hself, hsr]
          cases b with
          | false => exact safeTr_of_false _ _ _ hs
          | true =>
            have : isFull (apply (st.2 q).now (st.2 q).new (.fill (.tmp q) true) st.1,
                st.2.set q ((st.2 q).setRem r)) q = true := by
              simp [isFull, apply, FS.set, Procs.set, Proc.setRem]
            rw [this]; exact hs
        · exact keep _ (by intro q' hq'; simp [apply, FS.set, hq']) q hq
    | nop =>
      simp only [safeTr] at hs
      refine ⟨by simpa [apply] using h.path, hident', ?_⟩
      intro q
      by_cases hq : q = pid
      · subst hq
        dsimp only
        rw [hself, hsr]
        have : isFull (apply (st.2 q).now (st.2 q).new .nop st.1, st.2.set q ((st.2 q).setRem r)) q
            = isFull st q := by
          simp [isFull, apply, Procs.set, Proc.setRem]
        rw [this]; exact hs
      · exact keep _ (by intro q' hq'; simp [apply]) q hq
    | move j =>
      simp only [safeTr, Bool.and_eq_true, beq_iff_eq] at hs
      obtain ⟨⟨hj, hf⟩, hs⟩ := hs
      subst hj
      have htmp : st.1 (.tmp j) = some ⟨(st.2 j).new, (st.2 j).now⟩ := by
        simpa [isFull] using hf
      refine ⟨?_, hident', ?_⟩
      · right
        refine ⟨j, ?_⟩
        simp [apply, FS.set, htmp, (hid j).1, (hid j).2]
      · intro q
        by_cases hq : q = j
        · subst hq; dsimp only; rw [hself, hsr]; exact safeTr_of_false _ _ _ hs
        · exact keep _ (by intro q' hq'; simp [apply, FS.set, hq']) q hq
    | trunc => simp [safeTr] at hs
    | copy j => simp [safeTr] at hs
    | unlink j => simp [safeTr] at hs

theorem runSched_inv (old : Option File) (news : Nat → Content) (nows : Nat → Nat) :
    ∀ (sched : List Nat) (st : FS × Procs), CInv old news nows st → CInv old news nows (runSched st sched) := by
  intro sched
  induction sched with
  | nil => intro st h; exact h
  | cons pid r ih => intro st h; exact ih _ (stepSched_inv old news nows st pid h)

/-- the initial state of writer processes made from the regenerated writer satisfies the invariant -/
theorem init_inv (fs0 : FS) (news : Nat → Content) (nows : Nat → Nat) (fates : Nat → List Fate)
    (crash : Nat → Option Nat) (hg : ∀ q, writeLoops = true ∨ Fate.short ∉ fates q) :
    CInv (fs0 .mod) news nows (fs0, fun q => writerProc q (news q) (nows q) (fates q) (crash q)) := by
  refine ⟨Or.inl rfl, fun q => ⟨rfl, rfl⟩, fun q => ?_⟩
  apply safeTr_of_false
  have hsafe := writer_trace_safe q (fates q) (hg q)
  simp only [writerProc]
  cases hc : crash q with
  | none => simpa [cutBudget] using hsafe
  | some k =>
    by_cases hk : k < (trace q none false writerOps (fates q)).1.length
    · simpa [cutBudget, hk] using safeTr_take q _ false k hsafe
    · simpa [cutBudget, hk] using hsafe

end MakoModel.ModFile
