import MakoModel.ModFile.LemmasCC
/-! Helper lemmas for C15: interleaved constructs - runs; the stable-source case. -/
namespace MakoModel.ModFile
open MakoModel.Generated.ModFile

theorem runC_clean {init : Option File} {v0 : Nat} (q : Nat) : ∀ (sched : List SItem) (st : CState),
    J init v0 st → ((st.procs q).fates1 = [] ∧ (st.procs q).fates2 = []) → PhaseClean (st.procs q).phase →
    PhaseClean ((runC st sched).procs q).phase := by
  intro sched
  induction sched with
  | nil => intro st _ _ hc; exact hc
  | cons it r ih =>
    intro st h hf hc
    have h' := stepItem_J st it h
    cases it with
    | proc pid =>
      obtain ⟨a, b, c⟩ := stepProc_clean st pid q h hf hc
      exact ih _ h' ⟨a, b⟩ c
    | modify m => exact ih _ h' hf hc
    | setClock t => exact ih _ h' hf hc

theorem runC_PathNew {init : Option File} {v0 : Nat} : ∀ (sched : List SItem) (st : CState),
    J init v0 st → PathNew v0 st.fs st.srcVer → PathNew v0 (runC st sched).fs (runC st sched).srcVer := by
  intro sched
  induction sched with
  | nil => intro st _ hp; exact hp
  | cons it r ih => intro st h hp; exact ih _ (stepItem_J st it h) (PathNew_step st it h hp)

/-! ### the source is not modified during the run -/

/-- the initial module is not older than the source -/
def InitNotStale (init : Option File) (sm0 : Nat) : Prop := ∃ f, init = some f ∧ ¬ f.mtime < sm0

/-- the initial module may be reused: not older than the source, right generator version, this template file -/
def InitReusable (init : Option File) (sm0 : Nat) : Prop :=
  ∃ f, init = some f ∧ ¬ f.mtime < sm0 ∧ f.content.magic = magicNumber ∧ normOf f.content.file = normOf 0

def PhaseK (init : Option File) (v0 sm0 : Nat) (fs : FS) : Phase → Prop
  | .statted sm => sm = sm0
  | .toLoad false => ¬ PathNew v0 fs v0 → InitNotStale init sm0
  | .done (some _) => ¬ PathNew v0 fs v0 → InitReusable init sm0
  | _ => True

structure K (init : Option File) (v0 sm0 : Nat) (st : CState) : Prop where
  ver : st.srcVer = v0
  mt : st.srcMtime = sm0
  ph : ∀ p, PhaseK init v0 sm0 st.fs (st.procs p).phase

theorem PhaseK.of_fs {init : Option File} {v0 sm0 : Nat} {fs fs' : FS} {ph : Phase}
    (hmono : PathNew v0 fs v0 → PathNew v0 fs' v0) (h : PhaseK init v0 sm0 fs ph) : PhaseK init v0 sm0 fs' ph := by
  cases ph with
  | statted sm => exact h
  | toLoad s => cases s with
    | false => exact fun hn => h (fun hp => hn (hmono hp))
    | true => trivial
  | done r => cases r with
    | none => trivial
    | some c => exact fun hn => h (fun hp => hn (hmono hp))
  | start => trivial
  | toRead _ => trivial
  | writing _ _ _ _ _ => trivial

theorem K.setPhase {init : Option File} {v0 sm0 : Nat} {st : CState} (h : K init v0 sm0 st) (pid : Nat) (ph : Phase)
    (hp : PhaseK init v0 sm0 st.fs ph) : K init v0 sm0 (st.setPhase pid ph) := by
  refine ⟨h.ver, h.mt, fun q => ?_⟩
  by_cases hq : q = pid
  · subst hq; rw [setPhase_self]; exact hp
  · rw [setPhase_other _ _ _ _ hq]; exact h.ph q

theorem stepProc_K {init : Option File} {v0 sm0 : Nat} (st : CState) (pid : Nat) (hj : J init v0 st)
    (h : K init v0 sm0 st) : K init v0 sm0 (stepProc st pid) := by
  have hmono := PathNew_step st (.proc pid) hj
  have hselfJ := hj.ph pid
  have hselfK := h.ph pid
  have hver := h.ver
  have cv : ∀ fs, PathNew v0 fs st.srcVer → PathNew v0 fs v0 := fun fs hp => by rw [hver] at hp; exact hp
  have vc : ∀ fs, PathNew v0 fs v0 → PathNew v0 fs st.srcVer := fun fs hp => by rw [hver]; exact hp
  unfold stepProc
  split
  · exact h.setPhase pid _ h.mt
  · rename_i sm hph
    rw [hph] at hselfK
    have hsm : sm = sm0 := hselfK
    by_cases hd : dueAt st.fs sm = true
    · rw [if_pos hd]; exact h.setPhase pid _ trivial
    · rw [if_neg hd]
      refine h.setPhase pid _ (fun hn => ?_)
      have hinit : st.fs .mod = init := by
        rcases hj.path with hp | hp
        · exact hp
        · exact absurd (cv _ hp) hn
      cases hf : st.fs .mod with
      | none => exact absurd hf (notDue_some st.fs sm (by simpa using hd))
      | some f =>
        refine ⟨f, by rw [← hinit, hf], ?_⟩
        have hd' : dueAt st.fs sm = false := by simpa using hd
        unfold dueAt at hd'
        rw [hf] at hd'
        simp [needsRewrite, staleCmp_is_lt, cmpEval] at hd'
        rw [← hsm]; omega
  · exact h.setPhase pid _ trivial
  · rename_i s new now a r raised hph
    refine ⟨h.ver, h.mt, fun q => ?_⟩
    have hm : PathNew v0 st.fs v0 → PathNew v0 (apply now new a st.fs) v0 := by
      intro hp
      have := hmono (vc _ hp)
      simp only [stepItem, stepProc, hph] at this
      exact cv _ this
    by_cases hq : q = pid
    · subst hq; rw [setPhase_self]; trivial
    · rw [setPhase_other _ _ _ _ hq]
      exact PhaseK.of_fs hm (h.ph q)
  · rename_i s new now raised hph
    rw [hph] at hselfJ
    split
    · exact h.setPhase pid _ trivial
    · rename_i hr
      cases s with
      | true => exact h.setPhase pid _ trivial
      | false =>
        refine h.setPhase pid _ (fun hn => ?_)
        rcases hselfJ.2.2 (by simpa using hr) with hp | hm
        · exact absurd (cv _ hp) hn
        · simp [movedIn] at hm
  · rename_i s hph
    rw [hph] at hselfJ hselfK
    split
    · exact h.setPhase pid _ trivial
    · rename_i f hf
      split
      · exact h.setPhase pid _ trivial
      · split
        · exact h.setPhase pid _ trivial
        · rename_i hreg
          refine h.setPhase pid _ (fun hn => ?_)
          cases s with
          | true => exact absurd (cv _ (hselfJ.2 rfl)) hn
          | false =>
            obtain ⟨f0, hf0, hns⟩ := hselfK hn
            have hinit : st.fs .mod = init := by
              rcases hj.path with hp | hp
              · exact hp
              · exact absurd (cv _ hp) hn
            have : f0 = f := by rw [hinit, hf0] at hf; cases hf; rfl
            subst this
            have hnr : ¬ (f0.content.magic ≠ magicNumber ∨ normOf f0.content.file ≠ normOf 0) :=
              fun hor => hreg ⟨rfl, (regenNeeded_iff f0.content).2 hor⟩
            refine ⟨f0, hf0, hns, ?_, ?_⟩
            · by_cases hm : f0.content.magic = magicNumber
              · exact hm
              · exact absurd (Or.inl hm) hnr
            · by_cases hfi : normOf f0.content.file = normOf 0
              · exact hfi
              · exact absurd (Or.inr hfi) hnr
  · exact h

theorem runC_K {init : Option File} {v0 sm0 : Nat} : ∀ (sched : List SItem) (st : CState), stable sched = true →
    J init v0 st → K init v0 sm0 st → K init v0 sm0 (runC st sched) := by
  intro sched
  induction sched with
  | nil => intro st _ _ h; exact h
  | cons it r ih =>
    intro st hs hj h
    cases it with
    | modify m => simp [stable] at hs
    | proc pid => exact ih _ (by simpa [stable] using hs) (stepItem_J st _ hj) (stepProc_K st pid hj h)
    | setClock t =>
      exact ih _ (by simpa [stable] using hs) (stepItem_J st _ hj) ⟨h.ver, h.mt, h.ph⟩

theorem initial_K (fs : FS) (srcVer srcMtime clock : Nat) (fates1 fates2 : Nat → List Fate) :
    K (fs .mod) srcVer srcMtime (CState.initial fs srcVer srcMtime clock fates1 fates2) :=
  ⟨rfl, rfl, fun _ => trivial⟩

end MakoModel.ModFile
