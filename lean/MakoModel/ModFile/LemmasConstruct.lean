import MakoModel.ModFile.Lemmas
/-! Helper lemmas for C15: one write group, one construct, histories. -/
namespace MakoModel.ModFile
open MakoModel.Generated.ModFile

/-! ### obligations on the regenerated constants -/

theorem staleCmp_is_lt : staleCmp = .lt := by decide
theorem missingCheck_on : missingCheck = true := by decide
theorem magicRecheck_on : magicRecheck = true := by decide
theorem fileRecheck_on : fileRecheck = true := by decide
theorem fileCmpNormalised_on : fileCmpNormalised = true := by decide
@[simp] theorem namesDiffer_eq (a b : Nat) : namesDiffer a b = (normOf a != normOf b) := by
  simp [namesDiffer, fileCmpNormalised_on]
theorem recordsFilenameVerbatim_on : recordsFilenameVerbatim = true := by decide
@[simp] theorem recordedName_eq (n : Nat) : recordedName n = n := by simp [recordedName, recordsFilenameVerbatim_on]
theorem hookArgs_ok : hookArgsOk = true := by decide
theorem writerOps_renames : WOp.rename ∈ writerOps := by decide
theorem tmpInTargetDir_on : tmpInTargetDir = true := by decide

/-- without faults the regenerated writer runs to its end -/
theorem writerOps_completes (i : Nat) : (trace i none false writerOps []).2 = false := by
  simp [writerOps, trace, opActs, fateHd, tmpInTargetDir]

/-! ### a trace that did not raise contains the move -/

theorem trace_moved (i : Nat) : ∀ (ops : List WOp) (cur : Option P) (ht : Bool) (fates : List Fate),
    (trace i cur ht ops fates).2 = false → WOp.rename ∈ ops →
    movedIn (trace i cur ht ops fates).1 = true := by
  intro ops
  induction ops with
  | nil => intro _ _ _ _ h; simp at h
  | cons op ops ih =>
    intro cur ht fates hr hm
    have movedIn_append : ∀ (a b : List Act), movedIn b = true → movedIn (a ++ b) = true := by
      intro a b hb
      induction a with
      | nil => simpa using hb
      | cons x xs ihx => cases x <;> simp [movedIn, ihx]
    cases op with
    | rename =>
      by_cases hf : (fateHd fates = .raise || !ht) = true
      · simp [trace, opActs, hf] at hr
      · simp [trace, opActs, hf, tmpInTargetDir_on, movedIn]
    | mkstemp =>
      have hm' : WOp.rename ∈ ops := by simpa using hm
      by_cases hf : fateHd fates = .raise
      · simp [trace, opActs, hf] at hr
      · simp only [trace, opActs, hf, if_false] at hr ⊢
        exact movedIn_append _ _ (ih _ _ _ hr hm')
    | openDest =>
      have hm' : WOp.rename ∈ ops := by simpa using hm
      by_cases hf : fateHd fates = .raise
      · simp [trace, opActs, hf] at hr
      · simp only [trace, opActs, hf, if_false] at hr ⊢
        exact movedIn_append _ _ (ih _ _ _ hr hm')
    | fsync =>
      have hm' : WOp.rename ∈ ops := by simpa using hm
      by_cases hf : fateHd fates = .raise
      · simp [trace, opActs, hf] at hr
      · simp only [trace, opActs, hf, if_false] at hr ⊢
        exact movedIn_append _ _ (ih _ _ _ hr hm')
    | close =>
      have hm' : WOp.rename ∈ ops := by simpa using hm
      by_cases hf : fateHd fates = .raise
      · simp [trace, opActs, hf] at hr
      · simp only [trace, opActs, hf, if_false] at hr ⊢
        exact movedIn_append _ _ (ih _ _ _ hr hm')
    | write =>
      have hm' : WOp.rename ∈ ops := by simpa using hm
      cases cur with
      | none => simp [trace, opActs] at hr
      | some p =>
        cases hf : fateHd fates with
        | ok =>
          simp only [trace, opActs, hf] at hr ⊢
          exact movedIn_append _ _ (ih _ _ _ hr hm')
        | raise => simp [trace, opActs, hf] at hr
        | short =>
          by_cases hl : writeLoops = true
          · simp only [trace, opActs, hf, hl, if_true] at hr ⊢
            exact movedIn_append _ _ (ih _ _ _ hr hm')
          · simp only [trace, opActs, hf, hl] at hr ⊢
            exact movedIn_append _ _ (ih _ _ _ hr hm')

/-! ### one write group of the default writer -/

theorem cutBudget_take (acts : List Act) (raised : Bool) (b : Option Nat) :
    ∃ k, (cutBudget acts raised b).1 = acts.take k := by
  cases b with
  | none => exact ⟨acts.length, by simp [cutBudget]⟩
  | some k =>
    by_cases h : k < acts.length
    · exact ⟨k, by simp [cutBudget, h]⟩
    · exact ⟨acts.length, by simp [cutBudget, h]⟩

theorem cutBudget_done (acts : List Act) (raised : Bool) (b : Option Nat)
    (h : (cutBudget acts raised b).2.1 = .done) : (cutBudget acts raised b).1 = acts ∧ raised = false := by
  cases b with
  | none => cases raised <;> simp [cutBudget] at h ⊢
  | some k =>
    by_cases hk : k < acts.length
    · simp [cutBudget, hk] at h
    · cases raised <;> simp [cutBudget, hk] at h ⊢

/-- One write group of the default writer under the guard "no short write (or the code writes until
complete)", any raising faults, any crash budget: the module path keeps what it had or holds the
complete new file; it holds the new file when the group ran to its end; no other temp file is touched. -/
theorem group_spec (w : World) (new : Content) (fates : List Fate) (budget : Option Nat)
    (hg : writeLoops = true ∨ Fate.short ∉ fates) :
    let g := defaultWriter w new fates budget
    (g.fs .mod = w.fs .mod ∨ g.fs .mod = some ⟨new, w.clock⟩) ∧
    (g.status = .done → g.fs .mod = some ⟨new, w.clock⟩) ∧
    (∀ j, j ≠ w.nextTmp → g.fs (.tmp j) = w.fs (.tmp j)) ∧
    g.calls = [] := by
  intro g
  have hsafe := writer_trace_safe w.nextTmp fates hg
  obtain ⟨k, hk⟩ := cutBudget_take (trace w.nextTmp none false writerOps fates).1
    (trace w.nextTmp none false writerOps fates).2 budget
  have hsafe' := safeTr_take w.nextTmp _ false k hsafe
  have hx := safe_exec w.nextTmp w.clock new _ false w.fs hsafe' (by simp)
  have hfs : g.fs = exec w.clock new ((trace w.nextTmp none false writerOps fates).1.take k) w.fs := by
    simp only [g, defaultWriter, hk]
  refine ⟨?_, ?_, ?_, rfl⟩
  · rw [hfs]; exact hx.1
  · intro hd
    have hd' : (cutBudget (trace w.nextTmp none false writerOps fates).1
        (trace w.nextTmp none false writerOps fates).2 budget).2.1 = .done := hd
    obtain ⟨hall, hnr⟩ := cutBudget_done _ _ _ hd'
    have hmv := trace_moved w.nextTmp writerOps none false fates hnr writerOps_renames
    have hfs2 : g.fs = exec w.clock new (trace w.nextTmp none false writerOps fates).1 w.fs := by
      simp only [g, defaultWriter, hall]
    have hx2 := safe_exec w.nextTmp w.clock new _ false w.fs hsafe (by simp)
    rw [hfs2]; exact hx2.2.2 hmv
  · rw [hfs]; exact hx.2.1

/-! ### one construct: the module path -/

/-- `f` is a complete module generated now from the current source by the current generator -/
def IsNew (w : World) (f : File) : Prop :=
  f.mtime = w.clock ∧ f.content.src = w.srcVer ∧ f.content.magic = magicNumber ∧ f.content.complete = true ∧
  f.content.file = w.fileId

theorem newContent_isNew (w : World) (sz : Nat) : IsNew w ⟨newContent w sz, w.clock⟩ := by
  simp [IsNew, newContent]

/-- the module path after `phase2` (load, magic re-check, second write group, load) -/
theorem phase2_fs (w1 : World) (p : Plan) (left : Option Nat) (acts : List Act) (n : Nat)
    (calls : List (Content × P)) (hg : writeLoops = true ∨ Fate.short ∉ p.fates2) :
    ((phase2 defaultWriter w1 p left acts n calls).world.fs .mod = w1.fs .mod ∨
      ∃ f, (phase2 defaultWriter w1 p left acts n calls).world.fs .mod = some f ∧ IsNew w1 f) := by
  unfold phase2
  split
  · left; rfl
  · rename_i c pyc1 _
    have hgs := group_spec { w1 with pyc := pyc1 } (newContent { w1 with pyc := pyc1 } p.size2) p.fates2 left hg
    have hnew : IsNew w1 ⟨newContent { w1 with pyc := pyc1 } p.size2, w1.clock⟩ := by
      simp [IsNew, newContent]
    have hcase : (defaultWriter { w1 with pyc := pyc1 } (newContent { w1 with pyc := pyc1 } p.size2) p.fates2 left).fs .mod
        = w1.fs .mod ∨ ∃ f, (defaultWriter { w1 with pyc := pyc1 } (newContent { w1 with pyc := pyc1 } p.size2)
          p.fates2 left).fs .mod = some f ∧ IsNew w1 f := by
      rcases hgs.1 with h | h
      · left; exact h
      · right; exact ⟨_, h, hnew⟩
    dsimp only
    split
    · split
      · simpa [afterGroup] using hcase
      · split
        · simpa [afterGroup] using hcase
        · simpa [afterGroup] using hcase
    · left; rfl

/-- **the module path after one construct**, any plan under the guard: what it held before, or a complete
module generated from the current source -/
theorem construct_fs (w : World) (p : Plan) (hg : p.guard) :
    ((construct defaultWriter w p).world.fs .mod = w.fs .mod ∨
      ∃ f, (construct defaultWriter w p).world.fs .mod = some f ∧ IsNew w f) := by
  have hg1 : writeLoops = true ∨ Fate.short ∉ p.fates1 := by
    rcases hg with h | h
    · exact Or.inl h
    · exact Or.inr h.1
  have hg2 : writeLoops = true ∨ Fate.short ∉ p.fates2 := by
    rcases hg with h | h
    · exact Or.inl h
    · exact Or.inr h.2
  unfold construct
  have hgs := group_spec w (newContent w p.size1) p.fates1 p.crash hg1
  have hcase : (defaultWriter w (newContent w p.size1) p.fates1 p.crash).fs .mod = w.fs .mod ∨
      ∃ f, (defaultWriter w (newContent w p.size1) p.fates1 p.crash).fs .mod = some f ∧ IsNew w f := by
    rcases hgs.1 with h | h
    · left; exact h
    · right; exact ⟨_, h, newContent_isNew w p.size1⟩
  dsimp only
  split
  · split
    · simpa [afterGroup] using hcase
    · have h2 := phase2_fs (afterGroup w (defaultWriter w (newContent w p.size1) p.fates1 p.crash)) p
        (defaultWriter w (newContent w p.size1) p.fates1 p.crash).left
        (defaultWriter w (newContent w p.size1) p.fates1 p.crash).acts 1
        (defaultWriter w (newContent w p.size1) p.fates1 p.crash).calls hg2
      rcases h2 with h2 | ⟨f, hf, hn⟩
      · rw [h2]; simpa [afterGroup] using hcase
      · right; exact ⟨f, hf, by simpa [IsNew, afterGroup] using hn⟩
  · exact phase2_fs w p p.crash [] 0 [] hg2

theorem construct_good (w : World) (p : Plan) (hg : p.guard) (h : Good w.fs) :
    Good (construct defaultWriter w p).world.fs := by
  intro f hf
  rcases construct_fs w p hg with h1 | ⟨f', hf', hn⟩
  · exact h f (by rw [← h1]; exact hf)
  · rw [hf'] at hf; cases hf; exact hn.2.2.2.1

/-- the invariant of histories -/
theorem stepH_good (w : World) (op : HOp) (hop : op.ok) (h : Good w.fs) : Good (stepH w op).fs := by
  cases op with
  | modifySrc m => exact h
  | deleteMod => intro f hf; simp [stepH] at hf
  | replaceMod c m => intro f hf; simp [stepH] at hf; subst hf; exact hop
  | setClock t => exact h
  | construct p => exact construct_good w p hop h
  | respell n => exact h

theorem runH_good : ∀ (h : List HOp) (w : World), HistOk h → Good w.fs → Good (runH w h).fs := by
  intro h
  induction h with
  | nil => intro w _ hw; exact hw
  | cons op r ih =>
    intro w hok hw
    have h1 : op.ok := hok op (by simp)
    have h2 : HistOk r := fun o ho => hok o (by simp [ho])
    exact ih (stepH w op) h2 (stepH_good w op h1 hw)

/-! ### loading, and a construct without faults -/

theorem isDue_iff (w : World) :
    isDue w = true ↔ (w.fs .mod = none ∨ ∃ f, w.fs .mod = some f ∧ f.mtime < w.srcMtime) := by
  unfold isDue needsRewrite
  rw [staleCmp_is_lt, missingCheck_on]
  cases h : w.fs .mod with
  | none => simp
  | some f => simp [cmpEval]

/-- loading a complete file when the bytecode cache, if its key matches, agrees with the file -/
theorem loadMod_fresh (w : World) (f : File) (hf : w.fs .mod = some f) (hc : f.content.complete = true)
    (hmiss : ∀ m s c, w.pyc = some (m, s, c) → m = f.mtime → s = f.content.size → c = f.content) :
    ∃ pyc1, loadMod w = (some f.content, pyc1) ∧
      (pyc1 = w.pyc ∨ (w.pycOn = true ∧ pyc1 = some (f.mtime, f.content.size, f.content))) := by
  unfold loadMod
  rw [hf]
  cases hp : w.pyc with
  | none =>
    simp only [hc, if_true]
    by_cases hon : w.pycOn = true
    · exact ⟨_, rfl, by simp [hon]⟩
    · exact ⟨_, rfl, by simp [hon]⟩
  | some t =>
    obtain ⟨m, s, c⟩ := t
    simp only
    by_cases hk : m = f.mtime ∧ s = f.content.size
    · have := hmiss m s c hp hk.1 hk.2
      subst this
      exact ⟨_, by simp [hk], Or.inl rfl⟩
    · simp only [hk, if_false, hc, if_true]
      by_cases hon : w.pycOn = true
      · exact ⟨_, rfl, by simp [hon]⟩
      · exact ⟨_, rfl, by simp [hon]⟩

theorem phase2_reuse (wr : Writer) (w1 : World) (p : Plan) (left : Option Nat) (acts : List Act) (n : Nat)
    (calls : List (Content × P)) (c : Content) (pyc1 : Option (Nat × Nat × Content))
    (hl : loadMod w1 = (some c, pyc1)) (hm : c.magic = magicNumber) (hfile : normOf c.file = normOf w1.fileId) :
    phase2 wr w1 p left acts n calls = ⟨{ w1 with pyc := pyc1 }, .served c, acts, n, calls⟩ := by
  simp [phase2, hl, needsRegen, hm, hfile]

theorem phase2_rewrite (wr : Writer) (w1 : World) (p : Plan) (left : Option Nat) (acts : List Act) (n : Nat)
    (calls : List (Content × P)) (c c2 : Content) (pyc1 pyc2 : Option (Nat × Nat × Content))
    (hl : loadMod w1 = (some c, pyc1)) (hm : c.magic ≠ magicNumber ∨ normOf c.file ≠ normOf w1.fileId)
    (hd : (wr { w1 with pyc := pyc1 } (newContent { w1 with pyc := pyc1 } p.size2) p.fates2 left).status = .done)
    (hl2 : loadMod (afterGroup { w1 with pyc := pyc1 }
      (wr { w1 with pyc := pyc1 } (newContent { w1 with pyc := pyc1 } p.size2) p.fates2 left)) = (some c2, pyc2)) :
    phase2 wr w1 p left acts n calls =
      ⟨{ afterGroup { w1 with pyc := pyc1 }
          (wr { w1 with pyc := pyc1 } (newContent { w1 with pyc := pyc1 } p.size2) p.fates2 left) with pyc := pyc2 },
        .served c2,
        acts ++ (wr { w1 with pyc := pyc1 } (newContent { w1 with pyc := pyc1 } p.size2) p.fates2 left).acts, n + 1,
        calls ++ (wr { w1 with pyc := pyc1 } (newContent { w1 with pyc := pyc1 } p.size2) p.fates2 left).calls⟩ := by
  have hr : needsRegen w1 c = true := by
    rcases hm with hm | hm <;> simp [needsRegen, magicRecheck_on, fileRecheck_on, hm]
  simp [phase2, hl, hr, hd, hl2]

def Plan.noFault (p : Plan) : Prop := p.fates1 = [] ∧ p.fates2 = [] ∧ p.crash = none

theorem group_nofault (w : World) (new : Content) :
    (defaultWriter w new [] none).status = .done ∧ (defaultWriter w new [] none).left = none ∧
    (defaultWriter w new [] none).fs .mod = some ⟨new, w.clock⟩ := by
  have h1 : (defaultWriter w new [] none).status = .done := by
    simp [defaultWriter, cutBudget, writerOps_completes]
  exact ⟨h1, by simp [defaultWriter, cutBudget], (group_spec w new [] none (Or.inr (by simp))).2.1 h1⟩

/-- the bytecode cache entry after a write group: the one before, unless the code drops it -/
theorem afterGroup_pyc' {w : World} {g : GroupOut} {x : Nat × Nat × Content}
    (h : (afterGroup w g).pyc = some x) :
    (if g.viaHook then dropsBytecodeHook else dropsBytecode) = false ∧ w.pyc = some x := by
  simp only [afterGroup] at h
  cases hd : (if g.viaHook then dropsBytecodeHook else dropsBytecode) with
  | true => rw [hd] at h; simp at h
  | false => rw [hd] at h; exact ⟨rfl, by simpa using h⟩

/-- after the built-in writer -/
theorem afterGroup_pyc {w : World} {g : GroupOut} {x : Nat × Nat × Content} (hv : g.viaHook = false)
    (h : (afterGroup w g).pyc = some x) : dropsBytecode = false ∧ w.pyc = some x := by
  have := afterGroup_pyc' h
  rw [hv] at this
  simpa using this

/-- case A: the staleness test fires -/
theorem construct_due (w : World) (p : Plan) (hp : p.noFault) (hfresh : dropsBytecode = true ∨ PycFresh w p)
    (hd : isDue w = true) :
    (construct defaultWriter w p).writes = 1 ∧
    (construct defaultWriter w p).res = .served (newContent w p.size1) ∧
    (construct defaultWriter w p).world.fs .mod = some ⟨newContent w p.size1, w.clock⟩ := by
  obtain ⟨h1, h2, h3⟩ := hp
  obtain ⟨gd, gl, gm⟩ := group_nofault w (newContent w p.size1)
  have hload := loadMod_fresh (afterGroup w (defaultWriter w (newContent w p.size1) [] none))
    ⟨newContent w p.size1, w.clock⟩ (by simpa [afterGroup] using gm) (by simp [newContent])
    (by
      intro m s c hpyc hm hs
      obtain ⟨hnd, hpyc⟩ := afterGroup_pyc rfl hpyc
      rcases hfresh with hfix | hfresh
      · rw [hfix] at hnd; cases hnd
      · exact absurd ⟨hm, Or.inl hs⟩ (hfresh.1 m s c hpyc))
  obtain ⟨pyc1, hl, _⟩ := hload
  have hc : construct defaultWriter w p =
      phase2 defaultWriter (afterGroup w (defaultWriter w (newContent w p.size1) [] none)) p none
        (defaultWriter w (newContent w p.size1) [] none).acts 1 [] := by
    unfold construct
    simp only [hd, if_true, h1, h3, gd, gl]
    simp [defaultWriter]
  rw [hc, phase2_reuse _ _ _ _ _ _ _ _ _ hl (by simp [newContent]) (by simp [newContent, afterGroup])]
  exact ⟨rfl, rfl, by simpa [afterGroup] using gm⟩

/-- case B: fresh file, right magic number: reused, nothing is touched -/
theorem construct_reuse (w : World) (p : Plan) (hgood : Good w.fs) (hcoh : PycCoherent w)
    (hd : isDue w = false) (f : File) (hf : w.fs .mod = some f) (hm : f.content.magic = magicNumber)
    (hfile : normOf f.content.file = normOf w.fileId) :
    (construct defaultWriter w p).writes = 0 ∧
    (construct defaultWriter w p).res = .served f.content ∧
    (construct defaultWriter w p).world.fs = w.fs ∧
    (construct defaultWriter w p).acts = [] := by
  obtain ⟨pyc1, hl, _⟩ := loadMod_fresh w f hf (hgood f hf) (fun m s c hp h1 h2 => hcoh m s c f hp hf h1 h2)
  have hc : construct defaultWriter w p = phase2 defaultWriter w p p.crash [] 0 [] := by
    unfold construct; simp [hd]
  rw [hc, phase2_reuse _ _ _ _ _ _ _ _ _ hl hm hfile]
  exact ⟨rfl, rfl, rfl, rfl⟩

/-- case C: fresh file, other magic number: rewritten after the first load, and loaded again -/
theorem construct_magic (w : World) (p : Plan) (hp : p.noFault) (hgood : Good w.fs) (hcoh : PycCoherent w)
    (hfresh : dropsBytecode = true ∨ PycFresh w p) (hd : isDue w = false) (f : File) (hf : w.fs .mod = some f)
    (hm : f.content.magic ≠ magicNumber ∨ normOf f.content.file ≠ normOf w.fileId) :
    (construct defaultWriter w p).writes = 1 ∧
    (construct defaultWriter w p).res = .served (newContent w p.size2) ∧
    (construct defaultWriter w p).world.fs .mod = some ⟨newContent w p.size2, w.clock⟩ := by
  obtain ⟨h1, h2, h3⟩ := hp
  obtain ⟨pyc1, hl, hpyc1⟩ := loadMod_fresh w f hf (hgood f hf) (fun m s c hp h1 h2 => hcoh m s c f hp hf h1 h2)
  have hc : construct defaultWriter w p = phase2 defaultWriter w p none [] 0 [] := by
    unfold construct; simp [hd, h3]
  obtain ⟨gd, gl, gm⟩ := group_nofault { w with pyc := pyc1 } (newContent { w with pyc := pyc1 } p.size2)
  have hload := loadMod_fresh (afterGroup { w with pyc := pyc1 }
      (defaultWriter { w with pyc := pyc1 } (newContent { w with pyc := pyc1 } p.size2) [] none))
    ⟨newContent w p.size2, w.clock⟩ (by simpa [afterGroup, newContent] using gm) (by simp [newContent])
    (by
      intro m s c hpyc hm' hs
      obtain ⟨hnd, hpyc'⟩ := afterGroup_pyc rfl hpyc
      have hpyc' : pyc1 = some (m, s, c) := hpyc'
      have hfresh : PycFresh w p := by
        rcases hfresh with hfix | hfresh
        · rw [hfix] at hnd; cases hnd
        · exact hfresh
      rcases hpyc1 with e | e
      · exact absurd ⟨hm', Or.inr hs⟩ (hfresh.1 m s c (by rw [← e]; exact hpyc'))
      · obtain ⟨hon, e⟩ := e
        rw [e] at hpyc'
        simp only [Option.some.injEq, Prod.mk.injEq] at hpyc'
        obtain ⟨e1, e2, _⟩ := hpyc'
        exact absurd ⟨by rw [e1]; exact hm', by rw [e2]; simpa [newContent] using hs⟩ (hfresh.2 hon f hf))
  obtain ⟨pyc2, hl2, _⟩ := hload
  rw [hc, phase2_rewrite _ _ _ _ _ _ _ _ _ _ _ hl hm (by rw [h2]; exact gd) (by rw [h2]; exact hl2)]
  refine ⟨rfl, rfl, ?_⟩
  rw [h2]
  simpa [afterGroup, newContent] using gm

end MakoModel.ModFile
