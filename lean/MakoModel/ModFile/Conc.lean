import MakoModel.ModFile.Model
/-!
# Whole constructs as interleavable step machines

`m` processes (here: one per natural number; a process that is never scheduled again has died) construct
the same `Template(filename=…, module_directory=…)`.  Each is the step sequence of `_compile_from_file`:

`stat source` · `exists/stat module` (staleness decision) · [`read source + compile` · the actions of the
regenerated writer, one at a time] · `load` · [re-check: other magic number / other template file ·
`read source + compile` · writer actions · `load`].

The writer actions are those of the code as it is (`mkstemp`, the write through the file object - which passes
through a half-written state -, the close of the `with` block, the rename); a process killed between two of
them is a process that gets no further step.  Between any two steps any other process may take steps, the source may be modified (`SItem.modify`) and the
clock may move.  A schedule is an arbitrary `List SItem`.  The bytecode cache is not part of this model (it is
part of the sequential one); temp names are `2·pid` (first write group) and `2·pid+1` (second).
-/
namespace MakoModel.ModFile
open MakoModel.Generated.ModFile

inductive Phase
  | start
  | statted (sm : Nat)                    -- the source's mtime has been read
  | toRead (second : Bool)                -- a (re)write was decided: next the source is read and compiled
  | writing (second : Bool) (new : Content) (now : Nat) (rem : List Act) (raised : Bool)
  | toLoad (second : Bool)
  | done (r : Option Content)             -- served `c` / the constructor raised
  deriving DecidableEq, Repr

structure CProc where
  phase : Phase
  fates1 : List Fate
  fates2 : List Fate

structure CState where
  fs : FS
  srcVer : Nat
  srcMtime : Nat
  clock : Nat
  procs : Nat → CProc

def tmpId (pid : Nat) (second : Bool) : Nat := 2 * pid + (if second then 1 else 0)

/-- the re-check after loading, for the template file `0` -/
def regenNeeded (c : Content) : Bool :=
  (magicRecheck && c.magic != magicNumber) || (fileRecheck && namesDiffer c.file 0)

def CState.setPhase (st : CState) (pid : Nat) (ph : Phase) : CState :=
  { st with procs := fun q => if q = pid then { st.procs pid with phase := ph } else st.procs q }

/-- `not os.path.exists(path) or os.stat(path)[ST_MTIME] < filemtime`, with the source mtime read earlier -/
def dueAt (fs : FS) (sm : Nat) : Bool :=
  match fs .mod with
  | none => needsRewrite false 0 sm
  | some f => needsRewrite true f.mtime sm

/-- one step of process `pid` -/
def stepProc (st : CState) (pid : Nat) : CState :=
  match (st.procs pid).phase with
  | .start => st.setPhase pid (.statted st.srcMtime)
  | .statted sm =>
    st.setPhase pid (if dueAt st.fs sm then .toRead false else .toLoad false)
  | .toRead s =>
    let new : Content := ⟨st.srcVer, magicNumber, true, tmpId pid s, 1, recordedName 0⟩
    let tr := trace (tmpId pid s) none false writerOps (if s then (st.procs pid).fates2 else (st.procs pid).fates1)
    st.setPhase pid (.writing s new st.clock tr.1 tr.2)
  | .writing s new now (a :: r) raised =>
    { st with fs := apply now new a st.fs }.setPhase pid (.writing s new now r raised)
  | .writing s _ _ [] raised => st.setPhase pid (if raised then .done none else .toLoad s)
  | .toLoad s =>
    match st.fs .mod with
    | none => st.setPhase pid (.done none)
    | some f =>
      if f.content.complete = false then st.setPhase pid (.done none)
      else if s = false ∧ regenNeeded f.content = true then st.setPhase pid (.toRead true)
      else st.setPhase pid (.done (some f.content))
  | .done _ => st

/-- items of a schedule: a process step, a modification of the source, a move of the clock -/
inductive SItem
  | proc (pid : Nat)
  | modify (mtime : Nat)
  | setClock (t : Nat)
  deriving Repr

def stepItem (st : CState) : SItem → CState
  | .proc pid => stepProc st pid
  | .modify m => { st with srcVer := st.srcVer + 1, srcMtime := m }
  | .setClock t => { st with clock := t }

def runC (st : CState) (sched : List SItem) : CState := sched.foldl stepItem st

/-- all processes at their start -/
def CState.initial (fs : FS) (srcVer srcMtime clock : Nat) (fates1 fates2 : Nat → List Fate) : CState :=
  { fs := fs, srcVer := srcVer, srcMtime := srcMtime, clock := clock,
    procs := fun q => ⟨.start, fates1 q, fates2 q⟩ }

/-- the schedule leaves the source alone -/
def stable : List SItem → Bool
  | [] => true
  | .modify _ :: _ => false
  | _ :: r => stable r

/-! ### predicates of the theorems -/

/-- a complete module of the current generator, for this template file, of a source version that was
current at some point of the run (`v0` = the version when the run began) -/
def NewLike (v0 cur : Nat) (c : Content) : Prop :=
  c.complete = true ∧ c.magic = magicNumber ∧ c.file = 0 ∧ v0 ≤ c.src ∧ c.src ≤ cur

def PathNew (v0 : Nat) (fs : FS) (cur : Nat) : Prop := ∃ f, fs .mod = some f ∧ NewLike v0 cur f.content

end MakoModel.ModFile
