import MakoModel.Basic.Wire
import MakoModel.ModFile.Model
import MakoModel.ModFile.Conc
/-! Driver handler for the module-file model:

`modfile hist <pycOn> <tok>…` - run a history; tokens: `S<mtime>` modify source, `D` delete module,
`R<src>.<magic>.<mtime>.<size>.<file>` replace module (complete; file 0 = this template file), `K<t>` set clock, `F<n>` later Templates are given spelling `n` of the file name,
`C<f1>/<f2>/<crash>/<s1>/<s2>` construct (fates over `o r s`, `-` = none; crash `n` or a number),
`H…` same with a `module_writer` that installs what it is given, `N…` with one that does nothing.
Answer: one record per construct, `;`-separated:
`res|writes|acts|calls|module path|temp files`.

`modfile conc <initmod> <srcVer> <srcMtime> <clock> <m> <item>…` - interleaved constructs: `initmod` is `none` or
`<src>.<magic>.<mtime>.<file>`; items: a pid, `M<mtime>` (modify source), `K<t>` (clock).  Answer: the outcome of
processes `0..m-1` (`served:<content>` / `failed` / `running`), `|`, the module path.

`modfile vdir <exists> <failures>` - `verify_directory`: `<makedirs calls> <raised>`.
-/
namespace MakoModel.ModFile.Drv
open MakoModel.Wire MakoModel.ModFile MakoModel.Generated.ModFile

def decFates (s : String) : Option (List Fate) :=
  if s == "-" then some [] else
    s.toList.mapM fun c =>
      if c = 'o' then some Fate.ok else if c = 'r' then some Fate.raise else if c = 's' then some Fate.short else none

def decPlan (s : String) : Option Plan :=
  match s.splitOn "/" with
  | [f1, f2, cr, s1, s2] => do
    let f1 ← decFates f1
    let f2 ← decFates f2
    let cr ← if cr == "n" then some none else cr.toNat?.map some
    let s1 ← s1.toNat?
    let s2 ← s2.toNat?
    pure { fates1 := f1, fates2 := f2, crash := cr, size1 := s1, size2 := s2 }
  | _ => none

def encP : P → String
  | .mod => "mod"
  | .tmp i => "tmp" ++ toString i

def encAct : Act → String
  | .create i => "create" ++ toString i
  | .trunc => "trunc"
  | .fill p b => (if b then "fillf:" else "fillp:") ++ encP p
  | .nop => "nop"
  | .move i => "move" ++ toString i
  | .copy i => "copy" ++ toString i
  | .unlink i => "unlink" ++ toString i

def encContent (c : Content) : String :=
  s!"{c.src}:{c.magic}:{if c.complete then 1 else 0}:{c.stamp}:{c.file}"

def encFile : Option File → String
  | none => "none"
  | some f => encContent f.content ++ "@" ++ toString f.mtime

def encRes : Res → String
  | .served c => "served:" ++ encContent c
  | .failed => "failed"
  | .died => "died"

def encOut (o : Out) : String :=
  let acts := if o.acts.isEmpty then "-" else ",".intercalate (o.acts.map encAct)
  let calls := if o.calls.isEmpty then "-" else ",".intercalate (o.calls.map fun x => encContent x.1 ++ ">" ++ encP x.2)
  let temps := (List.range o.world.nextTmp).filterMap fun i =>
    (o.world.fs (.tmp i)).map fun f => s!"tmp{i}={encContent f.content}"
  let temps := if temps.isEmpty then "-" else ",".intercalate temps
  "|".intercalate [encRes o.res, toString o.writes, acts, calls, encFile (o.world.fs .mod), temps]

/-- a hook that installs what it is given (mtime = the clock is applied by the caller) -/
def installHook (now : Nat) : Content → FS → FS := fun c fs => fs.set .mod (some ⟨c, now⟩)

def stepTok (st : World × List String) (tok : String) : Option (World × List String) :=
  let (w, out) := st
  let body := (tok.drop 1).toString
  match tok.toList.head? with
  | some 'S' => do let m ← body.toNat?; pure (stepH w (.modifySrc m), out)
  | some 'D' => pure (stepH w .deleteMod, out)
  | some 'K' => do let t ← body.toNat?; pure (stepH w (.setClock t), out)
  | some 'F' => do let n ← body.toNat?; pure (stepH w (.respell n), out)
  | some 'R' =>
    match body.splitOn "." with
    | [a, b, c, d, e] => do
      let a ← a.toNat?; let b ← b.toNat?; let c ← c.toNat?; let d ← d.toNat?; let e ← e.toNat?
      pure (stepH w (.replaceMod ⟨a, b, true, 1000000, d, e⟩ c), out)
    | _ => none
  | some 'C' => do
    let p ← decPlan body
    let o := construct defaultWriter w p
    pure (o.world, out ++ [encOut o])
  | some 'H' => do
    let p ← decPlan body
    let o := construct (hookWriter (installHook w.clock)) w p
    pure (o.world, out ++ [encOut o])
  | some 'N' => do
    let p ← decPlan body
    let o := construct (hookWriter fun _ fs => fs) w p
    pure (o.world, out ++ [encOut o])
  | _ => none

def decItem (t : String) : Option SItem :=
  match t.toList.head? with
  | some 'M' => (t.drop 1).toString.toNat?.map SItem.modify
  | some 'K' => (t.drop 1).toString.toNat?.map SItem.setClock
  | _ => t.toNat?.map SItem.proc

def encPhase : Phase → String
  | .done (some c) => "served:" ++ encContent c
  | .done none => "failed"
  | _ => "running"

def handle : Handler
  | "conc" :: initmod :: v :: sm :: ck :: m :: items => do
    let v ← v.toNat?; let sm ← sm.toNat?; let ck ← ck.toNat?; let m ← m.toNat?
    let fs0 : FS ← if initmod == "none" then some FS.empty else
      match initmod.splitOn "." with
      | [a, b, c, d] => do
        let a ← a.toNat?; let b ← b.toNat?; let c ← c.toNat?; let d ← d.toNat?
        pure (FS.empty.set .mod (some ⟨⟨a, b, true, 1000000, 1, d⟩, c⟩))
      | _ => none
    let sched ← items.mapM decItem
    let st := runC (CState.initial fs0 v sm ck (fun _ => []) (fun _ => [])) sched
    pure (";".intercalate ((List.range m).map fun p => encPhase (st.procs p).phase) ++ "|" ++ encFile (st.fs .mod))
  | "hist" :: pycOn :: toks => do
    let on ← decBool pycOn
    let st ← toks.foldlM stepTok ({ World.init with pycOn := on }, [])
    pure (if st.2.isEmpty then "-" else ";".intercalate st.2)
  | ["vdir", e, f] => do
    let e ← decBool e
    let f ← f.toNat?
    let r := verifyDir e f
    pure s!"{r.1} {encBool r.2}"
  | ["consts"] =>
    pure s!"{magicNumber} {verifyDirMaxTries} {encBool writeLoops} {encBool tmpInTargetDir} {encBool magicRecheck} {encBool fileRecheck} {encBool dropsBytecode}"
  | _ => none

end MakoModel.ModFile.Drv
