import MakoModel.Namespace.Lemmas
/-!
Invariant of the resolution log of the interpreter (used by `uri_relative_to_caller` in Props/C07):
every `_lookup_template` event was resolved with `adjust_uri` against the recorded `relativeto`, and the events of
tags (`<%include>`, `<%namespace file>`, `<%inherit>`) have as `relativeto` the URI of a template of the set whose
text contains that tag.  A Hoare-style predicate over the state monad keeps the proofs compositional.
-/
namespace MakoModel.Namespace
open MakoModel.Path (adjustUri)

def LogInv (P : Event → Prop) (s : St) : Prop := ∀ e ∈ s.log, P e

/-- `m` keeps the log invariant (also when it raises) and its result satisfies `Q` -/
def Hoare {α} (P : Event → Prop) (m : M α) (Q : α → Prop) : Prop :=
  ∀ s, LogInv P s → match m s with
    | .ok a s' => LogInv P s' ∧ Q a
    | .err _ s' => LogInv P s'

theorem hoare_pure {α} {P : Event → Prop} {Q : α → Prop} (a : α) (h : Q a) : Hoare P (pure a) Q :=
  fun _ hs => ⟨hs, h⟩

theorem hoare_throw {α} {P : Event → Prop} {Q : α → Prop} (e : Err) : Hoare P (throw e : M α) Q :=
  fun _ hs => hs

theorem hoare_bind {α β} {P : Event → Prop} {m : M α} {f : α → M β} {Q : α → Prop} {R : β → Prop}
    (hm : Hoare P m Q) (hf : ∀ a, Q a → Hoare P (f a) R) : Hoare P (m >>= f) R := by
  intro s hs
  have h1 := hm s hs
  simp only [bind_apply]
  cases hms : m s with
  | ok a s' =>
    rw [hms] at h1
    exact hf a h1.2 s' h1.1
  | err e s' =>
    rw [hms] at h1
    exact h1

theorem hoare_ite {α} {P : Event → Prop} {c : Prop} [Decidable c] {a b : M α} {Q : α → Prop}
    (ha : Hoare P a Q) (hb : Hoare P b Q) : Hoare P (if c then a else b) Q := by
  split
  · exact ha
  · exact hb

theorem hoare_weaken {α} {P : Event → Prop} {m : M α} {Q R : α → Prop} (hm : Hoare P m Q) (h : ∀ a, Q a → R a) :
    Hoare P m R := by
  intro s hs
  have h1 := hm s hs
  cases hms : m s with
  | ok a s' => rw [hms] at h1; exact ⟨h1.1, h a h1.2⟩
  | err e s' => rw [hms] at h1; exact h1

theorem hoare_map {α β} {P : Event → Prop} {m : M α} (f : α → β) {Q : α → Prop} {R : β → Prop}
    (hm : Hoare P m Q) (h : ∀ a, Q a → R (f a)) : Hoare P (f <$> m) R := by
  intro s hs
  have h1 := hm s hs
  simp only [map_apply]
  cases hms : m s with
  | ok a s' => rw [hms] at h1; exact ⟨h1.1, h a h1.2⟩
  | err e s' => rw [hms] at h1; exact h1

/-- a computation that does not touch the log -/
theorem hoare_nolog {α} {P : Event → Prop} {m : M α} (h : ∀ s, (m s).st.log = s.log) : Hoare P m (fun _ => True) := by
  intro s hs
  have := h s
  cases hms : m s with
  | ok a s' =>
    rw [hms] at this
    simp only [Res.st] at this
    exact ⟨fun e he => hs e (this ▸ he), trivial⟩
  | err e s' =>
    rw [hms] at this
    simp only [Res.st] at this
    exact fun e he => hs e (this ▸ he)

theorem nolog_getCtx (i : Nat) (s : St) : ((getCtx i) s).st.log = s.log := by
  unfold getCtx; cases s.ctxs[i]? <;> rfl
theorem nolog_getNs (i : Nat) (s : St) : ((getNs i) s).st.log = s.log := by
  unfold getNs; cases s.nss[i]? <;> rfl
theorem nolog_newCtx (c : Ctx) (s : St) : ((newCtx c) s).st.log = s.log := rfl
theorem nolog_newNs (o : NsObj) (s : St) : ((newNs o) s).st.log = s.log := rfl
theorem nolog_setCtx (i : Nat) (f : Ctx → Ctx) (s : St) : ((setCtx i f) s).st.log = s.log := rfl
theorem nolog_setNs (i : Nat) (f : NsObj → NsObj) (s : St) : ((setNs i f) s).st.log = s.log := rfl
theorem nolog_cacheGet (k : CacheKey) (s : St) : ((cacheGet k) s).st.log = s.log := rfl
theorem nolog_cachePut (k : CacheKey) (i : Nat) (s : St) : ((cachePut k i) s).st.log = s.log := rfl
theorem nolog_emit (p : Str) (s : St) : ((emit p) s).st.log = s.log := rfl
theorem nolog_getSt (s : St) : (getSt s).st.log = s.log := rfl
theorem nolog_getattrM (S : TSet) (i : Nat) (k : Str) (s : St) : ((getattrM S i k) s).st.log = s.log := by
  unfold getattrM; cases nsGetattr S s i k <;> rfl
theorem nolog_lastInheritsM (i : Nat) (s : St) : ((lastInheritsM i) s).st.log = s.log := by
  unfold lastInheritsM; cases lastInherits s (s.nss.length + 1) i <;> rfl

theorem hoare_getCtx {P} (i : Nat) : Hoare P (getCtx i) (fun _ => True) := hoare_nolog (nolog_getCtx i)
theorem hoare_getNs {P} (i : Nat) : Hoare P (getNs i) (fun _ => True) := hoare_nolog (nolog_getNs i)
theorem hoare_newCtx {P} (c : Ctx) : Hoare P (newCtx c) (fun _ => True) := hoare_nolog (nolog_newCtx c)
theorem hoare_newNs {P} (o : NsObj) : Hoare P (newNs o) (fun _ => True) := hoare_nolog (nolog_newNs o)
theorem hoare_setCtx {P} (i : Nat) (f : Ctx → Ctx) : Hoare P (setCtx i f) (fun _ => True) := hoare_nolog (nolog_setCtx i f)
theorem hoare_setNs {P} (i : Nat) (f : NsObj → NsObj) : Hoare P (setNs i f) (fun _ => True) := hoare_nolog (nolog_setNs i f)
theorem hoare_cacheGet {P} (k : CacheKey) : Hoare P (cacheGet k) (fun _ => True) := hoare_nolog (nolog_cacheGet k)
theorem hoare_cachePut {P} (k : CacheKey) (i : Nat) : Hoare P (cachePut k i) (fun _ => True) := hoare_nolog (nolog_cachePut k i)
theorem hoare_emit {P} (p : Str) : Hoare P (emit p) (fun _ => True) := hoare_nolog (nolog_emit p)
theorem hoare_getSt {P} : Hoare P getSt (fun _ => True) := hoare_nolog nolog_getSt
theorem hoare_getattrM {P} (S : TSet) (i : Nat) (k : Str) : Hoare P (getattrM S i k) (fun _ => True) :=
  hoare_nolog (nolog_getattrM S i k)
theorem hoare_lastInheritsM {P} (i : Nat) : Hoare P (lastInheritsM i) (fun _ => True) := hoare_nolog (nolog_lastInheritsM i)

theorem hoare_populate {P} (S : TSet) (id : Nat) (l : List Str) (d : List (Str × Value)) :
    Hoare P (populate S id l d) (fun _ => True) := by
  induction l generalizing d with
  | nil => exact hoare_pure _ trivial
  | cons ident r ih =>
    unfold populate
    split
    · exact hoare_bind (hoare_getNs id) fun o _ => ih _
    · exact hoare_bind (hoare_getattrM S id ident) fun v _ => ih _

/-- the only writer of the log -/
theorem hoare_lookupTemplate {P : Event → Prop} (S : TSet) (kind : EvKind) (raw : Str) (rel : Option Str)
    (h : ∀ u b, adjustUri raw rel = some u → P ⟨kind, rel, raw, u, b⟩) :
    Hoare P (lookupTemplate S kind raw rel) (fun r => setLookup S r.1 = .found r.2) := by
  intro s hs
  unfold lookupTemplate
  cases hadj : adjustUri raw rel with
  | none => exact hs
  | some u =>
    simp only
    cases hl : setLookup S u with
    | found t =>
      refine ⟨fun e he => ?_, hl⟩
      rcases List.mem_cons.1 he with rfl | he'
      · exact h u true hadj
      · exact hs e he'
    | notFound =>
      intro e he
      rcases List.mem_cons.1 he with rfl | he'
      · exact h u false hadj
      · exact hs e he'
    | invalid =>
      intro e he
      rcases List.mem_cons.1 he with rfl | he'
      · exact h u false hadj
      · exact hs e he'

/-! ## the invariant -/

/-- all code of a template: body, top-level defs and blocks, defs written inside `<%namespace>` tags -/
def allItems (t : Template) : List Item :=
  t.body ++ t.defs.flatMap (·.body) ++ t.nss.flatMap fun tag => tag.inline.flatMap (·.2)

/-- the tag (of the given kind, with the given raw URI) is written in template `t` -/
def TagIn (kind : EvKind) (raw : Str) (t : Template) : Prop :=
  match kind with
  | .incl => ∃ args, Item.incl raw args ∈ allItems t
  | .nstag => ∃ tag ∈ t.nss, tag.src = .file raw
  | .inherit => t.inherit = some raw
  | .api => True

/-- an event is *sound*: resolved by `adjust_uri` against its `relativeto`; for a tag, `relativeto` is the URI of a
template of the set in which the tag is written -/
def EventSound (S : TSet) (e : Event) : Prop :=
  adjustUri e.raw e.rel = some e.resolved ∧ (e.found = true ↔ ∃ t, setLookup S e.resolved = .found t) ∧
  (e.kind ≠ .api → ∃ tu t, e.rel = some tu ∧ setLookup S tu = .found t ∧ TagIn e.kind e.raw t)

theorem sound_of_tag (S : TSet) (kind : EvKind) (raw tu : Str) (t : Template) (ht : setLookup S tu = .found t)
    (hin : TagIn kind raw t) (u : Str) (hadj : adjustUri raw (some tu) = some u) :
    Hoare (EventSound S) (lookupTemplate S kind raw (some tu)) (fun r => setLookup S r.1 = .found r.2) := by
  intro s hs
  unfold lookupTemplate
  rw [hadj]
  simp only
  cases hl : setLookup S u with
  | found t' =>
    refine ⟨fun e he => ?_, hl⟩
    rcases List.mem_cons.1 he with rfl | he'
    · exact ⟨hadj, by simp [hl], fun _ => ⟨tu, t, rfl, ht, hin⟩⟩
    · exact hs e he'
  | notFound =>
    intro e he
    rcases List.mem_cons.1 he with rfl | he'
    · exact ⟨hadj, by simp [hl], fun _ => ⟨tu, t, rfl, ht, hin⟩⟩
    · exact hs e he'
  | invalid =>
    intro e he
    rcases List.mem_cons.1 he with rfl | he'
    · exact ⟨hadj, by simp [hl], fun _ => ⟨tu, t, rfl, ht, hin⟩⟩
    · exact hs e he'

/-- lookup on behalf of a tag written in `tu` -/
theorem hoare_lookup_tag (S : TSet) (kind : EvKind) (raw tu : Str) (t : Template) (ht : setLookup S tu = .found t)
    (hin : TagIn kind raw t) :
    Hoare (EventSound S) (lookupTemplate S kind raw (some tu)) (fun r => setLookup S r.1 = .found r.2) := by
  cases hadj : adjustUri raw (some tu) with
  | none => intro s hs; unfold lookupTemplate; rw [hadj]; exact hs
  | some u => exact sound_of_tag S kind raw tu t ht hin u hadj

/-- lookup on behalf of the API -/
theorem hoare_lookup_api (S : TSet) (raw : Str) (rel : Option Str) :
    Hoare (EventSound S) (lookupTemplate S .api raw rel) (fun r => setLookup S r.1 = .found r.2) := by
  intro s hs
  unfold lookupTemplate
  cases hadj : adjustUri raw rel with
  | none => exact hs
  | some u =>
    simp only
    cases hl : setLookup S u with
    | found t' =>
      refine ⟨fun e he => ?_, hl⟩
      rcases List.mem_cons.1 he with rfl | he'
      · exact ⟨hadj, by simp [hl], fun h => absurd rfl h⟩
      · exact hs e he'
    | notFound =>
      intro e he
      rcases List.mem_cons.1 he with rfl | he'
      · exact ⟨hadj, by simp [hl], fun h => absurd rfl h⟩
      · exact hs e he'
    | invalid =>
      intro e he
      rcases List.mem_cons.1 he with rfl | he'
      · exact ⟨hadj, by simp [hl], fun h => absurd rfl h⟩
      · exact hs e he'

/-! ## the interpreter keeps the invariant -/

macro "hprim" : tactic => `(tactic| first
  | exact hoare_getCtx _ | exact hoare_getNs _ | exact hoare_newCtx _ | exact hoare_newNs _
  | exact hoare_setCtx _ _ | exact hoare_setNs _ _ | exact hoare_cacheGet _ | exact hoare_cachePut _ _
  | exact hoare_emit _ | exact hoare_getSt | exact hoare_getattrM _ _ _ | exact hoare_lastInheritsM _
  | exact hoare_populate _ _ _ _ | exact hoare_throw _ | exact hoare_pure _ trivial
  | exact hoare_nolog (fun _ => rfl))

macro "hstep" : tactic => `(tactic| first
  | hprim
  | refine hoare_bind (Q := fun _ => True) (by hprim) (fun _ _ => ?_))

def PostA (S : TSet) (r : CodeRef × Nat) : Prop := ∃ t', setLookup S r.1.tu = .found t'

theorem knotA (S : TSet) : ∀ fuel,
    (∀ cid u t selfNs, setLookup S u = .found t →
      Hoare (EventSound S) (populateSelf S fuel cid u t selfNs) (PostA S)) ∧
    (∀ cid f calling, (∃ t, setLookup S calling = .found t ∧ t.inherit = some f) →
      Hoare (EventSound S) (inheritFrom S fuel cid f calling) (PostA S)) ∧
    (∀ tu cid tags, (∃ t, setLookup S tu = .found t ∧ ∀ tag ∈ tags, tag ∈ t.nss) →
      Hoare (EventSound S) (genNs S fuel tu cid tags) (fun _ => True)) := by
  intro fuel
  induction fuel with
  | zero =>
    refine ⟨?_, ?_, ?_⟩
    · intro cid u t selfNs _; unfold populateSelf; exact hoare_throw _
    · intro cid f calling _; unfold inheritFrom; exact hoare_throw _
    · intro tu cid tags _; unfold genNs; exact hoare_throw _
  | succ n ih =>
    obtain ⟨ihP, ihI, ihG⟩ := ih
    refine ⟨?_, ?_, ?_⟩
    · intro cid u t selfNs ht
      unfold populateSelf
      dsimp only
      have hjp : ∀ sid, Hoare (EventSound S) (do
          setCtx cid fun c => { c with self := some sid, loc := some sid }
          match t.inherit with
            | some f => do
              genNs S n u cid t.nss
              inheritFrom S n cid f u
            | none => pure ((⟨u, .body⟩ : CodeRef), cid)) (PostA S) := by
        intro sid
        hstep
        split
        · rename_i f hf
          refine hoare_bind (ihG u cid t.nss ⟨t, ht, fun _ h => h⟩) (fun _ _ => ?_)
          exact ihI cid f u ⟨t, ht, hf⟩
        · exact hoare_pure _ ⟨t, ht⟩
      split
      · hstep; exact hjp _
      · hstep; exact hjp _
    · intro cid f calling hpre
      obtain ⟨t, ht, hinh⟩ := hpre
      unfold inheritFrom
      refine hoare_bind (hoare_lookup_tag S .inherit f calling t ht hinh) (fun r hr => ?_)
      obtain ⟨u, bt⟩ := r
      dsimp only at hr ⊢
      refine hoare_bind (hoare_getCtx _) (fun c _ => ?_)
      have hjp : ∀ selfId, Hoare (EventSound S) (do
            let ih ← lastInheritsM selfId
            let lcid ← newCtx { c with next := some ih }
            let nb ← newNs ⟨selfName u, .tmpl u, [], none, lcid⟩
            setNs ih fun o => { o with inherits := some nb }
            setCtx cid fun c => { c with parent := some nb }
            setCtx lcid fun c => { c with loc := some nb }
            match bt.inherit with
              | some g => do
                genNs S n u lcid bt.nss
                inheritFrom S n lcid g u
              | none => do
                if bt.nss.isEmpty then pure () else genNs S n u cid bt.nss
                pure ((⟨u, .body⟩ : CodeRef), lcid)) (PostA S) := by
        intro selfId
        hstep; hstep; hstep; hstep; hstep; hstep
        split
        · rename_i g hg
          refine hoare_bind (ihG u _ bt.nss ⟨bt, hr, fun _ h => h⟩) (fun _ _ => ?_)
          exact ihI _ g u ⟨bt, hr, hg⟩
        · dsimp only
          split
          · exact hoare_pure _ ⟨bt, hr⟩
          · exact hoare_bind (ihG u cid bt.nss ⟨bt, hr, fun _ h => h⟩) (fun _ _ => hoare_pure _ ⟨bt, hr⟩)
      split
      · hstep; exact hjp _
      · hstep
    · intro tu cid tags hpre
      obtain ⟨t, ht, hsub⟩ := hpre
      unfold genNs
      cases tags with
      | nil => exact hoare_pure _ trivial
      | cons tag rest =>
        dsimp only
        refine hoare_bind (hoare_getCtx _) (fun c _ => ?_)
        refine hoare_bind (hoare_newCtx _) (fun ncid _ => ?_)
        have hrest : Hoare (EventSound S) (genNs S n tu cid rest) (fun _ => True) :=
          ihG tu cid rest ⟨t, ht, fun x hx => hsub x (List.mem_cons_of_mem _ hx)⟩
        have hjp : ∀ id, Hoare (EventSound S) (do
              if tag.inheritable then
                match c.self with
                | some sid => modifySt fun s => { s with attrs := ((sid, tag.name), id) :: s.attrs }
                | none => throw .internal
              else pure ()
              cachePut (.tag (moduleId tu) tag.name) id
              genNs S n tu cid rest) (fun _ => True) := by
          intro id
          have hjp2 : Hoare (EventSound S) (do
              cachePut (.tag (moduleId tu) tag.name) id
              genNs S n tu cid rest) (fun _ => True) := by
            hstep; exact hrest
          dsimp only
          split
          · split
            · hstep; exact hjp2
            · hstep
          · exact hjp2
        split
        · rename_i f hf
          refine hoare_bind (hoare_lookup_tag S .nstag f tu t ht ⟨tag, hsub tag (by simp), hf⟩) (fun r hr => ?_)
          obtain ⟨u, tt⟩ := r
          dsimp only at hr ⊢
          hstep
          refine hoare_bind (hoare_weaken (ihP _ u tt _ hr) (fun _ _ => trivial)) (fun _ _ => ?_)
          hstep
          exact hjp _
        · hstep; exact hjp _
        · hstep; exact hjp _


theorem hoare_resolveNameM {P} (env : Env) (x : Str) : Hoare P (resolveNameM env x) (fun _ => True) := by
  unfold resolveNameM; hstep; hprim

theorem hoare_recvNs {P} (env : Env) (r : Recv) : Hoare P (recvNs env r) (fun _ => True) := by
  unfold recvNs
  refine hoare_bind (hoare_resolveNameM env _) (fun v _ => ?_)
  split <;> hprim

theorem hoare_nsUri {P} (id : Nat) : Hoare P (nsUri id) (fun _ => True) := by
  unfold nsUri; hstep; split <;> hprim

theorem hoare_getTagNs (S : TSet) (fuel : Nat) (tu : Str) (t : Template) (cid : Nat) (name : Str)
    (ht : setLookup S tu = .found t) : Hoare (EventSound S) (getTagNs S fuel tu t cid name) (fun _ => True) := by
  unfold getTagNs
  hstep
  split
  · hprim
  · refine hoare_bind ((knotA S fuel).2.2 tu cid t.nss ⟨t, ht, fun _ h => h⟩) (fun _ _ => ?_)
    hstep
    split <;> hprim

theorem hoare_getNsApi (S : TSet) (fuel : Nat) (id : Nat) (uri : Str) :
    Hoare (EventSound S) (getNsApi S fuel id uri) (fun _ => True) := by
  unfold getNsApi
  hstep
  split
  · hprim
  · hstep; hstep; hstep
    refine hoare_bind (hoare_lookup_api S uri _) (fun r hr => ?_)
    obtain ⟨u, tt⟩ := r
    dsimp only at hr ⊢
    hstep
    refine hoare_bind (hoare_weaken ((knotA S fuel).1 _ u tt _ hr) (fun _ _ => trivial)) (fun _ _ => ?_)
    repeat hstep

theorem hoare_buildImports (S : TSet) (fuel : Nat) (tu : Str) (t : Template) (cid : Nat)
    (ht : setLookup S tu = .found t) (tags : List NsTag) (d : List (Str × Value)) :
    Hoare (EventSound S) (buildImports S fuel tu t cid tags d) (fun _ => True) := by
  induction tags generalizing d with
  | nil => exact hoare_pure _ trivial
  | cons tag r ih =>
    unfold buildImports
    split
    · refine hoare_bind (hoare_getTagNs S fuel tu t cid _ ht) (fun _ _ => ?_)
      hstep
      exact ih _
    · exact ih _

theorem hoare_declareVars (S : TSet) (fuel : Nat) (tu : Str) (t : Template) (cid : Nat) (skip localDefs : List Str)
    (imp : Option (List (Str × Value))) (ht : setLookup S tu = .found t) (xs : List Str) (acc : List (Str × Nat)) :
    Hoare (EventSound S) (declareVars S fuel tu t cid skip localDefs imp xs acc) (fun _ => True) := by
  induction xs generalizing acc with
  | nil => exact hoare_pure _ trivial
  | cons x r ih =>
    unfold declareVars
    split
    · exact ih _
    · split
      · refine hoare_bind (hoare_getTagNs S fuel tu t cid _ ht) (fun _ _ => ?_)
        exact ih _
      · split
        · hstep
          exact hoare_ite (hoare_throw _) (ih _)
        · exact ih _

def EnvOk (S : TSet) (env : Env) : Prop := setLookup S env.tu = .found env.t

theorem mem_allItems_body {t : Template} {i : Item} (h : i ∈ t.body) : i ∈ allItems t := by
  simp [allItems, h]

theorem mem_allItems_def {t : Template} {d : Def} {i : Item} (hd : d ∈ t.defs) (h : i ∈ d.body) : i ∈ allItems t := by
  simp only [allItems, List.mem_append, List.mem_flatMap]
  exact Or.inl (Or.inr ⟨d, hd, h⟩)

theorem mem_allItems_inline {t : Template} {tag : NsTag} {dn : Str} {items : List Item} {i : Item}
    (ht : tag ∈ t.nss) (hd : (dn, items) ∈ tag.inline) (h : i ∈ items) : i ∈ allItems t := by
  simp only [allItems, List.mem_append, List.mem_flatMap]
  exact Or.inr ⟨tag, ht, (dn, items), hd, h⟩

theorem knotB (S : TSet) : ∀ fuel,
    (∀ env items, EnvOk S env → (∀ i ∈ items, i ∈ allItems env.t) →
      Hoare (EventSound S) (execItems S fuel env items) (fun _ => True)) ∧
    (∀ env item, EnvOk S env → item ∈ allItems env.t →
      Hoare (EventSound S) (execItem S fuel env item) (fun _ => True)) ∧
    (∀ env v, Hoare (EventSound S) (callValue S fuel env v) (fun _ => True)) ∧
    (∀ r cid kw, Hoare (EventSound S) (execCode S fuel r cid kw) (fun _ => True)) ∧
    (∀ cid kind uri calling args,
      (kind = .api ∨ (kind = .incl ∧ ∃ tu t, calling = some tu ∧ setLookup S tu = .found t ∧
        ∃ a, Item.incl uri a ∈ allItems t)) →
      Hoare (EventSound S) (includeFile S fuel cid kind uri calling args) (fun _ => True)) := by
  intro fuel
  induction fuel with
  | zero =>
    refine ⟨?_, ?_, ?_, ?_, ?_⟩
    · intro env items _ _; unfold execItems; exact hoare_throw _
    · intro env item _ _; unfold execItem; exact hoare_throw _
    · intro env v; unfold callValue; exact hoare_throw _
    · intro r cid kw; unfold execCode; exact hoare_throw _
    · intro cid kind uri calling args _; unfold includeFile; exact hoare_throw _
  | succ n ih =>
    obtain ⟨ihItems, ihItem, ihCall, ihCode, ihIncl⟩ := ih
    refine ⟨?_, ?_, ?_, ?_, ?_⟩
    · intro env items henv hsub
      unfold execItems
      cases items with
      | nil => exact hoare_pure _ trivial
      | cons i r =>
        dsimp only
        refine hoare_bind (ihItem env i henv (hsub i (by simp))) (fun _ _ => ?_)
        exact ihItems env r henv (fun x hx => hsub x (List.mem_cons_of_mem _ hx))
    · intro env item henv hmem
      unfold execItem
      split
      · hprim
      · refine hoare_bind (hoare_resolveNameM env _) (fun v _ => ?_)
        split
        · exact ihCall env v
        · split <;> hprim
      · refine hoare_bind (hoare_recvNs env _) (fun id _ => ?_)
        hstep
        exact ihCall env _
      · rename_i uri args
        exact ihIncl env.ctx .incl uri (some env.tu) args (Or.inr ⟨rfl, env.tu, env.t, rfl, henv, args, hmem⟩)
      · refine hoare_bind (hoare_recvNs env _) (fun id _ => ?_)
        hstep
        split
        · hstep
          exact ihIncl _ .api _ _ _ (Or.inl rfl)
        · hprim
      · refine hoare_bind (hoare_recvNs env _) (fun id _ => ?_)
        hstep
        split
        · refine hoare_bind (hoare_getNsApi S n id _) (fun _ _ => ?_)
          hstep
          exact ihCall env _
        · hprim
      · refine hoare_bind (hoare_recvNs env _) (fun id _ => ?_)
        hstep
        split
        · hstep
          refine hoare_bind (hoare_lookup_api S _ _) (fun r _ => ?_)
          obtain ⟨u, tt⟩ := r
          dsimp only
          hprim
        · hprim
      · refine hoare_bind (hoare_recvNs env _) (fun _ _ => ?_)
        refine hoare_bind (hoare_recvNs env _) (fun _ _ => ?_)
        refine hoare_bind (hoare_nsUri _) (fun _ _ => ?_)
        refine hoare_bind (hoare_nsUri _) (fun _ _ => ?_)
        hstep; hprim
      · hstep; hstep
        dsimp only
        repeat' split
        all_goals first | hprim | (hstep; exact ihCall env _)
    · intro env v
      unfold callValue
      split
      · hprim
      · hprim
      · exact ihCode _ _ _
      · split
        · exact ihCode _ _ _
        · split
          · hstep; hstep; exact ihCode _ _ _
          · exact ihCode _ _ _
      · hprim
      · hprim
    · intro r cid kw
      unfold execCode
      split
      · rename_i t ht
        split
        · split
          · hprim
          · rename_i locals _
            have hjp : ∀ imp, Hoare (EventSound S) (do
                let nsvars ← declareVars S n r.tu t cid t.pageNames t.defNames imp (sortNames (freeNames t t.body)) []
                execItems S n ⟨r.tu, t, cid, locals, imp, nsvars, true, t.defNames, none⟩ t.body) (fun _ => True) := by
              intro imp
              refine hoare_bind (hoare_declareVars S n r.tu t cid _ _ _ ht _ _) (fun _ _ => ?_)
              exact ihItems _ _ ht (fun i hi => mem_allItems_body hi)
            dsimp only
            split
            · refine hoare_bind (hoare_map (R := fun _ => True) _ (hoare_buildImports S n r.tu t cid ht _ _) (fun _ _ => trivial)) (fun _ _ => ?_)
              exact hjp _
            · hstep; exact hjp _
        · split
          · hprim
          · rename_i nm d hd
            have hdm : d ∈ t.defs := List.mem_of_find?_eq_some hd
            have hjp : ∀ imp, Hoare (EventSound S) (do
                let nsvars ← declareVars S n r.tu t cid [] t.defNames imp (sortNames (freeNames t d.body)) []
                execItems S n ⟨r.tu, t, cid, [], imp, nsvars, false, t.defNames, none⟩ d.body) (fun _ => True) := by
              intro imp
              refine hoare_bind (hoare_declareVars S n r.tu t cid _ _ _ ht _ _) (fun _ _ => ?_)
              exact ihItems _ _ ht (fun i hi => mem_allItems_def hdm hi)
            dsimp only
            split
            · refine hoare_bind (hoare_map (R := fun _ => True) _ (hoare_buildImports S n r.tu t cid ht _ _) (fun _ _ => trivial)) (fun _ _ => ?_)
              exact hjp _
            · hstep; exact hjp _
        · split
          · hprim
          · rename_i nsn dn tag htag
            have htm : tag ∈ t.nss := List.mem_of_find?_eq_some htag
            split
            · hprim
            · rename_i items hitems
              have him := alookup_some_mem hitems
              dsimp only
              refine hoare_bind (hoare_declareVars S n r.tu t cid _ _ _ ht _ _) (fun _ _ => ?_)
              exact ihItems _ _ ht (fun i hi => mem_allItems_inline htm him hi)
      · hprim
    · intro cid kind uri calling args hpre
      unfold includeFile
      have hlk : Hoare (EventSound S) (lookupTemplate S kind uri calling) (fun r => setLookup S r.1 = .found r.2) := by
        rcases hpre with rfl | ⟨rfl, tu, t, rfl, ht, a, ha⟩
        · exact hoare_lookup_api S uri calling
        · exact hoare_lookup_tag S .incl uri tu t ht ⟨a, ha⟩
      refine hoare_bind hlk (fun r hr => ?_)
      obtain ⟨u, t⟩ := r
      dsimp only at hr ⊢
      hstep; hstep
      refine hoare_bind ((knotA S n).1 _ u t none hr) (fun r2 _ => ?_)
      obtain ⟨callable, lcid⟩ := r2
      dsimp only
      split
      · exact hoare_ite (ihCode _ _ _) (ihCode _ _ _)
      · hprim

/-- the log of a whole render is sound -/
theorem render_log_sound (S : TSet) (fuel : Nat) (entry : Str) (data : List (Str × Val)) :
    LogInv (EventSound S) (render S fuel entry data St.empty).st := by
  have h0 : LogInv (EventSound S) St.empty := fun e he => by simp [St.empty] at he
  have hH : Hoare (EventSound S) (render S fuel entry data) (fun _ => True) := by
    unfold render
    split
    · rename_i t ht
      hstep
      refine hoare_bind ((knotA S fuel).1 _ entry t none ht) (fun r _ => ?_)
      obtain ⟨callable, lcid⟩ := r
      exact (knotB S fuel).2.2.2.1 _ _ _
    · hprim
  have := hH St.empty h0
  cases hr : render S fuel entry data St.empty with
  | ok a s' => rw [hr] at this; exact this.1
  | err e s' => rw [hr] at this; exact this

end MakoModel.Namespace
