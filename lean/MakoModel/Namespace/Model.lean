import MakoModel.Path.Model
/-!
# L6/L7 (namespaces and includes): `Namespace/TemplateNamespace/ModuleNamespace`, `_populate/_get_star`,
`_include_file/_kwargs_for_include`, `Context._clean_inheritance_tokens`, `_populate_self_namespace/_inherit_from`,
`_lookup_template`, and the parts of `codegen.py` that decide *when* these run
(`_mako_get_namespace/_mako_generate_namespaces`, `_import_ns`, the variable declarations of a callable).

A *template set* is what a `TemplateLookup` serves: `put_string` entries (exact URI) and files below
directories.  A template is described by what the property is about: its `<%page args>` signature, its
`<%inherit>`, its `<%namespace>` tags, its top-level defs/named blocks and its body, all bodies being lists of
`Item`s (literal text, unqualified names, calls through a namespace, `<%include>`, the `get_namespace /
get_template / include_file` API, a probe of `self/local/parent/next`, a named block rendered in place).

The interpreter is a direct transcription of the Python run time on a heap of contexts and namespace objects
(both are mutated in place by the real code: `context._data["self"] = …`, `ih.inherits = …`,
`context['self'].n = ns`).  Code is never stored in the heap: a callable is a *reference* `(template uri,
selector)` and the interpreter fetches the code from the set whenever it runs it, exactly as the generated
module constant `_template_uri` identifies the module whose code is running.

Every recursive function takes `fuel`; running out of it is the error `fuel` (Python: `RecursionError`).
-/
namespace MakoModel.Namespace
open MakoModel.Path (adjustUri uriToSrc templateCheck)

abbrev Str := List Char

/-- identifiers the run time treats specially -/
def sContext : Str := "context".toList
def sBody : Str := "body".toList
def sPageargs : Str := "pageargs".toList
def sSelf : Str := "self".toList
def sLocal : Str := "local".toList
def sParent : Str := "parent".toList
def sNext : Str := "next".toList

/-! ## Template descriptions -/

/-- how code names a namespace: the context tokens, or any other identifier (a `<%namespace name=…>`) -/
inductive Recv where
  | self | loc | parent | next
  | ns (n : Str)
  deriving DecidableEq, Repr

inductive Item where
  /-- literal template text -/
  | text (s : Str)
  /-- `${x}` (`called = false`) or `${x()}` -/
  | name (x : Str) (called : Bool)
  /-- `${r.f()}` -/
  | nscall (r : Recv) (f : Str)
  /-- `<%include file="uri" args="k='v', …"/>` -/
  | incl (uri : Str) (args : List (Str × Str))
  /-- `${r.include_file('uri', k='v', …) or ''}` -/
  | apiIncl (r : Recv) (uri : Str) (args : List (Str × Str))
  /-- `${r.get_namespace('uri').f()}` -/
  | apiNs (r : Recv) (uri : Str) (f : Str)
  /-- `${r.get_template('uri').uri}` -/
  | apiTmpl (r : Recv) (uri : Str)
  /-- `[${self.uri};${local.uri};${'parent' in context.keys()};${'next' in context.keys()}]` -/
  | probe
  /-- `<%block name="n">…</%block>` at this point of the body (its content is the def `n`) -/
  | block (n : Str)
  deriving DecidableEq, Repr

inductive NsSrc where
  | file (uri : Str) | module (m : Str) | plain
  deriving DecidableEq, Repr

structure NsTag where
  name : Str
  src : NsSrc
  inheritable : Bool
  /-- the `import=` attribute split at commas; `none` = no attribute -/
  imports : Option (List Str)
  /-- defs written inside the tag -/
  inline : List (Str × List Item)
  deriving DecidableEq, Repr

structure Def where
  name : Str
  isBlock : Bool
  body : List Item
  deriving DecidableEq, Repr

structure Template where
  /-- `<%page args>`: parameter name and default (a string literal) -/
  pageArgs : List (Str × Option Str)
  inherit : Option Str
  nss : List NsTag
  /-- top-level defs and named blocks: the module's `render_<name>` functions besides `render_body` -/
  defs : List Def
  body : List Item
  deriving DecidableEq, Repr

inductive MemKind where
  | fn | const
  deriving DecidableEq, Repr

/-- a Python module used by `<%namespace module=…>`: members are functions `f(context)` writing `tag`, or constants -/
structure PyMod where
  name : Str
  members : List (Str × MemKind × Str)
  deriving DecidableEq, Repr

/-- what a `TemplateLookup` serves -/
structure TSet where
  /-- `put_string` entries: exact URI -/
  coll : List (Str × Template)
  /-- `lookup.directories` (already normalised) -/
  dirs : List Str
  /-- files: path ↦ template -/
  files : List (Str × Template)
  mods : List PyMod
  /-- `TemplateLookup(strict_undefined=…)` -/
  strict : Bool
  /-- `TemplateLookup(include_error_handler=…)` is set (the handler returns a false value, i.e. re-raises) -/
  ieh : Bool
  deriving DecidableEq, Repr

def alookup {β} (k : Str) : List (Str × β) → Option β
  | [] => none
  | (a, b) :: r => if a = k then some b else alookup k r

inductive Found where
  | found (t : Template) | notFound | invalid
  deriving DecidableEq, Repr

/-- the directory loop of `TemplateLookup.get_template` followed by `Template.__init__`'s URI check -/
def dirLookup (files : List (Str × Template)) (uri : Str) : List Str → Found
  | [] => .notFound
  | d :: ds =>
    match alookup (uriToSrc d uri) files with
    | some t => if templateCheck uri then .found t else .invalid
    | none => dirLookup files uri ds

/-- `TemplateLookup.get_template(uri)`: the collection first (exact key), then the directories -/
def setLookup (S : TSet) (uri : Str) : Found :=
  match alookup uri S.coll with
  | some t => .found t
  | none => dirLookup S.files uri S.dirs

/-- `re.sub(r"\W", "_", uri)` (ASCII) : the generated module's `__name__` -/
def moduleId (uri : Str) : Str :=
  uri.map fun c => if c.isAlphanum ∨ c = '_' then c else '_'

def Template.defNames (t : Template) : List Str := t.defs.map (·.name)
def Template.nsNames (t : Template) : List Str := t.nss.map (·.name)
def Template.pageNames (t : Template) : List Str := t.pageArgs.map (·.1)
/-- `Template.has_def(name)`: `hasattr(module, "render_" + name)` -/
def Template.hasDef (t : Template) (k : Str) : Bool := k = sBody ∨ k ∈ t.defNames
/-- the module's `_exports`: top-level defs and named blocks -/
def Template.exports (t : Template) : List Str := t.defNames
/-- `compiler.has_ns_imports` once all `<%namespace>` tags were visited -/
def Template.hasImports (t : Template) : Bool := t.nss.any (·.imports.isSome)
def Template.findDef (t : Template) (n : Str) : Option Def := t.defs.find? (·.name = n)
def Template.findNs (t : Template) (n : Str) : Option NsTag := t.nss.find? (·.name = n)

/-! ## Run-time values -/

/-- a Python `str` (a literal of `args=`/a default) or a harness object that prints as and returns `s` when called -/
inductive Val where
  | lit (s : Str) | obj (s : Str)
  deriving DecidableEq, Repr

def Val.str : Val → Str
  | .lit s => s
  | .obj s => s

inductive Sel where
  | body | defn (n : Str) | inline (ns d : Str)
  deriving DecidableEq, Repr

/-- a piece of generated code: the module (`_template_uri`) and the function in it -/
structure CodeRef where
  tu : Str
  sel : Sel
  deriving DecidableEq, Repr

inductive Value where
  | val (v : Val)
  /-- `functools.partial(render_x, ns.context)` or an inline def closed over its context -/
  | code (r : CodeRef) (ctx : Nat)
  /-- the stub `def x(): return render_x(context[._locals(__M_locals)])` of a callable's own template -/
  | localdef (x : Str)
  /-- `functools.partial(module.f, ns.context)` -/
  | modfn (tag : Str)
  | nsref (id : Nat)
  /-- any other Python object (an attribute of the `Namespace` class, …): neither callable without arguments nor printable -/
  | other
  | undefined
  deriving DecidableEq, Repr

structure Ctx where
  /-- `_data` without the tokens below -/
  data : List (Str × Val)
  self : Option Nat
  loc : Option Nat
  parent : Option Nat
  next : Option Nat
  deriving DecidableEq, Repr

inductive NsKind where
  | tmpl (u : Str) | module (m : Str) | plain
  deriving DecidableEq, Repr

structure NsObj where
  name : Str
  kind : NsKind
  /-- `callables`: name ↦ (inline def, the context `_mako_generate_namespaces` ran with) -/
  callables : List (Str × CodeRef × Nat)
  inherits : Option Nat
  ctx : Nat
  deriving DecidableEq, Repr

/-- `_templateuri` -/
def NsObj.turi (o : NsObj) : Option Str :=
  match o.kind with
  | .tmpl u => some u
  | _ => none

inductive CacheKey where
  /-- `(__name__, name)` written by `_mako_generate_namespaces` -/
  | tag (modid : Str) (name : Str)
  /-- `(namespace, uri)` written by `Namespace.get_namespace` -/
  | api (ns : Nat) (uri : Str)
  deriving DecidableEq, Repr

inductive EvKind where
  | incl | nstag | inherit | api
  deriving DecidableEq, Repr

/-- one call of `_lookup_template`: `adjust_uri(raw, rel) = resolved`, then `get_template(resolved)` -/
structure Event where
  kind : EvKind
  rel : Option Str
  raw : Str
  resolved : Str
  found : Bool
  deriving DecidableEq, Repr

inductive Err where
  /-- `TemplateLookupException` -/
  | lookup
  /-- `IndexError` of an `adjust_uri` that is partial on `""` (not raised by the current code) -/
  | index
  | attr | type | name
  | fuel
  /-- a state the real code cannot be in (dangling id) -/
  | internal
  deriving DecidableEq, Repr

instance : DecidableEq (Except Err Value) := fun a b =>
  match a, b with
  | .ok x, .ok y => if h : x = y then isTrue (h ▸ rfl) else isFalse (fun h' => by cases h'; exact h rfl)
  | .error x, .error y => if h : x = y then isTrue (h ▸ rfl) else isFalse (fun h' => by cases h'; exact h rfl)
  | .ok _, .error _ => isFalse (fun h => by cases h)
  | .error _, .ok _ => isFalse (fun h => by cases h)

structure St where
  ctxs : List Ctx
  nss : List NsObj
  /-- `context.namespaces` (one dictionary per render, shared by all copies of the context) -/
  cache : List (CacheKey × Nat)
  /-- `setattr(ns, name, other_ns)` by `inheritable="True"` -/
  attrs : List ((Nat × Str) × Nat)
  /-- output pieces, latest first -/
  out : List Str
  /-- resolution events, latest first -/
  log : List Event
  deriving DecidableEq, Repr

def St.empty : St := ⟨[], [], [], [], [], []⟩

inductive Res (α : Type) where
  | ok (a : α) (s : St)
  | err (e : Err) (s : St)
  deriving Repr

def Res.st {α} : Res α → St
  | .ok _ s => s
  | .err _ s => s

abbrev M (α : Type) := St → Res α

@[inline] def M.pure {α} (a : α) : M α := fun s => .ok a s
@[inline] def M.bind {α β} (m : M α) (f : α → M β) : M β := fun s =>
  match m s with
  | .ok a s' => f a s'
  | .err e s' => .err e s'

instance : Monad M where
  pure := M.pure
  bind := M.bind

def throw {α} (e : Err) : M α := fun s => .err e s
def getSt : M St := fun s => .ok s s
def modifySt (f : St → St) : M Unit := fun s => .ok () (f s)

def emit (p : Str) : M Unit := modifySt fun s => { s with out := p :: s.out }

def getCtx (i : Nat) : M Ctx := fun s =>
  match s.ctxs[i]? with
  | some c => .ok c s
  | none => .err .internal s

def getNs (i : Nat) : M NsObj := fun s =>
  match s.nss[i]? with
  | some o => .ok o s
  | none => .err .internal s

def newCtx (c : Ctx) : M Nat := fun s => .ok s.ctxs.length { s with ctxs := s.ctxs ++ [c] }
def newNs (o : NsObj) : M Nat := fun s => .ok s.nss.length { s with nss := s.nss ++ [o] }
def setCtx (i : Nat) (f : Ctx → Ctx) : M Unit :=
  modifySt fun s => { s with ctxs := s.ctxs.modify i f }
def setNs (i : Nat) (f : NsObj → NsObj) : M Unit :=
  modifySt fun s => { s with nss := s.nss.modify i f }

def cacheGet (k : CacheKey) : M (Option Nat) := fun s =>
  .ok ((s.cache.find? (·.1 = k)).map (·.2)) s
def cachePut (k : CacheKey) (id : Nat) : M Unit :=
  modifySt fun s => { s with cache := (k, id) :: s.cache }

/-- `Context._clean_inheritance_tokens`: a copy without `self`, `parent`, `next` (`local` stays) -/
def Ctx.clean (c : Ctx) : Ctx := { c with self := none, parent := none, next := none }

/-- `Context._locals(d)` for a non-empty `d`: a copy whose data is updated with `d` -/
def Ctx.withLocals (c : Ctx) (d : List (Str × Val)) : Ctx := { c with data := d ++ c.data }

/-! ## URI resolution -/

/-- `_lookup_template(context, uri, relativeto)`: `adjust_uri`, then `get_template`; a `TopLevelLookupException` is
re-raised as `TemplateLookupException`, the one of `Template.__init__` (invalid URI) passes through.  `adjustUri` is
total (Props/C07 `adjust_total`: the empty URI takes the relative branch), so the `none` branch below – the `IndexError`
of an `adjust_uri` that indexes `uri[0]` – is unreachable; it is kept so that the driver reports such a regression of the
path model as `err:index` instead of hiding it. -/
def lookupTemplate (S : TSet) (kind : EvKind) (raw : Str) (rel : Option Str) : M (Str × Template) :=
  match adjustUri raw rel with
  | none => throw .index
  | some u =>
    match setLookup S u with
    | .found t => fun s => .ok (u, t) { s with log := ⟨kind, rel, raw, u, true⟩ :: s.log }
    | _ => fun s => .err .lookup { s with log := ⟨kind, rel, raw, u, false⟩ :: s.log }

/-! ## `_kwargs_for_include` -/

/-- `for arg in namedargs: if arg != "context" and arg in data and arg not in kwargs: kwargs[arg] = data[arg]` -/
def kwargsForInclude {β} (namedargs : List Str) (data : List (Str × β)) (kwargs : List (Str × β)) : List (Str × β) :=
  match namedargs with
  | [] => kwargs
  | a :: r =>
    if a = sContext then kwargsForInclude r data kwargs
    else match alookup a data, alookup a kwargs with
      | some v, none => kwargsForInclude r data (kwargs ++ [(a, v)])
      | _, _ => kwargsForInclude r data kwargs

/-- `inspect_getargspec(render_body)`: `argspec[0] + [varargs, varkw]` = `context`, the page arguments, `pageargs` -/
def namedArgs (t : Template) : List Str := sContext :: t.pageNames ++ [sPageargs]

/-- Python's binding of `render_body(context, a, b=…, **pageargs)` called with keyword arguments only -/
def bindPage : List (Str × Option Str) → List (Str × Val) → Option (List (Str × Val))
  | [], _ => some []
  | (p, d) :: r, kw =>
    match alookup p kw, d with
    | some v, _ => (bindPage r kw).map ((p, v) :: ·)
    | none, some dv => (bindPage r kw).map ((p, .lit dv) :: ·)
    | none, none => none

/-! ## Attribute lookup on namespaces -/

/-- attributes of the `Namespace` classes themselves: found by normal attribute lookup, `__getattr__` is never asked -/
def reservedAttrs : List Str :=
  ["name", "context", "inherits", "callables", "module", "template", "filename", "uri", "_templateuri", "attr",
   "get_namespace", "get_template", "get_cached", "cache", "include_file", "_populate", "_get_star"].map String.toList

def selOf (k : Str) : Sel := if k = sBody then .body else .defn k

def modLookup (S : TSet) (m : Str) : Option PyMod := S.mods.find? (·.name = m)

def memLookup (k : Str) : List (Str × MemKind × Str) → Option (MemKind × Str)
  | [] => none
  | (a, b) :: r => if a = k then some b else memLookup k r

/-- the first two branches of `__getattr__`: the callables, then the template's `render_<key>` / the module's attribute.
`none` = go on to `inherits`. -/
def levelFind (S : TSet) (o : NsObj) (key : Str) : Option (Except Err Value) :=
  match alookup key o.callables with
  | some (r, c) => some (.ok (.code r c))
  | none =>
    match o.kind with
    | .tmpl u =>
      match setLookup S u with
      | .found t => if t.hasDef key then some (.ok (.code ⟨u, selOf key⟩ o.ctx)) else none
      | _ => none
    | .module m =>
      match modLookup S m with
      | some pm =>
        match memLookup key pm.members with
        | some (.fn, tag) => some (.ok (.modfn tag))
        | some (.const, _) => some (.error .type)     -- functools.partial(<not callable>, …)
        | none => none
      | none => none
    | .plain => none

/-- `__getattr__` along the `inherits` chain -/
def getattrChain (S : TSet) (s : St) : Nat → Nat → Str → Except Err Value
  | 0, _, _ => .error .fuel
  | fuel + 1, id, key =>
    match s.nss[id]? with
    | none => .error .internal
    | some o =>
      match levelFind S o key with
      | some r => r
      | none =>
        match o.inherits with
        | some p => getattrChain S s fuel p key
        | none => .error .attr

/-- `getattr(ns, key)`: instance attributes set by `inheritable`, class attributes, then `__getattr__` -/
def nsGetattr (S : TSet) (s : St) (id : Nat) (key : Str) : Except Err Value :=
  match s.attrs.find? (·.1 = (id, key)) with
  | some (_, n) => .ok (.nsref n)
  | none =>
    if key ∈ reservedAttrs then .ok .other
    else getattrChain S s (s.nss.length + 1) id key

def getattrM (S : TSet) (id : Nat) (key : Str) : M Value := fun s =>
  match nsGetattr S s id key with
  | .ok v => .ok v s
  | .error e => .err e s

/-- `_get_star()`: the callables, then the template's `_exports` / the module's public callables -/
def getStar (S : TSet) (o : NsObj) : List (Str × Value) :=
  o.callables.map (fun (k, r, c) => (k, Value.code r c)) ++
  match o.kind with
  | .tmpl u =>
    match setLookup S u with
    | .found t => t.exports.map fun k => (k, Value.code ⟨u, selOf k⟩ o.ctx)
    | _ => []
  | .module m =>
    match modLookup S m with
    | some pm => pm.members.filterMap fun (k, kind, tag) =>
        if k.head? ≠ some '_' ∧ kind = .fn then some (k, Value.modfn tag) else none
    | none => []
  | .plain => []

/-- `d[k] = v` for every pair, in order (a later pair shadows an earlier one: lookup is first-match) -/
def dictUpdate {β} (d : List (Str × β)) : List (Str × β) → List (Str × β)
  | [] => d
  | kv :: r => dictUpdate (kv :: d) r

/-- `Namespace._populate(d, l)` -/
def populate (S : TSet) (id : Nat) : List Str → List (Str × Value) → M (List (Str × Value))
  | [], d => pure d
  | ident :: r, d =>
    if ident = ['*'] then do
      let o ← getNs id
      populate S id r (dictUpdate d (getStar S o))
    else do
      let v ← getattrM S id ident
      populate S id r ((ident, v) :: d)

/-! ## Building namespaces: `_populate_self_namespace`, `_inherit_from`, `_mako_generate_namespaces` -/

/-- the last namespace of an `inherits` chain (`while ih.inherits is not None`) -/
def lastInherits (s : St) : Nat → Nat → Option Nat
  | 0, _ => none
  | fuel + 1, id =>
    match s.nss[id]? with
    | none => none
    | some o =>
      match o.inherits with
      | some p => lastInherits s fuel p
      | none => some id

def lastInheritsM (id : Nat) : M Nat := fun s =>
  match lastInherits s (s.nss.length + 1) id with
  | some i => .ok i s
  | none => .err .internal s

def selfName (u : Str) : Str := "self:".toList ++ u

mutual
/-- `_populate_self_namespace(context, template, self_ns)`; returns `(callable_, lclcontext)` -/
def populateSelf (S : TSet) : Nat → Nat → Str → Template → Option Nat → M (CodeRef × Nat)
  | 0, _, _, _, _ => throw .fuel
  | fuel + 1, cid, u, t, selfNs => do
    let sid ← match selfNs with
      | some i => pure i
      | none => newNs ⟨selfName u, .tmpl u, [], none, cid⟩
    setCtx cid fun c => { c with self := some sid, loc := some sid }
    match t.inherit with
    | some f => do
      -- `_mako_inherit(template, context)`
      genNs S fuel u cid t.nss
      inheritFrom S fuel cid f u
    | none => pure (⟨u, .body⟩, cid)

/-- `_inherit_from(context, uri, calling_uri)` -/
def inheritFrom (S : TSet) : Nat → Nat → Str → Str → M (CodeRef × Nat)
  | 0, _, _, _ => throw .fuel
  | fuel + 1, cid, f, calling => do
    let (u, bt) ← lookupTemplate S .inherit f (some calling)
    let c ← getCtx cid
    let selfId ← match c.self with
      | some i => pure i
      | none => throw .internal
    let ih ← lastInheritsM selfId
    let lcid ← newCtx { c with next := some ih }
    let nb ← newNs ⟨selfName u, .tmpl u, [], none, lcid⟩
    setNs ih fun o => { o with inherits := some nb }
    setCtx cid fun c => { c with parent := some nb }
    setCtx lcid fun c => { c with loc := some nb }
    match bt.inherit with
    | some g => do
      -- `_mako_inherit(template, lclcontext)`
      genNs S fuel u lcid bt.nss
      inheritFrom S fuel lcid g u
    | none => do
      -- `gen_ns(context)`: the namespaces of the base-most template are generated with the *inheriting* context
      if bt.nss.isEmpty then pure () else genNs S fuel u cid bt.nss
      pure (⟨u, .body⟩, lcid)

/-- `_mako_generate_namespaces(context)` of module `tu` (the remaining tags) -/
def genNs (S : TSet) : Nat → Str → Nat → List NsTag → M Unit
  | 0, _, _, _ => throw .fuel
  | _ + 1, _, _, [] => pure ()
  | fuel + 1, tu, cid, tag :: rest => do
    let c ← getCtx cid
    let callables := tag.inline.map fun (d, _) => (d, (⟨tu, .inline tag.name d⟩ : CodeRef), cid)
    let ncid ← newCtx c.clean
    let id ← match tag.src with
      | .file f => do
        -- `TemplateNamespace(name, ctx, templateuri=f, callables=…, calling_uri=_template_uri)`
        let (u, tt) ← lookupTemplate S .nstag f (some tu)
        let id ← newNs ⟨tag.name, .tmpl u, callables, none, ncid⟩
        let _ ← populateSelf S fuel ncid u tt (some id)
        pure id
      | .module m => newNs ⟨tag.name, .module m, callables, none, ncid⟩
      | .plain => newNs ⟨tag.name, .plain, callables, none, ncid⟩
    if tag.inheritable then do
      -- `context['self'].<name> = ns`
      match c.self with
      | some sid => modifySt fun s => { s with attrs := ((sid, tag.name), id) :: s.attrs }
      | none => throw .internal
    else pure ()
    cachePut (.tag (moduleId tu) tag.name) id
    genNs S fuel tu cid rest
end

/-- `_mako_get_namespace(context, name)` -/
def getTagNs (S : TSet) (fuel : Nat) (tu : Str) (t : Template) (cid : Nat) (name : Str) : M Nat := do
  match ← cacheGet (.tag (moduleId tu) name) with
  | some id => pure id
  | none => do
    genNs S fuel tu cid t.nss
    match ← cacheGet (.tag (moduleId tu) name) with
    | some id => pure id
    | none => throw .internal

/-- `Namespace.get_namespace(uri)` -/
def getNsApi (S : TSet) (fuel : Nat) (id : Nat) (uri : Str) : M Nat := do
  match ← cacheGet (.api id uri) with
  | some n => pure n
  | none => do
    let o ← getNs id
    let c ← getCtx o.ctx
    let ncid ← newCtx c                       -- `self.context._copy()`: inheritance tokens are *not* removed
    let (u, tt) ← lookupTemplate S .api uri o.turi
    let n ← newNs ⟨uri, .tmpl u, [], none, ncid⟩
    let _ ← populateSelf S fuel ncid u tt (some n)
    cachePut (.api id uri) n
    pure n

/-! ## Running code -/

/-- what a callable's variable declarations and body need to know -/
structure Env where
  tu : Str
  t : Template
  ctx : Nat
  /-- page arguments (body only) -/
  locals : List (Str × Val)
  /-- `_import_ns`; `none` when the callable has no such variable -/
  imp : Option (List (Str × Value))
  /-- namespaces fetched by the variable declarations -/
  nsvars : List (Str × Nat)
  /-- `render_body`: def stubs pass `context._locals(__M_locals)` -/
  isBody : Bool
  /-- the names that denote defs of the running module: the top-level defs and named blocks in a top-level
  callable; inside a `<%namespace>` tag only the defs written in the same tag (`_Identifiers` of a namespace
  branch starts with empty `topleveldefs`) -/
  localDefs : List Str
  /-- the `<%namespace>` tag whose inline def is running -/
  inlineOf : Option Str
  deriving Repr

def recvName : Recv → Str
  | .self => sSelf
  | .loc => sLocal
  | .parent => sParent
  | .next => sNext
  | .ns n => n

def itemNames : Item → List Str
  | .text _ => []
  | .name x _ => [x]
  | .nscall r _ => [recvName r]
  | .incl _ _ => []
  | .apiIncl r _ _ => [recvName r]
  | .apiNs r _ _ => [recvName r]
  | .apiTmpl r _ => [recvName r]
  | .probe => [sSelf, sLocal]
  | .block _ => []

/-- the undeclared identifiers of a callable: those of its items, and of the content of the named blocks in it -/
def freeNames (t : Template) (items : List Item) : List Str :=
  items.flatMap fun i =>
    match i with
    | .block n => match t.findDef n with
      | some d => d.body.flatMap itemNames
      | none => []
    | i => itemNames i

/-- `context.get(x, UNDEFINED)` -/
def ctxGet (c : Ctx) (x : Str) : Value :=
  let tok (o : Option Nat) : Value := match o with
    | some i => .nsref i
    | none => .undefined
  if x = sSelf then tok c.self
  else if x = sLocal then tok c.loc
  else if x = sParent then tok c.parent
  else if x = sNext then
    match c.next with
    | some i => .nsref i
    | none => .other          -- `Context.get/__getitem__` fall back to `builtins`: the function `next`
  else match alookup x c.data with
    | some v => .val v
    | none => .undefined

/-- the value an unqualified name has in a callable (the order of `write_variable_declares`) -/
def resolveName (env : Env) (c : Ctx) (x : Str) : Value :=
  if env.isBody ∧ x ∈ env.t.pageNames then
    match alookup x env.locals with
    | some v => .val v
    | none => .undefined
  else if x ∈ env.localDefs then .localdef x
  else if x ∈ env.t.nsNames then
    match alookup x env.nsvars with
    | some i => .nsref i
    | none => .undefined
  else match env.imp with
    | some d => match alookup x d with
      | some v => v
      | none => ctxGet c x
    | none => ctxGet c x

def resolveNameM (env : Env) (x : Str) : M Value := do
  let c ← getCtx env.ctx
  pure (resolveName env c x)

/-- evaluate `r` and insist on a namespace (anything else has no such attribute) -/
def recvNs (env : Env) (r : Recv) : M Nat := do
  match ← resolveNameM env (recvName r) with
  | .nsref i => pure i
  | _ => throw .attr

def nsUri (id : Nat) : M Str := do
  let o ← getNs id
  match o.kind with
  | .tmpl u => pure u
  | _ => pure "None".toList

/-- stands for the `repr` of a function or namespace object in the output -/
def reprMark : Str := "<<repr>>".toList

def boolStr (b : Bool) : Str := if b then "True".toList else "False".toList

/-- the `_import_ns` of a top-level callable: every namespace with `import=`, in source order -/
def buildImports (S : TSet) (fuel : Nat) (tu : Str) (t : Template) (cid : Nat) :
    List NsTag → List (Str × Value) → M (List (Str × Value))
  | [], d => pure d
  | tag :: r, d =>
    match tag.imports with
    | some l => do
      let id ← getTagNs S fuel tu t cid tag.name
      let d ← populate S id l d
      buildImports S fuel tu t cid r d
    | none => buildImports S fuel tu t cid r d

/-- Python's `<` on `str` (code points) -/
def strLt : Str → Str → Bool
  | [], [] => false
  | [], _ :: _ => true
  | _ :: _, [] => false
  | a :: r, b :: q => if a < b then true else if b < a then false else strLt r q

def insertName (x : Str) : List Str → List Str
  | [] => [x]
  | y :: r => if x = y then y :: r else if strLt x y then x :: y :: r else y :: insertName x r

/-- `sorted(to_write)`: the identifiers of a callable, without repetition, in the order their declarations are emitted -/
def sortNames (l : List Str) : List Str := l.foldr insertName []

/-- The declarations `for ident in sorted(to_write)` of a callable, in that order: a def of the module gets a stub (no
effect), a namespace name `x = _mako_get_namespace(context, 'x')`, any other name is read from `_import_ns` / the
context – which with `strict_undefined` raises `NameError` right here when both lack it:
`x = _import_ns.get('x', UNDEFINED); if x is UNDEFINED: try: x = context['x'] except KeyError: raise NameError`
(the import dictionary first in the strict code path as well).  `skip` = the callable's own arguments. -/
def declareVars (S : TSet) (fuel : Nat) (tu : Str) (t : Template) (cid : Nat) (skip localDefs : List Str)
    (imp : Option (List (Str × Value))) : List Str → List (Str × Nat) → M (List (Str × Nat))
  | [], acc => pure acc
  | x :: r, acc =>
    if x ∈ skip ∨ x ∈ localDefs then declareVars S fuel tu t cid skip localDefs imp r acc
    else if x ∈ t.nsNames then do
      let id ← getTagNs S fuel tu t cid x
      declareVars S fuel tu t cid skip localDefs imp r ((x, id) :: acc)
    else if S.strict then do
      let c ← getCtx cid
      let v := match imp with
        | some d => match alookup x d with
          | some v => v
          | none => ctxGet c x
        | none => ctxGet c x
      if v = .undefined then throw .name
      else declareVars S fuel tu t cid skip localDefs imp r acc
    else declareVars S fuel tu t cid skip localDefs imp r acc

mutual
def execItems (S : TSet) : Nat → Env → List Item → M Unit
  | 0, _, _ => throw .fuel
  | _ + 1, _, [] => pure ()
  | fuel + 1, env, i :: r => do
    execItem S fuel env i
    execItems S fuel env r

def execItem (S : TSet) : Nat → Env → Item → M Unit
  | 0, _, _ => throw .fuel
  | fuel + 1, env, item =>
    match item with
    | .text s => emit s
    | .name x called => do
      let v ← resolveNameM env x
      if called then callValue S fuel env v
      else match v with
        | .val w => emit w.str
        | .undefined => throw .name
        | _ => emit reprMark     -- a function / namespace object is printed (address-dependent text)
    | .nscall r f => do
      let id ← recvNs env r
      let g ← getattrM S id f
      callValue S fuel env g
    | .incl uri args =>
      includeFile S fuel env.ctx .incl uri (some env.tu) args
    | .apiIncl r uri args => do
      let id ← recvNs env r
      match ← getattrM S id "include_file".toList with
      | .other => do
        let o ← getNs id
        includeFile S fuel o.ctx .api uri o.turi args
      | _ => throw .type
    | .apiNs r uri f => do
      let id ← recvNs env r
      match ← getattrM S id "get_namespace".toList with
      | .other => do
        let n ← getNsApi S fuel id uri
        let g ← getattrM S n f
        callValue S fuel env g
      | _ => throw .type
    | .apiTmpl r uri => do
      let id ← recvNs env r
      match ← getattrM S id "get_template".toList with
      | .other => do
        let o ← getNs id
        let (u, _) ← lookupTemplate S .api uri o.turi
        emit u
      | _ => throw .type
    | .probe => do
      let sid ← recvNs env .self
      let lid ← recvNs env .loc
      let su ← nsUri sid
      let lu ← nsUri lid
      let c ← getCtx env.ctx
      emit (['['] ++ su ++ [';'] ++ lu ++ [';'] ++ boolStr c.parent.isSome ++ [';'] ++ boolStr c.next.isSome ++ [']'])
    | .block n => do
      -- `if 'parent' not in context._data or not hasattr(context._data['parent'], n): context['self'].n(**pageargs)`
      let c ← getCtx env.ctx
      let s ← getSt
      let skip := match c.parent with
        | some p => match nsGetattr S s p n with
          | .ok _ => true
          | .error _ => false
        | none => false
      if skip then pure ()
      else match c.self with
        | some sid => do
          let g ← getattrM S sid n
          callValue S fuel env g
        | none => throw .internal

/-- call a value without arguments -/
def callValue (S : TSet) : Nat → Env → Value → M Unit
  | 0, _, _ => throw .fuel
  | fuel + 1, env, v =>
    match v with
    | .val (.obj s) => emit s
    | .val (.lit _) => throw .type
    | .code r c => execCode S fuel r c []
    | .localdef x =>
      match env.inlineOf with
      | some nsn => execCode S fuel ⟨env.tu, .inline nsn x⟩ env.ctx []     -- a sibling def of the same tag: plain closure call
      | none =>
      if env.isBody then do
        let c ← getCtx env.ctx
        let nc ← newCtx (c.withLocals env.locals)
        execCode S fuel ⟨env.tu, .defn x⟩ nc []
      else execCode S fuel ⟨env.tu, .defn x⟩ env.ctx []
    | .modfn tag => emit tag
    | _ => throw .type

/-- run `render_body` / `render_<def>` / an inline def of module `r.tu` with context `cid` and keyword arguments -/
def execCode (S : TSet) : Nat → CodeRef → Nat → List (Str × Val) → M Unit
  | 0, _, _, _ => throw .fuel
  | fuel + 1, r, cid, kwargs =>
    match setLookup S r.tu with
    | .found t =>
      match r.sel with
      | .body =>
        match bindPage t.pageArgs kwargs with
        | none => throw .type
        | some locals => do
          let imp ← if t.hasImports then some <$> buildImports S fuel r.tu t cid t.nss [] else pure none
          let nsvars ← declareVars S fuel r.tu t cid t.pageNames t.defNames imp (sortNames (freeNames t t.body)) []
          execItems S fuel ⟨r.tu, t, cid, locals, imp, nsvars, true, t.defNames, none⟩ t.body
      | .defn n =>
        match t.findDef n with
        | none => throw .internal
        | some d => do
          let imp ← if t.hasImports then some <$> buildImports S fuel r.tu t cid t.nss [] else pure none
          let nsvars ← declareVars S fuel r.tu t cid [] t.defNames imp (sortNames (freeNames t d.body)) []
          execItems S fuel ⟨r.tu, t, cid, [], imp, nsvars, false, t.defNames, none⟩ d.body
      | .inline nsn dn =>
        match t.findNs nsn with
        | none => throw .internal
        | some tag =>
          match alookup dn tag.inline with
          | none => throw .internal
          | some items => do
            -- the defs written inside a `<%namespace>` tag are generated before `has_ns_imports` is recorded: free names
            -- are read with `context.get`, the namespaces of the module with `_mako_get_namespace`
            let siblings := tag.inline.map (·.1)
            let nsvars ← declareVars S fuel r.tu t cid [] siblings none (sortNames (freeNames t items)) []
            execItems S fuel ⟨r.tu, t, cid, [], none, nsvars, false, siblings, some nsn⟩ items
    | _ => throw .internal

/-- `_include_file(context, uri, calling_uri, **kwargs)`.
The two branches of `if S.ieh` at the end are deliberately identical: they mirror the two call sites of the target's render
callable in the real function (inside `try:` when the template has an `include_error_handler`, whose handler here answers
false so that the exception propagates unchanged, and the plain call otherwise).  Both pass `ctx`, the context returned by
`_populate_self_namespace` for the cleaned copy; that this is true of the source is the regenerated fact
`Generated.NsFlow.includeCallSitesUseCleanContext` (obligation `include_call_sites_obligation` in Props/C07). -/
def includeFile (S : TSet) : Nat → Nat → EvKind → Str → Option Str → List (Str × Str) → M Unit
  | 0, _, _, _, _, _ => throw .fuel
  | fuel + 1, cid, kind, uri, calling, args => do
    let (u, t) ← lookupTemplate S kind uri calling
    let c ← getCtx cid
    let ncid ← newCtx c.clean
    let (callable, lcid) ← populateSelf S fuel ncid u t none
    match setLookup S callable.tu with
    | .found bt => do
      let kwargs := kwargsForInclude (namedArgs bt) c.data (args.map fun (k, v) => (k, Val.lit v))
      -- two call sites: inside `try:` when the template has an `include_error_handler` (the handler is given the
      -- exception and, answering false, lets it propagate), plain otherwise; both run the target with `ctx`, the
      -- context `_populate_self_namespace` returned for the cleaned copy – never with the includer's `context`
      if S.ieh then execCode S fuel callable lcid kwargs
      else execCode S fuel callable lcid kwargs
    | _ => throw .internal
end

/-- `Template.render(**data)` of the template at `entry` -/
def render (S : TSet) (fuel : Nat) (entry : Str) (data : List (Str × Val)) : M Unit :=
  match setLookup S entry with
  | .found t => do
    let cid ← newCtx ⟨data, none, none, none, none⟩
    let (callable, lcid) ← populateSelf S fuel cid entry t none
    execCode S fuel callable lcid data
  | _ => throw .lookup

def output (s : St) : Str := s.out.reverse.flatten

end MakoModel.Namespace
