import MakoModel.Basic.Wire
import MakoModel.Namespace.Model
/-!
Driver handler for the namespace/include model: `ns <fn> <args…>`.

* `ns render <fuel> <entry> DATA SET` – render the template at `entry`; answer
  `<ok|err:kind> <output> <event>*` with one event `kind:rel:raw:resolved:found` per `_lookup_template` call.
* `ns kwargs NAMES DATA KW` – `_kwargs_for_include` on association lists.
* `ns getattr <key> LEVELS` – `Namespace.__getattr__` on a chain of namespaces (inline names, template defs / module members).
* `ns star LEVEL` – `_get_star` names of one namespace, in order.
* `ns adjust <uri> <rel|none>` – `adjust_uri`.

Grammar (tokens separated by blanks; strings in the wire encoding):
  SET := n (uri TEMPLATE)* n dir* n (path TEMPLATE)* n (name n (member kind tag)*)* strict_undefined include_error_handler
  TEMPLATE := n (arg (none|default))* (none|inherit) n NSTAG* n (name isblock ITEMS)* ITEMS
  NSTAG := name (f uri|m module|p) inheritable (none|n name*) n (name ITEMS)*
  ITEMS := n ITEM*     ARGS := n (key value)*     RECV := self|local|parent|next|ns name
  ITEM := t s | n x called | c RECV f | i uri ARGS | ai RECV uri ARGS | an RECV uri f | at RECV uri | p | b name
-/
namespace MakoModel.Namespace.Drv
open MakoModel.Wire MakoModel.Namespace

abbrev P (α : Type) := List String → Option (α × List String)

def P.pure {α} (a : α) : P α := fun ts => some (a, ts)
def P.bind {α β} (p : P α) (f : α → P β) : P β := fun ts =>
  match p ts with
  | some (a, r) => f a r
  | none => none
instance : Monad P where
  pure := P.pure
  bind := P.bind

def tok : P String
  | [] => none
  | t :: r => some (t, r)

def fail {α} : P α := fun _ => none

def pStr : P Str := do
  let t ← tok
  match decStr t with
  | some s => pure s
  | none => fail

def pNat : P Nat := do
  let t ← tok
  match t.toNat? with
  | some n => pure n
  | none => fail

def pBool : P Bool := do
  let t ← tok
  match decBool t with
  | some b => pure b
  | none => fail

def pMany {α} (p : P α) : Nat → P (List α)
  | 0 => pure []
  | n + 1 => do
    let a ← p
    let r ← pMany p n
    pure (a :: r)

def pList {α} (p : P α) : P (List α) := do
  let n ← pNat
  pMany p n

def pOptStr : P (Option Str) := fun ts =>
  match ts with
  | "none" :: r => some (none, r)
  | _ => (do let s ← pStr; pure (some s) : P (Option Str)) ts

def pRecv : P Recv := do
  let t ← tok
  match t with
  | "self" => pure .self
  | "local" => pure .loc
  | "parent" => pure .parent
  | "next" => pure .next
  | "ns" => do let n ← pStr; pure (.ns n)
  | _ => fail

def pArgs : P (List (Str × Str)) := pList do
  let k ← pStr
  let v ← pStr
  pure (k, v)

def pItem : P Item := do
  let t ← tok
  match t with
  | "t" => do let s ← pStr; pure (.text s)
  | "n" => do let x ← pStr; let c ← pBool; pure (.name x c)
  | "c" => do let r ← pRecv; let f ← pStr; pure (.nscall r f)
  | "i" => do let u ← pStr; let a ← pArgs; pure (.incl u a)
  | "ai" => do let r ← pRecv; let u ← pStr; let a ← pArgs; pure (.apiIncl r u a)
  | "an" => do let r ← pRecv; let u ← pStr; let f ← pStr; pure (.apiNs r u f)
  | "at" => do let r ← pRecv; let u ← pStr; pure (.apiTmpl r u)
  | "p" => pure .probe
  | "b" => do let n ← pStr; pure (.block n)
  | _ => fail

def pItems : P (List Item) := pList pItem

def pNsTag : P NsTag := do
  let name ← pStr
  let k ← tok
  let src ← match k with
    | "f" => do let u ← pStr; pure (NsSrc.file u)
    | "m" => do let m ← pStr; pure (NsSrc.module m)
    | "p" => pure NsSrc.plain
    | _ => fail
  let inh ← pBool
  let imports ← fun ts =>
    match ts with
    | "none" :: r => some (none, r)
    | _ => (do let l ← pList pStr; pure (some l) : P (Option (List Str))) ts
  let inline ← pList do
    let n ← pStr
    let b ← pItems
    pure (n, b)
  pure ⟨name, src, inh, imports, inline⟩

def pTemplate : P Template := do
  let page ← pList do
    let a ← pStr
    let d ← pOptStr
    pure (a, d)
  let inherit ← pOptStr
  let nss ← pList pNsTag
  let defs ← pList do
    let n ← pStr
    let b ← pBool
    let body ← pItems
    pure (⟨n, b, body⟩ : Def)
  let body ← pItems
  pure ⟨page, inherit, nss, defs, body⟩

def pMod : P PyMod := do
  let name ← pStr
  let members ← pList do
    let m ← pStr
    let k ← tok
    let kind ← match k with
      | "fn" => pure MemKind.fn
      | "const" => pure MemKind.const
      | _ => fail
    let tag ← pStr
    pure (m, kind, tag)
  pure ⟨name, members⟩

def pSet : P TSet := do
  let coll ← pList do
    let u ← pStr
    let t ← pTemplate
    pure (u, t)
  let dirs ← pList pStr
  let files ← pList do
    let u ← pStr
    let t ← pTemplate
    pure (u, t)
  let mods ← pList pMod
  let strict ← pBool
  let ieh ← pBool
  pure ⟨coll, dirs, files, mods, strict, ieh⟩

def pVal : P Val := do
  let k ← tok
  let s ← pStr
  match k with
  | "lit" => pure (.lit s)
  | "obj" => pure (.obj s)
  | _ => fail

def pData : P (List (Str × Val)) := pList do
  let k ← pStr
  let v ← pVal
  pure (k, v)

def encErr : Err → String
  | .lookup => "lookup" | .index => "index" | .attr => "attr" | .type => "type" | .name => "name"
  | .fuel => "fuel" | .internal => "internal"

def encKind : EvKind → String
  | .incl => "incl" | .nstag => "nstag" | .inherit => "inherit" | .api => "api"

def encEvent (e : Event) : String :=
  ":".intercalate [encKind e.kind, encOpt encStr e.rel, encStr e.raw, encStr e.resolved, encBool e.found]

def encRes (r : Res Unit) : String :=
  let (status, s) := match r with
    | .ok _ s => ("ok", s)
    | .err e s => ("err:" ++ encErr e, s)
  " ".intercalate (status :: encStr (output s) :: s.log.reverse.map encEvent)

/-- one level of a namespace chain for `ns getattr`/`ns star`: inline names, then `t n def*` | `m n (member kind)*` | `p` -/
structure Level where
  inline : List Str
  kind : String
  members : List (Str × MemKind)

def pLevel : P Level := do
  let inline ← pList pStr
  let k ← tok
  match k with
  | "t" => do
    let defs ← pList pStr
    pure ⟨inline, "t", defs.map fun d => (d, MemKind.fn)⟩
  | "m" => do
    let mem ← pList do
      let m ← pStr
      let kk ← tok
      match kk with
      | "fn" => pure (m, MemKind.fn)
      | "const" => pure (m, MemKind.const)
      | _ => fail
    pure ⟨inline, "m", mem⟩
  | "p" => pure ⟨inline, "p", []⟩
  | _ => fail

def levelUri (i : Nat) : Str := ("/L" ++ toString i).toList
def levelTag (i : Nat) (what : String) (n : Str) : Str := (toString i ++ ":" ++ what ++ ":").toList ++ n

/-- a set and a heap holding the chain `0 → 1 → …`; def `d` of level `i` writes `i:member:d`, inline def `d` writes `i:inline:d` -/
def buildChain (levels : List Level) : TSet × St :=
  let idx := List.range levels.length
  let pairs := idx.zip levels
  let coll := pairs.filterMap fun (i, l) =>
    if l.kind = "t" then
      some (levelUri i, (⟨[], none,
        [⟨"n".toList, .plain, false, none, l.inline.map fun d => (d, [Item.text (levelTag i "inline" d)])⟩],
        l.members.filter (·.1 ≠ sBody) |>.map (fun (d, _) => ⟨d, false, [Item.text (levelTag i "member" d)]⟩),
        [Item.text (levelTag i "member" sBody)]⟩ : Template))
    else none
  let mods := pairs.filterMap fun (i, l) =>
    if l.kind = "m" then some (⟨levelUri i, l.members.map fun (m, k) => (m, k, levelTag i "member" m)⟩ : PyMod) else none
  let nss := pairs.map fun (i, l) =>
    (⟨"n".toList,
      if l.kind = "t" then .tmpl (levelUri i) else if l.kind = "m" then .module (levelUri i) else .plain,
      l.inline.map (fun d => (d, (⟨levelUri i, .inline "n".toList d⟩ : CodeRef), i)),
      if i + 1 < levels.length then some (i + 1) else none, i⟩ : NsObj)
  let ctxs := idx.map fun i => (⟨[], some 0, some i, none, none⟩ : Ctx)
  (⟨coll, [], [], mods, false, false⟩, ⟨ctxs, nss, [], [], [], []⟩)

def encValue : Value → String
  | .code r _ =>
    match r.sel with
    | .inline _ d => "code:" ++ encStr r.tu ++ ":inline:" ++ encStr d
    | .defn d => "code:" ++ encStr r.tu ++ ":member:" ++ encStr d
    | .body => "code:" ++ encStr r.tu ++ ":member:" ++ encStr sBody
  | .modfn tag => "modfn:" ++ encStr tag
  | .nsref _ => "nsref"
  | .other => "other"
  | .undefined => "undefined"
  | .localdef _ => "localdef"
  | .val v => "val:" ++ encStr v.str

def handle : Handler
  | "render" :: fuel :: entry :: rest => do
    let fuel ← fuel.toNat?
    let entry ← decStr entry
    let (data, rest) ← pData rest
    let (S, rest) ← pSet rest
    if rest ≠ [] then none
    else pure (encRes (render S fuel entry data St.empty))
  | "kwargs" :: rest => do
    let (names, rest) ← pList pStr rest
    let (data, rest) ← pArgs rest
    let (kw, rest) ← pArgs rest
    if rest ≠ [] then none
    else
      let r := kwargsForInclude names data kw
      pure (if r.isEmpty then "[]" else " ".intercalate (r.map fun (k, v) => encStr k ++ "=" ++ encStr v))
  | "getattr" :: key :: rest => do
    let key ← decStr key
    let (levels, rest) ← pList pLevel rest
    if rest ≠ [] then none
    else
      let (S, s) := buildChain levels
      match nsGetattr S s 0 key with
      | .ok v => pure (encValue v)
      | .error e => pure ("err:" ++ encErr e)
  | "star" :: rest => do
    let (l, rest) ← pLevel rest
    if rest ≠ [] then none
    else
      let (S, s) := buildChain [l]
      match s.nss[0]? with
      | some o => pure (encList ((getStar S o).map (·.1)))
      | none => none
  | ["adjust", u, "none"] => do let u ← decStr u; pure (encOpt encStr (Path.adjustUri u none))
  | ["adjust", u, r] => do let u ← decStr u; let r ← decStr r; pure (encOpt encStr (Path.adjustUri u (some r)))
  | _ => none

end MakoModel.Namespace.Drv
