import MakoModel.Namespace.Model
/-! Helper lemmas for the C07 theorems (association lists, `_kwargs_for_include`, `_get_star`, namespace chains). -/
namespace MakoModel.Namespace

/-! ## association lists -/

theorem alookup_append {β} (k : Str) (l r : List (Str × β)) :
    alookup k (l ++ r) = match alookup k l with
      | some v => some v
      | none => alookup k r := by
  induction l with
  | nil => simp [alookup]
  | cons h t ih =>
    obtain ⟨a, b⟩ := h
    by_cases hk : a = k <;> simp [alookup, hk, ih]

theorem alookup_single {β} (k a : Str) (v : β) : alookup k [(a, v)] = if a = k then some v else none := by
  simp [alookup]

theorem alookup_some_mem {β} {k : Str} {l : List (Str × β)} {v : β} (h : alookup k l = some v) : (k, v) ∈ l := by
  induction l with
  | nil => simp [alookup] at h
  | cons hd t ih =>
    obtain ⟨a, b⟩ := hd
    by_cases hk : a = k
    · simp [alookup, hk] at h; subst hk; subst h; simp
    · simp [alookup, hk] at h; exact List.mem_cons_of_mem _ (ih h)

theorem alookup_none_iff {β} (k : Str) (l : List (Str × β)) : alookup k l = none ↔ k ∉ l.map (·.1) := by
  induction l with
  | nil => simp [alookup]
  | cons hd t ih =>
    obtain ⟨a, b⟩ := hd
    by_cases hk : a = k
    · simp [alookup, hk]
    · have hk' : ¬ k = a := fun h => hk h.symm
      simp only [alookup, hk, if_false, ih, List.map_cons, List.mem_cons, hk', false_or]

/-! ## `_kwargs_for_include` -/

theorem mem_cons_ne {k a : Str} {r : List Str} (h : ¬ k = a) : (k ∈ a :: r) = (k ∈ r) := by
  simp [h]

/-- the result as a dictionary: explicit arguments first, then the context, only for the callee's parameters, never `context` -/
theorem kwargsForInclude_lookup {β} (named : List Str) (data kw : List (Str × β)) (k : Str) :
    alookup k (kwargsForInclude named data kw) =
      match alookup k kw with
      | some v => some v
      | none => if k ∈ named ∧ k ≠ sContext then alookup k data else none := by
  induction named generalizing kw with
  | nil => cases h : alookup k kw <;> simp [kwargsForInclude, h]
  | cons a r ih =>
    unfold kwargsForInclude
    by_cases hctx : a = sContext
    · rw [if_pos hctx, ih]
      cases h : alookup k kw with
      | some v => rfl
      | none =>
        by_cases hk : k = sContext
        · simp [hk]
        · simp only [hctx, mem_cons_ne hk]
    · rw [if_neg hctx]
      by_cases hka : k = a
      · -- the parameter being processed
        subst hka
        cases hd : alookup k data with
        | none =>
          simp only [ih]
          cases h : alookup k kw <;> simp [hd]
        | some v =>
          cases hw : alookup k kw with
          | some w => simp only [ih, hw]
          | none =>
            simp [ih, alookup_append, alookup_single, hw, hctx]
      · have hka' : ¬ a = k := fun h => hka h.symm
        have hmem := mem_cons_ne (r := r) hka
        cases hd : alookup a data with
        | none => simp only [ih, hmem]
        | some v =>
          cases hw : alookup a kw with
          | some w => simp only [ih, hmem]
          | none =>
            simp only [ih, alookup_append, alookup_single, hka', if_false, hmem]
            cases alookup k kw <;> rfl

/-! ## binding of page arguments -/

theorem bindPage_lookup (pa : List (Str × Option Str)) (kw l : List (Str × Val)) (h : bindPage pa kw = some l) (p : Str) :
    alookup p l = match alookup p pa with
      | none => none
      | some d => match alookup p kw with
        | some v => some v
        | none => d.map Val.lit := by
  induction pa generalizing l with
  | nil => simp [bindPage] at h; subst h; simp [alookup]
  | cons hd r ih =>
    obtain ⟨q, d⟩ := hd
    unfold bindPage at h
    cases hq : alookup q kw with
    | some v =>
      simp only [hq] at h
      cases hr : bindPage r kw with
      | none => simp [hr] at h
      | some l' =>
        simp [hr] at h; subst h
        by_cases hqp : q = p
        · subst hqp; simp [alookup, hq]
        · simp [alookup, hqp, ih l' hr]
    | none =>
      cases d with
      | none => simp [hq] at h
      | some dv =>
        simp only [hq] at h
        cases hr : bindPage r kw with
        | none => simp [hr] at h
        | some l' =>
          simp [hr] at h; subst h
          by_cases hqp : q = p
          · subst hqp; simp [alookup, hq]
          · simp [alookup, hqp, ih l' hr]

/-! ## dictionaries built by `_populate` -/

theorem dictUpdate_lookup {β} (d l : List (Str × β)) (k : Str) :
    alookup k (dictUpdate d l) = match alookup k l.reverse with
      | some v => some v
      | none => alookup k d := by
  induction l generalizing d with
  | nil => simp [dictUpdate, alookup]
  | cons hd t ih =>
    obtain ⟨a, b⟩ := hd
    simp only [dictUpdate, List.reverse_cons]
    rw [ih, alookup_append, alookup_single]
    cases alookup k t.reverse with
    | some v => rfl
    | none => by_cases hk : a = k <;> simp [alookup, hk]

theorem alookup_reverse_nodup {β} (k : Str) (l : List (Str × β)) (h : (l.map (·.1)).Nodup) :
    alookup k l.reverse = alookup k l := by
  induction l with
  | nil => rfl
  | cons hd t ih =>
    obtain ⟨a, b⟩ := hd
    simp only [List.map_cons, List.nodup_cons] at h
    simp only [List.reverse_cons]
    rw [alookup_append, ih h.2, alookup_single]
    by_cases hk : a = k
    · subst hk
      have : alookup a t = none := (alookup_none_iff a t).2 h.1
      simp [alookup, this]
    · cases hkt : alookup k t <;> simp [alookup, hk, hkt]

end MakoModel.Namespace

namespace MakoModel.Namespace

/-! ## the state monad -/

@[simp] theorem bind_apply {α β} (m : M α) (f : α → M β) (s : St) :
    (m >>= f) s = match m s with
      | .ok a s' => f a s'
      | .err e s' => .err e s' := rfl
@[simp] theorem pure_apply {α} (a : α) (s : St) : (pure a : M α) s = .ok a s := rfl
@[simp] theorem map_apply {α β} (f : α → β) (m : M α) (s : St) :
    (f <$> m) s = match m s with
      | .ok a s' => .ok (f a) s'
      | .err e s' => .err e s' := rfl
@[simp] theorem throw_apply {α} (e : Err) (s : St) : (throw e : M α) s = .err e s := rfl

theorem modify_append_last {α} (l : List α) (x : α) (f : α → α) : (l ++ [x]).modify l.length f = l ++ [f x] := by
  induction l with
  | nil => rfl
  | cons h t ih => simp [ih]

/-! ## namespace chains -/

/-- `os` are the namespaces met from `id` along `inherits`, the last one having no `inherits` -/
inductive Chain (s : St) : Nat → List NsObj → Prop where
  | last {id o} : s.nss[id]? = some o → o.inherits = none → Chain s id [o]
  | cons {id o p os} : s.nss[id]? = some o → o.inherits = some p → Chain s p os → Chain s id (o :: os)

/-- the first level of the chain that has the key as an inline def or as a member -/
def chainFind (S : TSet) (key : Str) : List NsObj → Except Err Value
  | [] => .error .attr
  | o :: os =>
    match levelFind S o key with
    | some r => r
    | none => chainFind S key os

theorem getattrChain_eq_chainFind (S : TSet) (s : St) (key : Str) {id : Nat} {os : List NsObj} (h : Chain s id os) :
    ∀ fuel, os.length ≤ fuel → getattrChain S s fuel id key = chainFind S key os := by
  induction h with
  | last hget hin =>
    intro fuel hf
    cases fuel with
    | zero => simp at hf
    | succ n =>
      simp only [getattrChain, hget, hin, chainFind]
      cases levelFind S _ key <;> rfl
  | cons hget hin _ ih =>
    intro fuel hf
    cases fuel with
    | zero => simp at hf
    | succ n =>
      simp only [getattrChain, hget, hin, chainFind]
      cases levelFind S _ key with
      | some r => rfl
      | none => exact ih n (by simpa using hf)

/-- what `import="*"` takes from the thing a namespace stands for: the template's `_exports` (top-level defs and named
blocks; not `body`), the module's public functions, nothing for a plain namespace -/
def starMembers (S : TSet) (o : NsObj) : List Str :=
  match o.kind with
  | .tmpl u =>
    match setLookup S u with
    | .found t => t.exports
    | _ => []
  | .module m =>
    match modLookup S m with
    | some pm => (pm.members.filter fun (k, kind, _) => k.head? ≠ some '_' ∧ kind = .fn).map (·.1)
    | none => []
  | .plain => []

end MakoModel.Namespace
