import MakoModel.PyExpr.PrintSpec
/-! Under `completeGuard` the leaves of the printed stream are the parts of the expression (helper lemmas for C19). -/
set_option linter.unusedSimpArgs false
set_option linter.unusedVariables false

namespace MakoModel.PyExpr

theorem collect_append (a b : Toks) : collect (a ++ b) = collect a ++ collect b := by
  induction a with
  | nil => rfl
  | cons t r ih => cases t <;> simp [collect, ih]

theorem collect_flatten (ts : List Toks) : collect ts.flatten = (ts.map collect).flatten := by
  induction ts with
  | nil => rfl
  | cons a r ih => simp [collect_append, ih]

theorem collect_joinWith {s : Toks} (hs : collect s = []) (ts : List Toks) :
    collect (joinWith s ts) = (ts.map collect).flatten := by
  induction ts with
  | nil => rfl
  | cons a r ih =>
    cases r with
    | nil => simp [joinWith]
    | cons b r' => simp only [joinWith, collect_append, hs, ih]; simp

@[simp] theorem collect_sp (r : Toks) : collect (sp :: r) = collect r := rfl
@[simp] theorem collect_lpar (r : Toks) : collect (lpar :: r) = collect r := rfl
@[simp] theorem collect_rpar (r : Toks) : collect (rpar :: r) = collect r := rfl
theorem collect_comma : collect comma = [] := rfl

@[simp] theorem collect_wrapOperand (e : Expr) (t : Toks) : collect (wrapOperand e t) = collect t := by
  unfold wrapOperand; split <;> simp [collect_append, collect]

theorem map_insertAt {α β} (f : α → β) (k : Nat) (x : α) (l : List α) :
    (insertAt k x l).map f = insertAt k (f x) (l.map f) := by
  simp [insertAt, List.map_take, List.map_drop]

theorem partsList_eq (es : List Expr) : Spec.partsList es = (es.map Spec.parts).flatten := by
  induction es with
  | nil => simp [Spec.partsList]
  | cons e r ih => simp [Spec.partsList, ih]

theorem collect_sepJoin (s : Str) : ∀ (ts : List Toks) (es : List Expr), ts.map collect = es.map Spec.parts →
    collect (joinWith [sp, .leaf s, sp] ts) = Spec.partsSep s es
  | [], [], _ => by simp [joinWith, Spec.partsSep, collect]
  | [], _ :: _, h => by simp at h
  | _ :: _, [], h => by simp at h
  | [t], [e], h => by
      simp only [List.map_cons, List.map_nil, List.cons.injEq, and_true] at h
      simp [joinWith, Spec.partsSep, h]
  | [_], _ :: _ :: _, h => by simp at h
  | _ :: _ :: _, [_], h => by simp at h
  | t :: t' :: r, e :: e' :: r', h => by
      have h1 : collect t = Spec.parts e := by simpa using (List.cons.inj h).1
      have h2 : (t' :: r).map collect = (e' :: r').map Spec.parts := (List.cons.inj h).2
      have ih := collect_sepJoin s (t' :: r) (e' :: r') h2
      simp only [joinWith] at ih ⊢
      simp only [collect_append, h1, ih, Spec.partsSep]
      simp [collect]

theorem collect_ifs : ∀ (tf : List Toks) (ifs : List Expr), tf.map collect = ifs.map Spec.parts →
    collect (tf.map fun c => sp :: Tok.leaf ['i', 'f'] :: sp :: c).flatten = Spec.partsIfs ifs
  | [], [], _ => by simp [Spec.partsIfs, collect]
  | [], _ :: _, h => by simp at h
  | _ :: _, [], h => by simp at h
  | t :: r, e :: r', h => by
      have h1 : collect t = Spec.parts e := by simpa using (List.cons.inj h).1
      have ih := collect_ifs r r' (List.cons.inj h).2
      simp only [List.map_cons, List.flatten_cons, collect_append, ih, Spec.partsIfs]
      simp [collect, h1]

theorem collect_argTok (hv : hasVisitor .arg = true) (a : Str) : collect (argTok a) = [a] := by
  simp [argTok, hv, collect]

macro "cunfold" h:ident : tactic =>
  `(tactic| simp only [Expr.all, allOpt, allList, allOptList, allKeywords, allDict, allComps, allArgs,
      completeLocalAll, totalLocal, visitorsLocal, completeLocal, Expr.kind,
      Bool.and_eq_true, List.all_cons, List.all_nil, Comp.sync,
      Bool.true_and, Bool.and_true, and_assoc, and_true, true_and, Bool.not_eq_true', Bool.not_eq_eq_eq_not,
      Bool.not_true, List.isEmpty_iff] at $h:ident)

macro "punfoldg" h:ident hg:ident : tactic =>
  `(tactic| simp only [print, printOpt, printList, printDict, printCmp, printKeywords, printComps, printDefaults,
      printSig, printOps, printKwDefaults, $hg:ident, if_true, ↓reduceIte,
      bind, Option.bind_eq_some_iff, pure, Option.some.injEq, exists_and_left, exists_eq_left'] at $h:ident)

macro "cclose" : tactic =>
  `(tactic| simp [collect_append, collect, Spec.parts, Spec.partsOpt, Spec.partsList, Spec.partsCmp,
      Spec.partsKeywords, Spec.partsDict, Spec.partsComps, Spec.partsDefaults, collect_flatten,
      collect_joinWith collect_comma, *])

set_option maxHeartbeats 1000000 in
mutual
theorem collect_print (hs : SymbolsAgree) : ∀ (e : Expr) (t : Toks), e.all completeLocalAll = true →
    print e = some t → collect t = Spec.parts e
  | .name id _, t, hg, h => by cunfold hg; punfoldg h hg; subst h; cclose
  | .const _ r, t, hg, h => by cunfold hg; punfoldg h hg; subst h; cclose
  | .attribute v a, t, hg, h => by
      cunfold hg; punfoldg h hg; obtain ⟨tv, hv, rfl⟩ := h
      have := collect_print hs v tv (by simp [hg]) hv; cclose
  | .subscript v s, t, hg, h => by
      cunfold hg; punfoldg h hg; obtain ⟨tv, hv, ts, hs', rfl⟩ := h
      have := collect_print hs v tv (by simp [hg]) hv; have := collect_print hs s ts (by simp [hg]) hs'; cclose
  | .slice lo hi none, t, hg, h => by
      cunfold hg; punfoldg h hg; obtain ⟨tl, hl, th, hh, rfl⟩ := h
      have := collect_printOpt hs lo tl (by simp [hg]) hl; have := collect_printOpt hs hi th (by simp [hg]) hh
      cclose
  | .slice lo hi (some s), t, hg, h => by
      cunfold hg; punfoldg h hg; obtain ⟨tl, hl, th, hh, h⟩ := h
      have := collect_printOpt hs lo tl (by simp [hg]) hl; have := collect_printOpt hs hi th (by simp [hg]) hh
      simp only [hg, Bool.false_eq_true, ↓reduceIte] at h
      punfoldg h hg; obtain ⟨ts, hs', rfl⟩ := h
      have := collect_print hs s ts (by simp [hg]) hs'; cclose
  | .call f args kws, t, hg, h => by
      cunfold hg; punfoldg h hg; obtain ⟨tf, hf, ta, ha, tk, hk, rfl⟩ := h
      have := collect_print hs f tf (by simp [hg]) hf
      have h1 := collect_printList hs args ta (by simp [hg]) ha
      have h2 := collect_printKeywords hs kws tk (by simp [hg]) hk
      simp [collect_append, collect_joinWith collect_comma, Spec.parts, partsList_eq, collect, *]
  | .unaryOp op e, t, hg, h => by
      cunfold hg; punfoldg h hg; obtain ⟨s, hs', te, he, rfl⟩ := h
      have := collect_print hs e te (by simp [hg]) he
      have hsym : s = Spec.unarySym op := by have := hs.unary op; simp_all
      subst hsym
      split <;> cclose
  | .binOp l op r, t, hg, h => by
      cunfold hg; punfoldg h hg; obtain ⟨tl, hl, s, hs', tr, hr, rfl⟩ := h
      have := collect_print hs l tl (by simp [hg]) hl; have := collect_print hs r tr (by simp [hg]) hr
      have hsym : s = Spec.binSym op := by have := hs.bin op; simp_all
      subst hsym; cclose
  | .boolOp op vs, t, hg, h => by
      cunfold hg; punfoldg h hg; obtain ⟨tv, hv, h⟩ := h
      have h1 := collect_printOps hs vs tv (by simp [hg]) hv
      split at h
      · punfoldg h hg; subst h
        rename_i hlen
        match tv, vs, h1, hlen with
        | [], [], _, _ => simp [Spec.parts, Spec.partsSep, collect]
        | [t], [e], h1, _ =>
          simp only [List.map_cons, List.map_nil, List.cons.injEq, and_true] at h1
          simp [Spec.parts, Spec.partsSep, collect_append, h1, collect]
        | [], _ :: _, h1, _ => simp at h1
        | [_], [], h1, _ => simp at h1
        | [_], _ :: _ :: _, h1, _ => simp at h1
        | _ :: _ :: _, _, _, hlen => simp at hlen
      · punfoldg h hg; obtain ⟨s, hs', rfl⟩ := h
        have hsym : s = Spec.boolSym op := by have := hs.bool op; simp_all
        subst hsym
        simp [collect_append, collect_sepJoin _ tv vs h1, Spec.parts, collect]
  | .compare l ops cs, t, hg, h => by
      cunfold hg; punfoldg h hg; obtain ⟨tl, hl, tc, hc, rfl⟩ := h
      have := collect_print hs l tl (by simp [hg]) hl
      have := collect_printCmp hs ops cs tc (by simp [hg]) hc; cclose
  | .ifExp c b o, t, hg, h => by
      cunfold hg; punfoldg h hg; obtain ⟨tb, hb, tt, ht, to, ho, rfl⟩ := h
      have := collect_print hs b tb (by simp [hg]) hb; have := collect_print hs c tt (by simp [hg]) ht
      have := collect_print hs o to (by simp [hg]) ho; cclose
  | .lambda a b, t, hg, h => by
      cunfold hg; punfoldg h hg; obtain ⟨ts, hs', tb, hb, rfl⟩ := h
      have := collect_printSig hs a ts (by simp [hg]) (by simp [hg]) hs'
      have := collect_print hs b tb (by simp [hg]) hb
      simp [collect_append, collect_joinWith collect_comma, Spec.parts, collect, *]
  | .tuple es, t, hg, h => by
      cunfold hg; punfoldg h hg; obtain ⟨te, he, rfl⟩ := h
      have h1 := collect_printList hs es te (by simp [hg]) he
      split <;> simp [collect_append, collect_joinWith collect_comma, Spec.parts, partsList_eq, collect, *]
  | .list es, t, hg, h => by
      cunfold hg; punfoldg h hg; obtain ⟨te, he, rfl⟩ := h
      have h1 := collect_printList hs es te (by simp [hg]) he
      simp [collect_append, collect_joinWith collect_comma, Spec.parts, partsList_eq, collect, *]
  | .set es, t, hg, h => by
      cunfold hg; punfoldg h hg; obtain ⟨te, he, rfl⟩ := h
      have h1 := collect_printList hs es te (by simp [hg]) he
      simp [collect_append, collect_joinWith collect_comma, Spec.parts, partsList_eq, collect, *]
  | .dict items, t, hg, h => by
      cunfold hg; punfoldg h hg; obtain ⟨ti, hi, rfl⟩ := h
      have h1 := collect_printDict hs items ti (by simp [hg]) hi
      simp [collect_append, collect_joinWith collect_comma, Spec.parts, collect, *]
  | .listComp e gs, t, hg, h => by
      cunfold hg; punfoldg h hg; obtain ⟨te, he, tg, hgs, rfl⟩ := h
      have := collect_print hs e te (by simp [hg]) he
      have := collect_printComps hs gs tg (by simp [hg]) (by simp [hg]) (by simp [hg]) hgs; cclose
  | .setComp e gs, t, hg, h => by
      cunfold hg; punfoldg h hg; obtain ⟨te, he, tg, hgs, rfl⟩ := h
      have := collect_print hs e te (by simp [hg]) he
      have := collect_printComps hs gs tg (by simp [hg]) (by simp [hg]) (by simp [hg]) hgs; cclose
  | .generatorExp e gs, t, hg, h => by
      cunfold hg; punfoldg h hg; obtain ⟨te, he, tg, hgs, rfl⟩ := h
      have := collect_print hs e te (by simp [hg]) he
      have := collect_printComps hs gs tg (by simp [hg]) (by simp [hg]) (by simp [hg]) hgs; cclose
  | .dictComp k v gs, t, hg, h => by
      cunfold hg; punfoldg h hg; obtain ⟨tk, hk, tv, hv, tg, hgs, rfl⟩ := h
      have := collect_print hs k tk (by simp [hg]) hk; have := collect_print hs v tv (by simp [hg]) hv
      have := collect_printComps hs gs tg (by simp [hg]) (by simp [hg]) (by simp [hg]) hgs; cclose
  | .joinedStr src vs, t, hg, h => by cunfold hg; punfoldg h hg; subst h; cclose
  | .formattedValue v _ spec, t, hg, h => by
      cunfold hg; punfoldg h hg; obtain ⟨tv, hv, ts, hs', rfl⟩ := h
      have := collect_print hs v tv (by simp [hg]) hv
      have := collect_printOpt hs spec ts (by simp [hg]) hs'; cclose
  | .starred v, t, hg, h => by
      cunfold hg; punfoldg h hg; obtain ⟨tv, hv, rfl⟩ := h
      have := collect_print hs v tv (by simp [hg]) hv; cclose
  | .namedExpr a v, t, hg, h => by
      cunfold hg; punfoldg h hg; obtain ⟨ta, ha, tv, hv, rfl⟩ := h
      have := collect_print hs a ta (by simp [hg]) ha; have := collect_print hs v tv (by simp [hg]) hv; cclose
  | .await v, t, hg, h => by
      cunfold hg; punfoldg h hg; obtain ⟨tv, hv, rfl⟩ := h
      have := collect_print hs v tv (by simp [hg]) hv; cclose
  | .yield none, t, hg, h => by cunfold hg; simp at hg
  | .yield (some e), t, hg, h => by
      cunfold hg; punfoldg h hg; obtain ⟨te, he, rfl⟩ := h
      have := collect_print hs e te (by simp [hg]) he; cclose
  | .yieldFrom v, t, hg, h => by
      cunfold hg; punfoldg h hg; obtain ⟨tv, hv, rfl⟩ := h
      have := collect_print hs v tv (by simp [hg]) hv; cclose
theorem collect_printOpt (hs : SymbolsAgree) : ∀ (o : Option Expr) (t : Toks), allOpt completeLocalAll o = true →
    printOpt o = some t → collect t = Spec.partsOpt o
  | none, t, _, h => by simp only [printOpt, Option.some.injEq] at h; subst h; rfl
  | some e, t, hg, h => by
      simp only [printOpt] at h; simp only [allOpt] at hg
      simpa [Spec.partsOpt] using collect_print hs e t hg h
theorem collect_printList (hs : SymbolsAgree) : ∀ (es : List Expr) (ts : List Toks),
    allList completeLocalAll es = true → printList es = some ts → ts.map collect = es.map Spec.parts
  | [], ts, _, h => by simp only [printList, Option.some.injEq] at h; subst h; rfl
  | e :: es, ts, hg, h => by
      simp only [allList, Bool.and_eq_true] at hg
      punfoldg h hg; obtain ⟨t, ht, tr, hr, rfl⟩ := h
      simp [collect_print hs e t hg.1 ht, collect_printList hs es tr hg.2 hr]
theorem collect_printOps (hs : SymbolsAgree) : ∀ (es : List Expr) (ts : List Toks),
    allList completeLocalAll es = true → printOps es = some ts → ts.map collect = es.map Spec.parts
  | [], ts, _, h => by simp only [printOps, Option.some.injEq] at h; subst h; rfl
  | e :: es, ts, hg, h => by
      simp only [allList, Bool.and_eq_true] at hg
      punfoldg h hg; obtain ⟨t, ht, tr, hr, rfl⟩ := h
      simp [collect_print hs e t hg.1 ht, collect_printOps hs es tr hg.2 hr]
theorem collect_printDict (hs : SymbolsAgree) : ∀ (items : List DictItem) (ts : List Toks),
    allDict completeLocalAll items = true → printDict items = some ts →
    (ts.map collect).flatten = Spec.partsDict items
  | [], ts, _, h => by simp only [printDict, Option.some.injEq] at h; subst h; rfl
  | .mk none v :: r, ts, hg, h => by
      simp only [allDict, Bool.and_eq_true] at hg
      punfoldg h hg; obtain ⟨tv, hv, tr, hr, rfl⟩ := h
      have := collect_print hs v tv hg.1.2 hv
      have := collect_printDict hs r tr hg.2 hr; cclose
  | .mk (some k) v :: r, ts, hg, h => by
      simp only [allDict, Bool.and_eq_true] at hg
      punfoldg h hg; obtain ⟨tk, hk, tv, hv, tr, hr, rfl⟩ := h
      have := collect_print hs k tk hg.1.1 hk; have := collect_print hs v tv hg.1.2 hv
      have := collect_printDict hs r tr hg.2 hr; cclose
theorem collect_printCmp (hs : SymbolsAgree) : ∀ (ops : List CmpOp) (cs : List Expr) (t : Toks),
    allList completeLocalAll cs = true → printCmp ops cs = some t → collect t = Spec.partsCmp ops cs
  | _, [], t, _, h => by simp only [printCmp, Option.some.injEq] at h; subst h; simp [Spec.partsCmp, collect]
  | [], _ :: _, t, _, h => by simp only [printCmp, Option.some.injEq] at h; subst h; simp [Spec.partsCmp, collect]
  | op :: ops, c :: cs, t, hg, h => by
      simp only [allList, Bool.and_eq_true] at hg
      punfoldg h hg; obtain ⟨s, hs', tc, hc, tr, hr, rfl⟩ := h
      have hsym : s = Spec.cmpSym op := by have := hs.cmp op; simp_all
      subst hsym
      have := collect_print hs c tc hg.1 hc; have := collect_printCmp hs ops cs tr hg.2 hr; cclose
theorem collect_printKeywords (hs : SymbolsAgree) : ∀ (ks : List Keyword) (ts : List Toks),
    allKeywords completeLocalAll ks = true → printKeywords ks = some ts →
    (ts.map collect).flatten = Spec.partsKeywords ks
  | [], ts, _, h => by simp only [printKeywords, Option.some.injEq] at h; subst h; rfl
  | .mk arg v :: ks, ts, hg, h => by
      simp only [allKeywords, Bool.and_eq_true] at hg
      punfoldg h hg; obtain ⟨tv, hv, tr, hr, rfl⟩ := h
      have := collect_print hs v tv hg.1 hv; have := collect_printKeywords hs ks tr hg.2 hr
      cases arg <;> cclose
theorem collect_printComps (hs : SymbolsAgree) : ∀ (gs : List Comp) (t : Toks),
    allComps completeLocalAll gs = true → hasVisitor .comprehension = true → gs.all Comp.sync = true →
    printComps gs = some t → collect t = Spec.partsComps gs
  | [], t, _, _, _, h => by simp only [printComps, Option.some.injEq] at h; subst h; rfl
  | .mk target iter ifs isAsync :: gs, t, hg, hv, hsy, h => by
      simp only [allComps, Bool.and_eq_true] at hg
      simp only [List.all_cons, Comp.sync, Bool.and_eq_true, Bool.not_eq_true'] at hsy
      punfoldg h hv; obtain ⟨tt, ht, ti, hi, tf, hf, tr, hr, rfl⟩ := h
      have := collect_print hs target tt hg.1.1.1 ht; have := collect_print hs iter ti hg.1.1.2 hi
      have h3 := collect_printOps hs ifs tf hg.1.2 hf
      have := collect_printComps hs gs tr hg.2 hv hsy.2 hr
      have := collect_ifs tf ifs h3
      simp [collect_append, collect, Spec.partsComps, hsy.1, *]
theorem collect_printDefaults (hs : SymbolsAgree) (hv : hasVisitor .arg = true) : ∀ (as : List Str)
    (ds : List Expr) (ts : List Toks), allList completeLocalAll ds = true → printDefaults as ds = some ts →
    ts.map collect = Spec.partsDefaults as ds
  | _, [], ts, _, h => by simp only [printDefaults, Option.some.injEq] at h; subst h; simp [Spec.partsDefaults]
  | [], _ :: _, ts, _, h => by simp only [printDefaults, Option.some.injEq] at h; subst h; simp [Spec.partsDefaults]
  | a :: as, d :: ds, ts, hg, h => by
      simp only [allList, Bool.and_eq_true] at hg
      punfoldg h hg; obtain ⟨td, hd, tr, hr, rfl⟩ := h
      have := collect_print hs d td hg.1 hd; have := collect_printDefaults hs hv as ds tr hg.2 hr
      have := collect_argTok hv a
      simp [collect_append, collect, Spec.partsDefaults, *]
theorem collect_printKwDefaults (hs : SymbolsAgree) (hv : hasVisitor .arg = true) : ∀ (as : List Str)
    (ds : List (Option Expr)) (ts : List Toks), allOptList completeLocalAll ds = true →
    printKwDefaults as ds = some ts → (ts.map collect).flatten = Spec.partsKwDefaults as ds
  | _, [], ts, _, h => by simp only [printKwDefaults, Option.some.injEq] at h; subst h; simp [Spec.partsKwDefaults]
  | [], _ :: _, ts, _, h => by
      simp only [printKwDefaults, Option.some.injEq] at h; subst h; simp [Spec.partsKwDefaults]
  | a :: as, none :: ds, ts, hg, h => by
      simp only [allOptList] at hg
      punfoldg h hg; obtain ⟨tr, hr, rfl⟩ := h
      have := collect_printKwDefaults hs hv as ds tr hg hr
      have := collect_argTok hv a
      simp [Spec.partsKwDefaults, *]
  | a :: as, some d :: ds, ts, hg, h => by
      simp only [allOptList, Bool.and_eq_true] at hg
      punfoldg h hg; obtain ⟨td, hd, tr, hr, rfl⟩ := h
      have := collect_print hs d td hg.1 hd
      have := collect_printKwDefaults hs hv as ds tr hg.2 hr
      have := collect_argTok hv a
      simp [collect_append, collect, Spec.partsKwDefaults, *]
theorem collect_printSig (hs : SymbolsAgree) : ∀ (a : Args) (ts : List Toks), allArgs completeLocalAll a = true →
    hasVisitor .arg = true → printSig a = some ts → (ts.map collect).flatten = Spec.partsArgs a
  | .mk posonly args vararg kwonly kwDefaults kwarg defaults, ts, hg, hv, h => by
      simp only [allArgs, Bool.and_eq_true] at hg
      punfoldg h hg; obtain ⟨td, hd, tk, hk, rfl⟩ := h
      have h1 := collect_printDefaults hs hv _ defaults td hg.2 hd
      have h2 := collect_printKwDefaults hs hv kwonly kwDefaults tk hg.1 hk
      have hmap : ∀ l : List Str, (l.map argTok).map collect = l.map fun a => [a] := by
        intro l; induction l with
        | nil => rfl
        | cons x r ih => simp [collect_argTok hv, ih]
      have hslash : collect [Tok.leaf ['/']] = [['/']] := rfl
      simp only [Spec.partsArgs, List.map_append, List.flatten_append, h2]
      congr 1; congr 1; congr 1
      · split <;> simp [map_insertAt, hmap, h1, hslash, List.map_take]
      · cases vararg with
        | none => simp only []; split <;> simp [collect]
        | some v => simp [collect]
      · cases kwarg <;> simp [Spec.optName, collect]
end

end MakoModel.PyExpr
