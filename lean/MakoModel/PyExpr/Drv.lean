import MakoModel.Basic.Wire
import MakoModel.PyExpr.Model
/-!
Driver handler of the PyExpr model: `py <fn> <args…>`.

An AST travels as a prefix-notation token sequence (one token per field of the request line; strings in the
usual code-point encoding, `~` for `None`, counts before lists), produced on the Python side from `ast.parse`
output by `harness/props/C19.py:ser_expr/ser_stmts`.  Nothing here is referred to by a theorem.
-/
namespace MakoModel.PyExpr.Drv
open MakoModel.Wire

abbrev P (α : Type) := List String → Option (α × List String)

def pTok : P String
  | [] => none
  | t :: r => some (t, r)

def pStr : P Str
  | [] => none
  | t :: r => (decStr t).map fun s => (s, r)

def pOptStr : P (Option Str)
  | [] => none
  | "~" :: r => some (none, r)
  | t :: r => (decStr t).map fun s => (some s, r)

def pNat : P Nat
  | [] => none
  | t :: r => t.toNat?.map fun n => (n, r)

def pInt : P Int
  | [] => none
  | t :: r => t.toInt?.map fun n => (n, r)

def pMany {α} (p : P α) : Nat → P (List α)
  | 0, ts => some ([], ts)
  | n + 1, ts => do
    let (a, ts) ← p ts
    let (as, ts) ← pMany p n ts
    pure (a :: as, ts)

def pList {α} (p : P α) : P (List α) := fun ts => do
  let (n, ts) ← pNat ts
  pMany p n ts

def pCtx : P Ctx
  | "L" :: r => some (.load, r) | "S" :: r => some (.store, r) | "D" :: r => some (.del, r) | _ => none

def pConstKind : P ConstKind
  | "i" :: r => some (.int, r) | "f" :: r => some (.float, r) | "c" :: r => some (.complex, r)
  | "s" :: r => some (.str, r) | "b" :: r => some (.bytes, r) | "n" :: r => some (.none, r)
  | "t" :: r => some (.bool, r) | "e" :: r => some (.ellipsis, r) | _ => none

def byName {α} (all : List α) (nm : α → Str) : P α
  | [] => none
  | t :: r => (all.find? fun o => String.ofList (nm o) == t).map fun o => (o, r)

def pBoolOp : P BoolOp := byName BoolOp.all BoolOp.pyName
def pBinOp : P BinOp := byName BinOp.all BinOp.pyName
def pUnaryOp : P UnaryOp := byName UnaryOp.all UnaryOp.pyName
def pCmpOp : P CmpOp := byName CmpOp.all CmpOp.pyName

def pBool : P Bool
  | "1" :: r => some (true, r) | "0" :: r => some (false, r) | _ => none

mutual
partial def pExpr : P Expr
  | [] => none
  | t :: ts =>
    match t with
    | "N" => do let (s, ts) ← pStr ts; let (c, ts) ← pCtx ts; pure (.name s c, ts)
    | "K" => do let (k, ts) ← pConstKind ts; let (s, ts) ← pStr ts; pure (.const k s, ts)
    | "A" => do let (v, ts) ← pExpr ts; let (a, ts) ← pStr ts; pure (.attribute v a, ts)
    | "S" => do let (v, ts) ← pExpr ts; let (s, ts) ← pExpr ts; pure (.subscript v s, ts)
    | "SL" => do
        let (a, ts) ← pOptExpr ts; let (b, ts) ← pOptExpr ts; let (c, ts) ← pOptExpr ts
        pure (.slice a b c, ts)
    | "C" => do
        let (f, ts) ← pExpr ts; let (a, ts) ← pList pExpr ts; let (k, ts) ← pList pKeyword ts
        pure (.call f a k, ts)
    | "U" => do let (o, ts) ← pUnaryOp ts; let (e, ts) ← pExpr ts; pure (.unaryOp o e, ts)
    | "B" => do
        let (o, ts) ← pBinOp ts; let (l, ts) ← pExpr ts; let (r, ts) ← pExpr ts
        pure (.binOp l o r, ts)
    | "BO" => do let (o, ts) ← pBoolOp ts; let (vs, ts) ← pList pExpr ts; pure (.boolOp o vs, ts)
    | "CMP" => do
        let (l, ts) ← pExpr ts; let (ops, ts) ← pList pCmpOp ts; let (cs, ts) ← pList pExpr ts
        pure (.compare l ops cs, ts)
    | "IF" => do
        let (c, ts) ← pExpr ts; let (b, ts) ← pExpr ts; let (o, ts) ← pExpr ts
        pure (.ifExp c b o, ts)
    | "LAM" => do let (a, ts) ← pArgs ts; let (b, ts) ← pExpr ts; pure (.lambda a b, ts)
    | "T" => do let (es, ts) ← pList pExpr ts; pure (.tuple es, ts)
    | "L" => do let (es, ts) ← pList pExpr ts; pure (.list es, ts)
    | "SET" => do let (es, ts) ← pList pExpr ts; pure (.set es, ts)
    | "D" => do let (items, ts) ← pList pDictItem ts; pure (.dict items, ts)
    | "LC" => do let (e, ts) ← pExpr ts; let (g, ts) ← pList pComp ts; pure (.listComp e g, ts)
    | "SC" => do let (e, ts) ← pExpr ts; let (g, ts) ← pList pComp ts; pure (.setComp e g, ts)
    | "GE" => do let (e, ts) ← pExpr ts; let (g, ts) ← pList pComp ts; pure (.generatorExp e g, ts)
    | "DC" => do
        let (k, ts) ← pExpr ts; let (v, ts) ← pExpr ts; let (g, ts) ← pList pComp ts
        pure (.dictComp k v g, ts)
    | "JS" => do let (s, ts) ← pStr ts; let (vs, ts) ← pList pExpr ts; pure (.joinedStr s vs, ts)
    | "FV" => do
        let (v, ts) ← pExpr ts; let (c, ts) ← pInt ts; let (s, ts) ← pOptExpr ts
        pure (.formattedValue v c s, ts)
    | "ST" => do let (v, ts) ← pExpr ts; pure (.starred v, ts)
    | "NE" => do let (a, ts) ← pExpr ts; let (v, ts) ← pExpr ts; pure (.namedExpr a v, ts)
    | "AW" => do let (v, ts) ← pExpr ts; pure (.await v, ts)
    | "Y" => do let (v, ts) ← pOptExpr ts; pure (.yield v, ts)
    | "YF" => do let (v, ts) ← pExpr ts; pure (.yieldFrom v, ts)
    | _ => none
partial def pOptExpr : P (Option Expr)
  | "~" :: r => some (none, r)
  | ts => do let (e, ts) ← pExpr ts; pure (some e, ts)
partial def pKeyword : P Keyword := fun ts => do
  let (a, ts) ← pOptStr ts; let (v, ts) ← pExpr ts; pure (.mk a v, ts)
partial def pDictItem : P DictItem := fun ts => do
  let (k, ts) ← pOptExpr ts; let (v, ts) ← pExpr ts; pure (.mk k v, ts)
partial def pComp : P Comp := fun ts => do
  let (t, ts) ← pExpr ts; let (i, ts) ← pExpr ts; let (ifs, ts) ← pList pExpr ts; let (a, ts) ← pBool ts
  pure (.mk t i ifs a, ts)
partial def pArgs : P Args := fun ts => do
  let (po, ts) ← pList pStr ts; let (ar, ts) ← pList pStr ts; let (va, ts) ← pOptStr ts
  let (ko, ts) ← pList pStr ts; let (kd, ts) ← pList pOptExpr ts; let (kw, ts) ← pOptStr ts
  let (de, ts) ← pList pExpr ts
  pure (.mk po ar va ko kd kw de, ts)
end

def pAlias : P Alias := fun ts => do
  let (n, ts) ← pStr ts; let (a, ts) ← pOptStr ts; pure (⟨n, a⟩, ts)

def pWithItem : P (Expr × Option Expr) := fun ts => do
  let (c, ts) ← pExpr ts; let (v, ts) ← pOptExpr ts; pure ((c, v), ts)

mutual
partial def pStmt : P Stmt
  | [] => none
  | t :: ts =>
    match t with
    | "AS" => do let (tg, ts) ← pList pExpr ts; let (v, ts) ← pExpr ts; pure (.assign tg v, ts)
    | "AUG" => do
        let (a, ts) ← pExpr ts; let (o, ts) ← pBinOp ts; let (v, ts) ← pExpr ts
        pure (.augAssign a o v, ts)
    | "FOR" => do
        let (a, ts) ← pExpr ts; let (i, ts) ← pExpr ts; let (b, ts) ← pBlock ts; let (o, ts) ← pBlock ts
        pure (.for_ a i b o, ts)
    | "WH" => do
        let (c, ts) ← pExpr ts; let (b, ts) ← pBlock ts; let (o, ts) ← pBlock ts
        pure (.while_ c b o, ts)
    | "IFS" => do
        let (c, ts) ← pExpr ts; let (b, ts) ← pBlock ts; let (o, ts) ← pBlock ts
        pure (.if_ c b o, ts)
    | "TRY" => do
        let (b, ts) ← pBlock ts; let (h, ts) ← pList pHandler ts; let (o, ts) ← pBlock ts
        let (f, ts) ← pBlock ts
        pure (.try_ b h o f, ts)
    | "WITH" => do let (i, ts) ← pList pWithItem ts; let (b, ts) ← pBlock ts; pure (.with_ i b, ts)
    | "IMP" => do let (n, ts) ← pList pAlias ts; pure (.import_ n, ts)
    | "IMPF" => do let (n, ts) ← pList pAlias ts; pure (.importFrom n, ts)
    | "DEF" => do
        let (n, ts) ← pStr ts; let (a, ts) ← pArgs ts; let (b, ts) ← pBlock ts; let (d, ts) ← pList pExpr ts
        pure (.functionDef n a b d, ts)
    | "CLS" => do
        let (n, ts) ← pStr ts; let (ba, ts) ← pList pExpr ts; let (k, ts) ← pList pKeyword ts
        let (b, ts) ← pBlock ts; let (d, ts) ← pList pExpr ts
        pure (.classDef n ba k b d, ts)
    | "RET" => do let (v, ts) ← pOptExpr ts; pure (.return_ v, ts)
    | "EX" => do let (v, ts) ← pExpr ts; pure (.expr v, ts)
    | "DEL" => do let (v, ts) ← pList pExpr ts; pure (.delete v, ts)
    | "GLB" => do let (v, ts) ← pList pStr ts; pure (.global_ v, ts)
    | "NONL" => do let (v, ts) ← pList pStr ts; pure (.nonlocal_ v, ts)
    | "PASS" => some (.pass_, ts)
    | "BRK" => some (.break_, ts)
    | "CONT" => some (.continue_, ts)
    | "RAISE" => do let (a, ts) ← pOptExpr ts; let (b, ts) ← pOptExpr ts; pure (.raise_ a b, ts)
    | "ASSERT" => do let (a, ts) ← pExpr ts; let (b, ts) ← pOptExpr ts; pure (.assert_ a b, ts)
    | _ => none
partial def pBlock : P (List Stmt) := fun ts => do
  let (n, ts) ← pNat ts
  pMany pStmt n ts
partial def pHandler : P Handler := fun ts => do
  let (t, ts) ← pOptExpr ts; let (n, ts) ← pOptStr ts; let (b, ts) ← pBlock ts
  pure (.mk t n b, ts)
end

/-- the whole field list must be consumed -/
def full {α} (p : P α) (ts : List String) : Option α :=
  match p ts with
  | some (a, []) => some a
  | _ => none

/-- canonical order for sets of names -/
def strLt (a b : Str) : Bool := (a.map Char.toNat) < (b.map Char.toNat)

def sortNames (l : List Str) : List Str := (l.toArray.qsort strLt).toList.eraseDups

def encNames (l : List Str) : String := encList (sortNames l)

def encFlags (l : List Bool) : String := String.join (l.map encBool)

def encLines (l : List (List Char)) : String := encList l

def handle : Wire.Handler
  | "print" :: ts => do
      let e ← full pExpr ts
      pure (encOpt encStr (printStr e))
  | "guards" :: ts => do
      let e ← full pExpr ts
      -- total, complete, paren guards of the _partial theorems (+ paren guard of the root in both root slots)
      pure (encBool (totalGuard e) ++ encBool (completeGuard e) ++ encBool (e.all parenGuardLocal)
            ++ encBool (slotOK .rootDefault e) ++ encBool (slotOK .rootFilter e) ++ encBool (e.all literalLocal))
  | "parts" :: ts => do
      let e ← full pExpr ts
      pure (encList (Spec.parts e) ++ " | " ++ encOpt (fun t => encList (collect t)) (print e))
  | "ident" :: ts => do
      let b ← full pBlock ts
      let r := findIdentifiers b
      if r.starImport then pure "star-import"
      else pure ("D " ++ encNames r.declared ++ " U " ++ encNames r.undeclared ++ " F " ++ encNames (fetched b))
  | "free" :: ts => do
      let b ← full pBlock ts
      pure ("F " ++ encNames (Spec.freeNames b) ++ " B " ++ encNames (Spec.boundNames b))
  | ["adjust", t] => do
      let t ← decStr t
      pure (encStr (Ws.adjustWhitespace t))
  | ["flags", t] => do
      let t ← decStr t
      let ls := Ws.splitLines t
      pure (encFlags (Ws.multiFlags ls) ++ " " ++ encFlags (Ws.Spec.multiFlags ls))
  | ["flush", n, t] => do
      let n ← n.toNat?
      let t ← decStr t
      pure (encLines (Ws.flushAdjusted n t))
  | ["table"] =>
      pure (" ".intercalate (Pos.all.flatMap fun p => CK.all.map fun k =>
        String.ofList p.pyName ++ ":" ++ String.ofList k.pyName ++ ":" ++ encBool (needsParens p k)))
  | ["inventory"] =>
      pure (" ".intercalate (Kind.all.map fun k => String.ofList k.pyName ++ ":" ++ encBool (hasVisitor k)))
  | _ => none

end MakoModel.PyExpr.Drv
