import MakoModel.PyExpr.PrintSpec
/-!
# Precedence: which child needs parentheses where

`Pos` = the syntactic slots an expression can occupy (one per parent construct and field, plus the two places
where mako pastes a re-emitted expression: a parameter default and the callee of a filter call).
`CK` = the classes of expressions that behave alike with respect to parenthesisation (operators grouped by
binding strength; decimal integer literals apart because of `1 .real`).
`needsParens p k` says that an expression of class `k`, *written without parentheses of its own*, does not
re-parse to itself in slot `p`.  The table is `level k < required p` for the ordinary classes and an explicit
list for the classes that are only legal in particular slots (starred, `:=`, bare tuples and generator
expressions, slices, `yield`).

The table is a specification: it is **validated exhaustively against CPython's parser on every check run**
(harness stream `corr.precedence-table`: for every `(p, k)` and several sample expressions of class `k`,
`ast.parse` of the slot's context with the sample substituted round-trips iff `needsParens p k = false`).
-/
namespace MakoModel.PyExpr

inductive Pos
  | attrValue | subValue | subSlice | sliceLower | sliceUpper | sliceStep
  | callFunc | callArg | callStarValue | kwValue | kwStarValue
  | unaryNot | unaryOther
  | binLPow | binRPow | binLTerm | binRTerm | binLArith | binRArith | binLShift | binRShift
  | binLBand | binRBand | binLBxor | binRBxor | binLBor | binRBor
  | boolAnd | boolOr | cmpLeft | cmpRight
  | ifBody | ifTest | ifOrelse
  | lambdaBody | lambdaDefault
  | tupleElt | listElt | setElt | dictKey | dictValue | dictStar
  | compElt | dictCompKey | dictCompValue | compTarget | compIter | compIf
  | starredValue | yieldValue | namedValue | awaitValue | yieldFromValue
  | rootDefault | rootFilter
  deriving DecidableEq, Repr

def Pos.all : List Pos :=
  [.attrValue, .subValue, .subSlice, .sliceLower, .sliceUpper, .sliceStep, .callFunc, .callArg, .callStarValue,
   .kwValue, .kwStarValue, .unaryNot, .unaryOther, .binLPow, .binRPow, .binLTerm, .binRTerm, .binLArith, .binRArith,
   .binLShift, .binRShift, .binLBand, .binRBand, .binLBxor, .binRBxor, .binLBor, .binRBor, .boolAnd, .boolOr,
   .cmpLeft, .cmpRight, .ifBody, .ifTest, .ifOrelse, .lambdaBody, .lambdaDefault, .tupleElt, .listElt, .setElt,
   .dictKey, .dictValue, .dictStar, .compElt, .dictCompKey, .dictCompValue, .compTarget, .compIter, .compIf,
   .starredValue, .yieldValue, .namedValue, .awaitValue, .yieldFromValue, .rootDefault, .rootFilter]

def Pos.pyName : Pos → Str
  | .attrValue => "attrValue".toList | .subValue => "subValue".toList | .subSlice => "subSlice".toList
  | .sliceLower => "sliceLower".toList | .sliceUpper => "sliceUpper".toList | .sliceStep => "sliceStep".toList
  | .callFunc => "callFunc".toList | .callArg => "callArg".toList | .callStarValue => "callStarValue".toList
  | .kwValue => "kwValue".toList
  | .kwStarValue => "kwStarValue".toList | .unaryNot => "unaryNot".toList | .unaryOther => "unaryOther".toList
  | .binLPow => "binLPow".toList | .binRPow => "binRPow".toList | .binLTerm => "binLTerm".toList
  | .binRTerm => "binRTerm".toList | .binLArith => "binLArith".toList | .binRArith => "binRArith".toList
  | .binLShift => "binLShift".toList | .binRShift => "binRShift".toList | .binLBand => "binLBand".toList
  | .binRBand => "binRBand".toList | .binLBxor => "binLBxor".toList | .binRBxor => "binRBxor".toList
  | .binLBor => "binLBor".toList | .binRBor => "binRBor".toList | .boolAnd => "boolAnd".toList
  | .boolOr => "boolOr".toList | .cmpLeft => "cmpLeft".toList | .cmpRight => "cmpRight".toList
  | .ifBody => "ifBody".toList | .ifTest => "ifTest".toList | .ifOrelse => "ifOrelse".toList
  | .lambdaBody => "lambdaBody".toList | .lambdaDefault => "lambdaDefault".toList
  | .tupleElt => "tupleElt".toList | .listElt => "listElt".toList | .setElt => "setElt".toList
  | .dictKey => "dictKey".toList | .dictValue => "dictValue".toList | .dictStar => "dictStar".toList
  | .compElt => "compElt".toList | .dictCompKey => "dictCompKey".toList | .dictCompValue => "dictCompValue".toList
  | .compTarget => "compTarget".toList | .compIter => "compIter".toList | .compIf => "compIf".toList
  | .starredValue => "starredValue".toList | .yieldValue => "yieldValue".toList
  | .namedValue => "namedValue".toList | .awaitValue => "awaitValue".toList
  | .yieldFromValue => "yieldFromValue".toList | .rootDefault => "rootDefault".toList
  | .rootFilter => "rootFilter".toList

inductive CK
  | name | constInt | constFloat | constStr | constOther | attribute | subscript | call
  | unaryNot | unaryOther | binPow | binTerm | binArith | binShift | binBand | binBxor | binBor
  | compare | boolAnd | boolOr | ifExp | lambda | tuple | list | set | dict
  | listComp | setComp | dictComp | generatorExp | starred | namedExpr | await | yield | yieldFrom
  | joinedStr | slice
  deriving DecidableEq, Repr

def CK.all : List CK :=
  [.name, .constInt, .constFloat, .constStr, .constOther, .attribute, .subscript, .call, .unaryNot, .unaryOther,
   .binPow, .binTerm, .binArith, .binShift, .binBand, .binBxor, .binBor, .compare, .boolAnd, .boolOr, .ifExp,
   .lambda, .tuple, .list, .set, .dict, .listComp, .setComp, .dictComp, .generatorExp, .starred, .namedExpr,
   .await, .yield, .yieldFrom, .joinedStr, .slice]

def CK.pyName : CK → Str
  | .name => "name".toList | .constInt => "constInt".toList | .constFloat => "constFloat".toList
  | .constStr => "constStr".toList | .constOther => "constOther".toList | .attribute => "attribute".toList
  | .subscript => "subscript".toList | .call => "call".toList | .unaryNot => "unaryNot".toList
  | .unaryOther => "unaryOther".toList | .binPow => "binPow".toList | .binTerm => "binTerm".toList
  | .binArith => "binArith".toList | .binShift => "binShift".toList | .binBand => "binBand".toList
  | .binBxor => "binBxor".toList | .binBor => "binBor".toList | .compare => "compare".toList
  | .boolAnd => "boolAnd".toList | .boolOr => "boolOr".toList | .ifExp => "ifExp".toList
  | .lambda => "lambda".toList | .tuple => "tuple".toList | .list => "list".toList | .set => "set".toList
  | .dict => "dict".toList | .listComp => "listComp".toList | .setComp => "setComp".toList
  | .dictComp => "dictComp".toList | .generatorExp => "generatorExp".toList | .starred => "starred".toList
  | .namedExpr => "namedExpr".toList | .await => "await".toList | .yield => "yield".toList
  | .yieldFrom => "yieldFrom".toList | .joinedStr => "joinedStr".toList | .slice => "slice".toList

/-- binding strength of an expression class written bare (Python reference, "Operator precedence");
`none` for the classes that are not ordinary operands -/
def level : CK → Option Nat
  | .ifExp | .lambda => some 3
  | .boolOr => some 4
  | .boolAnd => some 5
  | .unaryNot => some 6
  | .compare => some 7
  | .binBor => some 8
  | .binBxor => some 9
  | .binBand => some 10
  | .binShift => some 11
  | .binArith => some 12
  | .binTerm => some 13
  | .unaryOther => some 14
  | .binPow => some 15
  | .await => some 16
  | .name | .constInt | .constFloat | .constStr | .constOther | .attribute | .subscript | .call
  | .list | .set | .dict | .listComp | .setComp | .dictComp | .joinedStr => some 17
  | .tuple | .generatorExp | .starred | .namedExpr | .yield | .yieldFrom | .slice => none

/-- the weakest ordinary operand a slot accepts -/
def required : Pos → Nat
  | .attrValue | .subValue | .callFunc | .awaitValue | .rootFilter => 17
  | .binLPow => 16
  | .unaryOther | .binRPow | .binRTerm => 14
  | .binLTerm | .binRArith => 13
  | .binLArith | .binRShift => 12
  | .binLShift | .binRBand => 11
  | .binLBand | .binRBxor => 10
  | .binLBxor | .binRBor => 9
  | .binLBor | .cmpLeft | .cmpRight | .dictStar | .starredValue => 8
  | .unaryNot | .boolAnd => 6
  | .boolOr => 5
  | .ifBody | .ifTest | .compIter | .compIf => 4
  | .compTarget => 18
  | _ => 3

/-- slots in which a class that is not an ordinary operand may stand bare (and the assignment targets) -/
def specialAllowed : List (Pos × CK) :=
  [(.subSlice, .slice), (.subSlice, .tuple), (.subSlice, .namedExpr),
   (.callArg, .starred), (.callArg, .namedExpr),
   (.tupleElt, .starred), (.tupleElt, .namedExpr), (.listElt, .starred), (.listElt, .namedExpr),
   (.setElt, .starred), (.setElt, .namedExpr), (.compElt, .namedExpr),
   (.yieldValue, .tuple), (.yieldValue, .starred),
   (.compTarget, .name), (.compTarget, .attribute), (.compTarget, .subscript), (.compTarget, .tuple),
   (.compTarget, .list), (.compTarget, .starred)]

/-- an ordinary operand strong enough by level that is nevertheless refused: `1.real` -/
def forbidden : List (Pos × CK) := [(.attrValue, .constInt)]

def needsParens (p : Pos) (k : CK) : Bool :=
  if specialAllowed.contains (p, k) then false
  else match level k with
    | none => true
    | some l => decide (l < required p) || forbidden.contains (p, k)

def Expr.ck : Expr → CK
  | .name .. => .name
  | .const .int _ => .constInt
  | .const .float _ => .constFloat
  | .const .str _ | .const .bytes _ => .constStr
  | .const .. => .constOther
  | .attribute .. => .attribute | .subscript .. => .subscript | .slice .. => .slice | .call .. => .call
  | .unaryOp .not_ _ => .unaryNot
  | .unaryOp .. => .unaryOther
  | .binOp _ .pow _ => .binPow
  | .binOp _ .mult _ | .binOp _ .matMult _ | .binOp _ .div _ | .binOp _ .mod _ | .binOp _ .floorDiv _ => .binTerm
  | .binOp _ .add _ | .binOp _ .sub _ => .binArith
  | .binOp _ .lShift _ | .binOp _ .rShift _ => .binShift
  | .binOp _ .bitAnd _ => .binBand
  | .binOp _ .bitXor _ => .binBxor
  | .binOp _ .bitOr _ => .binBor
  | .boolOp .and_ _ => .boolAnd
  | .boolOp .or_ _ => .boolOr
  | .compare .. => .compare | .ifExp .. => .ifExp | .lambda .. => .lambda | .tuple .. => .tuple
  | .list .. => .list | .set .. => .set | .dict .. => .dict | .listComp .. => .listComp
  | .setComp .. => .setComp | .generatorExp .. => .generatorExp | .dictComp .. => .dictComp
  | .joinedStr .. => .joinedStr | .formattedValue .. => .joinedStr | .starred .. => .starred
  | .namedExpr .. => .namedExpr | .await .. => .await | .yield .. => .yield | .yieldFrom .. => .yieldFrom

def binL : BinOp → Pos
  | .pow => .binLPow
  | .mult | .matMult | .div | .mod | .floorDiv => .binLTerm
  | .add | .sub => .binLArith
  | .lShift | .rShift => .binLShift
  | .bitAnd => .binLBand | .bitXor => .binLBxor | .bitOr => .binLBor
def binR : BinOp → Pos
  | .pow => .binRPow
  | .mult | .matMult | .div | .mod | .floorDiv => .binRTerm
  | .add | .sub => .binRArith
  | .lShift | .rShift => .binRShift
  | .bitAnd => .binRBand | .bitXor => .binRBxor | .bitOr => .binRBor

/-- the slot of an operand of `and` / `or` -/
def boolSlot : BoolOp → Pos
  | .and_ => .boolAnd
  | .or_ => .boolOr

def optChild (p : Pos) : Option Expr → List (Pos × Expr)
  | none => []
  | some e => [(p, e)]

def Keyword.child : Keyword → Pos × Expr
  | .mk (some _) v => (.kwValue, v)
  | .mk none v => (.kwStarValue, v)
def DictItem.children : DictItem → List (Pos × Expr)
  | .mk (some k) v => [(.dictKey, k), (.dictValue, v)]
  | .mk none v => [(.dictStar, v)]
def Comp.children : Comp → List (Pos × Expr)
  | .mk t i ifs _ => [(.compTarget, t), (.compIter, i)] ++ ifs.map fun c => (.compIf, c)
def Args.children : Args → List (Pos × Expr)
  | .mk _ _ _ _ kwDefaults _ defaults =>
      (defaults.map fun d => (Pos.lambdaDefault, d)) ++ (kwDefaults.filterMap fun d => d.map fun e => (Pos.lambdaDefault, e))

/-- an element of a call's argument list / of a display: `*v` puts `v` into the starred slot of that construct -/
def eltChild (plain star : Pos) : Expr → Pos × Expr
  | .starred v => (star, v)
  | e => (plain, e)

/-- the immediate sub-expressions of a node with the slot each one occupies in the printed text
(f-strings are opaque; a starred element is looked through: its operand's slot depends on the construct) -/
def Expr.children : Expr → List (Pos × Expr)
  | .name .. | .const .. | .joinedStr .. | .formattedValue .. => []
  | .attribute v _ => [(.attrValue, v)]
  | .subscript v s => [(.subValue, v), (.subSlice, s)]
  | .slice lo hi st => optChild .sliceLower lo ++ optChild .sliceUpper hi ++ optChild .sliceStep st
  | .call f args kws => (.callFunc, f) :: args.map (eltChild .callArg .callStarValue) ++ kws.map Keyword.child
  | .unaryOp .not_ e => [(.unaryNot, e)]
  | .unaryOp _ e => [(.unaryOther, e)]
  | .binOp l op r => [(binL op, l), (binR op, r)]
  | .boolOp .and_ vs => vs.map fun v => (.boolAnd, v)
  | .boolOp .or_ vs => vs.map fun v => (.boolOr, v)
  | .compare l _ cs => (.cmpLeft, l) :: cs.map fun c => (.cmpRight, c)
  | .ifExp t b o => [(.ifBody, b), (.ifTest, t), (.ifOrelse, o)]
  | .lambda a b => a.children ++ [(.lambdaBody, b)]
  | .tuple es => es.map (eltChild .tupleElt .starredValue)
  | .list es => es.map (eltChild .listElt .starredValue)
  | .set es => es.map (eltChild .setElt .starredValue)
  | .dict items => items.flatMap DictItem.children
  | .listComp e gs | .setComp e gs | .generatorExp e gs => (.compElt, e) :: gs.flatMap Comp.children
  | .dictComp k v gs => (.dictCompKey, k) :: (.dictCompValue, v) :: gs.flatMap Comp.children
  | .starred v => [(.starredValue, v)]
  | .namedExpr _ v => [(.namedValue, v)]
  | .await v => [(.awaitValue, v)]
  | .yield v => optChild .yieldValue v
  | .yieldFrom v => [(.yieldFromValue, v)]

/-- the visitors that write an opening and a closing parenthesis around everything else they write -/
def wraps : Kind → Bool
  | .unaryOp | .binOp | .boolOp | .compare | .tuple | .generatorExp | .namedExpr | .await => true
  | _ => false

/-- the slots whose occupant the parent's visitor writes through `visit_operand` (a conditional expression or a
lambda standing there is parenthesised by the parent) -/
def operandSlot : Pos → Bool
  | .attrValue | .subValue | .callFunc | .unaryNot | .unaryOther
  | .binLPow | .binRPow | .binLTerm | .binRTerm | .binLArith | .binRArith | .binLShift | .binRShift
  | .binLBand | .binRBand | .binLBxor | .binRBxor | .binLBor | .binRBor
  | .boolAnd | .boolOr | .cmpLeft | .cmpRight | .ifBody | .ifTest
  | .starredValue | .callStarValue | .dictStar | .compIter | .compIf => true
  | _ => false

/-- the text that stands in slot `p` for child `c` whose own text is `t` -/
def inSlot (p : Pos) (c : Expr) (t : Toks) : Toks := if operandSlot p then wrapOperand c t else t

/-- child `c` in slot `p` is fine: it needs no parentheses there, or its own visitor supplies them, or it is a
conditional expression / lambda in a slot written through `visit_operand` -/
def slotOK (p : Pos) (c : Expr) : Bool :=
  !needsParens p c.ck || (wraps c.kind && hasVisitor c.kind) || (operandSlot p && isWeak c)

/-- guard of `print_well_parenthesised_partial`: every child of every node is fine in its slot -/
def parenGuardLocal (e : Expr) : Bool := e.children.all fun pc => slotOK pc.1 pc.2

end MakoModel.PyExpr
