import MakoModel.PyExpr.IdentGuard
/-! `FindIdentifiers` computes Python's scoping on blocks without nested scopes (helper lemmas for C19). -/
set_option linter.unusedSimpArgs false
set_option linter.unusedVariables false

namespace MakoModel.PyExpr
open Generated.PyExpr (reserved)

theorem mem_ins {x y : Str} {l : List Str} : x ∈ ins y l ↔ x = y ∨ x ∈ l := by
  unfold ins
  split
  · rename_i h
    have : y ∈ l := by simpa using h
    constructor
    · intro hx; exact Or.inr hx
    · rintro (rfl | hx)
      · exact this
      · exact hx
  · simp [or_comm]

/-- the effect of visiting a piece of syntax with free names `free` and bound names `binds` (both as sets) on the
state of `FindIdentifiers`, outside any function -/
structure Inv (free binds : List Str) (s s' : FI) : Prop where
  locals : s'.locals = s.locals
  decl : ∀ x, x ∈ s'.declared ↔ x ∈ s.declared ∨ x ∈ binds
  mono : ∀ x, x ∈ s.undeclared → x ∈ s'.undeclared
  sound : ∀ x, x ∈ s'.undeclared → x ∈ s.undeclared ∨ (x ∈ free ∧ x ∉ reserved)
  complete : ∀ x, x ∈ free → x ∈ reserved ∨ x ∈ s'.undeclared ∨ x ∈ s'.declared ∨ x ∈ s.locals

theorem Inv.refl (s : FI) : Inv [] [] s s :=
  ⟨rfl, by simp, fun _ h => h, fun _ h => Or.inl h, by simp⟩

theorem Inv.seq {f1 b1 f2 b2 : List Str} {s s1 s2 : FI} (h1 : Inv f1 b1 s s1) (h2 : Inv f2 b2 s1 s2) :
    Inv (f1 ++ f2) (b1 ++ b2) s s2 where
  locals := by rw [h2.locals, h1.locals]
  decl x := by rw [h2.decl, h1.decl]; simp [or_assoc]
  mono x hx := h2.mono x (h1.mono x hx)
  sound x hx := by
    rcases h2.sound x hx with h | ⟨h, hr⟩
    · rcases h1.sound x h with h | ⟨h, hr⟩
      · exact Or.inl h
      · exact Or.inr ⟨by simp [h], hr⟩
    · exact Or.inr ⟨by simp [h], hr⟩
  complete x hx := by
    rcases List.mem_append.mp hx with h | h
    · rcases h1.complete x h with h | h | h | h
      · exact Or.inl h
      · exact Or.inr (Or.inl (h2.mono x h))
      · exact Or.inr (Or.inr (Or.inl ((h2.decl x).mpr (Or.inl h))))
      · exact Or.inr (Or.inr (Or.inr h))
    · rcases h2.complete x h with h | h | h | h
      · exact Or.inl h
      · exact Or.inr (Or.inl h)
      · exact Or.inr (Or.inr (Or.inl h))
      · exact Or.inr (Or.inr (Or.inr (h1.locals ▸ h)))

theorem Inv.congr {f b f' b' : List Str} {s s' : FI} (h : Inv f b s s') (hf : ∀ x, x ∈ f ↔ x ∈ f')
    (hb : ∀ x, x ∈ b ↔ x ∈ b') : Inv f' b' s s' where
  locals := h.locals
  decl x := by rw [h.decl, hb]
  mono := h.mono
  sound x hx := by
    rcases h.sound x hx with h' | ⟨h', hr⟩
    · exact Or.inl h'
    · exact Or.inr ⟨(hf x).mp h', hr⟩
  complete x hx := h.complete x ((hf x).mpr hx)

theorem inv_addDeclared (n : Str) (s : FI) : Inv [] [n] s (addDeclared false n s) where
  locals := rfl
  decl x := by simp [addDeclared, mem_ins, or_comm]
  mono _ h := h
  sound _ h := Or.inl h
  complete := by simp

theorem inv_name (hv : FIVisitors) (id : Str) (ctx : Ctx) (s : FI) (hc : ctx ≠ .del) :
    Inv (Spec.freeE [] (.name id ctx)) (Spec.bindsE (.name id ctx)) s (fiExpr false (.name id ctx) s) := by
  simp only [fiExpr, hv.name, if_true, fiName, Spec.freeE, Spec.bindsE]
  cases ctx with
  | del => exact absurd rfl hc
  | store => simpa using inv_addDeclared id s
  | load =>
    simp only [reduceCtorEq, if_false, if_true, List.contains_nil, Bool.not_false, Bool.and_true, decide_true,
      Bool.true_and]
    split
    · rename_i h
      simp only [Bool.and_eq_true, Bool.not_eq_true', List.contains_eq_mem, decide_eq_false_iff_not] at h
      exact ⟨rfl, by simp, fun x hx => mem_ins.mpr (Or.inr hx),
        fun x hx => by
          rcases mem_ins.mp hx with rfl | hx
          · exact Or.inr ⟨by simp, h.1.1⟩
          · exact Or.inl hx,
        fun x hx => by
          have : x = id := by simpa using hx
          subst this; exact Or.inr (Or.inl (mem_ins.mpr (Or.inl rfl)))⟩
    · rename_i h
      refine ⟨rfl, by simp, fun _ hx => hx, fun _ hx => Or.inl hx, fun x hx => ?_⟩
      have : x = id := by simpa using hx
      subst this
      simp only [Bool.and_eq_true, Bool.not_eq_true', List.contains_eq_mem, decide_eq_false_iff_not, not_and,
        Decidable.not_not] at h
      by_cases h1 : x ∈ reserved
      · exact Or.inl h1
      · by_cases h2 : x ∈ s.declared
        · exact Or.inr (Or.inr (Or.inl h2))
        · exact Or.inr (Or.inr (Or.inr (h ⟨h1, h2⟩)))

/-- keys / values of a dict display, in the order `generic_visit` walks them -/
def dkF (items : List DictItem) : List Str := items.flatMap fun | .mk k _ => Spec.freeOpt [] k
def dvF (items : List DictItem) : List Str := items.flatMap fun | .mk _ v => Spec.freeE [] v
def dkB (items : List DictItem) : List Str := items.flatMap fun | .mk k _ => Spec.bindsOpt k
def dvB (items : List DictItem) : List Str := items.flatMap fun | .mk _ v => Spec.bindsE v

theorem mem_freeDict (x : Str) : ∀ items : List DictItem,
    x ∈ dkF items ++ dvF items ↔ x ∈ Spec.freeDict [] items
  | [] => by simp [dkF, dvF, Spec.freeDict]
  | .mk k v :: r => by
      have ih := mem_freeDict x r
      simp only [dkF, dvF, List.flatMap_cons, List.mem_append, Spec.freeDict] at ih ⊢
      rw [← ih]; constructor <;> (intro h; rcases h with (h | h) | h | h <;> simp [h]) <;> simp_all
theorem mem_bindsDict (x : Str) : ∀ items : List DictItem,
    x ∈ dkB items ++ dvB items ↔ x ∈ Spec.bindsDict items
  | [] => by simp [dkB, dvB, Spec.bindsDict]
  | .mk k v :: r => by
      have ih := mem_bindsDict x r
      simp only [dkB, dvB, List.flatMap_cons, List.mem_append, Spec.bindsDict] at ih ⊢
      rw [← ih]; constructor <;> (intro h; rcases h with (h | h) | h | h <;> simp [h]) <;> simp_all

theorem mem_insAll {x : Str} : ∀ {ys l : List Str}, x ∈ insAll ys l ↔ x ∈ ys ∨ x ∈ l
  | [], l => by simp [insAll]
  | y :: ys, l => by
      have ih := @mem_insAll x ys (ins y l)
      simp only [insAll, List.foldl_cons] at ih ⊢
      rw [ih, mem_ins]; simp only [List.mem_cons]
      constructor
      · rintro (h | h | h)
        · exact Or.inl (Or.inr h)
        · exact Or.inl (Or.inl h)
        · exact Or.inr h
      · rintro ((h | h) | h)
        · exact Or.inr (Or.inl h)
        · exact Or.inl h
        · exact Or.inr (Or.inr h)

theorem mem_minus {x : Str} {l r : List Str} : x ∈ Spec.minus l r ↔ x ∈ l ∧ x ∉ r := by
  simp [Spec.minus]

theorem mem_fiParams {x : Str} (a : Args) : x ∈ a.fiParams ↔ x ∈ Spec.paramNames a := by
  cases a with
  | mk po ar va ko kd kw de =>
    simp only [Args.fiParams, Spec.paramNames, List.mem_append]
    constructor <;> (intro h; rcases h with (((h | h) | h) | h) | h <;> simp [h])

macro "nsunf" h:ident : tactic =>
  `(tactic| simp only [Expr.all, allOpt, allList, allOptList, allKeywords, allDict, allComps, allArgs, noStoreLocal,
      Bool.and_eq_true, Bool.true_and, Bool.and_true, and_assoc, Bool.false_eq_true, false_and] at $h:ident)

mutual
/-- an expression that binds nothing binds nothing -/
theorem bindsE_noStore : ∀ (e : Expr), e.all noStoreLocal = true → Spec.bindsE e = []
  | .name id ctx, h => by cases ctx <;> simp [Expr.all, noStoreLocal, Spec.bindsE] at h ⊢
  | .const _ _, _ => by simp [Spec.bindsE]
  | .attribute v _, h => by nsunf h; simp [Spec.bindsE, bindsE_noStore v h]
  | .subscript v sl, h => by nsunf h; simp [Spec.bindsE, bindsE_noStore v h.1, bindsE_noStore sl h.2]
  | .slice lo hi st, h => by
      nsunf h; simp [Spec.bindsE, bindsOpt_noStore lo h.1, bindsOpt_noStore hi h.2.1, bindsOpt_noStore st h.2.2]
  | .call f args kws, h => by
      nsunf h
      simp [Spec.bindsE, bindsE_noStore f h.1, bindsList_noStore args h.2.1, bindsKeywords_noStore kws h.2.2]
  | .unaryOp _ e, h => by nsunf h; simp [Spec.bindsE, bindsE_noStore e h]
  | .binOp l _ r, h => by nsunf h; simp [Spec.bindsE, bindsE_noStore l h.1, bindsE_noStore r h.2]
  | .boolOp _ vs, h => by nsunf h; simp [Spec.bindsE, bindsList_noStore vs h]
  | .compare l _ cs, h => by nsunf h; simp [Spec.bindsE, bindsE_noStore l h.1, bindsList_noStore cs h.2]
  | .ifExp t b o, h => by
      nsunf h; simp [Spec.bindsE, bindsE_noStore t h.1, bindsE_noStore b h.2.1, bindsE_noStore o h.2.2]
  | .lambda a _, h => by nsunf h; simp [Spec.bindsE, bindsArgs_noStore a h.1]
  | .tuple es, h => by nsunf h; simp [Spec.bindsE, bindsList_noStore es h]
  | .list es, h => by nsunf h; simp [Spec.bindsE, bindsList_noStore es h]
  | .set es, h => by nsunf h; simp [Spec.bindsE, bindsList_noStore es h]
  | .dict items, h => by nsunf h; simp [Spec.bindsE, bindsDict_noStore items h]
  | .listComp e gs, h => by nsunf h; simp [Spec.bindsE, bindsE_noStore e h.1, bindsComps_noStore gs h.2]
  | .setComp e gs, h => by nsunf h; simp [Spec.bindsE, bindsE_noStore e h.1, bindsComps_noStore gs h.2]
  | .generatorExp e gs, h => by nsunf h; simp [Spec.bindsE, bindsE_noStore e h.1, bindsComps_noStore gs h.2]
  | .dictComp k v gs, h => by
      nsunf h; simp [Spec.bindsE, bindsE_noStore k h.1, bindsE_noStore v h.2.1, bindsComps_noStore gs h.2.2]
  | .joinedStr _ vs, h => by nsunf h; simp [Spec.bindsE, bindsList_noStore vs h]
  | .formattedValue v _ spec, h => by nsunf h; simp [Spec.bindsE, bindsE_noStore v h.1, bindsOpt_noStore spec h.2]
  | .starred v, h => by nsunf h; simp [Spec.bindsE, bindsE_noStore v h]
  | .namedExpr _ _, h => by nsunf h
  | .await v, h => by nsunf h; simp [Spec.bindsE, bindsE_noStore v h]
  | .yield v, h => by nsunf h; simp [Spec.bindsE, bindsOpt_noStore v h]
  | .yieldFrom v, h => by nsunf h; simp [Spec.bindsE, bindsE_noStore v h]
theorem bindsOpt_noStore : ∀ (o : Option Expr), allOpt noStoreLocal o = true → Spec.bindsOpt o = []
  | none, _ => by simp [Spec.bindsOpt]
  | some e, h => by nsunf h; simp [Spec.bindsOpt, bindsE_noStore e h]
theorem bindsList_noStore : ∀ (es : List Expr), allList noStoreLocal es = true → Spec.bindsList es = []
  | [], _ => by simp [Spec.bindsList]
  | e :: es, h => by nsunf h; simp [Spec.bindsList, bindsE_noStore e h.1, bindsList_noStore es h.2]
theorem bindsOptList_noStore : ∀ (es : List (Option Expr)), allOptList noStoreLocal es = true →
    Spec.bindsOptList es = []
  | [], _ => by simp [Spec.bindsOptList]
  | none :: es, h => by nsunf h; simp [Spec.bindsOptList, bindsOptList_noStore es h]
  | some e :: es, h => by nsunf h; simp [Spec.bindsOptList, bindsE_noStore e h.1, bindsOptList_noStore es h.2]
theorem bindsKeywords_noStore : ∀ (ks : List Keyword), allKeywords noStoreLocal ks = true →
    Spec.bindsKeywords ks = []
  | [], _ => by simp [Spec.bindsKeywords]
  | .mk _ v :: ks, h => by nsunf h; simp [Spec.bindsKeywords, bindsE_noStore v h.1, bindsKeywords_noStore ks h.2]
theorem bindsDict_noStore : ∀ (items : List DictItem), allDict noStoreLocal items = true → Spec.bindsDict items = []
  | [], _ => by simp [Spec.bindsDict]
  | .mk none v :: r, h => by
      nsunf h; simp [Spec.bindsDict, Spec.bindsOpt, bindsE_noStore v h.1, bindsDict_noStore r h.2]
  | .mk (some k) v :: r, h => by
      nsunf h
      simp [Spec.bindsDict, Spec.bindsOpt, bindsE_noStore k h.1, bindsE_noStore v h.2.1, bindsDict_noStore r h.2.2]
theorem bindsComps_noStore : ∀ (gs : List Comp), allComps noStoreLocal gs = true → Spec.bindsComps gs = []
  | [], _ => by simp [Spec.bindsComps]
  | .mk t i ifs _ :: gs, h => by
      nsunf h
      simp [Spec.bindsComps, bindsE_noStore i h.2.1, bindsList_noStore ifs h.2.2.1, bindsComps_noStore gs h.2.2.2]
theorem bindsArgs_noStore : ∀ (a : Args), allArgs noStoreLocal a = true → Spec.bindsArgs a = []
  | .mk _ _ _ _ kwDefaults _ defaults, h => by
      nsunf h; simp [Spec.bindsArgs, bindsOptList_noStore kwDefaults h.1, bindsList_noStore defaults h.2]
end

/-- the effect of visiting name-binding-free syntax with free names `free` *inside a function* (`in_function`):
nothing is declared, reads that are not locals of the enclosing functions become undeclared -/
structure InvF (free : List Str) (s s' : FI) : Prop where
  locals : s'.locals = s.locals
  decl : s'.declared = s.declared
  mono : ∀ x, x ∈ s.undeclared → x ∈ s'.undeclared
  sound : ∀ x, x ∈ s'.undeclared → x ∈ s.undeclared ∨ (x ∈ free ∧ x ∉ reserved ∧ x ∉ s.locals)
  complete : ∀ x, x ∈ free → x ∈ reserved ∨ x ∈ s'.undeclared ∨ x ∈ s.declared ∨ x ∈ s.locals

theorem InvF.refl (s : FI) : InvF [] s s := ⟨rfl, rfl, fun _ h => h, fun _ h => Or.inl h, by simp⟩

theorem InvF.seq {f1 f2 : List Str} {s s1 s2 : FI} (h1 : InvF f1 s s1) (h2 : InvF f2 s1 s2) :
    InvF (f1 ++ f2) s s2 where
  locals := by rw [h2.locals, h1.locals]
  decl := by rw [h2.decl, h1.decl]
  mono x hx := h2.mono x (h1.mono x hx)
  sound x hx := by
    rcases h2.sound x hx with h | ⟨h, hr, hl⟩
    · rcases h1.sound x h with h | ⟨h, hr, hl⟩
      · exact Or.inl h
      · exact Or.inr ⟨by simp [h], hr, hl⟩
    · exact Or.inr ⟨by simp [h], hr, h1.locals ▸ hl⟩
  complete x hx := by
    rcases List.mem_append.mp hx with h | h
    · rcases h1.complete x h with h | h | h | h
      · exact Or.inl h
      · exact Or.inr (Or.inl (h2.mono x h))
      · exact Or.inr (Or.inr (Or.inl h))
      · exact Or.inr (Or.inr (Or.inr h))
    · rcases h2.complete x h with h | h | h | h
      · exact Or.inl h
      · exact Or.inr (Or.inl h)
      · exact Or.inr (Or.inr (Or.inl (h1.decl ▸ h)))
      · exact Or.inr (Or.inr (Or.inr (h1.locals ▸ h)))

theorem InvF.congr {f f' : List Str} {s s' : FI} (h : InvF f s s') (hf : ∀ x, x ∈ f ↔ x ∈ f') : InvF f' s s' where
  locals := h.locals
  decl := h.decl
  mono := h.mono
  sound x hx := by
    rcases h.sound x hx with h' | ⟨h', hr, hl⟩
    · exact Or.inl h'
    · exact Or.inr ⟨(hf x).mp h', hr, hl⟩
  complete x hx := h.complete x ((hf x).mpr hx)

/-- outside any function the function-level invariant gives the block-level one (nothing is bound) -/
theorem InvF.toInv {f : List Str} {s s' : FI} (h : InvF f s s') : Inv f [] s s' where
  locals := h.locals
  decl x := by rw [h.decl]; simp
  mono := h.mono
  sound x hx := by
    rcases h.sound x hx with h' | ⟨h', hr, _⟩
    · exact Or.inl h'
    · exact Or.inr ⟨h', hr⟩
  complete x hx := by
    rcases h.complete x hx with h' | h' | h' | h'
    · exact Or.inl h'
    · exact Or.inr (Or.inl h')
    · exact Or.inr (Or.inr (Or.inl (h.decl ▸ h')))
    · exact Or.inr (Or.inr (Or.inr h'))

/-- `_visit_function` around a body that satisfies the function-level invariant: the parameters are locals inside,
the set of locals is restored afterwards -/
theorem invF_function {F P P' : List Str} {s sOut : FI}
    (h : InvF F { s with locals := insAll P s.locals } sOut) (hP : ∀ x, x ∈ P ↔ x ∈ P') :
    InvF (Spec.minus F P') s { sOut with locals := s.locals } where
  locals := rfl
  decl := h.decl
  mono := h.mono
  sound x hx := by
    rcases h.sound x hx with h' | ⟨h', hr, hl⟩
    · exact Or.inl h'
    · have hl' : x ∉ P ∧ x ∉ s.locals := by simpa [mem_insAll] using hl
      exact Or.inr ⟨mem_minus.mpr ⟨h', fun hp => hl'.1 ((hP x).mpr hp)⟩, hr, hl'.2⟩
  complete x hx := by
    obtain ⟨hf, hp⟩ := mem_minus.mp hx
    rcases h.complete x hf with h' | h' | h' | h'
    · exact Or.inl h'
    · exact Or.inr (Or.inl h')
    · exact Or.inr (Or.inr (Or.inl h'))
    · rcases mem_insAll.mp h' with h'' | h''
      · exact absurd ((hP x).mp h'') hp
      · exact Or.inr (Or.inr (Or.inr h''))

theorem invF_name (hv : FIVisitors) (id : Str) (s : FI) :
    InvF (Spec.freeE [] (.name id .load)) s (fiExpr true (.name id .load) s) := by
  simp only [fiExpr, hv.name, if_true, fiName, Spec.freeE, reduceCtorEq, if_false, List.contains_nil,
    Bool.not_false, Bool.and_true, decide_true]
  split
  · rename_i h
    simp only [Bool.and_eq_true, Bool.not_eq_true', List.contains_eq_mem, decide_eq_false_iff_not] at h
    exact ⟨rfl, rfl, fun x hx => mem_ins.mpr (Or.inr hx),
      fun x hx => by
        rcases mem_ins.mp hx with rfl | hx
        · exact Or.inr ⟨by simp, h.1.1, h.2⟩
        · exact Or.inl hx,
      fun x hx => by
        have : x = id := by simpa using hx
        subst this; exact Or.inr (Or.inl (mem_ins.mpr (Or.inl rfl)))⟩
  · rename_i h
    refine ⟨rfl, rfl, fun _ hx => hx, fun _ hx => Or.inl hx, fun x hx => ?_⟩
    have : x = id := by simpa using hx
    subst this
    simp only [Bool.and_eq_true, Bool.not_eq_true', List.contains_eq_mem, decide_eq_false_iff_not, not_and,
      Decidable.not_not] at h
    by_cases h1 : x ∈ reserved
    · exact Or.inl h1
    · by_cases h2 : x ∈ s.declared
      · exact Or.inr (Or.inr (Or.inl h2))
      · exact Or.inr (Or.inr (Or.inr (h ⟨h1, h2⟩)))

theorem mem_freeDict' (x : Str) (items : List DictItem) :
    x ∈ dkF items ++ dvF items ↔ x ∈ Spec.freeDict [] items := mem_freeDict x items

macro "ffunf" h:ident g:ident : tactic =>
  `(tactic| (simp only [Expr.all, allOpt, allList, allKeywords, allDict, allArgs, allOptList, flatLocal,
      Bool.and_eq_true, Bool.true_and, Bool.and_true, and_assoc, Bool.false_eq_true, false_and] at $h:ident
             simp only [Expr.all, allOpt, allList, allKeywords, allDict, allArgs, allOptList, noStoreLocal,
      Bool.and_eq_true, Bool.true_and, Bool.and_true, and_assoc, Bool.false_eq_true, false_and] at $g:ident))

macro "fsunf" : tactic =>
  `(tactic| simp only [fiExpr, fiOpt, fiList, fiKeywords, fiDictKeys, fiDictValues, Spec.freeE, Spec.freeOpt,
      Spec.freeList, Spec.freeKeywords, dkF, dvF, List.flatMap_cons, List.flatMap_nil, List.append_nil])

theorem freeArgs_noDefaults (a : Args) (h : a.noDefaults = true) : Spec.freeArgs [] a = [] := by
  cases a with
  | mk po ar va ko kd kw de =>
    simp only [Args.noDefaults, Bool.and_eq_true, List.isEmpty_iff] at h
    obtain ⟨rfl, hk⟩ := h
    simp only [Spec.freeArgs, Spec.freeList, List.append_nil]
    induction kd with
    | nil => rfl
    | cons d r ih =>
      simp only [List.all_cons, Bool.and_eq_true] at hk
      cases d with
      | none => simpa [Spec.freeOptList] using ih hk.2
      | some e => simp at hk

theorem bindsArgs_noDefaults (a : Args) (h : a.noDefaults = true) : Spec.bindsArgs a = [] := by
  cases a with
  | mk po ar va ko kd kw de =>
    simp only [Args.noDefaults, Bool.and_eq_true, List.isEmpty_iff] at h
    obtain ⟨rfl, hk⟩ := h
    simp only [Spec.bindsArgs, Spec.bindsList, List.append_nil]
    induction kd with
    | nil => rfl
    | cons d r ih =>
      simp only [List.all_cons, Bool.and_eq_true] at hk
      cases d with
      | none => simpa [Spec.bindsOptList] using ih hk.2
      | some e => simp at hk

mutual
/-- inside a function: expressions of the guard that bind nothing -/
theorem invF_expr (hv : FIVisitors) : ∀ (e : Expr) (s : FI), e.all flatLocal = true → e.all noStoreLocal = true →
    InvF (Spec.freeE [] e) s (fiExpr true e s)
  | .name id ctx, s, _, g => by
      cases ctx with
      | load => exact invF_name hv id s
      | store => simp [Expr.all, noStoreLocal] at g
      | del => simp [Expr.all, noStoreLocal] at g
  | .const _ _, s, _, _ => by fsunf; exact InvF.refl s
  | .attribute v _, s, h, g => by ffunf h g; fsunf; exact invF_expr hv v s h g
  | .subscript v sl, s, h, g => by
      ffunf h g; fsunf; exact (invF_expr hv v s h.1 g.1).seq (invF_expr hv sl _ h.2 g.2)
  | .slice lo hi st, s, h, g => by
      ffunf h g; fsunf
      exact ((invF_opt hv lo s h.1 g.1).seq (invF_opt hv hi _ h.2.1 g.2.1)).seq (invF_opt hv st _ h.2.2 g.2.2)
  | .call f args kws, s, h, g => by
      ffunf h g; fsunf
      exact ((invF_expr hv f s h.1 g.1).seq (invF_list hv args _ h.2.1 g.2.1)).seq
        (invF_keywords hv kws _ h.2.2 g.2.2)
  | .unaryOp _ e, s, h, g => by ffunf h g; fsunf; exact invF_expr hv e s h g
  | .binOp l _ r, s, h, g => by
      ffunf h g; fsunf; exact (invF_expr hv l s h.1 g.1).seq (invF_expr hv r _ h.2 g.2)
  | .boolOp _ vs, s, h, g => by ffunf h g; fsunf; exact invF_list hv vs s h g
  | .compare l _ cs, s, h, g => by
      ffunf h g; fsunf; exact (invF_expr hv l s h.1 g.1).seq (invF_list hv cs _ h.2 g.2)
  | .ifExp t b o, s, h, g => by
      ffunf h g; fsunf
      exact ((invF_expr hv t s h.1 g.1).seq (invF_expr hv b _ h.2.1 g.2.1)).seq (invF_expr hv o _ h.2.2 g.2.2)
  | .lambda a b, s, h, g => by
      ffunf h g
      have hb := invF_expr hv b { s with locals := insAll a.fiParams s.locals } h.2.2.2 g.2
      have hbinds := bindsE_noStore b h.2.1
      simp only [fiExpr, hv.lambda, if_true, Spec.freeE, freeArgs_noDefaults a h.1, List.nil_append, hbinds,
        List.append_nil]
      exact invF_function hb (fun x => mem_fiParams a)
  | .tuple es, s, h, g => by ffunf h g; fsunf; exact invF_list hv es s h g
  | .list es, s, h, g => by ffunf h g; fsunf; exact invF_list hv es s h g
  | .set es, s, h, g => by ffunf h g; fsunf; exact invF_list hv es s h g
  | .dict items, s, h, g => by
      ffunf h g; simp only [fiExpr, Spec.freeE]
      exact ((invF_dictKeys hv items s h g).seq (invF_dictValues hv items _ h g)).congr
        (fun x => mem_freeDict x items)
  | .listComp _ _, _, h, _ => by simp [Expr.all, flatLocal] at h
  | .setComp _ _, _, h, _ => by simp [Expr.all, flatLocal] at h
  | .generatorExp _ _, _, h, _ => by simp [Expr.all, flatLocal] at h
  | .dictComp _ _ _, _, h, _ => by simp [Expr.all, flatLocal] at h
  | .joinedStr _ vs, s, h, g => by ffunf h g; fsunf; exact invF_list hv vs s h g
  | .formattedValue v _ spec, s, h, g => by
      ffunf h g; fsunf; exact (invF_expr hv v s h.1 g.1).seq (invF_opt hv spec _ h.2 g.2)
  | .starred v, s, h, g => by ffunf h g; fsunf; exact invF_expr hv v s h g
  | .namedExpr _ _, _, _, g => by simp [Expr.all, noStoreLocal] at g
  | .await v, s, h, g => by ffunf h g; fsunf; exact invF_expr hv v s h g
  | .yield v, s, h, g => by ffunf h g; fsunf; exact invF_opt hv v s h g
  | .yieldFrom v, s, h, g => by ffunf h g; fsunf; exact invF_expr hv v s h g
theorem invF_opt (hv : FIVisitors) : ∀ (o : Option Expr) (s : FI), allOpt flatLocal o = true →
    allOpt noStoreLocal o = true → InvF (Spec.freeOpt [] o) s (fiOpt true o s)
  | none, s, _, _ => by fsunf; exact InvF.refl s
  | some e, s, h, g => by ffunf h g; fsunf; exact invF_expr hv e s h g
theorem invF_list (hv : FIVisitors) : ∀ (es : List Expr) (s : FI), allList flatLocal es = true →
    allList noStoreLocal es = true → InvF (Spec.freeList [] es) s (fiList true es s)
  | [], s, _, _ => by fsunf; exact InvF.refl s
  | e :: es, s, h, g => by
      ffunf h g; fsunf; exact (invF_expr hv e s h.1 g.1).seq (invF_list hv es _ h.2 g.2)
theorem invF_keywords (hv : FIVisitors) : ∀ (ks : List Keyword) (s : FI), allKeywords flatLocal ks = true →
    allKeywords noStoreLocal ks = true → InvF (Spec.freeKeywords [] ks) s (fiKeywords true ks s)
  | [], s, _, _ => by fsunf; exact InvF.refl s
  | .mk _ v :: ks, s, h, g => by
      ffunf h g; fsunf; exact (invF_expr hv v s h.1 g.1).seq (invF_keywords hv ks _ h.2 g.2)
theorem invF_dictKeys (hv : FIVisitors) : ∀ (items : List DictItem) (s : FI), allDict flatLocal items = true →
    allDict noStoreLocal items = true → InvF (dkF items) s (fiDictKeys true items s)
  | [], s, _, _ => by fsunf; exact InvF.refl s
  | .mk none _ :: r, s, h, g => by
      ffunf h g
      have ih := invF_dictKeys hv r s h.2 g.2
      simp only [dkF] at ih
      fsunf; simpa using ih
  | .mk (some k) _ :: r, s, h, g => by
      ffunf h g
      have ih := invF_dictKeys hv r (fiExpr true k s) h.2.2 g.2.2
      simp only [dkF] at ih
      fsunf; exact (invF_expr hv k s h.1 g.1).seq ih
theorem invF_dictValues (hv : FIVisitors) : ∀ (items : List DictItem) (s : FI), allDict flatLocal items = true →
    allDict noStoreLocal items = true → InvF (dvF items) s (fiDictValues true items s)
  | [], s, _, _ => by fsunf; exact InvF.refl s
  | .mk none v :: r, s, h, g => by
      ffunf h g
      have ih := invF_dictValues hv r (fiExpr true v s) h.2 g.2
      simp only [dvF] at ih
      fsunf; exact (invF_expr hv v s h.1 g.1).seq ih
  | .mk (some _) v :: r, s, h, g => by
      ffunf h g
      have ih := invF_dictValues hv r (fiExpr true v s) h.2.2 g.2.2
      simp only [dvF] at ih
      fsunf; exact (invF_expr hv v s h.2.1 g.2.1).seq ih
end

macro "funf" h:ident : tactic =>
  `(tactic| simp only [Expr.all, allOpt, allList, allKeywords, allDict, flatLocal, flatE, Bool.and_eq_true,
      Bool.true_and, Bool.and_true, and_assoc, Bool.false_eq_true, false_and] at $h:ident)

macro "sunf" : tactic =>
  `(tactic| simp only [fiExpr, fiOpt, fiList, fiKeywords, fiDictKeys, fiDictValues, Spec.freeE, Spec.freeOpt,
      Spec.freeList, Spec.freeKeywords, Spec.bindsE, Spec.bindsOpt, Spec.bindsList, Spec.bindsKeywords,
      dkF, dvF, dkB, dvB, List.flatMap_cons, List.flatMap_nil, List.append_nil])

mutual
theorem inv_expr (hv : FIVisitors) : ∀ (e : Expr) (s : FI), e.all flatLocal = true →
    Inv (Spec.freeE [] e) (Spec.bindsE e) s (fiExpr false e s)
  | .name id ctx, s, h => by
      apply inv_name hv
      intro hc; subst hc; simp [Expr.all, flatLocal] at h
  | .const _ _, s, _ => by sunf; exact Inv.refl s
  | .attribute v _, s, h => by funf h; sunf; exact inv_expr hv v s h
  | .subscript v sl, s, h => by
      funf h; sunf; exact (inv_expr hv v s h.1).seq (inv_expr hv sl _ h.2)
  | .slice lo hi st, s, h => by
      funf h; sunf
      exact ((inv_opt hv lo s h.1).seq (inv_opt hv hi _ h.2.1)).seq (inv_opt hv st _ h.2.2)
  | .call f args kws, s, h => by
      funf h; sunf
      exact ((inv_expr hv f s h.1).seq (inv_list hv args _ h.2.1)).seq (inv_keywords hv kws _ h.2.2)
  | .unaryOp _ e, s, h => by funf h; sunf; exact inv_expr hv e s h
  | .binOp l _ r, s, h => by
      funf h; sunf; exact (inv_expr hv l s h.1).seq (inv_expr hv r _ h.2)
  | .boolOp _ vs, s, h => by funf h; sunf; exact inv_list hv vs s h
  | .compare l _ cs, s, h => by
      funf h; sunf; exact (inv_expr hv l s h.1).seq (inv_list hv cs _ h.2)
  | .ifExp t b o, s, h => by
      funf h; sunf
      exact ((inv_expr hv t s h.1).seq (inv_expr hv b _ h.2.1)).seq (inv_expr hv o _ h.2.2)
  | .lambda a b, s, h => by
      simp only [Expr.all, allArgs, flatLocal, Bool.and_eq_true, and_assoc] at h
      have hb := invF_expr hv b { s with locals := insAll a.fiParams s.locals } h.2.2.2 h.2.1
      have hbinds := bindsE_noStore b h.2.1
      have hargs := bindsArgs_noDefaults a h.1
      simp only [fiExpr, hv.lambda, if_true, Spec.freeE, Spec.bindsE, freeArgs_noDefaults a h.1, List.nil_append,
        hbinds, List.append_nil, hargs]
      exact (invF_function hb (fun x => mem_fiParams a)).toInv
  | .tuple es, s, h => by funf h; sunf; exact inv_list hv es s h
  | .list es, s, h => by funf h; sunf; exact inv_list hv es s h
  | .set es, s, h => by funf h; sunf; exact inv_list hv es s h
  | .dict items, s, h => by
      funf h; simp only [fiExpr, Spec.freeE, Spec.bindsE]
      exact ((inv_dictKeys hv items s h).seq (inv_dictValues hv items _ h)).congr
        (fun x => mem_freeDict x items) (fun x => mem_bindsDict x items)
  | .listComp _ _, _, h => by funf h
  | .setComp _ _, _, h => by funf h
  | .generatorExp _ _, _, h => by funf h
  | .dictComp _ _ _, _, h => by funf h
  | .joinedStr _ vs, s, h => by funf h; sunf; exact inv_list hv vs s h
  | .formattedValue v _ spec, s, h => by
      funf h; sunf; exact (inv_expr hv v s h.1).seq (inv_opt hv spec _ h.2)
  | .starred v, s, h => by funf h; sunf; exact inv_expr hv v s h
  | .namedExpr t v, s, h => by
      funf h; sunf; exact (inv_expr hv t s h.1).seq (inv_expr hv v _ h.2)
  | .await v, s, h => by funf h; sunf; exact inv_expr hv v s h
  | .yield v, s, h => by funf h; sunf; exact inv_opt hv v s h
  | .yieldFrom v, s, h => by funf h; sunf; exact inv_expr hv v s h
theorem inv_opt (hv : FIVisitors) : ∀ (o : Option Expr) (s : FI), allOpt flatLocal o = true →
    Inv (Spec.freeOpt [] o) (Spec.bindsOpt o) s (fiOpt false o s)
  | none, s, _ => by sunf; exact Inv.refl s
  | some e, s, h => by funf h; sunf; exact inv_expr hv e s h
theorem inv_list (hv : FIVisitors) : ∀ (es : List Expr) (s : FI), allList flatLocal es = true →
    Inv (Spec.freeList [] es) (Spec.bindsList es) s (fiList false es s)
  | [], s, _ => by sunf; exact Inv.refl s
  | e :: es, s, h => by
      funf h; sunf; exact (inv_expr hv e s h.1).seq (inv_list hv es _ h.2)
theorem inv_keywords (hv : FIVisitors) : ∀ (ks : List Keyword) (s : FI), allKeywords flatLocal ks = true →
    Inv (Spec.freeKeywords [] ks) (Spec.bindsKeywords ks) s (fiKeywords false ks s)
  | [], s, _ => by sunf; exact Inv.refl s
  | .mk _ v :: ks, s, h => by
      funf h; sunf; exact (inv_expr hv v s h.1).seq (inv_keywords hv ks _ h.2)
theorem inv_dictKeys (hv : FIVisitors) : ∀ (items : List DictItem) (s : FI), allDict flatLocal items = true →
    Inv (dkF items) (dkB items) s (fiDictKeys false items s)
  | [], s, _ => by sunf; exact Inv.refl s
  | .mk none _ :: r, s, h => by
      funf h
      have ih := inv_dictKeys hv r s h.2
      simp only [dkF, dkB] at ih
      sunf; simpa using ih
  | .mk (some k) _ :: r, s, h => by
      funf h
      have ih := inv_dictKeys hv r (fiExpr false k s) h.2.2
      simp only [dkF, dkB] at ih
      sunf; exact (inv_expr hv k s h.1).seq ih
theorem inv_dictValues (hv : FIVisitors) : ∀ (items : List DictItem) (s : FI), allDict flatLocal items = true →
    Inv (dvF items) (dvB items) s (fiDictValues false items s)
  | [], s, _ => by sunf; exact Inv.refl s
  | .mk none v :: r, s, h => by
      funf h
      have ih := inv_dictValues hv r (fiExpr false v s) h.2
      simp only [dvF, dvB] at ih
      sunf; exact (inv_expr hv v s h.1).seq ih
  | .mk (some _) v :: r, s, h => by
      funf h
      have ih := inv_dictValues hv r (fiExpr false v s) h.2.2
      simp only [dvF, dvB] at ih
      sunf; exact (inv_expr hv v s h.2.1).seq ih
end

theorem inv_withItems (hv : FIVisitors) : ∀ (items : List (Expr × Option Expr)) (s : FI),
    flatWithItems items = true → Inv (Spec.withFree [] items) (Spec.withBinds items) s (fiWithItems false items s)
  | [], s, _ => by simp only [fiWithItems, Spec.withFree, Spec.withBinds]; exact Inv.refl s
  | (c, v) :: r, s, h => by
      simp only [flatWithItems, flatE, Bool.and_eq_true, and_assoc] at h
      simp only [fiWithItems, Spec.withFree, Spec.withBinds]
      exact ((inv_expr hv c s h.1).seq (inv_opt hv v _ h.2.1)).seq (inv_withItems hv r _ h.2.2)

theorem inv_import : ∀ (names : List Alias) (s : FI),
    Inv [] (names.map Spec.aliasBinds) s (fiImport false names s)
  | [], s => by simp only [fiImport, List.map_nil]; exact Inv.refl s
  | a :: r, s => by
      simp only [fiImport, List.map_cons, Spec.aliasBinds]
      cases a.asname with
      | none => simpa using (inv_addDeclared (firstDotted a.name) s).seq (inv_import r _)
      | some n => simpa using (inv_addDeclared n s).seq (inv_import r _)

theorem inv_importFrom : ∀ (names : List Alias) (s : FI), noStar names = true →
    Inv [] (names.map Spec.aliasBindsFrom) s (fiImportFrom false names s)
  | [], s, _ => by simp only [fiImportFrom, List.map_nil]; exact Inv.refl s
  | a :: r, s, h => by
      simp only [noStar, Bool.and_eq_true, Bool.or_eq_true, bne_iff_ne, ne_eq] at h
      simp only [fiImportFrom, List.map_cons, Spec.aliasBindsFrom]
      cases ha : a.asname with
      | none =>
        have : ¬ a.name = ['*'] := by simpa [ha] using h.1
        simp only [this, if_false]
        simpa using (inv_addDeclared a.name s).seq (inv_importFrom r _ h.2)
      | some n => simpa using (inv_addDeclared n s).seq (inv_importFrom r _ h.2)

macro "stunf" : tactic =>
  `(tactic| simp only [fiStmt, fiStmts, fiHandlers, Spec.freeS, Spec.freeStmts, Spec.freeHandlers, Spec.bindsS,
      Spec.bindsStmts, Spec.bindsHandlers, if_true])

mutual
theorem inv_stmt (hv : FIVisitors) : ∀ (st : Stmt) (s : FI), flatS st = true →
    Inv (Spec.freeS [] st) (Spec.bindsS st) s (fiStmt false st s)
  | .assign targets value, s, h => by
      simp only [flatS, flatE, Bool.and_eq_true] at h
      simp only [fiStmt, hv.assign, if_true, Spec.freeS, Spec.bindsS]
      exact (inv_expr hv value s h.2).seq (inv_list hv targets _ h.1)
  | .augAssign t _ v, s, h => by
      simp only [flatS, flatE, Bool.and_eq_true] at h
      stunf; exact (inv_expr hv t s h.1).seq (inv_expr hv v _ h.2)
  | .for_ t it body orelse, s, h => by
      simp only [flatS, flatE, Bool.and_eq_true, and_assoc] at h
      simp only [fiStmt, hv.for_, if_true, Spec.freeS, Spec.bindsS]
      exact (((inv_expr hv it s h.2.1).seq (inv_expr hv t _ h.1)).seq (inv_stmts hv body _ h.2.2.1)).seq
        (inv_stmts hv orelse _ h.2.2.2)
  | .while_ t body orelse, s, h => by
      simp only [flatS, flatE, Bool.and_eq_true, and_assoc] at h
      stunf
      exact ((inv_expr hv t s h.1).seq (inv_stmts hv body _ h.2.1)).seq (inv_stmts hv orelse _ h.2.2)
  | .if_ t body orelse, s, h => by
      simp only [flatS, flatE, Bool.and_eq_true, and_assoc] at h
      stunf
      exact ((inv_expr hv t s h.1).seq (inv_stmts hv body _ h.2.1)).seq (inv_stmts hv orelse _ h.2.2)
  | .try_ body handlers orelse finalbody, s, h => by
      simp only [flatS, Bool.and_eq_true, and_assoc] at h
      stunf
      exact (((inv_stmts hv body s h.1).seq (inv_handlers hv handlers _ h.2.1)).seq
        (inv_stmts hv orelse _ h.2.2.1)).seq (inv_stmts hv finalbody _ h.2.2.2)
  | .with_ items body, s, h => by
      simp only [flatS, Bool.and_eq_true] at h
      stunf; exact (inv_withItems hv items s h.1).seq (inv_stmts hv body _ h.2)
  | .import_ names, s, _ => by
      simp only [fiStmt, hv.import_, if_true, Spec.freeS, Spec.bindsS]; exact inv_import names s
  | .importFrom names, s, h => by
      simp only [flatS] at h
      simp only [fiStmt, hv.importFrom, if_true, Spec.freeS, Spec.bindsS]; exact inv_importFrom names s h
  | .functionDef _ _ _ _, _, h => by simp [flatS] at h
  | .classDef _ _ _ _ _, _, h => by simp [flatS] at h
  | .return_ v, s, h => by simp only [flatS] at h; stunf; exact inv_opt hv v s h
  | .expr v, s, h => by simp only [flatS, flatE] at h; stunf; exact inv_expr hv v s h
  | .delete _, _, h => by simp [flatS] at h
  | .global_ _, _, h => by simp [flatS] at h
  | .nonlocal_ _, _, h => by simp [flatS] at h
  | .pass_, s, _ => by stunf; exact Inv.refl s
  | .break_, s, _ => by stunf; exact Inv.refl s
  | .continue_, s, _ => by stunf; exact Inv.refl s
  | .raise_ exc cause, s, h => by
      simp only [flatS, Bool.and_eq_true] at h
      stunf; exact (inv_opt hv exc s h.1).seq (inv_opt hv cause _ h.2)
  | .assert_ t msg, s, h => by
      simp only [flatS, flatE, Bool.and_eq_true] at h
      stunf; exact (inv_expr hv t s h.1).seq (inv_opt hv msg _ h.2)
theorem inv_stmts (hv : FIVisitors) : ∀ (b : List Stmt) (s : FI), flatSs b = true →
    Inv (Spec.freeStmts [] b) (Spec.bindsStmts b) s (fiStmts false b s)
  | [], s, _ => by stunf; exact Inv.refl s
  | st :: r, s, h => by
      simp only [flatSs, Bool.and_eq_true] at h
      stunf; exact (inv_stmt hv st s h.1).seq (inv_stmts hv r _ h.2)
theorem inv_handlers (hv : FIVisitors) : ∀ (hs : List Handler) (s : FI), flatHs hs = true →
    Inv (Spec.freeHandlers [] hs) (Spec.bindsHandlers hs) s (fiHandlers false hs s)
  | [], s, _ => by stunf; exact Inv.refl s
  | .mk type name body :: r, s, h => by
      simp only [flatHs, Bool.and_eq_true, and_assoc] at h
      simp only [fiHandlers, hv.handler, if_true, Spec.freeHandlers, Spec.bindsHandlers]
      cases name with
      | none =>
        simpa using ((inv_opt hv type s h.1).seq (inv_stmts hv body _ h.2.1)).seq (inv_handlers hv r _ h.2.2)
      | some n =>
        refine ((((inv_addDeclared n s).seq (inv_opt hv type _ h.1)).seq (inv_stmts hv body _ h.2.1)).seq
          (inv_handlers hv r _ h.2.2)).congr (by simp) ?_
        intro x; simp only [List.mem_append, List.mem_cons, List.mem_nil_iff, or_false, Option.toList]
        constructor <;> (intro hx; rcases hx with ((hx | hx) | hx) | hx <;> simp [hx])
end

/-- for blocks without nested scopes `FindIdentifiers` computes exactly Python's binding and free-name sets -/
theorem flat_exact (hv : FIVisitors) (b : List Stmt) (h : flatBlock b = true) :
    (∀ x, x ∈ (findIdentifiers b).declared ↔ x ∈ Spec.boundNames b)
    ∧ (∀ x, x ∈ fetched b ↔ (x ∈ Spec.freeNames b ∧ x ∉ reserved)) := by
  have inv := inv_stmts hv b FI.empty h
  refine ⟨fun x => by simpa [FI.empty, Spec.boundNames, findIdentifiers] using inv.decl x, fun x => ?_⟩
  have hd : x ∈ (fiStmts false b FI.empty).declared ↔ x ∈ Spec.bindsStmts b := by
    have := inv.decl x
    simpa [FI.empty] using this
  simp only [fetched, Spec.freeNames, Spec.minus, List.mem_filter, List.contains_eq_mem, Bool.not_eq_true',
    decide_eq_false_iff_not]
  change x ∈ (fiStmts false b FI.empty).undeclared ∧ ¬ x ∈ (fiStmts false b FI.empty).declared ↔ _
  rw [hd]
  constructor
  · rintro ⟨hu, hb⟩
    rcases inv.sound x hu with h' | ⟨hf, hr⟩
    · simp [FI.empty] at h'
    · exact ⟨⟨hf, hb⟩, hr⟩
  · rintro ⟨⟨hf, hb⟩, hr⟩
    refine ⟨?_, hb⟩
    rcases inv.complete x hf with h' | h' | h' | h'
    · exact absurd h' hr
    · exact h'
    · exact absurd (hd.mp h') hb
    · simp [FI.empty] at h'

end MakoModel.PyExpr
