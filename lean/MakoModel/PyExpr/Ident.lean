import MakoModel.PyExpr.Ast
/-!
# `findIdentifiers` : the model of `pyparser.FindIdentifiers`, and Python's scoping rule as its specification

`FindIdentifiers` is a `NodeVisitor` with a handful of `visit_*` methods; every other node class goes through
`generic_visit` (children in `_fields` order, `None` skipped).  Its state is `in_function`, the set
`local_ident_stack` (replaced by a copy on entry to a function/lambda and restored on exit; names stored inside a
function are added to the copy in place) and the listener's two sets.  The model threads the three sets as
duplicate-free lists; `in_function` is a parameter.  The code is modelled **as written**, including what it does
not visit (parameter defaults, decorators, class bases and bodies, the element and conditions of a comprehension
inside a function).

`Spec.freeNames`/`Spec.boundNames` is the specification: Python's compile-time scoping of the block taken as a
function body.  Ground truth on the Python side is `symtable` (harness stream `corr.spec-vs-symtable`).
-/
namespace MakoModel.PyExpr

/-- `set.add` on a duplicate-free list -/
def ins (x : Str) (l : List Str) : List Str := if l.contains x then l else l ++ [x]

def insAll (xs : List Str) (l : List Str) : List Str := xs.foldl (fun acc x => ins x acc) l

/-- `getattr(FindIdentifiers, "visit_" + cls, None) is not None` -/
def fiHas (cls : Str) : Bool := Generated.PyExpr.findIdentVisitors.contains cls

structure FI where
  declared : List Str
  undeclared : List Str
  locals : List Str
  /-- `from m import *` met: `CompileException` -/
  starImport : Bool
  deriving DecidableEq, Repr

def FI.empty : FI := ⟨[], [], [], false⟩

/-- `_add_declared` -/
def addDeclared (inF : Bool) (n : Str) (s : FI) : FI :=
  if inF then { s with locals := ins n s.locals } else { s with declared := ins n s.declared }

/-- `visit_Name` -/
def fiName (inF : Bool) (id : Str) (ctx : Ctx) (s : FI) : FI :=
  if ctx = .store then addDeclared inF id s
  else if !Generated.PyExpr.reserved.contains id && !s.declared.contains id && !s.locals.contains id then
    { s with undeclared := ins id s.undeclared }
  else s

/-- the parameters `_visit_function` records as locals: positional-only, ordinary, keyword-only, `*vararg`,
`**kwarg` -/
def Args.fiParams : Args → List Str
  | .mk posonly args vararg kwonly _ kwarg _ => posonly ++ args ++ kwonly ++ vararg.toList ++ kwarg.toList

mutual
/-- `FindIdentifiers.visit(e)` -/
def fiExpr (inF : Bool) : Expr → FI → FI
  | .name id ctx, s => if fiHas ['N', 'a', 'm', 'e'] then fiName inF id ctx s else s
  | .const .., s => s
  | .attribute v _, s => fiExpr inF v s
  | .subscript v sl, s => fiExpr inF sl (fiExpr inF v s)
  | .slice lo hi st, s => fiOpt inF st (fiOpt inF hi (fiOpt inF lo s))
  | .call f args kws, s => fiKeywords inF kws (fiList inF args (fiExpr inF f s))
  | .unaryOp _ e, s => fiExpr inF e s
  | .binOp l _ r, s => fiExpr inF r (fiExpr inF l s)
  | .boolOp _ vs, s => fiList inF vs s
  | .compare l _ cs, s => fiList inF cs (fiExpr inF l s)
  | .ifExp t b o, s => fiExpr inF o (fiExpr inF b (fiExpr inF t s))
  | .lambda a b, s =>
      if fiHas ['L', 'a', 'm', 'b', 'd', 'a'] then
        -- `_visit_function(node, True)`: the parameters become locals, the body is visited, the
        -- defaults are not; the set of locals is restored afterwards
        let s' := fiExpr true b { s with locals := insAll a.fiParams s.locals }
        { s' with locals := s.locals }
      else fiExpr inF b (fiArgs inF a s)
  | .tuple es, s => fiList inF es s
  | .list es, s => fiList inF es s
  | .set es, s => fiList inF es s
  | .dict items, s => fiDictValues inF items (fiDictKeys inF items s)
  | .listComp e gs, s =>
      if fiHas ['L', 'i', 's', 't', 'C', 'o', 'm', 'p'] && inF then fiCompsTI inF gs s
      else fiComps inF gs (fiExpr inF e s)
  | .setComp e gs, s =>
      if fiHas ['S', 'e', 't', 'C', 'o', 'm', 'p'] && inF then fiCompsTI inF gs s
      else fiComps inF gs (fiExpr inF e s)
  | .generatorExp e gs, s =>
      if fiHas ['G', 'e', 'n', 'e', 'r', 'a', 't', 'o', 'r', 'E', 'x', 'p'] && inF then fiCompsTI inF gs s
      else fiComps inF gs (fiExpr inF e s)
  | .dictComp k v gs, s =>
      if fiHas ['D', 'i', 'c', 't', 'C', 'o', 'm', 'p'] && inF then fiCompsTI inF gs s
      else fiComps inF gs (fiExpr inF v (fiExpr inF k s))
  | .joinedStr _ vs, s => fiList inF vs s
  | .formattedValue v _ spec, s => fiOpt inF spec (fiExpr inF v s)
  | .starred v, s => fiExpr inF v s
  | .namedExpr t v, s => fiExpr inF v (fiExpr inF t s)
  | .await v, s => fiExpr inF v s
  | .yield v, s => fiOpt inF v s
  | .yieldFrom v, s => fiExpr inF v s
def fiOpt (inF : Bool) : Option Expr → FI → FI
  | none, s => s
  | some e, s => fiExpr inF e s
def fiList (inF : Bool) : List Expr → FI → FI
  | [], s => s
  | e :: es, s => fiList inF es (fiExpr inF e s)
def fiOptList (inF : Bool) : List (Option Expr) → FI → FI
  | [], s => s
  | none :: es, s => fiOptList inF es s
  | some e :: es, s => fiOptList inF es (fiExpr inF e s)
def fiKeywords (inF : Bool) : List Keyword → FI → FI
  | [], s => s
  | .mk _ v :: ks, s => fiKeywords inF ks (fiExpr inF v s)
def fiDictKeys (inF : Bool) : List DictItem → FI → FI
  | [], s => s
  | .mk none _ :: r, s => fiDictKeys inF r s
  | .mk (some k) _ :: r, s => fiDictKeys inF r (fiExpr inF k s)
def fiDictValues (inF : Bool) : List DictItem → FI → FI
  | [], s => s
  | .mk _ v :: r, s => fiDictValues inF r (fiExpr inF v s)
/-- `generic_visit` of the `comprehension` nodes: target, iter, ifs -/
def fiComps (inF : Bool) : List Comp → FI → FI
  | [], s => s
  | .mk t i ifs _ :: gs, s => fiComps inF gs (fiList inF ifs (fiExpr inF i (fiExpr inF t s)))
/-- `visit_ListComp` & co. inside a function: `comp.target` and `comp.iter` only -/
def fiCompsTI (inF : Bool) : List Comp → FI → FI
  | [], s => s
  | .mk t i _ _ :: gs, s => fiCompsTI inF gs (fiExpr inF i (fiExpr inF t s))
/-- `generic_visit` of an `arguments` node: the default expressions (an `arg` has no expression children here) -/
def fiArgs (inF : Bool) : Args → FI → FI
  | .mk _ _ _ _ kwDefaults _ defaults, s => fiList inF defaults (fiOptList inF kwDefaults s)
end

/-- `name.split(".")[0]` -/
def firstDotted (n : Str) : Str := n.takeWhile (· ≠ '.')

/-- `visit_Import` -/
def fiImport (inF : Bool) : List Alias → FI → FI
  | [], s => s
  | a :: r, s =>
    fiImport inF r (match a.asname with
      | some n => addDeclared inF n s
      | none => addDeclared inF (firstDotted a.name) s)

/-- `visit_ImportFrom` -/
def fiImportFrom (inF : Bool) : List Alias → FI → FI
  | [], s => s
  | a :: r, s =>
    match a.asname with
    | some n => fiImportFrom inF r (addDeclared inF n s)
    | none =>
      if a.name = ['*'] then { s with starImport := true }
      else fiImportFrom inF r (addDeclared inF a.name s)

def fiWithItems (inF : Bool) : List (Expr × Option Expr) → FI → FI
  | [], s => s
  | (c, v) :: r, s => fiWithItems inF r (fiOpt inF v (fiExpr inF c s))

mutual
/-- `FindIdentifiers.visit(stmt)` -/
def fiStmt (inF : Bool) : Stmt → FI → FI
  | .assign targets value, s =>
      if fiHas ['A', 's', 's', 'i', 'g', 'n'] then fiList inF targets (fiExpr inF value s)
      else fiExpr inF value (fiList inF targets s)
  | .augAssign t _ v, s => fiExpr inF v (fiExpr inF t s)
  | .for_ t it body orelse, s =>
      if fiHas ['F', 'o', 'r'] then fiStmts inF orelse (fiStmts inF body (fiExpr inF t (fiExpr inF it s)))
      else fiStmts inF orelse (fiStmts inF body (fiExpr inF it (fiExpr inF t s)))
  | .while_ t body orelse, s => fiStmts inF orelse (fiStmts inF body (fiExpr inF t s))
  | .if_ t body orelse, s => fiStmts inF orelse (fiStmts inF body (fiExpr inF t s))
  | .try_ body handlers orelse finalbody, s =>
      fiStmts inF finalbody (fiStmts inF orelse (fiHandlers inF handlers (fiStmts inF body s)))
  | .with_ items body, s => fiStmts inF body (fiWithItems inF items s)
  | .import_ names, s => if fiHas ['I', 'm', 'p', 'o', 'r', 't'] then fiImport inF names s else s
  | .importFrom names, s =>
      if fiHas ['I', 'm', 'p', 'o', 'r', 't', 'F', 'r', 'o', 'm'] then fiImportFrom inF names s else s
  | .functionDef name a body decorators, s =>
      if fiHas ['F', 'u', 'n', 'c', 't', 'i', 'o', 'n', 'D', 'e', 'f'] then
        -- `_add_declared(name)`, then `_visit_function(node, False)`: only the body is visited
        let s1 := addDeclared inF name s
        let s' := fiStmts true body { s1 with locals := insAll a.fiParams s1.locals }
        { s' with locals := s1.locals }
      else fiList inF decorators (fiStmts inF body (fiArgs inF a s))
  | .classDef name bases kws body decorators, s =>
      if fiHas ['C', 'l', 'a', 's', 's', 'D', 'e', 'f'] then addDeclared inF name s
      else fiList inF decorators (fiStmts inF body (fiKeywords inF kws (fiList inF bases s)))
  | .return_ v, s => fiOpt inF v s
  | .expr v, s => fiExpr inF v s
  | .delete targets, s => fiList inF targets s
  | .global_ _, s => s
  | .nonlocal_ _, s => s
  | .pass_, s => s
  | .break_, s => s
  | .continue_, s => s
  | .raise_ exc cause, s => fiOpt inF cause (fiOpt inF exc s)
  | .assert_ t msg, s => fiOpt inF msg (fiExpr inF t s)
def fiStmts (inF : Bool) : List Stmt → FI → FI
  | [], s => s
  | st :: r, s => fiStmts inF r (fiStmt inF st s)
def fiHandlers (inF : Bool) : List Handler → FI → FI
  | [], s => s
  | .mk type name body :: r, s =>
      if fiHas ['E', 'x', 'c', 'e', 'p', 't', 'H', 'a', 'n', 'd', 'l', 'e', 'r'] then
        let s1 := match name with | some n => addDeclared inF n s | none => s
        fiHandlers inF r (fiStmts inF body (fiOpt inF type s1))
      else fiHandlers inF r (fiStmts inF body (fiOpt inF type s))
end

/-- `PythonCode(code)`: the visitor run over the module body -/
def findIdentifiers (b : List Stmt) : FI := fiStmts false b FI.empty

/-- what `write_variable_declares` turns into context look-ups on behalf of the block:
`undeclared − declared` -/
def fetched (b : List Stmt) : List Str :=
  let r := findIdentifiers b
  r.undeclared.filter fun x => !r.declared.contains x

/-! ## Specification: Python's scoping -/
namespace Spec

def paramNames : Args → List Str
  | .mk posonly args vararg kwonly _ kwarg _ => posonly ++ args ++ vararg.toList ++ kwonly ++ kwarg.toList

mutual
/-- names bound *in the current scope* by evaluating `e`: stored/deleted names and `:=` targets, not descending
into lambda bodies (own scope) and skipping comprehension `for` targets (comprehension scope) -/
def bindsE : Expr → List Str
  | .name id ctx => if ctx = .load then [] else [id]
  | .const .. => []
  | .attribute v _ => bindsE v
  | .subscript v sl => bindsE v ++ bindsE sl
  | .slice lo hi st => bindsOpt lo ++ bindsOpt hi ++ bindsOpt st
  | .call f args kws => bindsE f ++ bindsList args ++ bindsKeywords kws
  | .unaryOp _ e => bindsE e
  | .binOp l _ r => bindsE l ++ bindsE r
  | .boolOp _ vs => bindsList vs
  | .compare l _ cs => bindsE l ++ bindsList cs
  | .ifExp t b o => bindsE t ++ bindsE b ++ bindsE o
  | .lambda a _ => bindsArgs a
  | .tuple es => bindsList es
  | .list es => bindsList es
  | .set es => bindsList es
  | .dict items => bindsDict items
  | .listComp e gs => bindsE e ++ bindsComps gs
  | .setComp e gs => bindsE e ++ bindsComps gs
  | .generatorExp e gs => bindsE e ++ bindsComps gs
  | .dictComp k v gs => bindsE k ++ bindsE v ++ bindsComps gs
  | .joinedStr _ vs => bindsList vs
  | .formattedValue v _ spec => bindsE v ++ bindsOpt spec
  | .starred v => bindsE v
  | .namedExpr t v => bindsE t ++ bindsE v
  | .await v => bindsE v
  | .yield v => bindsOpt v
  | .yieldFrom v => bindsE v
def bindsOpt : Option Expr → List Str
  | none => []
  | some e => bindsE e
def bindsList : List Expr → List Str
  | [] => []
  | e :: es => bindsE e ++ bindsList es
def bindsOptList : List (Option Expr) → List Str
  | [] => []
  | none :: es => bindsOptList es
  | some e :: es => bindsE e ++ bindsOptList es
def bindsKeywords : List Keyword → List Str
  | [] => []
  | .mk _ v :: ks => bindsE v ++ bindsKeywords ks
def bindsDict : List DictItem → List Str
  | [] => []
  | .mk k v :: r => bindsOpt k ++ bindsE v ++ bindsDict r
def bindsComps : List Comp → List Str
  | [] => []
  | .mk _ i ifs _ :: gs => bindsE i ++ bindsList ifs ++ bindsComps gs
def bindsArgs : Args → List Str
  | .mk _ _ _ _ kwDefaults _ defaults => bindsOptList kwDefaults ++ bindsList defaults
end

/-- the `for` targets of a comprehension: its own local names -/
def compTargets (gs : List Comp) : List Str := gs.flatMap fun | .mk t _ _ _ => bindsE t

/-- `l` without the elements of `r` -/
def minus (l r : List Str) : List Str := l.filter fun x => !r.contains x

mutual
/-- names read by `e` that are not bound by a scope nested in `e`.  `cb` = the names bound in the directly
enclosing *class* body (a class scope hides them from the code of the body itself but not from nested scopes);
`[]` elsewhere. -/
def freeE (cb : List Str) : Expr → List Str
  | .name id ctx => if ctx = .load && !cb.contains id then [id] else []
  | .const .. => []
  | .attribute v _ => freeE cb v
  | .subscript v sl => freeE cb v ++ freeE cb sl
  | .slice lo hi st => freeOpt cb lo ++ freeOpt cb hi ++ freeOpt cb st
  | .call f args kws => freeE cb f ++ freeList cb args ++ freeKeywords cb kws
  | .unaryOp _ e => freeE cb e
  | .binOp l _ r => freeE cb l ++ freeE cb r
  | .boolOp _ vs => freeList cb vs
  | .compare l _ cs => freeE cb l ++ freeList cb cs
  | .ifExp t b o => freeE cb t ++ freeE cb b ++ freeE cb o
  | .lambda a b => freeArgs cb a ++ minus (freeE [] b) (paramNames a ++ bindsE b)
  | .tuple es => freeList cb es
  | .list es => freeList cb es
  | .set es => freeList cb es
  | .dict items => freeDict cb items
  | .listComp e gs => freeFirstIter cb gs ++ minus (freeE [] e ++ freeComps true gs) (compTargets gs)
  | .setComp e gs => freeFirstIter cb gs ++ minus (freeE [] e ++ freeComps true gs) (compTargets gs)
  | .generatorExp e gs => freeFirstIter cb gs ++ minus (freeE [] e ++ freeComps true gs) (compTargets gs)
  | .dictComp k v gs => freeFirstIter cb gs ++ minus (freeE [] k ++ freeE [] v ++ freeComps true gs) (compTargets gs)
  | .joinedStr _ vs => freeList cb vs
  | .formattedValue v _ spec => freeE cb v ++ freeOpt cb spec
  | .starred v => freeE cb v
  | .namedExpr t v => freeE cb t ++ freeE cb v
  | .await v => freeE cb v
  | .yield v => freeOpt cb v
  | .yieldFrom v => freeE cb v
def freeOpt (cb : List Str) : Option Expr → List Str
  | none => []
  | some e => freeE cb e
def freeList (cb : List Str) : List Expr → List Str
  | [] => []
  | e :: es => freeE cb e ++ freeList cb es
def freeOptList (cb : List Str) : List (Option Expr) → List Str
  | [] => []
  | none :: es => freeOptList cb es
  | some e :: es => freeE cb e ++ freeOptList cb es
def freeKeywords (cb : List Str) : List Keyword → List Str
  | [] => []
  | .mk _ v :: ks => freeE cb v ++ freeKeywords cb ks
def freeDict (cb : List Str) : List DictItem → List Str
  | [] => []
  | .mk k v :: r => freeOpt cb k ++ freeE cb v ++ freeDict cb r
/-- the iterable of the first `for` clause is evaluated in the enclosing scope -/
def freeFirstIter (cb : List Str) : List Comp → List Str
  | [] => []
  | .mk _ i _ _ :: _ => freeE cb i
/-- everything else of the clauses is evaluated in the comprehension's own scope -/
def freeComps (first : Bool) : List Comp → List Str
  | [] => []
  | .mk t i ifs _ :: gs =>
      freeE [] t ++ (if first then [] else freeE [] i) ++ freeList [] ifs ++ freeComps false gs
def freeArgs (cb : List Str) : Args → List Str
  | .mk _ _ _ _ kwDefaults _ defaults => freeOptList cb kwDefaults ++ freeList cb defaults
end

def aliasBinds (a : Alias) : Str :=
  match a.asname with
  | some n => n
  | none => firstDotted a.name

/-- `from m import a [as b]` binds `b`, else `a` -/
def aliasBindsFrom (a : Alias) : Str :=
  match a.asname with
  | some n => n
  | none => a.name

def withBinds : List (Expr × Option Expr) → List Str
  | [] => []
  | (c, v) :: r => bindsE c ++ bindsOpt v ++ withBinds r

def withFree (cb : List Str) : List (Expr × Option Expr) → List Str
  | [] => []
  | (c, v) :: r => freeE cb c ++ freeOpt cb v ++ withFree cb r

mutual
/-- names bound in the current scope by the statement (not descending into `def`/`class` bodies) -/
def bindsS : Stmt → List Str
  | .assign targets value => bindsE value ++ bindsList targets
  | .augAssign t _ v => bindsE t ++ bindsE v
  | .for_ t it body orelse => bindsE it ++ bindsE t ++ bindsStmts body ++ bindsStmts orelse
  | .while_ t body orelse => bindsE t ++ bindsStmts body ++ bindsStmts orelse
  | .if_ t body orelse => bindsE t ++ bindsStmts body ++ bindsStmts orelse
  | .try_ body handlers orelse finalbody =>
      bindsStmts body ++ bindsHandlers handlers ++ bindsStmts orelse ++ bindsStmts finalbody
  | .with_ items body => withBinds items ++ bindsStmts body
  | .import_ names => names.map aliasBinds
  | .importFrom names => names.map aliasBindsFrom
  | .functionDef name a _ decorators => [name] ++ bindsArgs a ++ bindsList decorators
  | .classDef name bases kws _ decorators => [name] ++ bindsList bases ++ bindsKeywords kws ++ bindsList decorators
  | .return_ v => bindsOpt v
  | .expr v => bindsE v
  | .delete targets => bindsList targets
  | .global_ _ => []
  | .nonlocal_ _ => []
  | .pass_ => []
  | .break_ => []
  | .continue_ => []
  | .raise_ exc cause => bindsOpt exc ++ bindsOpt cause
  | .assert_ t msg => bindsE t ++ bindsOpt msg
def bindsStmts : List Stmt → List Str
  | [] => []
  | st :: r => bindsS st ++ bindsStmts r
def bindsHandlers : List Handler → List Str
  | [] => []
  | .mk type name body :: r => bindsOpt type ++ name.toList ++ bindsStmts body ++ bindsHandlers r
end

mutual
/-- names read by the statement that no scope nested in it binds (`cb` as for `freeE`) -/
def freeS (cb : List Str) : Stmt → List Str
  | .assign targets value => freeE cb value ++ freeList cb targets
  | .augAssign t _ v => freeE cb t ++ freeE cb v
  | .for_ t it body orelse => freeE cb it ++ freeE cb t ++ freeStmts cb body ++ freeStmts cb orelse
  | .while_ t body orelse => freeE cb t ++ freeStmts cb body ++ freeStmts cb orelse
  | .if_ t body orelse => freeE cb t ++ freeStmts cb body ++ freeStmts cb orelse
  | .try_ body handlers orelse finalbody =>
      freeStmts cb body ++ freeHandlers cb handlers ++ freeStmts cb orelse ++ freeStmts cb finalbody
  | .with_ items body => withFree cb items ++ freeStmts cb body
  | .import_ _ => []
  | .importFrom _ => []
  | .functionDef _ a body decorators =>
      freeArgs cb a ++ freeList cb decorators ++ minus (freeStmts [] body) (paramNames a ++ bindsStmts body)
  | .classDef _ bases kws body decorators =>
      freeList cb bases ++ freeKeywords cb kws ++ freeList cb decorators ++ freeStmts (bindsStmts body) body
  | .return_ v => freeOpt cb v
  | .expr v => freeE cb v
  | .delete targets => freeList cb targets
  | .global_ _ => []
  | .nonlocal_ _ => []
  | .pass_ => []
  | .break_ => []
  | .continue_ => []
  | .raise_ exc cause => freeOpt cb exc ++ freeOpt cb cause
  | .assert_ t msg => freeE cb t ++ freeOpt cb msg
def freeStmts (cb : List Str) : List Stmt → List Str
  | [] => []
  | st :: r => freeS cb st ++ freeStmts cb r
def freeHandlers (cb : List Str) : List Handler → List Str
  | [] => []
  | .mk type _ body :: r => freeOpt cb type ++ freeStmts cb body ++ freeHandlers cb r
end

/-- the names bound in the block's own scope -/
def boundNames (b : List Stmt) : List Str := bindsStmts b

/-- the free names of the block taken as the body of a function: what must come from outside.
(`global`/`nonlocal` declarations are outside the modelled grammar.) -/
def freeNames (b : List Stmt) : List Str := minus (freeStmts [] b) (bindsStmts b)

end Spec
end MakoModel.PyExpr
