/-!
# Re-margining of Python blocks: `pygen.adjust_whitespace`, `PythonPrinter._flush_adjusted_lines`

Both walk the block line by line (`re.split(r"\r?\n", …)`), decide with a small state machine whether the line
*starts inside a multi-line construct* (`in_multi_line`) and, if it does not, expand its tabs and replace the
block's margin (the leading blanks of the first code line).

* the lexer side (`adjust_whitespace`) tracks the kind of triple quote it is in and stops looking at a `#`;
* the printer side (`_in_multi_line`) only counts triple quotes per line.

`Spec.multiFlags` is the independent lexical specification: a real (if small) Python tokenizer state machine
that knows ordinary string literals, escapes, comments and backslash continuation.
-/
namespace MakoModel.PyExpr.Ws

abbrev Line := List Char

/-- `re.split(r"\r?\n", text)` -/
def splitLines : List Char → List Line
  | [] => [[]]
  | '\r' :: '\n' :: r => [] :: splitLines r
  | '\n' :: r => [] :: splitLines r
  | c :: r =>
    match splitLines r with
    | [] => [[c]]
    | l :: ls => (c :: l) :: ls

/-- `"\n".join(lines)` -/
def joinLines : List Line → List Char
  | [] => []
  | [l] => l
  | l :: m :: r => l ++ '\n' :: joinLines (m :: r)

/-- `str.expandtabs()` (tab size 8; `\n` and `\r` reset the column) starting at column `col` -/
def expandTabs : Nat → Line → Line
  | _, [] => []
  | col, c :: r =>
    if c = '\t' then List.replicate (8 - col % 8) ' ' ++ expandTabs (col + (8 - col % 8)) r
    else if c = '\n' ∨ c = '\r' then c :: expandTabs 0 r
    else c :: expandTabs (col + 1) r

def isBlank (c : Char) : Bool := c = ' ' || c = '\t'

/-- `re.search(r"^[ \t]*[^# \t]", line)` -/
def isCodeLine (l : Line) : Bool :=
  match l.dropWhile isBlank with
  | [] => false
  | c :: _ => c != '#'

/-- `re.match(r"^([ \t]*)", line).group(1)` -/
def margin (l : Line) : Line := l.takeWhile isBlank

/-- `re.sub(r"^%s" % stripspace, repl, line)` for a `stripspace` of blanks; `none` = `stripspace is None`
(the pattern `^None` matches no line that reaches this point: only blank and comment lines do) -/
def replaceMargin (m : Option Line) (repl : Line) (l : Line) : Line :=
  match m with
  | none => l
  | some m => if m.isPrefixOf l then repl ++ l.drop m.length else l

/-- the two kinds of triple quote -/
inductive Q | dq | sq
  deriving DecidableEq, Repr

def Q.char : Q → Char
  | .dq => '"' | .sq => '\''

/-- `bool(re.search(r"\\$", line))` -/
def endsWithBackslash (l : Line) : Bool := l.getLast? == some '\\'

/-- the `while line:` loop of `adjust_whitespace.in_multi_line`: the triple-quote state after the line.
Outside a triple-quoted string: a `#` ends the scan, a triple quote opens; inside: the same triple quote closes;
everything else is skipped (ordinary string literals and escapes are unknown to it). -/
def scanTriple : Option Q → Line → Option Q
  | s, [] => s
  | none, '#' :: _ => none
  | none, '"' :: '"' :: '"' :: r => scanTriple (some .dq) r
  | none, '\'' :: '\'' :: '\'' :: r => scanTriple (some .sq) r
  | none, _ :: r => scanTriple none r
  | some .dq, '"' :: '"' :: '"' :: r => scanTriple none r
  | some .sq, '\'' :: '\'' :: '\'' :: r => scanTriple none r
  | some q, _ :: r => scanTriple (some q) r

/-- `state` of `adjust_whitespace` -/
structure MLState where
  backslashed : Bool
  triple : Option Q
  deriving DecidableEq, Repr

def MLState.init : MLState := ⟨false, none⟩

/-- `in_multi_line(line)`: the answer (the state *before* the line) and the state after it -/
def stepLine (st : MLState) (l : Line) : Bool × MLState :=
  (st.backslashed || st.triple.isSome, ⟨endsWithBackslash l, scanTriple st.triple l⟩)

/-- the `in_multi_line` answers for the lines of a block -/
def multiFlagsFrom : MLState → List Line → List Bool
  | _, [] => []
  | st, l :: r => (stepLine st l).1 :: multiFlagsFrom (stepLine st l).2 r

def multiFlags (ls : List Line) : List Bool := multiFlagsFrom .init ls

/-- `if stripspace is None and re.search(r"^[ \t]*[^# \t]", line): stripspace = re.match(r"^([ \t]*)", line).group(1)` -/
def nextMargin (m : Option Line) (l' : Line) : Option Line :=
  match m with
  | some x => some x
  | none => if isCodeLine l' then some (margin l') else none

@[simp] theorem nextMargin_some (M l' : Line) : nextMargin (some M) l' = some M := rfl
@[simp] theorem nextMargin_none (l' : Line) :
    nextMargin none l' = if isCodeLine l' then some (margin l') else none := rfl

/-- the loop of `adjust_whitespace`; `m` = `stripspace` -/
def adjustLoop : MLState → Option Line → List Line → List Line
  | _, _, [] => []
  | st, m, l :: r =>
    if (stepLine st l).1 then l :: adjustLoop (stepLine st l).2 m r
    else
      let l' := expandTabs 0 l
      let m' := nextMargin m l'
      replaceMargin m' [] l' :: adjustLoop (stepLine st l).2 m' r

/-- `pygen.adjust_whitespace(text)` -/
def adjustWhitespace (text : List Char) : List Char :=
  joinLines (adjustLoop .init none (splitLines text))

/-! ### the printer side -/

/-- `len(re.findall(r"\"\"\"|\'\'\'", line))` -/
def countTriples : Line → Nat
  | '"' :: '"' :: '"' :: r => countTriples r + 1
  | '\'' :: '\'' :: '\'' :: r => countTriples r + 1
  | _ :: r => countTriples r
  | [] => 0

/-- `PythonPrinter._in_multi_line`: state = (backslashed, triplequoted) -/
def pStep (st : Bool × Bool) (l : Line) : Bool × (Bool × Bool) :=
  (st.1 || st.2, (endsWithBackslash l, if countTriples l % 2 = 1 then !st.2 else st.2))

/-- `_indent_line(entry, stripspace)` with `ind = indentstring * indent` -/
def pIndentLine (m : Option Line) (ind : Line) (l : Line) : Line :=
  if m = some [] then ind ++ l else replaceMargin m ind l

/-- the loop of `_flush_adjusted_lines`: the lines written to the stream -/
def flushLoop (ind : Line) : Bool × Bool → Option Line → List Line → List Line
  | _, _, [] => []
  | st, m, l :: r =>
    if (pStep st l).1 then l :: flushLoop ind (pStep st l).2 m r
    else
      let l' := expandTabs 0 l
      let m' := nextMargin m l'
      pIndentLine m' ind l' :: flushLoop ind (pStep st l).2 m' r

/-- `write_indented_block(block)` followed by `_flush_adjusted_lines()` at indentation level `indent` -/
def flushAdjusted (indent : Nat) (block : List Char) : List Line :=
  flushLoop (List.replicate (4 * indent) ' ') (false, false) none (splitLines block)

/-! ### the lexical specification -/
namespace Spec

/-- where a physical line starts / the tokenizer stands -/
inductive Mode
  | code
  /-- after a backslash-newline in code -/
  | cont
  /-- inside an ordinary string literal opened with the given quote (across a backslash-newline) -/
  | str1 (q : Char)
  /-- inside a triple-quoted string -/
  | str3 (q : Q)
  deriving DecidableEq, Repr

/-- Tokenize the rest of a physical line standing in `m` (`cont` behaves like `code`); the result is the mode in
which the *next* line starts.  A `#` in code starts a comment, which ends with the line. -/
def lexLine : Mode → Line → Mode
  | .code, [] => .code
  | .cont, [] => .code
  | .code, ['\\'] => .cont
  | .cont, ['\\'] => .cont
  | .code, '#' :: _ => .code
  | .cont, '#' :: _ => .code
  | .code, '"' :: '"' :: '"' :: r => lexLine (.str3 .dq) r
  | .cont, '"' :: '"' :: '"' :: r => lexLine (.str3 .dq) r
  | .code, '\'' :: '\'' :: '\'' :: r => lexLine (.str3 .sq) r
  | .cont, '\'' :: '\'' :: '\'' :: r => lexLine (.str3 .sq) r
  | .code, '"' :: r => lexLine (.str1 '"') r
  | .cont, '"' :: r => lexLine (.str1 '"') r
  | .code, '\'' :: r => lexLine (.str1 '\'') r
  | .cont, '\'' :: r => lexLine (.str1 '\'') r
  | .code, _ :: r => lexLine .code r
  | .cont, _ :: r => lexLine .code r
  | .str1 _, [] => .code                       -- unterminated: a syntax error in Python
  | .str1 q, ['\\'] => .str1 q                 -- string continued on the next line
  | .str1 q, '\\' :: _ :: r => lexLine (.str1 q) r
  | .str1 q, c :: r => if c = q then lexLine .code r else lexLine (.str1 q) r
  | .str3 q, [] => .str3 q
  | .str3 q, ['\\'] => .str3 q
  | .str3 q, '\\' :: _ :: r => lexLine (.str3 q) r
  | .str3 .dq, '"' :: '"' :: '"' :: r => lexLine .code r
  | .str3 .sq, '\'' :: '\'' :: '\'' :: r => lexLine .code r
  | .str3 q, _ :: r => lexLine (.str3 q) r

/-- a line is "inside" iff it starts in a triple-quoted or continued string or after a backslash continuation -/
def Mode.inside : Mode → Bool
  | .code => false
  | _ => true

def multiFlagsFrom : Mode → List Line → List Bool
  | _, [] => []
  | m, l :: r => m.inside :: multiFlagsFrom (lexLine m l) r

/-- for every physical line of the block: does it start inside a string literal or after a backslash
continuation? -/
def multiFlags (ls : List Line) : List Bool := multiFlagsFrom .code ls

end Spec
end MakoModel.PyExpr.Ws

namespace MakoModel.PyExpr.Ws.Spec

/-- the rest of the line starts with something the implementation's scanner reacts to outside a triple-quoted
string: a `#` or three equal quote characters -/
def triggers : Line → Bool
  | '#' :: _ => true
  | '"' :: '"' :: '"' :: _ => true
  | '\'' :: '\'' :: '\'' :: _ => true
  | _ => false

/-- Does tokenizing the rest of a line from mode `m` run into a construct on which the implementation's
`in_multi_line` is known to go wrong?  (`true` = outside the guard of `adjust_ws_spec_partial`.)
* a comment that ends in a backslash;
* inside an ordinary string literal: a `#`, three equal quote characters in a row (also when the first one closes the
  literal), or the end of the line (unterminated literal: not Python);
* inside a triple-quoted literal: a backslash followed by the literal's own quote character. -/
def lineHazard : Mode → Line → Bool
  | .code, [] => false
  | .cont, [] => false
  | .code, ['\\'] => false
  | .cont, ['\\'] => false
  | .code, '#' :: r => endsWithBackslash ('#' :: r)
  | .cont, '#' :: r => endsWithBackslash ('#' :: r)
  | .code, '"' :: '"' :: '"' :: r => lineHazard (.str3 .dq) r
  | .cont, '"' :: '"' :: '"' :: r => lineHazard (.str3 .dq) r
  | .code, '\'' :: '\'' :: '\'' :: r => lineHazard (.str3 .sq) r
  | .cont, '\'' :: '\'' :: '\'' :: r => lineHazard (.str3 .sq) r
  | .code, '"' :: r => lineHazard (.str1 '"') r
  | .cont, '"' :: r => lineHazard (.str1 '"') r
  | .code, '\'' :: r => lineHazard (.str1 '\'') r
  | .cont, '\'' :: r => lineHazard (.str1 '\'') r
  | .code, _ :: r => lineHazard .code r
  | .cont, _ :: r => lineHazard .code r
  | .str1 _, [] => true
  | .str1 _, ['\\'] => false
  | .str1 q, '\\' :: c :: r => triggers (c :: r) || lineHazard (.str1 q) r
  | .str1 q, c :: r => triggers (c :: r) || (if c = q then lineHazard .code r else lineHazard (.str1 q) r)
  | .str3 _, [] => false
  | .str3 _, ['\\'] => false
  | .str3 q, '\\' :: c :: r => c == q.char || lineHazard (.str3 q) r
  | .str3 .dq, '"' :: '"' :: '"' :: r => lineHazard .code r
  | .str3 .sq, '\'' :: '\'' :: '\'' :: r => lineHazard .code r
  | .str3 q, _ :: r => lineHazard (.str3 q) r

def hazardFreeFrom : Mode → List Line → Bool
  | _, [] => true
  | m, l :: r => !lineHazard m l && hazardFreeFrom (lexLine m l) r

/-- guard of `adjust_ws_spec_partial`: no line of the block contains one of the constructs listed at `lineHazard` -/
def hazardFree (ls : List Line) : Bool := hazardFreeFrom .code ls

/-- Re-margining as the property reads it, *given* for each line whether it starts inside a string literal or after
a backslash continuation (`inside`): such lines are reproduced untouched; every other line has its tabs expanded and,
from the first code line on, loses the margin of that first code line if it starts with it.  `m` = the margin found
so far. -/
def remargin : List Bool → Option Line → List Line → List Line
  | _, _, [] => []
  | [], _, ls => ls
  | inside :: fs, m, l :: ls =>
    if inside then l :: remargin fs m ls
    else
      let l' := expandTabs 0 l
      let m' := nextMargin m l'
      replaceMargin m' [] l' :: remargin fs m' ls

/-! ### the printer side: what `_in_multi_line` additionally gets wrong, and what re-indentation must do -/

/-- `PythonPrinter._in_multi_line` counts the triple quotes of a line without looking at what they are.  On top of
`lineHazard`, a line is outside the guard of `flush_adjusted_spec_partial` when (following the triple-quote state
`t` at its start)
* a comment contains three equal quote characters in a row, or
* a triple-quoted literal contains the *other* kind of triple quote. -/
def scanHazardP : Option Q → Line → Bool
  | _, [] => false
  | none, '#' :: r => countTriples r != 0
  | none, '"' :: '"' :: '"' :: r => scanHazardP (some .dq) r
  | none, '\'' :: '\'' :: '\'' :: r => scanHazardP (some .sq) r
  | none, _ :: r => scanHazardP none r
  | some .dq, '"' :: '"' :: '"' :: r => scanHazardP none r
  | some .sq, '\'' :: '\'' :: '\'' :: r => scanHazardP none r
  | some .dq, '\'' :: '\'' :: '\'' :: _ => true
  | some .sq, '"' :: '"' :: '"' :: _ => true
  | some q, _ :: r => scanHazardP (some q) r

def printerHazardFreeFrom : Option Q → List Line → Bool
  | _, [] => true
  | t, l :: r => !scanHazardP t l && printerHazardFreeFrom (scanTriple t l) r

/-- additional guard of `flush_adjusted_spec_partial` -/
def printerHazardFree (ls : List Line) : Bool := printerHazardFreeFrom none ls

/-- Re-indentation as the property reads it, *given* for each line whether it starts inside a string literal or
after a backslash continuation: such lines are written untouched; every other line has its tabs expanded and, from
the first code line on, the margin of that first code line replaced by the target indentation `ind` (a line that
does not start with the margin is written as it is; with an empty margin `ind` is simply put in front). -/
def reindent (ind : Line) : List Bool → Option Line → List Line → List Line
  | _, _, [] => []
  | [], _, ls => ls
  | inside :: fs, m, l :: ls =>
    if inside then l :: reindent ind fs m ls
    else
      let l' := expandTabs 0 l
      let m' := nextMargin m l'
      pIndentLine m' ind l' :: reindent ind fs m' ls

/-- Lexer-side re-margining followed by printer-side re-indentation, as the property reads it (for blocks without
TAB characters): a line inside a literal / after a continuation is reproduced untouched; blank and comment lines
before the first code line are reproduced untouched; from the first code line on a line loses the margin of that
first code line (if it starts with it) and gets the target indentation `ind` in front. -/
def roundtrip (ind : Line) : List Bool → Option Line → List Line → List Line
  | _, _, [] => []
  | [], _, ls => ls
  | inside :: fs, m, l :: ls =>
    if inside then l :: roundtrip ind fs m ls
    else
      let m' := nextMargin m l
      (match m' with
       | none => l
       | some _ => ind ++ replaceMargin m' [] l) :: roundtrip ind fs m' ls

end MakoModel.PyExpr.Ws.Spec
