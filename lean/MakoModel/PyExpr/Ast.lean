import MakoModel.Generated.PyExpr
/-!
# L9 (PyExpr): the abstract syntax of embedded Python

A mirror of CPython's `ast` node classes for the grammar of property C19: one constructor per node class,
fields in the order of the class' `_fields` (the order `generic_visit` walks them).  Strings are `List Char`.
Constants carry the text of `repr(value)` (computed by CPython; `repr` itself is not modelled) and the class
of the value; an f-string (`JoinedStr`) is opaque apart from its child expressions.

The operator symbol tables and the `visit_*` inventories come from `MakoModel.Generated.PyExpr`, regenerated
from /repo on every run.
-/
namespace MakoModel.PyExpr

abbrev Str := List Char

inductive BoolOp | and_ | or_
  deriving DecidableEq, Repr
inductive BinOp | add | sub | mult | matMult | div | mod | pow | lShift | rShift | bitOr | bitXor | bitAnd | floorDiv
  deriving DecidableEq, Repr
inductive UnaryOp | invert | not_ | uAdd | uSub
  deriving DecidableEq, Repr
inductive CmpOp | eq | notEq | lt | ltE | gt | gtE | is_ | isNot | in_ | notIn
  deriving DecidableEq, Repr

/-- the name of the `_ast` class of the operator: the key of the symbol tables -/
def BoolOp.pyName : BoolOp → Str
  | .and_ => ['A', 'n', 'd'] | .or_ => ['O', 'r']
def BinOp.pyName : BinOp → Str
  | .add => ['A', 'd', 'd'] | .sub => ['S', 'u', 'b'] | .mult => ['M', 'u', 'l', 't'] | .matMult => ['M', 'a', 't', 'M', 'u', 'l', 't']
  | .div => ['D', 'i', 'v'] | .mod => ['M', 'o', 'd'] | .pow => ['P', 'o', 'w'] | .lShift => ['L', 'S', 'h', 'i', 'f', 't']
  | .rShift => ['R', 'S', 'h', 'i', 'f', 't'] | .bitOr => ['B', 'i', 't', 'O', 'r'] | .bitXor => ['B', 'i', 't', 'X', 'o', 'r']
  | .bitAnd => ['B', 'i', 't', 'A', 'n', 'd'] | .floorDiv => ['F', 'l', 'o', 'o', 'r', 'D', 'i', 'v']
def UnaryOp.pyName : UnaryOp → Str
  | .invert => ['I', 'n', 'v', 'e', 'r', 't'] | .not_ => ['N', 'o', 't'] | .uAdd => ['U', 'A', 'd', 'd'] | .uSub => ['U', 'S', 'u', 'b']
def CmpOp.pyName : CmpOp → Str
  | .eq => ['E', 'q'] | .notEq => ['N', 'o', 't', 'E', 'q'] | .lt => ['L', 't'] | .ltE => ['L', 't', 'E']
  | .gt => ['G', 't'] | .gtE => ['G', 't', 'E'] | .is_ => ['I', 's'] | .isNot => ['I', 's', 'N', 'o', 't']
  | .in_ => ['I', 'n'] | .notIn => ['N', 'o', 't', 'I', 'n']

def BoolOp.all : List BoolOp := [.and_, .or_]
def BinOp.all : List BinOp :=
  [.add, .sub, .mult, .matMult, .div, .mod, .pow, .lShift, .rShift, .bitOr, .bitXor, .bitAnd, .floorDiv]
def UnaryOp.all : List UnaryOp := [.invert, .not_, .uAdd, .uSub]
def CmpOp.all : List CmpOp := [.eq, .notEq, .lt, .ltE, .gt, .gtE, .is_, .isNot, .in_, .notIn]

/-- `TABLE[type(op)]`; `none` is the `KeyError` -/
def lookup (tbl : List (Str × Str)) (k : Str) : Option Str :=
  match tbl with
  | [] => none
  | (k', v) :: r => if k' = k then some v else lookup r k

open Generated.PyExpr in
def BoolOp.sym (o : BoolOp) : Option Str := lookup boolopSymbols o.pyName
open Generated.PyExpr in
def BinOp.sym (o : BinOp) : Option Str := lookup binopSymbols o.pyName
open Generated.PyExpr in
def UnaryOp.sym (o : UnaryOp) : Option Str := lookup unaryopSymbols o.pyName
open Generated.PyExpr in
def CmpOp.sym (o : CmpOp) : Option Str := lookup cmpopSymbols o.pyName

inductive Ctx | load | store | del
  deriving DecidableEq, Repr

/-- class of a constant's value (what `repr` was applied to) -/
inductive ConstKind | int | float | complex | str | bytes | none | bool | ellipsis
  deriving DecidableEq, Repr

mutual
/-- `ast.expr` -/
inductive Expr where
  | name (id : Str) (ctx : Ctx)
  | const (kind : ConstKind) (repr : Str)
  | attribute (value : Expr) (attr : Str)
  | subscript (value : Expr) (slice : Expr)
  | slice (lower : Option Expr) (upper : Option Expr) (step : Option Expr)
  | call (func : Expr) (args : List Expr) (keywords : List Keyword)
  | unaryOp (op : UnaryOp) (operand : Expr)
  | binOp (left : Expr) (op : BinOp) (right : Expr)
  | boolOp (op : BoolOp) (values : List Expr)
  | compare (left : Expr) (ops : List CmpOp) (comparators : List Expr)
  | ifExp (test : Expr) (body : Expr) (orelse : Expr)
  | lambda (args : Args) (body : Expr)
  | tuple (elts : List Expr)
  | list (elts : List Expr)
  | set (elts : List Expr)
  /-- `keys[i]`/`values[i]` paired (CPython keeps the two lists equally long); `key = none` is `**value` -/
  | dict (items : List DictItem)
  | listComp (elt : Expr) (generators : List Comp)
  | setComp (elt : Expr) (generators : List Comp)
  | generatorExp (elt : Expr) (generators : List Comp)
  | dictComp (key : Expr) (value : Expr) (generators : List Comp)
  /-- f-string: `src` is its source text (opaque), `values` the `Constant`/`FormattedValue` children -/
  | joinedStr (src : Str) (values : List Expr)
  | formattedValue (value : Expr) (conversion : Int) (formatSpec : Option Expr)
  | starred (value : Expr)
  | namedExpr (target : Expr) (value : Expr)
  | await (value : Expr)
  | yield (value : Option Expr)
  | yieldFrom (value : Expr)
/-- `ast.keyword`; `arg = none` is `**value` -/
inductive Keyword where
  | mk (arg : Option Str) (value : Expr)
/-- one `key: value` entry of a `Dict` -/
inductive DictItem where
  | mk (key : Option Expr) (value : Expr)
/-- `ast.comprehension` -/
inductive Comp where
  | mk (target : Expr) (iter : Expr) (ifs : List Expr) (isAsync : Bool)
/-- `ast.arguments` (annotations are outside the grammar; an `ast.arg` is its name) -/
inductive Args where
  | mk (posonly : List Str) (args : List Str) (vararg : Option Str) (kwonly : List Str)
       (kwDefaults : List (Option Expr)) (kwarg : Option Str) (defaults : List Expr)
end

/-- `ast.alias` -/
structure Alias where
  name : Str
  asname : Option Str
  deriving DecidableEq, Repr

mutual
/-- `ast.stmt` -/
inductive Stmt where
  | assign (targets : List Expr) (value : Expr)
  | augAssign (target : Expr) (op : BinOp) (value : Expr)
  | for_ (target : Expr) (iter : Expr) (body : List Stmt) (orelse : List Stmt)
  | while_ (test : Expr) (body : List Stmt) (orelse : List Stmt)
  | if_ (test : Expr) (body : List Stmt) (orelse : List Stmt)
  | try_ (body : List Stmt) (handlers : List Handler) (orelse : List Stmt) (finalbody : List Stmt)
  | with_ (items : List (Expr × Option Expr)) (body : List Stmt)
  | import_ (names : List Alias)
  | importFrom (names : List Alias)
  | functionDef (name : Str) (args : Args) (body : List Stmt) (decorators : List Expr)
  | classDef (name : Str) (bases : List Expr) (keywords : List Keyword) (body : List Stmt) (decorators : List Expr)
  | return_ (value : Option Expr)
  | expr (value : Expr)
  | delete (targets : List Expr)
  | global_ (names : List Str)
  | nonlocal_ (names : List Str)
  | pass_
  | break_
  | continue_
  | raise_ (exc : Option Expr) (cause : Option Expr)
  | assert_ (test : Expr) (msg : Option Expr)
/-- `ast.ExceptHandler` -/
inductive Handler where
  | mk (type : Option Expr) (name : Option Str) (body : List Stmt)
end

/-- node classes (expression kinds and the helper nodes a visitor can be defined for) -/
inductive Kind
  | name | constant | attribute | subscript | slice | call | unaryOp | binOp | boolOp | compare | ifExp | lambda
  | tuple | list | set | dict | listComp | setComp | generatorExp | dictComp | joinedStr | formattedValue
  | starred | namedExpr | await | yield | yieldFrom
  | keyword | comprehension | arguments | arg
  deriving DecidableEq, Repr

def Kind.pyName : Kind → Str
  | .name => ['N', 'a', 'm', 'e'] | .constant => ['C', 'o', 'n', 's', 't', 'a', 'n', 't'] | .attribute => ['A', 't', 't', 'r', 'i', 'b', 'u', 't', 'e']
  | .subscript => ['S', 'u', 'b', 's', 'c', 'r', 'i', 'p', 't'] | .slice => ['S', 'l', 'i', 'c', 'e'] | .call => ['C', 'a', 'l', 'l']
  | .unaryOp => ['U', 'n', 'a', 'r', 'y', 'O', 'p'] | .binOp => ['B', 'i', 'n', 'O', 'p'] | .boolOp => ['B', 'o', 'o', 'l', 'O', 'p']
  | .compare => ['C', 'o', 'm', 'p', 'a', 'r', 'e'] | .ifExp => ['I', 'f', 'E', 'x', 'p'] | .lambda => ['L', 'a', 'm', 'b', 'd', 'a']
  | .tuple => ['T', 'u', 'p', 'l', 'e'] | .list => ['L', 'i', 's', 't'] | .set => ['S', 'e', 't'] | .dict => ['D', 'i', 'c', 't']
  | .listComp => ['L', 'i', 's', 't', 'C', 'o', 'm', 'p'] | .setComp => ['S', 'e', 't', 'C', 'o', 'm', 'p'] | .generatorExp => ['G', 'e', 'n', 'e', 'r', 'a', 't', 'o', 'r', 'E', 'x', 'p']
  | .dictComp => ['D', 'i', 'c', 't', 'C', 'o', 'm', 'p'] | .joinedStr => ['J', 'o', 'i', 'n', 'e', 'd', 'S', 't', 'r']
  | .formattedValue => ['F', 'o', 'r', 'm', 'a', 't', 't', 'e', 'd', 'V', 'a', 'l', 'u', 'e'] | .starred => ['S', 't', 'a', 'r', 'r', 'e', 'd']
  | .namedExpr => ['N', 'a', 'm', 'e', 'd', 'E', 'x', 'p', 'r'] | .await => ['A', 'w', 'a', 'i', 't'] | .yield => ['Y', 'i', 'e', 'l', 'd']
  | .yieldFrom => ['Y', 'i', 'e', 'l', 'd', 'F', 'r', 'o', 'm']
  | .keyword => ['k', 'e', 'y', 'w', 'o', 'r', 'd'] | .comprehension => ['c', 'o', 'm', 'p', 'r', 'e', 'h', 'e', 'n', 's', 'i', 'o', 'n']
  | .arguments => ['a', 'r', 'g', 'u', 'm', 'e', 'n', 't', 's'] | .arg => ['a', 'r', 'g']

/-- the expression kinds -/
def Kind.exprKinds : List Kind :=
  [.name, .constant, .attribute, .subscript, .slice, .call, .unaryOp, .binOp, .boolOp, .compare, .ifExp, .lambda,
   .tuple, .list, .set, .dict, .listComp, .setComp, .generatorExp, .dictComp, .joinedStr, .formattedValue,
   .starred, .namedExpr, .await, .yield, .yieldFrom]

def Kind.all : List Kind := Kind.exprKinds ++ [.keyword, .comprehension, .arguments, .arg]

def Expr.kind : Expr → Kind
  | .name .. => .name | .const .. => .constant | .attribute .. => .attribute | .subscript .. => .subscript
  | .slice .. => .slice | .call .. => .call | .unaryOp .. => .unaryOp | .binOp .. => .binOp
  | .boolOp .. => .boolOp | .compare .. => .compare | .ifExp .. => .ifExp | .lambda .. => .lambda
  | .tuple .. => .tuple | .list .. => .list | .set .. => .set | .dict .. => .dict
  | .listComp .. => .listComp | .setComp .. => .setComp | .generatorExp .. => .generatorExp
  | .dictComp .. => .dictComp | .joinedStr .. => .joinedStr | .formattedValue .. => .formattedValue
  | .starred .. => .starred | .namedExpr .. => .namedExpr | .await .. => .await | .yield .. => .yield
  | .yieldFrom .. => .yieldFrom

/-- `getattr(SourceGenerator, "visit_" + kind, None) is not None` -/
def hasVisitor (k : Kind) : Bool := Generated.PyExpr.sourceGenVisitors.contains k.pyName

end MakoModel.PyExpr
