import MakoModel.PyExpr.Ast
import MakoModel.PyExpr.Print
import MakoModel.PyExpr.PrintSpec
import MakoModel.PyExpr.Prec
import MakoModel.PyExpr.Ident
import MakoModel.PyExpr.Ws
/-!
# L9 PyExpr: the model of mako's handling of embedded Python (property C19)

* `Ast`       - expression/statement syntax mirroring CPython's `ast`; operator tables and visitor inventories
                are the regenerated ones (`MakoModel.Generated.PyExpr`)
* `Print`     - `print : Expr → Option (List Tok)` = `_ast_util.SourceGenerator` (visitor or `generic_visit`)
* `PrintSpec` - `Spec.parts`, `collect`, bracket balance, the guards of the `_partial` theorems
* `Prec`      - slots, expression classes, `needsParens` (validated against CPython every run), `children`
* `Ident`     - `findIdentifiers` = `pyparser.FindIdentifiers`; `Spec.freeNames`/`Spec.boundNames`
* `Ws`        - `adjustWhitespace` = `pygen.adjust_whitespace`, `flushAdjusted` = the printer side,
                `Spec.multiFlags`
-/
