import MakoModel.PyExpr.LemmasWrap
/-! Where the children's texts stand in the printed parent: the list-valued `visit_operand` slots (helper lemmas for
C19: `print_places_operand_lists`). -/
set_option linter.unusedSimpArgs false
set_option linter.unusedVariables false

namespace MakoModel.PyExpr

theorem infix_mid {α} {a x : List α} (p q : List α) (h : a <:+: x) : a <:+: p ++ x ++ q := by
  obtain ⟨u, v, rfl⟩ := h
  exact ⟨p ++ u, v ++ q, by simp⟩

theorem infix_left {α} {a x : List α} (q : List α) (h : a <:+: x) : a <:+: x ++ q := by
  simpa using infix_mid [] q h

theorem infix_right {α} {a x : List α} (p : List α) (h : a <:+: x) : a <:+: p ++ x := by
  simpa using infix_mid p [] h

theorem infix_flatten {α} {t : List α} : ∀ {ts : List (List α)}, t ∈ ts → t <:+: ts.flatten
  | [], h => by simp at h
  | a :: r, h => by
      rcases List.mem_cons.mp h with rfl | h
      · exact infix_left _ (List.infix_refl _)
      · exact infix_right _ (infix_flatten h)

theorem infix_joinWith {t s : Toks} : ∀ {ts : List Toks}, t ∈ ts → t <:+: joinWith s ts
  | [], h => by simp at h
  | [a], h => by
      have : t = a := by simpa using h
      subst this; exact List.infix_refl _
  | a :: b :: r, h => by
      simp only [joinWith]
      rcases List.mem_cons.mp h with rfl | h
      · exact infix_left _ (infix_left _ (List.infix_refl _))
      · exact infix_right _ (infix_joinWith h)

theorem printOps_mem : ∀ (es : List Expr) (ts : List Toks), printOps es = some ts →
    ∀ e ∈ es, ∃ t, print e = some t ∧ wrapOperand e t ∈ ts
  | [], ts, h, e, he => by simp at he
  | e0 :: es, ts, h, e, he => by
      simp only [printOps, bind, Option.bind_eq_some_iff, pure, Option.some.injEq] at h
      obtain ⟨t0, h0, tr, hr, rfl⟩ := h
      rcases List.mem_cons.mp he with rfl | he
      · exact ⟨t0, h0, by simp⟩
      · obtain ⟨t, ht, hm⟩ := printOps_mem es tr hr e he
        exact ⟨t, ht, by simp [hm]⟩

theorem printCmp_mem : ∀ (ops : List CmpOp) (cs : List Expr) (T : Toks), printCmp ops cs = some T →
    ∀ c ∈ cs.take ops.length, ∃ t, print c = some t ∧ wrapOperand c t <:+: T
  | _, [], T, h, c, hc => by simp at hc
  | [], _ :: _, T, h, c, hc => by simp at hc
  | op :: ops, c0 :: cs, T, h, c, hc => by
      simp only [printCmp, bind, Option.bind_eq_some_iff, pure, Option.some.injEq] at h
      obtain ⟨s, _, t0, h0, tr, hr, rfl⟩ := h
      simp only [List.length_cons, List.take_succ_cons, List.mem_cons] at hc
      rcases hc with rfl | hc
      · exact ⟨t0, h0, infix_mid _ _ (List.infix_refl _)⟩
      · obtain ⟨t, ht, hi⟩ := printCmp_mem ops cs tr hr c hc
        exact ⟨t, ht, infix_right _ hi⟩

theorem printComps_mem (hv : hasVisitor .comprehension = true) : ∀ (gs : List Comp) (T : Toks),
    printComps gs = some T → ∀ tg it ifs a, Comp.mk tg it ifs a ∈ gs →
    (∃ ti, print it = some ti ∧ wrapOperand it ti <:+: T)
    ∧ ∀ c ∈ ifs, ∃ tc, print c = some tc ∧ wrapOperand c tc <:+: T
  | [], T, h, tg, it, ifs, a, hm => by simp at hm
  | .mk tg0 it0 ifs0 a0 :: gs, T, h, tg, it, ifs, a, hm => by
      simp only [printComps, hv, if_true, bind, Option.bind_eq_some_iff, pure, Option.some.injEq] at h
      obtain ⟨tt, ht, ti, hi, tf, hf, tr, hr, rfl⟩ := h
      rcases List.mem_cons.mp hm with heq | hm
      · simp only [Comp.mk.injEq] at heq
        obtain ⟨rfl, rfl, rfl, rfl⟩ := heq
        refine ⟨⟨ti, hi, ?_⟩, ?_⟩
        · exact infix_left _ (infix_left _ (infix_right _ (List.infix_refl _)))
        · intro c hc
          obtain ⟨tc, htc, hmem⟩ := printOps_mem _ tf hf c hc
          refine ⟨tc, htc, ?_⟩
          have h1 : ([sp, Tok.leaf ['i', 'f'], sp] ++ wrapOperand c tc)
              ∈ tf.map (fun c => [sp, Tok.leaf ['i', 'f'], sp] ++ c) := List.mem_map.mpr ⟨_, hmem, rfl⟩
          exact infix_left _ (infix_right _ (List.IsInfix.trans (infix_right _ (List.infix_refl _)) (infix_flatten h1)))
      · obtain ⟨h1, h2⟩ := printComps_mem hv gs tr hr tg it ifs a hm
        refine ⟨?_, ?_⟩
        · obtain ⟨ti', hti, hin⟩ := h1
          exact ⟨ti', hti, infix_right _ hin⟩
        · intro c hc
          obtain ⟨tc, htc, hin⟩ := h2 c hc
          exact ⟨tc, htc, infix_right _ hin⟩

theorem printDict_mem : ∀ (items : List DictItem) (ts : List Toks), printDict items = some ts →
    ∀ v, DictItem.mk none v ∈ items → ∃ t item, print v = some t ∧ item ∈ ts ∧ wrapOperand v t <:+: item
  | [], ts, h, v, hm => by simp at hm
  | .mk none v0 :: r, ts, h, v, hm => by
      simp only [printDict, bind, Option.bind_eq_some_iff, pure, Option.some.injEq] at h
      obtain ⟨tv, hv, tr, hr, rfl⟩ := h
      rcases List.mem_cons.mp hm with heq | hm
      · simp only [DictItem.mk.injEq, true_and] at heq
        subst heq
        exact ⟨tv, [Tok.leaf ['*', '*']] ++ wrapOperand v tv, hv, by simp, infix_right _ (List.infix_refl _)⟩
      · obtain ⟨t, item, ht, hi, hin⟩ := printDict_mem r tr hr v hm
        exact ⟨t, item, ht, by simp [hi], hin⟩
  | .mk (some k) v0 :: r, ts, h, v, hm => by
      simp only [printDict, bind, Option.bind_eq_some_iff, pure, Option.some.injEq] at h
      obtain ⟨tk, hk, tv, hv, tr, hr, rfl⟩ := h
      rcases List.mem_cons.mp hm with heq | hm
      · simp at heq
      · obtain ⟨t, item, ht, hi, hin⟩ := printDict_mem r tr hr v hm
        exact ⟨t, item, ht, by simp [hi], hin⟩

end MakoModel.PyExpr
