import MakoModel.PyExpr.Ident
import MakoModel.PyExpr.PrintSpec
/-!
The guard of `identifiers_exact_partial`: blocks without nested scopes.

`flatBlock b` holds when the block contains no comprehension, no `def`, no `class`, no `del`, no
`global`/`nonlocal`, no `from m import *`, and only lambdas without default values and without `:=` in their body
(parameters of every kind, nested lambdas included) - i.e. everything except the constructs where `FindIdentifiers`
still departs from Python's scoping (F12b, F12c, F12e, F12f, F12g).  Everything else - any nesting of `for`/`while`/`if`/`try`/`with`,
assignments to names, tuples, attributes and subscripts, augmented assignments, imports, `:=`, calls with any
kind of argument, every operator, conditional expressions, displays, f-strings - is inside the guard.
-/
namespace MakoModel.PyExpr

/-- this node binds no name: no stored/deleted name, no `:=` -/
def noStoreLocal : Expr → Bool
  | .name _ .store | .name _ .del => false
  | .namedExpr .. => false
  | _ => true

def Args.noDefaults : Args → Bool
  | .mk _ _ _ _ kwDefaults _ defaults => defaults.isEmpty && kwDefaults.all Option.isNone

/-- this node is inside the guard: no comprehension, no `del` target; a lambda only when it has no default values
(`FindIdentifiers` never visits them) and binds nothing in its body (no `:=`) -/
def flatLocal : Expr → Bool
  | .listComp .. | .setComp .. | .generatorExp .. | .dictComp .. => false
  | .lambda a b => a.noDefaults && b.all noStoreLocal
  | .name _ .del => false
  | _ => true

def flatE (e : Expr) : Bool := e.all flatLocal

def flatWithItems : List (Expr × Option Expr) → Bool
  | [] => true
  | (c, v) :: r => flatE c && allOpt flatLocal v && flatWithItems r

def noStar : List Alias → Bool
  | [] => true
  | a :: r => (a.asname.isSome || a.name != ['*']) && noStar r

mutual
def flatS : Stmt → Bool
  | .assign targets value => allList flatLocal targets && flatE value
  | .augAssign t _ v => flatE t && flatE v
  | .for_ t it body orelse => flatE t && flatE it && flatSs body && flatSs orelse
  | .while_ t body orelse => flatE t && flatSs body && flatSs orelse
  | .if_ t body orelse => flatE t && flatSs body && flatSs orelse
  | .try_ body handlers orelse finalbody => flatSs body && flatHs handlers && flatSs orelse && flatSs finalbody
  | .with_ items body => flatWithItems items && flatSs body
  | .import_ _ => true
  | .importFrom names => noStar names
  | .functionDef .. => false
  | .classDef .. => false
  | .return_ v => allOpt flatLocal v
  | .expr v => flatE v
  | .delete _ => false
  | .global_ _ => false
  | .nonlocal_ _ => false
  | .pass_ => true
  | .break_ => true
  | .continue_ => true
  | .raise_ exc cause => allOpt flatLocal exc && allOpt flatLocal cause
  | .assert_ t msg => flatE t && allOpt flatLocal msg
def flatSs : List Stmt → Bool
  | [] => true
  | st :: r => flatS st && flatSs r
def flatHs : List Handler → Bool
  | [] => true
  | .mk type _ body :: r => allOpt flatLocal type && flatSs body && flatHs r
end

/-- guard of `identifiers_exact_partial` -/
def flatBlock (b : List Stmt) : Bool := flatSs b

/-- the `visit_*` methods of `FindIdentifiers` that the flat fragment goes through are still there -/
structure FIVisitors : Prop where
  name : fiHas ['N', 'a', 'm', 'e'] = true
  lambda : fiHas ['L', 'a', 'm', 'b', 'd', 'a'] = true
  assign : fiHas ['A', 's', 's', 'i', 'g', 'n'] = true
  for_ : fiHas ['F', 'o', 'r'] = true
  handler : fiHas ['E', 'x', 'c', 'e', 'p', 't', 'H', 'a', 'n', 'd', 'l', 'e', 'r'] = true
  import_ : fiHas ['I', 'm', 'p', 'o', 'r', 't'] = true
  importFrom : fiHas ['I', 'm', 'p', 'o', 'r', 't', 'F', 'r', 'o', 'm'] = true

end MakoModel.PyExpr
