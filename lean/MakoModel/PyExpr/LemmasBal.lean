import MakoModel.PyExpr.PrintSpec
/-! Bracket balance of everything the printer emits (helper lemmas for C19). -/
set_option linter.unusedSimpArgs false
set_option linter.unusedVariables false

namespace MakoModel.PyExpr

theorem bal_append (d : Nat) (a b : Toks) : bal d (a ++ b) = (bal d a).bind fun d' => bal d' b := by
  induction a generalizing d with
  | nil => simp [bal]
  | cons t r ih =>
    cases t with
    | leaf s => simp [bal, ih]
    | sep s => simp [bal, ih]
    | opn s => simp [bal, ih]
    | cls s => cases d <;> simp [bal, ih]

/-- balanced: from every depth back to that depth -/
abbrev Bal (t : Toks) : Prop := ∀ d, bal d t = some d

theorem bal_flatten {ts : List Toks} (h : ∀ t ∈ ts, Bal t) : Bal ts.flatten := by
  induction ts with
  | nil => intro d; rfl
  | cons a r ih =>
    intro d
    simp only [List.flatten_cons, bal_append, h a (by simp) d, Option.bind_some]
    exact ih (fun t ht => h t (by simp [ht])) d

theorem bal_joinWith {s : Toks} {ts : List Toks} (hs : Bal s) (h : ∀ t ∈ ts, Bal t) : Bal (joinWith s ts) := by
  induction ts with
  | nil => intro d; rfl
  | cons a r ih =>
    cases r with
    | nil => simpa [joinWith] using h a (by simp)
    | cons b r' =>
      intro d
      simp only [joinWith, bal_append, h a (by simp) d, hs d, Option.bind_some]
      exact ih (fun t ht => h t (by simp [ht])) d

theorem bal_map_flatten {α} {f : α → Toks} {l : List α} (h : ∀ a, Bal (f a)) : Bal (l.map f).flatten :=
  bal_flatten (by intro t ht; simp only [List.mem_map] at ht; obtain ⟨a, _, rfl⟩ := ht; exact h a)

theorem bal_comma : Bal comma := fun _ => rfl

theorem bal_wrapOperand (e : Expr) {t : Toks} (h : Bal t) : Bal (wrapOperand e t) := by
  intro d; unfold wrapOperand; split
  · simp [bal_append, bal, lpar, rpar, h (d + 1)]
  · exact h d

theorem bal_insertAt {k : Nat} {x : Toks} {l : List Toks} (hx : Bal x) (hl : ∀ t ∈ l, Bal t) :
    ∀ t ∈ insertAt k x l, Bal t := by
  intro t ht
  simp only [insertAt, List.mem_append, List.mem_cons] at ht
  rcases ht with ht | rfl | ht
  · exact hl t (List.mem_of_mem_take ht)
  · exact hx
  · exact hl t (List.mem_of_mem_drop ht)

theorem bal_argTok (a : Str) : Bal (argTok a) := by
  intro d; unfold argTok; split <;> rfl

theorem bal_optArgTok (a : Option Str) : Bal (optArgTok a) := by
  cases a with
  | none => intro d; rfl
  | some a => exact bal_argTok a

/-- unfold one step of the printer in a hypothesis `… = some t` -/
macro "punfold" h:ident : tactic =>
  `(tactic| simp only [print, printOpt, printList, printOptList, printDict, printDictKeys, printDictValues, printCmp,
      printKeywords, printKeywordsGeneric, printComps, printDefaults, printSig, printArgsGeneric, printOps,
      printKwDefaults, bind, Option.bind_eq_some_iff, pure, Option.some.injEq, exists_and_left, exists_eq_left'] at $h:ident)

@[simp] theorem bal_lpar (d : Nat) (r : Toks) : bal d (lpar :: r) = bal (d + 1) r := rfl
@[simp] theorem bal_rpar (d : Nat) (r : Toks) : bal (d + 1) (rpar :: r) = bal d r := rfl
@[simp] theorem bal_sp (d : Nat) (r : Toks) : bal d (sp :: r) = bal d r := rfl

macro "bal_close" : tactic =>
  `(tactic| (intro d; simp [bal_append, bal, *]))

set_option maxHeartbeats 1000000 in
mutual
theorem bal_print : ∀ (e : Expr) (t : Toks), print e = some t → Bal t
  | .name id _, t, h => by punfold h; subst h; split <;> (intro d; rfl)
  | .const _ r, t, h => by punfold h; subst h; split <;> (intro d; rfl)
  | .attribute v a, t, h => by
      punfold h; obtain ⟨tv, hv, rfl⟩ := h
      have := bal_print v tv hv; have := bal_wrapOperand v this
      split <;> bal_close
  | .subscript v s, t, h => by
      punfold h; obtain ⟨tv, hv, ts, hs, rfl⟩ := h
      have := bal_print v tv hv; have := bal_wrapOperand v this; have := bal_print s ts hs
      split <;> bal_close
  | .slice lo hi none, t, h => by
      punfold h; obtain ⟨tl, hl, th, hh, h⟩ := h
      have := bal_printOpt lo tl hl; have := bal_printOpt hi th hh
      split at h
      · punfold h; subst h; bal_close
      · punfold h; subst h; bal_close
  | .slice lo hi (some s), t, h => by
      punfold h; obtain ⟨tl, hl, th, hh, h⟩ := h
      have := bal_printOpt lo tl hl; have := bal_printOpt hi th hh
      split at h
      · split at h
        · punfold h; subst h; bal_close
        · punfold h; obtain ⟨ts, hs, rfl⟩ := h
          have := bal_print s ts hs; bal_close
      · punfold h; obtain ⟨ts, hs, rfl⟩ := h
        have := bal_print s ts hs; bal_close
  | .call f args kws, t, h => by
      punfold h; obtain ⟨tf, hf, ta, ha, h⟩ := h
      have := bal_print f tf hf; have := bal_wrapOperand f this; have ha' := bal_printList args ta ha
      split at h
      · punfold h; obtain ⟨tk, hk, rfl⟩ := h
        have hk' := bal_printKeywords kws tk hk
        have := bal_joinWith bal_comma (ts := ta ++ tk) (by
          intro x hx; rcases List.mem_append.mp hx with hx | hx
          · exact ha' x hx
          · exact hk' x hx)
        bal_close
      · punfold h; obtain ⟨tk, hk, rfl⟩ := h
        have := bal_printKeywordsGeneric kws tk hk
        have := bal_flatten ha'
        bal_close
  | .unaryOp op e, t, h => by
      punfold h
      split at h
      · punfold h; obtain ⟨s, _, te, he, rfl⟩ := h
        have := bal_wrapOperand e (bal_print e te he)
        split <;> bal_close
      · exact bal_print e t h
  | .binOp l op r, t, h => by
      punfold h
      split at h
      · punfold h; obtain ⟨tl, hl, s, _, tr, hr, rfl⟩ := h
        have := bal_wrapOperand l (bal_print l tl hl); have := bal_wrapOperand r (bal_print r tr hr); bal_close
      · punfold h; obtain ⟨tl, hl, tr, hr, rfl⟩ := h
        have := bal_print l tl hl; have := bal_print r tr hr; bal_close
  | .boolOp op vs, t, h => by
      punfold h
      split at h
      · punfold h; obtain ⟨tv, hv, h⟩ := h
        have hv' := bal_printOps vs tv hv
        split at h
        · punfold h; subst h; have := bal_flatten hv'; bal_close
        · punfold h; obtain ⟨s, _, rfl⟩ := h
          have := bal_joinWith (s := [sp, .leaf s, sp]) (fun _ => rfl) hv'
          bal_close
      · punfold h; obtain ⟨tv, hv, rfl⟩ := h
        exact bal_flatten (bal_printList vs tv hv)
  | .compare l ops cs, t, h => by
      punfold h
      split at h
      · punfold h; obtain ⟨tl, hl, tc, hc, rfl⟩ := h
        have := bal_wrapOperand l (bal_print l tl hl); have := bal_printCmp ops cs tc hc; bal_close
      · punfold h; obtain ⟨tl, hl, tc, hc, rfl⟩ := h
        have := bal_print l tl hl; have := bal_flatten (bal_printList cs tc hc); bal_close
  | .ifExp c b o, t, h => by
      punfold h
      split at h
      · punfold h; obtain ⟨tb, hb, tt, ht, to, ho, rfl⟩ := h
        have := bal_wrapOperand b (bal_print b tb hb); have := bal_wrapOperand c (bal_print c tt ht)
        have := bal_print o to ho; bal_close
      · punfold h; obtain ⟨tt, ht, tb, hb, to, ho, rfl⟩ := h
        have := bal_print b tb hb; have := bal_print c tt ht; have := bal_print o to ho; bal_close
  | .lambda a b, t, h => by
      punfold h
      split at h
      · punfold h; obtain ⟨ts, hs, tb, hb, rfl⟩ := h
        have := bal_joinWith bal_comma (bal_printSig a ts hs); have := bal_print b tb hb; bal_close
      · punfold h; obtain ⟨ts, hs, tb, hb, rfl⟩ := h
        have := bal_printArgsGeneric a ts hs; have := bal_print b tb hb; bal_close
  | .tuple es, t, h => by
      punfold h
      split at h
      · punfold h; obtain ⟨te, he, rfl⟩ := h
        have := bal_joinWith bal_comma (bal_printList es te he)
        split <;> bal_close
      · punfold h; obtain ⟨te, he, rfl⟩ := h
        exact bal_flatten (bal_printList es te he)
  | .list es, t, h => by
      punfold h
      split at h
      · punfold h; obtain ⟨te, he, rfl⟩ := h
        have := bal_joinWith bal_comma (bal_printList es te he); bal_close
      · punfold h; obtain ⟨te, he, rfl⟩ := h
        exact bal_flatten (bal_printList es te he)
  | .set es, t, h => by
      punfold h
      split at h
      · punfold h; obtain ⟨te, he, rfl⟩ := h
        have := bal_joinWith bal_comma (bal_printList es te he); bal_close
      · punfold h; obtain ⟨te, he, rfl⟩ := h
        exact bal_flatten (bal_printList es te he)
  | .dict items, t, h => by
      punfold h
      split at h
      · punfold h; obtain ⟨ti, hi, rfl⟩ := h
        have := bal_joinWith bal_comma (bal_printDict items ti hi); bal_close
      · punfold h; obtain ⟨tk, hk, tv, hv, rfl⟩ := h
        have := bal_printDictKeys items tk hk; have := bal_printDictValues items tv hv; bal_close
  | .listComp e gs, t, h => by
      punfold h; obtain ⟨te, he, tg, hg, rfl⟩ := h
      have := bal_print e te he; have := bal_printComps gs tg hg
      split <;> bal_close
  | .setComp e gs, t, h => by
      punfold h; obtain ⟨te, he, tg, hg, rfl⟩ := h
      have := bal_print e te he; have := bal_printComps gs tg hg
      split <;> bal_close
  | .generatorExp e gs, t, h => by
      punfold h; obtain ⟨te, he, tg, hg, rfl⟩ := h
      have := bal_print e te he; have := bal_printComps gs tg hg
      split <;> bal_close
  | .dictComp k v gs, t, h => by
      punfold h; obtain ⟨tk, hk, tv, hv, tg, hg, rfl⟩ := h
      have := bal_print k tk hk; have := bal_print v tv hv; have := bal_printComps gs tg hg
      split <;> bal_close
  | .joinedStr src vs, t, h => by
      punfold h
      split at h
      · punfold h; subst h; intro d; rfl
      · punfold h; obtain ⟨tv, hv, rfl⟩ := h
        exact bal_flatten (bal_printList vs tv hv)
  | .formattedValue v _ spec, t, h => by
      punfold h; obtain ⟨tv, hv, ts, hs, rfl⟩ := h
      have := bal_print v tv hv; have := bal_printOpt spec ts hs
      split <;> bal_close
  | .starred v, t, h => by
      punfold h; obtain ⟨tv, hv, rfl⟩ := h
      have := bal_print v tv hv; have := bal_wrapOperand v this
      split <;> bal_close
  | .namedExpr a v, t, h => by
      punfold h; obtain ⟨ta, ha, tv, hv, rfl⟩ := h
      have := bal_print a ta ha; have := bal_print v tv hv
      split <;> bal_close
  | .await v, t, h => by
      punfold h; obtain ⟨tv, hv, rfl⟩ := h
      have := bal_print v tv hv
      split <;> bal_close
  | .yield none, t, h => by
      punfold h
      split at h
      · simp at h
      · simp only [Option.some.injEq] at h; subst h; intro d; rfl
  | .yield (some e), t, h => by
      punfold h
      split at h
      · punfold h; obtain ⟨te, he, rfl⟩ := h
        have := bal_print e te he; bal_close
      · exact bal_print e t h
  | .yieldFrom v, t, h => by
      punfold h; obtain ⟨tv, hv, rfl⟩ := h
      have := bal_print v tv hv
      split <;> bal_close
theorem bal_printOpt : ∀ (o : Option Expr) (t : Toks), printOpt o = some t → Bal t
  | none, t, h => by punfold h; subst h; intro d; rfl
  | some e, t, h => by punfold h; exact bal_print e t h
theorem bal_printList : ∀ (es : List Expr) (ts : List Toks), printList es = some ts → ∀ t ∈ ts, Bal t
  | [], ts, h => by punfold h; subst h; simp
  | e :: es, ts, h => by
      punfold h; obtain ⟨t, ht, tr, hr, rfl⟩ := h
      intro x hx
      rcases List.mem_cons.mp hx with rfl | hx
      · exact bal_print e _ ht
      · exact bal_printList es tr hr x hx
theorem bal_printOps : ∀ (es : List Expr) (ts : List Toks), printOps es = some ts → ∀ t ∈ ts, Bal t
  | [], ts, h => by punfold h; subst h; simp
  | e :: es, ts, h => by
      punfold h; obtain ⟨t, ht, tr, hr, rfl⟩ := h
      intro x hx
      rcases List.mem_cons.mp hx with rfl | hx
      · exact bal_wrapOperand e (bal_print e _ ht)
      · exact bal_printOps es tr hr x hx
theorem bal_printOptList : ∀ (es : List (Option Expr)) (t : Toks), printOptList es = some t → Bal t
  | [], t, h => by punfold h; subst h; intro d; rfl
  | none :: es, t, h => by punfold h; exact bal_printOptList es t h
  | some e :: es, t, h => by
      punfold h; obtain ⟨a, ha, b, hb, rfl⟩ := h
      have := bal_print e a ha; have := bal_printOptList es b hb; bal_close
theorem bal_printDict : ∀ (items : List DictItem) (ts : List Toks), printDict items = some ts → ∀ t ∈ ts, Bal t
  | [], ts, h => by punfold h; subst h; simp
  | .mk none v :: r, ts, h => by
      punfold h; obtain ⟨tv, hv, tr, hr, rfl⟩ := h
      intro x hx
      rcases List.mem_cons.mp hx with rfl | hx
      · have := bal_wrapOperand v (bal_print v tv hv); bal_close
      · exact bal_printDict r tr hr x hx
  | .mk (some k) v :: r, ts, h => by
      punfold h; obtain ⟨tk, hk, tv, hv, tr, hr, rfl⟩ := h
      intro x hx
      rcases List.mem_cons.mp hx with rfl | hx
      · have := bal_print k tk hk; have := bal_print v tv hv; bal_close
      · exact bal_printDict r tr hr x hx
theorem bal_printDictKeys : ∀ (items : List DictItem) (t : Toks), printDictKeys items = some t → Bal t
  | [], t, h => by punfold h; subst h; intro d; rfl
  | .mk none _ :: r, t, h => by punfold h; exact bal_printDictKeys r t h
  | .mk (some e) _ :: r, t, h => by
      punfold h; obtain ⟨a, ha, b, hb, rfl⟩ := h
      have := bal_print e a ha; have := bal_printDictKeys r b hb; bal_close
theorem bal_printDictValues : ∀ (items : List DictItem) (t : Toks), printDictValues items = some t → Bal t
  | [], t, h => by punfold h; subst h; intro d; rfl
  | .mk _ v :: r, t, h => by
      punfold h; obtain ⟨a, ha, b, hb, rfl⟩ := h
      have := bal_print v a ha; have := bal_printDictValues r b hb; bal_close
theorem bal_printCmp : ∀ (ops : List CmpOp) (cs : List Expr) (t : Toks), printCmp ops cs = some t → Bal t
  | _, [], t, h => by punfold h; subst h; intro d; rfl
  | [], _ :: _, t, h => by punfold h; subst h; intro d; rfl
  | op :: ops, c :: cs, t, h => by
      punfold h; obtain ⟨s, _, tc, hc, tr, hr, rfl⟩ := h
      have := bal_wrapOperand c (bal_print c tc hc); have := bal_printCmp ops cs tr hr; bal_close
theorem bal_printKeywords : ∀ (ks : List Keyword) (ts : List Toks), printKeywords ks = some ts → ∀ t ∈ ts, Bal t
  | [], ts, h => by punfold h; subst h; simp
  | .mk arg v :: ks, ts, h => by
      punfold h; obtain ⟨tv, hv, tr, hr, rfl⟩ := h
      intro x hx
      rcases List.mem_cons.mp hx with rfl | hx
      · have := bal_print v tv hv; cases arg <;> bal_close
      · exact bal_printKeywords ks tr hr x hx
theorem bal_printKeywordsGeneric : ∀ (ks : List Keyword) (t : Toks), printKeywordsGeneric ks = some t → Bal t
  | [], t, h => by punfold h; subst h; intro d; rfl
  | .mk _ v :: ks, t, h => by
      punfold h; obtain ⟨a, ha, b, hb, rfl⟩ := h
      have := bal_print v a ha; have := bal_printKeywordsGeneric ks b hb; bal_close
theorem bal_printComps : ∀ (gs : List Comp) (t : Toks), printComps gs = some t → Bal t
  | [], t, h => by punfold h; subst h; intro d; rfl
  | .mk target iter ifs _ :: gs, t, h => by
      punfold h; obtain ⟨tt, ht, ti, hi, h⟩ := h
      have := bal_print target tt ht; have := bal_print iter ti hi
      split at h
      · punfold h; obtain ⟨tf, hf, tr, hr, rfl⟩ := h
        have hf' := bal_printOps ifs tf hf
        have := bal_printComps gs tr hr
        have := bal_wrapOperand iter (bal_print iter ti hi)
        have : Bal (tf.map fun c => sp :: Tok.leaf ['i', 'f'] :: sp :: c).flatten := by
          apply bal_flatten
          intro x hx; simp only [List.mem_map] at hx; obtain ⟨c, hc, rfl⟩ := hx
          have := hf' c hc; bal_close
        bal_close
      · punfold h; obtain ⟨tf, hf, tr, hr, rfl⟩ := h
        have := bal_flatten (bal_printList ifs tf hf)
        have := bal_printComps gs tr hr
        bal_close
theorem bal_printDefaults : ∀ (as : List Str) (ds : List Expr) (ts : List Toks),
    printDefaults as ds = some ts → ∀ t ∈ ts, Bal t
  | _, [], ts, h => by punfold h; subst h; simp
  | [], _ :: _, ts, h => by punfold h; subst h; simp
  | a :: as, d :: ds, ts, h => by
      punfold h; obtain ⟨td, hd, tr, hr, rfl⟩ := h
      intro x hx
      rcases List.mem_cons.mp hx with rfl | hx
      · have := bal_print d td hd; have := bal_argTok a; bal_close
      · exact bal_printDefaults as ds tr hr x hx
theorem bal_printKwDefaults : ∀ (as : List Str) (ds : List (Option Expr)) (ts : List Toks),
    printKwDefaults as ds = some ts → ∀ t ∈ ts, Bal t
  | _, [], ts, h => by punfold h; subst h; simp
  | [], _ :: _, ts, h => by punfold h; subst h; simp
  | a :: as, none :: ds, ts, h => by
      punfold h; obtain ⟨tr, hr, rfl⟩ := h
      intro x hx
      rcases List.mem_cons.mp hx with rfl | hx
      · exact bal_argTok a
      · exact bal_printKwDefaults as ds tr hr x hx
  | a :: as, some d :: ds, ts, h => by
      punfold h; obtain ⟨td, hd, tr, hr, rfl⟩ := h
      intro x hx
      rcases List.mem_cons.mp hx with rfl | hx
      · have := bal_print d td hd; have := bal_argTok a; bal_close
      · exact bal_printKwDefaults as ds tr hr x hx
theorem bal_printSig : ∀ (a : Args) (ts : List Toks), printSig a = some ts → ∀ t ∈ ts, Bal t
  | .mk posonly args vararg kwonly kwDefaults kwarg defaults, ts, h => by
      punfold h; obtain ⟨td, hd, tk, hk, rfl⟩ := h
      have hd' := bal_printDefaults _ defaults td hd
      have hk' := bal_printKwDefaults kwonly kwDefaults tk hk
      have hitems : ∀ t ∈ (List.take ((posonly ++ args).length - defaults.length) (posonly ++ args)).map argTok ++ td,
          Bal t := by
        intro x hx
        rcases List.mem_append.mp hx with hx | hx
        · simp only [List.mem_map] at hx; obtain ⟨a, _, rfl⟩ := hx; exact bal_argTok a
        · exact hd' x hx
      intro x hx
      simp only [List.mem_append] at hx
      rcases hx with ((hx | hx) | hx) | hx
      · split at hx
        · exact hitems x hx
        · exact bal_insertAt (x := [Tok.leaf ['/']]) (fun _ => rfl) hitems x hx
      · cases vararg with
        | none =>
          simp only [] at hx
          split at hx
          · simp at hx
          · simp only [List.mem_singleton] at hx; subst hx; intro d; rfl
        | some v => simp at hx; subst hx; intro d; rfl
      · exact hk' x hx
      · cases kwarg <;> simp at hx; subst hx; intro d; rfl
theorem bal_printArgsGeneric : ∀ (a : Args) (t : Toks), printArgsGeneric a = some t → Bal t
  | .mk posonly args vararg kwonly kwDefaults kwarg defaults, t, h => by
      punfold h; obtain ⟨tk, hk, td, hd, rfl⟩ := h
      have := bal_printOptList kwDefaults tk hk
      have := bal_flatten (bal_printList defaults td hd)
      have := bal_map_flatten (l := posonly) bal_argTok
      have := bal_map_flatten (l := args) bal_argTok
      have := bal_map_flatten (l := kwonly) bal_argTok
      have := bal_optArgTok vararg; have := bal_optArgTok kwarg
      bal_close
end

end MakoModel.PyExpr
