import MakoModel.PyExpr.Print
/-!
# What the printer is measured against

* `Spec.parts e` - the leaves of the expression (identifiers, constants, attribute names, keyword names,
  parameter names, operator symbols *as Python spells them*, the keywords of the construct) in source order.
  It is written against the AST alone, independently of the printer and of mako's symbol tables.
* `collect` - the leaves of a token stream.
* `bal`/`isWrapped` - bracket balance of a token stream; "is one parenthesised group".
* `Expr.all p` - `p` holds at every node of the expression (children of every field included).
* the local guards `totalLocal`, `visitorsLocal`, `completeLocal` used by the `_partial` theorems.
-/
namespace MakoModel.PyExpr

namespace Spec

/-- Python's spelling of the operators (the language reference, not mako's tables) -/
def boolSym : BoolOp → Str
  | .and_ => ['a', 'n', 'd'] | .or_ => ['o', 'r']
def binSym : BinOp → Str
  | .add => ['+'] | .sub => ['-'] | .mult => ['*'] | .matMult => ['@']
  | .div => ['/'] | .mod => ['%'] | .pow => ['*', '*'] | .lShift => ['<', '<']
  | .rShift => ['>', '>'] | .bitOr => ['|'] | .bitXor => ['^'] | .bitAnd => ['&']
  | .floorDiv => ['/', '/']
def unarySym : UnaryOp → Str
  | .invert => ['~'] | .not_ => ['n', 'o', 't'] | .uAdd => ['+'] | .uSub => ['-']
def cmpSym : CmpOp → Str
  | .eq => ['=', '='] | .notEq => ['!', '='] | .lt => ['<'] | .ltE => ['<', '=']
  | .gt => ['>'] | .gtE => ['>', '='] | .is_ => ['i', 's'] | .isNot => ['i', 's', ' ', 'n', 'o', 't']
  | .in_ => ['i', 'n'] | .notIn => ['n', 'o', 't', ' ', 'i', 'n']

def optName (pre : List Str) : Option Str → List Str
  | none => []
  | some n => pre ++ [n]

mutual
/-- the leaves of `e`, in source order -/
def parts : Expr → List Str
  | .name id _ => [id]
  | .const _ r => [r]
  | .attribute v a => parts v ++ [a]
  | .subscript v s => parts v ++ parts s
  | .slice lo hi st => partsOpt lo ++ partsOpt hi ++ partsOpt st
  | .call f args kws => parts f ++ partsList args ++ partsKeywords kws
  | .unaryOp op e => [unarySym op] ++ parts e
  | .binOp l op r => parts l ++ [binSym op] ++ parts r
  | .boolOp op vs => partsSep (boolSym op) vs
  | .compare l ops cs => parts l ++ partsCmp ops cs
  | .ifExp t b o => parts b ++ [['i', 'f']] ++ parts t ++ [['e', 'l', 's', 'e']] ++ parts o
  | .lambda a b => [['l', 'a', 'm', 'b', 'd', 'a']] ++ partsArgs a ++ parts b
  | .tuple es => partsList es
  | .list es => partsList es
  | .set es => partsList es
  | .dict items => partsDict items
  | .listComp e gs => parts e ++ partsComps gs
  | .setComp e gs => parts e ++ partsComps gs
  | .generatorExp e gs => parts e ++ partsComps gs
  | .dictComp k v gs => parts k ++ parts v ++ partsComps gs
  | .joinedStr src _ => [src]
  | .formattedValue v _ spec => parts v ++ partsOpt spec
  | .starred v => [['*']] ++ parts v
  | .namedExpr t v => parts t ++ [[':', '=']] ++ parts v
  | .await v => [['a', 'w', 'a', 'i', 't']] ++ parts v
  | .yield v => [['y', 'i', 'e', 'l', 'd']] ++ partsOpt v
  | .yieldFrom v => [['y', 'i', 'e', 'l', 'd', ' ', 'f', 'r', 'o', 'm']] ++ parts v
def partsOpt : Option Expr → List Str
  | none => []
  | some e => parts e
def partsList : List Expr → List Str
  | [] => []
  | e :: es => parts e ++ partsList es
/-- operands separated by the operator -/
def partsSep (s : Str) : List Expr → List Str
  | [] => []
  | e :: es => parts e ++ (match es with | [] => [] | _ :: _ => [s]) ++ partsSep s es
def partsCmp : List CmpOp → List Expr → List Str
  | _, [] => []
  | [], _ :: _ => []
  | op :: ops, c :: cs => [cmpSym op] ++ parts c ++ partsCmp ops cs
def partsKeywords : List Keyword → List Str
  | [] => []
  | .mk arg v :: ks => (match arg with | none => [['*', '*']] | some a => [a]) ++ parts v ++ partsKeywords ks
def partsDict : List DictItem → List Str
  | [] => []
  | .mk k v :: r => (match k with | none => [['*', '*']] | some e => parts e) ++ parts v ++ partsDict r
def partsComps : List Comp → List Str
  | [] => []
  | .mk target iter ifs isAsync :: gs =>
      (if isAsync then [['a', 's', 'y', 'n', 'c']] else []) ++ [['f', 'o', 'r']] ++ parts target ++ [['i', 'n']] ++ parts iter
        ++ partsIfs ifs ++ partsComps gs
def partsIfs : List Expr → List Str
  | [] => []
  | c :: cs => [['i', 'f']] ++ parts c ++ partsIfs cs
/-- parameters with a default, one item each: name, then the default -/
def partsDefaults : List Str → List Expr → List (List Str)
  | _, [] => []
  | [], _ :: _ => []
  | a :: as, d :: ds => ([a] ++ parts d) :: partsDefaults as ds
def partsKwDefaults : List Str → List (Option Expr) → List Str
  | _, [] => []
  | [], _ :: _ => []
  | a :: as, d :: ds => [a] ++ (match d with | none => [] | some e => parts e) ++ partsKwDefaults as ds
/-- `posonly…, /, args… (the last positional ones with defaults), *vararg | *, kwonly… (with defaults), **kwarg` -/
def partsArgs : Args → List Str
  | .mk posonly args vararg kwonly kwDefaults kwarg defaults =>
      let all := posonly ++ args
      let pad := all.length - defaults.length
      -- one item per positional parameter; "/" is an item of its own right after the positional-only ones
      let items := (all.take pad).map (fun a => [a]) ++ partsDefaults (all.drop pad) defaults
      (if posonly.isEmpty then items else insertAt posonly.length [['/']] items).flatten
        ++ (match vararg with
            | none => if kwonly.isEmpty then [] else [['*']]
            | some v => [['*'], v])
        ++ partsKwDefaults kwonly kwDefaults
        ++ optName [['*', '*']] kwarg
end

end Spec

/-- the leaves of a token stream -/
def collect : Toks → List Str
  | [] => []
  | .leaf s :: r => s :: collect r
  | _ :: r => collect r

/-- bracket depth after reading the tokens starting at depth `d`; `none` when a closer has no opener -/
def bal : Nat → Toks → Option Nat
  | d, [] => some d
  | d, .opn _ :: r => bal (d + 1) r
  | 0, .cls _ :: _ => none
  | d + 1, .cls _ :: r => bal d r
  | d, .leaf _ :: r => bal d r
  | d, .sep _ :: r => bal d r

/-- the stream is `(` body `)` with a balanced body: one parenthesised group -/
def isWrapped : Toks → Bool
  | .opn ['('] :: r =>
    match r.getLast? with
    | some (.cls [')']) => bal 0 r.dropLast == some 0
    | _ => false
  | _ => false

mutual
/-- `p` holds at every node -/
def Expr.all (p : Expr → Bool) : Expr → Bool
  | .name id c => p (.name id c)
  | .const k r => p (.const k r)
  | .attribute v a => p (.attribute v a) && v.all p
  | .subscript v s => p (.subscript v s) && v.all p && s.all p
  | .slice lo hi st => p (.slice lo hi st) && allOpt p lo && allOpt p hi && allOpt p st
  | .call f args kws => p (.call f args kws) && f.all p && allList p args && allKeywords p kws
  | .unaryOp op e => p (.unaryOp op e) && e.all p
  | .binOp l op r => p (.binOp l op r) && l.all p && r.all p
  | .boolOp op vs => p (.boolOp op vs) && allList p vs
  | .compare l ops cs => p (.compare l ops cs) && l.all p && allList p cs
  | .ifExp t b o => p (.ifExp t b o) && t.all p && b.all p && o.all p
  | .lambda a b => p (.lambda a b) && allArgs p a && b.all p
  | .tuple es => p (.tuple es) && allList p es
  | .list es => p (.list es) && allList p es
  | .set es => p (.set es) && allList p es
  | .dict items => p (.dict items) && allDict p items
  | .listComp e gs => p (.listComp e gs) && e.all p && allComps p gs
  | .setComp e gs => p (.setComp e gs) && e.all p && allComps p gs
  | .generatorExp e gs => p (.generatorExp e gs) && e.all p && allComps p gs
  | .dictComp k v gs => p (.dictComp k v gs) && k.all p && v.all p && allComps p gs
  | .joinedStr src vs => p (.joinedStr src vs) && allList p vs
  | .formattedValue v c spec => p (.formattedValue v c spec) && v.all p && allOpt p spec
  | .starred v => p (.starred v) && v.all p
  | .namedExpr t v => p (.namedExpr t v) && t.all p && v.all p
  | .await v => p (.await v) && v.all p
  | .yield v => p (.yield v) && allOpt p v
  | .yieldFrom v => p (.yieldFrom v) && v.all p
def allOpt (p : Expr → Bool) : Option Expr → Bool
  | none => true
  | some e => e.all p
def allList (p : Expr → Bool) : List Expr → Bool
  | [] => true
  | e :: es => e.all p && allList p es
def allOptList (p : Expr → Bool) : List (Option Expr) → Bool
  | [] => true
  | none :: es => allOptList p es
  | some e :: es => e.all p && allOptList p es
def allKeywords (p : Expr → Bool) : List Keyword → Bool
  | [] => true
  | .mk _ v :: ks => v.all p && allKeywords p ks
def allDict (p : Expr → Bool) : List DictItem → Bool
  | [] => true
  | .mk k v :: r => (match k with | none => true | some e => e.all p) && v.all p && allDict p r
def allComps (p : Expr → Bool) : List Comp → Bool
  | [] => true
  | .mk t i ifs _ :: gs => t.all p && i.all p && allList p ifs && allComps p gs
def allArgs (p : Expr → Bool) : Args → Bool
  | .mk _ _ _ _ kwDefaults _ defaults => allOptList p kwDefaults && allList p defaults
end

def Comp.sync : Comp → Bool
  | .mk _ _ _ a => !a

/-- nothing at this node makes the printer raise: no bare `yield` (`visit_Yield` visits `None`).  That every
operator has a table entry is the side condition `SymbolsTotal`. -/
def totalLocal : Expr → Bool
  | .yield v => v.isSome
  | _ => true

/-- the node's class (and the helper classes it prints through) has a `visit_*` -/
def visitorsLocal : Expr → Bool
  | .lambda .. => hasVisitor .lambda && hasVisitor .arg
  | .listComp .. => hasVisitor .listComp && hasVisitor .comprehension
  | .setComp .. => hasVisitor .setComp && hasVisitor .comprehension
  | .generatorExp .. => hasVisitor .generatorExp && hasVisitor .comprehension
  | .dictComp .. => hasVisitor .dictComp && hasVisitor .comprehension
  | e => hasVisitor e.kind

/-- the constructs whose parts `SourceGenerator` is known to drop are absent at this node: `async` comprehension
clauses, a slice step that is the *name* `None` -/
def completeLocal : Expr → Bool
  | .listComp _ gs => gs.all Comp.sync
  | .setComp _ gs => gs.all Comp.sync
  | .generatorExp _ gs => gs.all Comp.sync
  | .dictComp _ _ gs => gs.all Comp.sync
  | .slice _ _ (some s) => !isNameNone s
  | _ => true

/-- the text `repr` produced for a numeric constant is a numeric literal (it is not for `inf`/`nan`, which `repr`
spells as names); `repr` itself is outside the model, this guard only serves the harness' cross-check of the
guards against CPython -/
def literalLocal : Expr → Bool
  | .const .float r | .const .complex r | .const .int r =>
    match r with
    | c :: _ => c.isDigit
    | [] => false
  | _ => true

/-- guard of `print_total_partial` -/
def totalGuard (e : Expr) : Bool := e.all totalLocal
def completeLocalAll (n : Expr) : Bool := totalLocal n && visitorsLocal n && completeLocal n
/-- guard of `print_complete_partial` -/
def completeGuard (e : Expr) : Bool := e.all completeLocalAll

/-- every operator class has an entry in mako's tables -/
structure SymbolsTotal : Prop where
  bool : ∀ o : BoolOp, ∃ s, o.sym = some s
  bin : ∀ o : BinOp, ∃ s, o.sym = some s
  unary : ∀ o : UnaryOp, ∃ s, o.sym = some s
  cmp : ∀ o : CmpOp, ∃ s, o.sym = some s

/-- wherever mako's operator tables have an entry it is Python's spelling of the operator -/
structure SymbolsAgree : Prop where
  bool : ∀ o : BoolOp, o.sym = none ∨ o.sym = some (Spec.boolSym o)
  bin : ∀ o : BinOp, o.sym = none ∨ o.sym = some (Spec.binSym o)
  unary : ∀ o : UnaryOp, o.sym = none ∨ o.sym = some (Spec.unarySym o)
  cmp : ∀ o : CmpOp, o.sym = none ∨ o.sym = some (Spec.cmpSym o)

end MakoModel.PyExpr
