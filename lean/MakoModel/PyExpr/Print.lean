import MakoModel.PyExpr.Ast
/-!
# `print` : the model of `_ast_util.SourceGenerator` on expressions

`SourceGenerator.visit(node)` looks up `visit_<class name>`; when the class has no such method the node goes
through `NodeVisitor.generic_visit`, which visits the child nodes in `_fields` order and writes nothing itself.
Both paths are modelled for every expression kind, and which one is taken is decided by the *regenerated*
inventory (`hasVisitor`).  A missing entry of an operator table is the `KeyError` of the real code, `visit(None)` (a bare
`yield`) its `AttributeError`: both are `none` here.

The output is the sequence of strings handed to `SourceGenerator.write`, cut into tokens:
`leaf` = identifiers, constants, operator symbols and keywords, `opn`/`cls` = brackets, `sep` = blanks, commas,
colons, dots, `=`.  `render` concatenates them: that is `ExpressionGenerator(node).value()`.

For the kinds that have no visitor today (`NamedExpr`, `Await`, `YieldFrom`, `JoinedStr`, `FormattedValue`)
the visitor branch is the obvious one a repair would add; it is unreachable until the inventory changes.
-/
namespace MakoModel.PyExpr

inductive Tok
  | leaf (s : Str)
  | sep (s : Str)
  | opn (s : Str)
  | cls (s : Str)
  deriving DecidableEq, Repr

abbrev Toks := List Tok

def Tok.text : Tok → Str
  | .leaf s => s | .sep s => s | .opn s => s | .cls s => s

/-- `"".join(self.generator.result)` -/
def render (t : Toks) : Str := (t.map Tok.text).flatten

def sp : Tok := .sep [' ']
def comma : Toks := [.sep [',', ' ']]
def lpar : Tok := .opn ['(']
def rpar : Tok := .cls [')']

/-- items separated by `s` -/
def joinWith (s : Toks) : List Toks → Toks
  | [] => []
  | [x] => x
  | x :: y :: r => x ++ s ++ joinWith s (y :: r)

/-- `isinstance(node.step, Name) and node.step.id == "None"` -/
def isNameNone : Expr → Bool
  | .name id _ => id == ['N', 'o', 'n', 'e']
  | _ => false

/-- `visit_arg` (or `generic_visit` of an `arg`, which has no expression children here) -/
def argTok (a : Str) : Toks := if hasVisitor .arg then [.leaf a] else []

/-- `isinstance(node, (IfExp, Lambda))` -/
def isWeak : Expr → Bool
  | .ifExp .. | .lambda .. => true
  | _ => false

/-- `SourceGenerator.visit_operand(node)`: what `visit(node)` wrote, parenthesised when the node is a conditional
expression or a lambda -/
def wrapOperand (e : Expr) (t : Toks) : Toks := if isWeak e then [lpar] ++ t ++ [rpar] else t

/-- `l` with `x` inserted before position `k` -/
def insertAt {α} (k : Nat) (x : α) (l : List α) : List α := l.take k ++ x :: l.drop k

def optArgTok : Option Str → Toks
  | none => []
  | some a => argTok a

mutual
/-- `SourceGenerator.visit(e)` followed by reading `result` -/
def print : Expr → Option Toks
  | .name id _ => some (if hasVisitor .name then [.leaf id] else [])
  | .const _ r => some (if hasVisitor .constant then [.leaf r] else [])
  | .attribute v a => do
      let tv ← print v
      pure (if hasVisitor .attribute then wrapOperand v tv ++ [.sep ['.'], .leaf a] else tv)
  | .subscript v s => do
      let tv ← print v
      let ts ← print s
      pure (if hasVisitor .subscript then wrapOperand v tv ++ [.opn ['[']] ++ ts ++ [.cls [']']] else tv ++ ts)
  | .slice lo hi st => do
      let tl ← printOpt lo
      let th ← printOpt hi
      if hasVisitor .slice then
        match st with
        | none => pure (tl ++ [.sep [':']] ++ th)
        | some s =>
          if isNameNone s then pure (tl ++ [.sep [':']] ++ th ++ [.sep [':']])
          else do
            let ts ← print s
            pure (tl ++ [.sep [':']] ++ th ++ [.sep [':']] ++ ts)
      else do
        let ts ← printOpt st
        pure (tl ++ th ++ ts)
  | .call f args kws => do
      let tf ← print f
      let ta ← printList args
      if hasVisitor .call then do
        let tk ← printKeywords kws
        pure (wrapOperand f tf ++ [lpar] ++ joinWith comma (ta ++ tk) ++ [rpar])
      else do
        let tk ← printKeywordsGeneric kws
        pure (tf ++ ta.flatten ++ tk)
  | .unaryOp op e =>
      if hasVisitor .unaryOp then do
        let s ← op.sym
        let te ← print e
        pure ([lpar, .leaf s] ++ (if s = ['n', 'o', 't'] then [sp] else []) ++ wrapOperand e te ++ [rpar])
      else print e
  | .binOp l op r =>
      if hasVisitor .binOp then do
        let tl ← print l
        let s ← op.sym
        let tr ← print r
        pure ([lpar] ++ wrapOperand l tl ++ [sp, .leaf s, sp] ++ wrapOperand r tr ++ [rpar])
      else do
        let tl ← print l
        let tr ← print r
        pure (tl ++ tr)
  | .boolOp op vs =>
      if hasVisitor .boolOp then do
        let tv ← printOps vs
        if tv.length ≤ 1 then pure ([lpar] ++ tv.flatten ++ [rpar])
        else do
          let s ← op.sym
          pure ([lpar] ++ joinWith [sp, .leaf s, sp] tv ++ [rpar])
      else do
        let tv ← printList vs
        pure tv.flatten
  | .compare l ops cs =>
      if hasVisitor .compare then do
        let tl ← print l
        let tc ← printCmp ops cs
        pure ([lpar] ++ wrapOperand l tl ++ tc ++ [rpar])
      else do
        let tl ← print l
        let tc ← printList cs
        pure (tl ++ tc.flatten)
  | .ifExp t b o =>
      if hasVisitor .ifExp then do
        let tb ← print b
        let tt ← print t
        let to ← print o
        pure (wrapOperand b tb ++ [sp, .leaf ['i', 'f'], sp] ++ wrapOperand t tt
              ++ [sp, .leaf ['e', 'l', 's', 'e'], sp] ++ to)
      else do
        let tt ← print t
        let tb ← print b
        let to ← print o
        pure (tt ++ tb ++ to)
  | .lambda a b =>
      if hasVisitor .lambda then do
        let ts ← printSig a
        let tb ← print b
        pure ([.leaf ['l', 'a', 'm', 'b', 'd', 'a'], sp] ++ joinWith comma ts ++ [.sep [':', ' ']] ++ tb)
      else do
        let ts ← printArgsGeneric a
        let tb ← print b
        pure (ts ++ tb)
  | .tuple es =>
      if hasVisitor .tuple then do
        let te ← printList es
        pure ([lpar] ++ joinWith comma te ++ (if es.length = 1 then [.sep [',']] else []) ++ [rpar])
      else do
        let te ← printList es
        pure te.flatten
  | .list es =>
      if hasVisitor .list then do
        let te ← printList es
        pure ([.opn ['[']] ++ joinWith comma te ++ [.cls [']']])
      else do
        let te ← printList es
        pure te.flatten
  | .set es =>
      if hasVisitor .set then do
        let te ← printList es
        pure ([.opn ['{']] ++ joinWith comma te ++ [.cls ['}']])
      else do
        let te ← printList es
        pure te.flatten
  | .dict items =>
      if hasVisitor .dict then do
        let ti ← printDict items
        pure ([.opn ['{']] ++ joinWith comma ti ++ [.cls ['}']])
      else do
        let tk ← printDictKeys items
        let tv ← printDictValues items
        pure (tk ++ tv)
  | .listComp e gs => do
      let te ← print e
      let tg ← printComps gs
      pure (if hasVisitor .listComp then [.opn ['[']] ++ te ++ tg ++ [.cls [']']] else te ++ tg)
  | .setComp e gs => do
      let te ← print e
      let tg ← printComps gs
      pure (if hasVisitor .setComp then [.opn ['{']] ++ te ++ tg ++ [.cls ['}']] else te ++ tg)
  | .generatorExp e gs => do
      let te ← print e
      let tg ← printComps gs
      pure (if hasVisitor .generatorExp then [lpar] ++ te ++ tg ++ [rpar] else te ++ tg)
  | .dictComp k v gs => do
      let tk ← print k
      let tv ← print v
      let tg ← printComps gs
      pure (if hasVisitor .dictComp then [.opn ['{']] ++ tk ++ [.sep [':', ' ']] ++ tv ++ tg ++ [.cls ['}']]
            else tk ++ tv ++ tg)
  | .joinedStr src vs =>
      if hasVisitor .joinedStr then some [.leaf src]
      else do
        let tv ← printList vs
        pure tv.flatten
  | .formattedValue v _ spec => do
      let tv ← print v
      let ts ← printOpt spec
      pure (if hasVisitor .formattedValue then [.opn ['{']] ++ tv ++ ts ++ [.cls ['}']] else tv ++ ts)
  | .starred v => do
      let tv ← print v
      pure (if hasVisitor .starred then [.leaf ['*']] ++ wrapOperand v tv else tv)
  | .namedExpr t v => do
      let tt ← print t
      let tv ← print v
      pure (if hasVisitor .namedExpr then [lpar] ++ tt ++ [sp, .leaf [':', '='], sp] ++ tv ++ [rpar] else tt ++ tv)
  | .await v => do
      let tv ← print v
      pure (if hasVisitor .await then [lpar, .leaf ['a', 'w', 'a', 'i', 't'], sp] ++ tv ++ [rpar] else tv)
  | .yield v =>
      if hasVisitor .yield then
        match v with
        | none => none
        | some e => do
            let te ← print e
            pure ([.leaf ['y', 'i', 'e', 'l', 'd'], sp] ++ te)
      else printOpt v
  | .yieldFrom v => do
      let tv ← print v
      pure (if hasVisitor .yieldFrom then [.leaf ['y', 'i', 'e', 'l', 'd', ' ', 'f', 'r', 'o', 'm'], sp] ++ tv else tv)

/-- an optional child: `if x is not None: self.visit(x)` (also what `generic_visit` does with `None`) -/
def printOpt : Option Expr → Option Toks
  | none => some []
  | some e => print e

/-- the children of a list field, one item each -/
def printList : List Expr → Option (List Toks)
  | [] => some []
  | e :: es => do
      let t ← print e
      let ts ← printList es
      pure (t :: ts)

/-- the children of a list field visited with `visit_operand`, one item each -/
def printOps : List Expr → Option (List Toks)
  | [] => some []
  | e :: es => do
      let t ← print e
      let ts ← printOps es
      pure (wrapOperand e t :: ts)

/-- `generic_visit` over a list field that may contain `None` (skipped: not an `AST` instance) -/
def printOptList : List (Option Expr) → Option Toks
  | [] => some []
  | none :: es => printOptList es
  | some e :: es => do
      let t ← print e
      let ts ← printOptList es
      pure (t ++ ts)

/-- `visit_Dict`: `zip(node.keys, node.values)`; `visit(key)`, `": "`, `visit(value)`, or for a `None` key (`**d`)
`"**"`, `visit_operand(value)` -/
def printDict : List DictItem → Option (List Toks)
  | [] => some []
  | .mk none v :: r => do
      let tv ← print v
      let tr ← printDict r
      pure (([.leaf ['*', '*']] ++ wrapOperand v tv) :: tr)
  | .mk (some k) v :: r => do
      let tk ← print k
      let tv ← print v
      let tr ← printDict r
      pure ((tk ++ [.sep [':', ' ']] ++ tv) :: tr)

/-- `generic_visit` of a `Dict`: the `keys` field (a `None` key is skipped: not an `AST` instance) … -/
def printDictKeys : List DictItem → Option Toks
  | [] => some []
  | .mk none _ :: r => printDictKeys r
  | .mk (some e) _ :: r => do
      let t ← print e
      let ts ← printDictKeys r
      pure (t ++ ts)

/-- … then the `values` field -/
def printDictValues : List DictItem → Option Toks
  | [] => some []
  | .mk _ v :: r => do
      let t ← print v
      let ts ← printDictValues r
      pure (t ++ ts)

/-- `visit_Compare`: `zip(node.ops, node.comparators)` -/
def printCmp : List CmpOp → List Expr → Option Toks
  | _, [] => some []
  | [], _ :: _ => some []
  | op :: ops, c :: cs => do
      let s ← op.sym
      let tc ← print c
      let tr ← printCmp ops cs
      pure ([sp, .leaf s, sp] ++ wrapOperand c tc ++ tr)

/-- keywords inside `visit_Call`: `keyword.arg + "="` (or `"**"` when `keyword.arg is None`), `visit(keyword.value)` -/
def printKeywords : List Keyword → Option (List Toks)
  | [] => some []
  | .mk arg v :: ks => do
      let tv ← print v
      let tr ← printKeywords ks
      pure (((match arg with
              | none => [.leaf ['*', '*']]
              | some a => [.leaf a, .sep ['=']]) ++ tv) :: tr)

/-- `generic_visit` of `keyword` nodes (there is no `visit_keyword`): the value only -/
def printKeywordsGeneric : List Keyword → Option Toks
  | [] => some []
  | .mk _ v :: ks => do
      let tv ← print v
      let tr ← printKeywordsGeneric ks
      pure (tv ++ tr)

/-- the `comprehension` children of a comprehension node (`visit_comprehension`, or `generic_visit`) -/
def printComps : List Comp → Option Toks
  | [] => some []
  | .mk target iter ifs _ :: gs => do
      let tt ← print target
      let ti ← print iter
      if hasVisitor .comprehension then do
        let tf ← printOps ifs
        let tr ← printComps gs
        pure ([sp, .leaf ['f', 'o', 'r'], sp] ++ tt ++ [sp, .leaf ['i', 'n'], sp] ++ wrapOperand iter ti
                ++ (tf.map fun c => [sp, .leaf ['i', 'f'], sp] ++ c).flatten ++ tr)
      else do
        let tf ← printList ifs
        let tr ← printComps gs
        pure (tt ++ ti ++ tf.flatten ++ tr)

/-- `zip(args, defaults)` of the trailing arguments in `signature` -/
def printDefaults : List Str → List Expr → Option (List Toks)
  | _, [] => some []
  | [], _ :: _ => some []
  | a :: as, d :: ds => do
      let td ← print d
      let tr ← printDefaults as ds
      pure ((argTok a ++ [.sep ['=']] ++ td) :: tr)

/-- `zip(node.kwonlyargs, node.kw_defaults)` in `signature` -/
def printKwDefaults : List Str → List (Option Expr) → Option (List Toks)
  | _, [] => some []
  | [], _ :: _ => some []
  | a :: as, none :: ds => do
      let tr ← printKwDefaults as ds
      pure (argTok a :: tr)
  | a :: as, some d :: ds => do
      let td ← print d
      let tr ← printKwDefaults as ds
      pure ((argTok a ++ [.sep ['=']] ++ td) :: tr)

/-- `SourceGenerator.signature(node.args)`: the comma-separated items - positional-only and ordinary parameters
(the last ones with their defaults), `/` after the last positional-only one, `*vararg` or a bare `*` before
keyword-only parameters, these with their defaults, `**kwarg`. -/
def printSig : Args → Option (List Toks)
  | .mk posonly args vararg kwonly kwDefaults kwarg defaults => do
      let positional := posonly ++ args
      let pad := positional.length - defaults.length
      let td ← printDefaults (positional.drop pad) defaults
      let tk ← printKwDefaults kwonly kwDefaults
      let items := (positional.take pad).map argTok ++ td
      pure ((if posonly.isEmpty then items else insertAt posonly.length [.leaf ['/']] items)
            ++ (match vararg with
                | none => if kwonly.isEmpty then [] else [[.leaf ['*']]]
                | some v => [[.leaf ['*'], .leaf v]])
            ++ tk
            ++ (match kwarg with | none => [] | some k => [[.leaf ['*', '*'], .leaf k]]))

/-- `generic_visit` of an `arguments` node (when `Lambda` has no visitor): every `arg` in field order,
then the default expressions -/
def printArgsGeneric : Args → Option Toks
  | .mk posonly args vararg kwonly kwDefaults kwarg defaults => do
      let tk ← printOptList kwDefaults
      let td ← printList defaults
      pure ((posonly.map argTok).flatten ++ (args.map argTok).flatten ++ optArgTok vararg
            ++ (kwonly.map argTok).flatten ++ tk ++ optArgTok kwarg ++ td.flatten)
end

/-- `ExpressionGenerator(e).value()`; `none` = an exception escaped -/
def printStr (e : Expr) : Option Str := (print e).map render

end MakoModel.PyExpr
