import MakoModel.PyExpr.Ident
/-!
# Which of its own parameters a `<%def>` knows when its attribute expressions are analysed

`<%def name="f(SIG)" filter="g(x)" cache_key="${k}" …>`: the names read by the default values, the `filter=` call
arguments and the expression attributes are what the def needs *from the enclosing scope* - except the def's own
parameters (`DefTag.undeclared_identifiers()`: `….difference(self.function_decl.<field>)`).  What the fields of a
`FunctionDecl` hold is decided by `pyparser.ParseFunc` (`argnames`, `kwargnames`) and `FunctionDecl.allargnames`.
Every piece of that chain is a regenerated fact (`Generated.PyExpr`); this file only interprets the names.

Only the def's two facts (`defTagSubtracted`, `defTagDeclared`) are interpreted here.  `blockTagDeclared` and
`pageTagDeclared` are regenerated too but have no consumer in the model: `def_tag_knows_all_parameters`
(`Props/C19.lean`) pins them to the same attribute as `defTagDeclared`, which is all that is claimed about them.
-/
namespace MakoModel.PyExpr
open Generated.PyExpr

/-- the parameter names a field of `ast.arguments` holds -/
def Args.field : Args → Str → List Str
  | .mk posonly args vararg kwonly _ kwarg _, f =>
    if f = "posonlyargs".toList then posonly
    else if f = "args".toList then args
    else if f = "vararg".toList then vararg.toList
    else if f = "kwonlyargs".toList then kwonly
    else if f = "kwarg".toList then kwarg.toList
    else []

/-- `FunctionDecl.argnames` / `.kwargnames` as `ParseFunc` fills them -/
def declBase (a : Args) (f : Str) : List Str :=
  if f = "argnames".toList then argnamesSources.flatMap a.field
  else if f = "kwargnames".toList then kwargnamesSources.flatMap a.field
  else []

/-- a name-list attribute of `FunctionDecl` -/
def declField (a : Args) (f : Str) : List Str :=
  if f = "allargnames".toList then allargnamesParts.flatMap (declBase a) else declBase a f

/-- `DefTag.undeclared_identifiers()` given the names `reads` that the def's defaults, `filter=` arguments and
expression attributes read: what the enclosing scope is asked for -/
def defTagDemands (a : Args) (reads : List Str) : List Str :=
  reads.filter fun x => !(declField a defTagSubtracted).contains x

/-- `DefTag.declared_identifiers()` -/
def defTagDeclares (a : Args) : List Str := declField a defTagDeclared

end MakoModel.PyExpr

namespace MakoModel.PyExpr
open Generated.PyExpr

/-- with the regenerated facts as they are today: the def subtracts / declares its positional-only, ordinary,
`*args`, keyword-only and `**kwargs` parameters -/
theorem declField_subtracted (po ar : List Str) (va : Option Str) (ko : List Str) (kd : List (Option Expr))
    (kw : Option Str) (de : List Expr) (x : Str) :
    x ∈ declField (.mk po ar va ko kd kw de) defTagSubtracted
      ↔ x ∈ po ∨ x ∈ ar ∨ x ∈ va.toList ∨ x ∈ ko ∨ x ∈ kw.toList := by
  have h : declField (.mk po ar va ko kd kw de) defTagSubtracted
      = (po ++ (ar ++ (va.toList ++ []))) ++ ((ko ++ (kw.toList ++ [])) ++ []) := rfl
  rw [h]; simp [or_assoc]

theorem declField_declared (po ar : List Str) (va : Option Str) (ko : List Str) (kd : List (Option Expr))
    (kw : Option Str) (de : List Expr) (x : Str) :
    x ∈ declField (.mk po ar va ko kd kw de) defTagDeclared
      ↔ x ∈ po ∨ x ∈ ar ∨ x ∈ va.toList ∨ x ∈ ko ∨ x ∈ kw.toList := by
  have h : declField (.mk po ar va ko kd kw de) defTagDeclared
      = (po ++ (ar ++ (va.toList ++ []))) ++ ((ko ++ (kw.toList ++ [])) ++ []) := rfl
  rw [h]; simp [or_assoc]

end MakoModel.PyExpr
