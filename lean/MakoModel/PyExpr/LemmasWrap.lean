import MakoModel.PyExpr.LemmasBal
import MakoModel.PyExpr.Prec
/-! The visitors listed in `wraps` really emit one parenthesised group (helper lemmas for C19). -/
set_option linter.unusedSimpArgs false
set_option linter.unusedVariables false

namespace MakoModel.PyExpr

theorem isWrapped_of {t body : Toks} (ht : t = lpar :: (body ++ [rpar])) (hb : Bal body) : isWrapped t = true := by
  subst ht
  simp [isWrapped, lpar, rpar, List.dropLast_concat, hb 0]

theorem wrapped_print (e : Expr) (t : Toks) (hw : wraps e.kind = true) (hv : hasVisitor e.kind = true)
    (h : print e = some t) : isWrapped t = true := by
  cases e <;> simp only [wraps, Expr.kind, Bool.false_eq_true] at hw hv
  case unaryOp op e =>
    simp only [print, hv, if_true, ↓reduceIte, bind, Option.bind_eq_some_iff, pure, Option.some.injEq] at h
    obtain ⟨s, _, te, he, rfl⟩ := h
    have := bal_wrapOperand e (bal_print e te he)
    refine isWrapped_of (body := [Tok.leaf s] ++ (if s = ['n', 'o', 't'] then [sp] else []) ++ wrapOperand e te)
      (by simp) ?_
    split <;> bal_close
  case binOp l op r =>
    simp only [print, hv, if_true, ↓reduceIte, bind, Option.bind_eq_some_iff, pure, Option.some.injEq] at h
    obtain ⟨tl, hl, s, _, tr, hr, rfl⟩ := h
    have := bal_wrapOperand l (bal_print l tl hl); have := bal_wrapOperand r (bal_print r tr hr)
    refine isWrapped_of (body := wrapOperand l tl ++ [sp, Tok.leaf s, sp] ++ wrapOperand r tr) (by simp) ?_
    bal_close
  case boolOp op vs =>
    simp only [print, hv, if_true, ↓reduceIte, bind, Option.bind_eq_some_iff, pure, Option.some.injEq] at h
    obtain ⟨tv, htv, h⟩ := h
    have hv' := bal_printOps vs tv htv
    split at h
    · simp only [Option.some.injEq] at h; subst h
      exact isWrapped_of (body := tv.flatten) (by simp) (bal_flatten hv')
    · simp only [Option.bind_eq_some_iff, Option.some.injEq] at h
      obtain ⟨s, _, rfl⟩ := h
      exact isWrapped_of (body := joinWith [sp, Tok.leaf s, sp] tv) (by simp)
        (bal_joinWith (s := [sp, .leaf s, sp]) (fun _ => rfl) hv')
  case compare l ops cs =>
    simp only [print, hv, if_true, ↓reduceIte, bind, Option.bind_eq_some_iff, pure, Option.some.injEq] at h
    obtain ⟨tl, hl, tc, hc, rfl⟩ := h
    have := bal_wrapOperand l (bal_print l tl hl); have := bal_printCmp ops cs tc hc
    refine isWrapped_of (body := wrapOperand l tl ++ tc) (by simp) ?_
    bal_close
  case tuple es =>
    simp only [print, hv, if_true, ↓reduceIte, bind, Option.bind_eq_some_iff, pure, Option.some.injEq] at h
    obtain ⟨te, he, rfl⟩ := h
    have := bal_joinWith bal_comma (bal_printList es te he)
    refine isWrapped_of (body := joinWith comma te ++ (if es.length = 1 then [Tok.sep [',']] else [])) (by simp) ?_
    split <;> bal_close
  case generatorExp e gs =>
    simp only [print, hv, if_true, ↓reduceIte, bind, Option.bind_eq_some_iff, pure, Option.some.injEq] at h
    obtain ⟨te, he, tg, hg, rfl⟩ := h
    have := bal_print e te he; have := bal_printComps gs tg hg
    refine isWrapped_of (body := te ++ tg) (by simp) ?_
    bal_close
  case namedExpr a v =>
    simp only [print, hv, if_true, ↓reduceIte, bind, Option.bind_eq_some_iff, pure, Option.some.injEq] at h
    obtain ⟨ta, ha, tv, htv, rfl⟩ := h
    have := bal_print a ta ha; have := bal_print v tv htv
    refine isWrapped_of (body := ta ++ [sp, Tok.leaf [':', '='], sp] ++ tv) (by simp) ?_
    bal_close
  case await v =>
    simp only [print, hv, if_true, ↓reduceIte, bind, Option.bind_eq_some_iff, pure, Option.some.injEq] at h
    obtain ⟨tv, htv, rfl⟩ := h
    have := bal_print v tv htv
    refine isWrapped_of (body := [Tok.leaf ['a', 'w', 'a', 'i', 't'], sp] ++ tv) (by simp) ?_
    bal_close

/-- a child that is fine in its slot (`slotOK`) and needs parentheses there stands in the slot as one parenthesised
group -/
theorem wrapped_inSlot (p : Pos) (c : Expr) (t : Toks) (hok : slotOK p c = true)
    (hn : needsParens p c.ck = true) (hp : print c = some t) : isWrapped (inSlot p c t) = true := by
  simp only [slotOK, hn, Bool.not_true, Bool.false_or, Bool.or_eq_true, Bool.and_eq_true] at hok
  rcases hok with ⟨hw, hv⟩ | ⟨hs, hk⟩
  · have : isWeak c = false := by cases c <;> simp_all [wraps, Expr.kind, isWeak]
    simp only [inSlot, wrapOperand, this, Bool.false_eq_true, if_false, ite_self]
    exact wrapped_print c t hw hv hp
  · simp only [inSlot, hs, if_true, wrapOperand, hk]
    exact isWrapped_of (body := t) (by simp) (bal_print c t hp)

end MakoModel.PyExpr
