import MakoModel.PyExpr.Ws
/-! Helper lemmas for the re-margining theorems of C19.
* lexer side (`adjust_ws_spec_partial`): simulation `lex_sim` between `adjust_whitespace`'s `in_multi_line` scanner and
  the lexical specification `Spec.lexLine` on hazard-free lines, relation `Rel`, `flags_agree`, `adjust_agree`, and
  what `Spec.remargin` guarantees (`remargin_length/_inside/_outside/_first`);
* printer side (`flush_adjusted_spec_partial`): `count_parity` (the parity of the triple quotes `_in_multi_line`
  counts = "the triple-quote state flips", on lines free of `Spec.scanHazardP`), relation `PRel`, `flush_agree`, and
  what `Spec.reindent` guarantees (`reindent_length/_inside/_outside`, `pIndentLine_replace`);
* composition (`remargin_roundtrip`): removing a margin of blanks leaves `lexLine`, `lineHazard`, `scanTriple`,
  `scanHazardP` and `endsWithBackslash` alone (`*_blanks`), hence `remargin_preserves`; `reindent_remargin`;
  `roundtrip_agree`, `roundtrip_inside/_outside`. -/
set_option linter.unusedSimpArgs false
set_option linter.unusedVariables false
namespace MakoModel.PyExpr.Ws
open Spec

def tripleOf : Mode → Option Q
  | .str3 q => some q
  | _ => none

@[simp] theorem ewb_nil : endsWithBackslash [] = false := rfl
@[simp] theorem ewb_one (a : Char) : endsWithBackslash [a] = (a == '\\') := by
  simp [endsWithBackslash]
@[simp] theorem ewb_cons_cons (a b : Char) (r : Line) : endsWithBackslash (a :: b :: r) = endsWithBackslash (b :: r) := by
  simp [endsWithBackslash, List.getLast?_cons_cons]

theorem backslash_ne_qchar (q : Q) : ¬ '\\' = q.char := by cases q <;> decide

theorem scan_none_skip (c : Char) (r : Line) (h : triggers (c :: r) = false) :
    scanTriple none (c :: r) = scanTriple none r := by
  unfold triggers at h
  split at h <;> simp_all [scanTriple]

theorem scan_some_skip (q : Q) (c : Char) (r : Line) (h : c ≠ q.char) :
    scanTriple (some q) (c :: r) = scanTriple (some q) r := by
  cases q <;> simp_all [scanTriple, Q.char]

macro "rec_case" ih:ident r:ident h:ident : tactic => `(tactic| (
  obtain ⟨ih1, ih2, ih3⟩ := $ih (by simp_all [lineHazard, triggers, Q.char])
  refine ⟨?_, ?_, ?_⟩
  · first
    | (simp_all [scanTriple, tripleOf, triggers, lineHazard, Q.char]; done)
    | (simp only [lineHazard, Bool.or_eq_false_iff, beq_eq_false_iff_ne, ne_eq] at $h:ident
       first
       | (rw [show ∀ x y, scanTriple (tripleOf (Mode.str1 x)) y = scanTriple none y from fun _ _ => rfl] at *
          rw [scan_none_skip _ _ (by first | exact backslash_ne_qchar _ | (simp [triggers]; done) | (simp_all; done)), scan_none_skip _ _ (by first | exact backslash_ne_qchar _ | (simp [triggers]; done) | (simp_all; done))]; simp_all [tripleOf]; done)
       | (simp only [tripleOf] at *; rw [scan_none_skip _ _ (by first | exact backslash_ne_qchar _ | (simp [triggers]; done) | (simp_all; done))]; simp_all [tripleOf]; done)
       | (simp only [tripleOf] at *; rw [scan_some_skip _ _ _ (by first | exact backslash_ne_qchar _ | (simp [triggers]; done) | (simp_all; done)), scan_some_skip _ _ _ (by first | exact backslash_ne_qchar _ | (simp [triggers]; done) | (simp_all; done))]; simp_all [tripleOf]; done)
       | (simp only [tripleOf] at *; rw [scan_some_skip _ _ _ (by first | exact backslash_ne_qchar _ | (simp [triggers]; done) | (simp_all; done))]; simp_all [tripleOf]; done))
  · intro hc; cases $r:ident <;> simp_all [lexLine, lineHazard]
  · intro hc; cases $r:ident <;> simp_all [lexLine, lineHazard]))

theorem lex_sim (m : Mode) (l : Line) (h : lineHazard m l = false) :
    scanTriple (tripleOf m) l = tripleOf (lexLine m l)
    ∧ (lexLine m l = .code → endsWithBackslash l = false)
    ∧ ((lexLine m l = .cont ∨ ∃ q, lexLine m l = .str1 q) → endsWithBackslash l = true) := by
  fun_induction lexLine m l
  case case1 => simp [scanTriple, tripleOf]
  case case2 => simp [scanTriple, tripleOf]
  case case3 => simp [scanTriple, tripleOf]
  case case4 => simp [scanTriple, tripleOf]
  case case5 => simp_all [scanTriple, tripleOf, lineHazard]
  case case6 => simp_all [scanTriple, tripleOf, lineHazard]
  case case7 r ih => rec_case ih r h
  case case8 r ih => rec_case ih r h
  case case9 r ih => rec_case ih r h
  case case10 r ih => rec_case ih r h
  case case11 r _ ih => rec_case ih r h
  case case12 r _ ih => rec_case ih r h
  case case13 r _ ih => rec_case ih r h
  case case14 r _ ih => rec_case ih r h
  case case15 c r _ _ _ _ _ _ ih => rec_case ih r h
  case case16 c r _ _ _ _ _ _ ih => rec_case ih r h
  case case17 => simp [lineHazard] at h
  case case18 => simp [scanTriple, tripleOf]
  case case19 q c r ih => rec_case ih r h
  case case20 c r _ _ ih => rec_case ih r h
  case case21 q c r _ _ _ ih => rec_case ih r h
  case case22 => simp [scanTriple, tripleOf]
  case case23 q => cases q <;> simp [scanTriple, tripleOf]
  case case24 q c r ih => rec_case ih r h
  case case25 r ih => rec_case ih r h
  case case26 r ih => rec_case ih r h
  case case27 q c r _ _ _ _ ih => rec_case ih r h

/-- how the specification's mode at a line start and the implementation's state correspond -/
def Rel (m : Mode) (st : MLState) : Prop :=
  st.triple = tripleOf m ∧ (m = .code → st.backslashed = false)
    ∧ ((m = .cont ∨ ∃ q, m = .str1 q) → st.backslashed = true)

theorem rel_init : Rel .code .init := ⟨rfl, fun _ => rfl, by simp⟩

theorem rel_flag {m : Mode} {st : MLState} (h : Rel m st) (l : Line) : (stepLine st l).1 = m.inside := by
  obtain ⟨h1, h2, h3⟩ := h
  cases m <;> simp_all [stepLine, Mode.inside, tripleOf]

theorem rel_step {m : Mode} {st : MLState} (h : Rel m st) (l : Line) (hz : lineHazard m l = false) :
    Rel (lexLine m l) (stepLine st l).2 := by
  obtain ⟨h1, _, _⟩ := h
  obtain ⟨s1, s2, s3⟩ := lex_sim m l hz
  exact ⟨by simp [stepLine, h1, s1], by simpa [stepLine] using s2, by simpa [stepLine] using s3⟩

theorem flags_agree : ∀ (ls : List Line) (m : Mode) (st : MLState), Rel m st → hazardFreeFrom m ls = true →
    multiFlagsFrom st ls = Spec.multiFlagsFrom m ls
  | [], _, _, _, _ => rfl
  | l :: r, m, st, h, hz => by
      simp only [hazardFreeFrom, Bool.and_eq_true, Bool.not_eq_true'] at hz
      simp only [multiFlagsFrom, Spec.multiFlagsFrom, rel_flag h l]
      rw [flags_agree r (lexLine m l) _ (rel_step h l hz.1) hz.2]

theorem adjust_agree : ∀ (ls : List Line) (m : Mode) (st : MLState) (mg : Option Line), Rel m st →
    hazardFreeFrom m ls = true → adjustLoop st mg ls = Spec.remargin (Spec.multiFlagsFrom m ls) mg ls
  | [], _, _, _, _, _ => by simp [adjustLoop, Spec.remargin]
  | l :: r, m, st, mg, h, hz => by
      simp only [hazardFreeFrom, Bool.and_eq_true, Bool.not_eq_true'] at hz
      have ih := fun mg' => adjust_agree r (lexLine m l) _ mg' (rel_step h l hz.1) hz.2
      simp only [adjustLoop, Spec.multiFlagsFrom, Spec.remargin, rel_flag h l, ih]

/-! ### what `Spec.remargin` guarantees, whatever the flags -/

theorem remargin_length : ∀ (fl : List Bool) (m : Option Line) (ls : List Line),
    (Spec.remargin fl m ls).length = ls.length
  | _, _, [] => by simp [Spec.remargin]
  | [], _, _ :: _ => by simp [Spec.remargin]
  | f :: fs, m, l :: ls => by
      simp only [Spec.remargin]
      split <;> simp [remargin_length]

/-- a line that starts inside a literal or after a continuation is reproduced untouched -/
theorem remargin_inside : ∀ (fl : List Bool) (m : Option Line) (ls : List Line) (i : Nat),
    fl[i]? = some true → (Spec.remargin fl m ls)[i]? = ls[i]?
  | _, _, [], _, _ => by simp [Spec.remargin]
  | [], _, _ :: _, _, h => by simp at h
  | f :: fs, m, l :: ls, 0, h => by
      simp only [List.getElem?_cons_zero, Option.some.injEq] at h
      simp [Spec.remargin, h]
  | f :: fs, m, l :: ls, i + 1, h => by
      simp only [List.getElem?_cons_succ] at h
      simp only [Spec.remargin]
      split <;> simp [remargin_inside fs _ ls i h]

/-- once the block's margin `M` is known, every other line is the tab-expanded original with exactly `M` taken off
its front (when it starts with `M`; unchanged otherwise) -/
theorem remargin_outside : ∀ (fl : List Bool) (M : Line) (ls : List Line) (i : Nat) (l : Line),
    fl[i]? = some false → ls[i]? = some l →
    (Spec.remargin fl (some M) ls)[i]? = some (replaceMargin (some M) [] (expandTabs 0 l))
  | _, _, [], _, _, _, h => by simp at h
  | [], _, _ :: _, _, _, h, _ => by simp at h
  | f :: fs, M, l0 :: ls, 0, l, h, hl => by
      simp only [List.getElem?_cons_zero, Option.some.injEq] at h hl
      simp [Spec.remargin, h, hl]
  | f :: fs, M, l0 :: ls, i + 1, l, h, hl => by
      simp only [List.getElem?_cons_succ] at h hl
      simp only [Spec.remargin]
      split <;> simp [remargin_outside fs M ls i l h hl]

theorem drop_takeWhile_length (p : Char → Bool) : ∀ x : Line, x.drop (x.takeWhile p).length = x.dropWhile p
  | [] => rfl
  | c :: r => by
      by_cases hc : p c <;> simp [List.takeWhile, List.dropWhile, hc, drop_takeWhile_length p r]

/-- before any code line has been seen, a blank or comment line only has its tabs expanded; the first code line
fixes the margin (its own leading blanks) and loses it -/
theorem remargin_first (fs : List Bool) (l : Line) (ls : List Line) :
    Spec.remargin (false :: fs) none (l :: ls) =
      if isCodeLine (expandTabs 0 l) then
        (expandTabs 0 l).dropWhile isBlank :: Spec.remargin fs (some (margin (expandTabs 0 l))) ls
      else expandTabs 0 l :: Spec.remargin fs none ls := by
  simp only [Spec.remargin, Bool.false_eq_true, if_false, nextMargin_none]
  split
  · have : ∀ x : Line, replaceMargin (some (margin x)) [] x = x.dropWhile isBlank := by
      intro x
      have hp : (margin x).isPrefixOf x = true := by
        simp [margin, List.isPrefixOf_iff_prefix, List.takeWhile_prefix]
      unfold margin at hp
      simp only [replaceMargin, margin, hp, if_true, List.nil_append]
      exact drop_takeWhile_length isBlank x
    simp [this]
  · simp [replaceMargin]

/-- `replaceMargin` with the empty replacement removes exactly the margin -/
theorem replaceMargin_drop (M l : Line) (h : M.isPrefixOf l = true) : replaceMargin (some M) [] l = l.drop M.length := by
  simp [replaceMargin, h]

/-- a line without TAB, CR, LF is its own tab expansion -/
theorem expandTabs_id : ∀ (col : Nat) (l : Line), (∀ c ∈ l, c ≠ '\t' ∧ c ≠ '\n' ∧ c ≠ '\r') → expandTabs col l = l
  | _, [], _ => rfl
  | col, c :: r, h => by
      have hc := h c (by simp)
      simp only [expandTabs, hc.1, hc.2.1, hc.2.2, or_self, if_false]
      rw [expandTabs_id _ r (fun x hx => h x (by simp [hx]))]

/-! ### the printer side -/

def b2n (b : Bool) : Nat := if b then 1 else 0

theorem countTriples_skip (c : Char) (r : Line)
    (h1 : ∀ r', c = '"' → r = '"' :: '"' :: r' → False) (h2 : ∀ r', c = '\'' → r = '\'' :: '\'' :: r' → False) :
    countTriples (c :: r) = countTriples r := by
  rw [countTriples.eq_def]
  split
  · rename_i r' heq; simp only [List.cons.injEq] at heq; exact absurd heq.2 (fun e => h1 r' heq.1 e)
  · rename_i r' heq; simp only [List.cons.injEq] at heq; exact absurd heq.2 (fun e => h2 r' heq.1 e)
  · rename_i heq; simp only [List.cons.injEq] at heq; rw [heq.2]
  · rename_i heq; simp at heq

/-- on a line free of the printer-specific hazards the parity of the triple quotes counted by `_in_multi_line` is
exactly "the triple-quote state flips" -/
theorem count_parity (t : Option Q) (l : Line) (h : scanHazardP t l = false) :
    (countTriples l + b2n t.isSome) % 2 = b2n (scanTriple t l).isSome := by
  fun_induction scanTriple t l
  case case1 s => cases s <;> simp [countTriples, b2n]
  case case2 r =>
    have : countTriples r = 0 := by simpa [scanHazardP] using h
    simp [countTriples_skip '#' r (by simp) (by simp), this, b2n]
  case case3 r ih =>
    have := ih (by simpa [scanHazardP] using h)
    simp only [countTriples, b2n, Option.isSome_none, Option.isSome_some, Bool.false_eq_true, if_false, if_true] at this ⊢
    omega
  case case4 r ih =>
    have := ih (by simpa [scanHazardP] using h)
    simp only [countTriples, b2n, Option.isSome_none, Option.isSome_some, Bool.false_eq_true, if_false, if_true] at this ⊢
    omega
  case case5 c r h1 h2 h3 ih =>
    have hh : scanHazardP none r = false := by
      unfold scanHazardP at h
      split at h <;> simp_all
    rw [countTriples_skip c r h2 h3]; exact ih hh
  case case6 r ih =>
    have := ih (by simpa [scanHazardP] using h)
    simp only [countTriples, b2n, Option.isSome_none, Option.isSome_some, Bool.false_eq_true, if_false, if_true] at this ⊢
    omega
  case case7 r ih =>
    have := ih (by simpa [scanHazardP] using h)
    simp only [countTriples, b2n, Option.isSome_none, Option.isSome_some, Bool.false_eq_true, if_false, if_true] at this ⊢
    omega
  case case8 q c r h1 h2 ih =>
    have hh : scanHazardP (some q) r = false ∧ (∀ r', c = '"' → r = '"' :: '"' :: r' → False)
        ∧ (∀ r', c = '\'' → r = '\'' :: '\'' :: r' → False) := by
      cases q
      · refine ⟨?_, fun r' a b => h1 r' rfl a b, ?_⟩
        · unfold scanHazardP at h; split at h <;> simp_all
        · intro r' a b; subst a b; simp [scanHazardP] at h
      · refine ⟨?_, ?_, fun r' a b => h2 r' rfl a b⟩
        · unfold scanHazardP at h; split at h <;> simp_all
        · intro r' a b; subst a b; simp [scanHazardP] at h
    rw [countTriples_skip c r hh.2.1 hh.2.2]; exact ih hh.1

/-- the printer's two flags against the state of `adjust_whitespace`'s machine -/
def PRel (st : MLState) (p : Bool × Bool) : Prop := p.1 = st.backslashed ∧ p.2 = st.triple.isSome

theorem prel_init : PRel .init (false, false) := ⟨rfl, rfl⟩

theorem prel_step {st : MLState} {p : Bool × Bool} (h : PRel st p) (l : Line)
    (hz : scanHazardP st.triple l = false) :
    (pStep p l).1 = (stepLine st l).1 ∧ PRel (stepLine st l).2 (pStep p l).2 := by
  obtain ⟨h1, h2⟩ := h
  have hp := count_parity st.triple l hz
  refine ⟨by simp [pStep, stepLine, h1, h2], by simp [pStep, stepLine], ?_⟩
  simp only [pStep, stepLine, h2]
  cases ha : st.triple.isSome <;> cases hb : (scanTriple st.triple l).isSome <;>
    simp only [ha, hb, b2n, if_true, if_false, Bool.false_eq_true] at hp ⊢ <;> split <;> simp <;> omega

theorem flush_agree (ind : Line) : ∀ (ls : List Line) (m : Mode) (st : MLState) (p : Bool × Bool)
    (mg : Option Line), Rel m st → PRel st p → hazardFreeFrom m ls = true →
    printerHazardFreeFrom st.triple ls = true →
    flushLoop ind p mg ls = Spec.reindent ind (Spec.multiFlagsFrom m ls) mg ls
  | [], _, _, _, _, _, _, _, _ => by simp [flushLoop, Spec.reindent]
  | l :: r, m, st, p, mg, h, hp, hz, hzp => by
      simp only [hazardFreeFrom, Bool.and_eq_true, Bool.not_eq_true'] at hz
      simp only [printerHazardFreeFrom, Bool.and_eq_true, Bool.not_eq_true'] at hzp
      obtain ⟨hf, hp'⟩ := prel_step hp l hzp.1
      have ih := fun mg' => flush_agree ind r (lexLine m l) (stepLine st l).2 (pStep p l).2 mg'
        (rel_step h l hz.1) hp' hz.2 (by simpa [stepLine] using hzp.2)
      simp only [flushLoop, Spec.multiFlagsFrom, Spec.reindent, hf, rel_flag h l, ih]

/-! ### what `Spec.reindent` guarantees, whatever the flags -/

theorem reindent_length (ind : Line) : ∀ (fl : List Bool) (m : Option Line) (ls : List Line),
    (Spec.reindent ind fl m ls).length = ls.length
  | _, _, [] => by simp [Spec.reindent]
  | [], _, _ :: _ => by simp [Spec.reindent]
  | f :: fs, m, l :: ls => by
      simp only [Spec.reindent]
      split <;> simp [reindent_length]

theorem reindent_inside (ind : Line) : ∀ (fl : List Bool) (m : Option Line) (ls : List Line) (i : Nat),
    fl[i]? = some true → (Spec.reindent ind fl m ls)[i]? = ls[i]?
  | _, _, [], _, _ => by simp [Spec.reindent]
  | [], _, _ :: _, _, h => by simp at h
  | f :: fs, m, l :: ls, 0, h => by
      simp only [List.getElem?_cons_zero, Option.some.injEq] at h
      simp [Spec.reindent, h]
  | f :: fs, m, l :: ls, i + 1, h => by
      simp only [List.getElem?_cons_succ] at h
      simp only [Spec.reindent]
      split <;> simp [reindent_inside ind fs _ ls i h]

theorem reindent_outside (ind : Line) : ∀ (fl : List Bool) (M : Line) (ls : List Line) (i : Nat) (l : Line),
    fl[i]? = some false → ls[i]? = some l →
    (Spec.reindent ind fl (some M) ls)[i]? = some (pIndentLine (some M) ind (expandTabs 0 l))
  | _, _, [], _, _, _, h => by simp at h
  | [], _, _ :: _, _, _, h, _ => by simp at h
  | f :: fs, M, l0 :: ls, 0, l, h, hl => by
      simp only [List.getElem?_cons_zero, Option.some.injEq] at h hl
      simp [Spec.reindent, h, hl]
  | f :: fs, M, l0 :: ls, i + 1, l, h, hl => by
      simp only [List.getElem?_cons_succ] at h hl
      simp only [Spec.reindent]
      split <;> simp [reindent_outside ind fs M ls i l h hl]

/-- `_indent_line` puts the target indentation in place of exactly the margin -/
theorem pIndentLine_replace (M ind l : Line) (h : M.isPrefixOf l = true) :
    pIndentLine (some M) ind l = ind ++ l.drop M.length := by
  unfold pIndentLine
  split
  · rename_i hm; simp only [Option.some.injEq] at hm; subst hm; simp
  · simp [replaceMargin, h]

/-! ### composition: lexer-side re-margining, then printer-side re-indentation -/

def Blanks (P : Line) : Prop := ∀ c ∈ P, isBlank c = true

theorem isBlank_cases {c : Char} (h : isBlank c = true) : c = ' ' ∨ c = '\t' := by
  simpa [isBlank] using h

theorem lexLine_blanks : ∀ (P x : Line), Blanks P → lexLine .code (P ++ x) = lexLine .code x
  | [], _, _ => rfl
  | c :: P, x, h => by
      have ih := lexLine_blanks P x (fun d hd => h d (by simp [hd]))
      rcases isBlank_cases (h c (by simp)) with rfl | rfl
      · cases hP : P ++ x with
        | nil => simp [hP] at ih ⊢; simp [lexLine, ← ih]
        | cons d y => simp only [List.cons_append, hP, lexLine] at ih ⊢; exact ih
      · cases hP : P ++ x with
        | nil => simp [hP] at ih ⊢; simp [lexLine, ← ih]
        | cons d y => simp only [List.cons_append, hP, lexLine] at ih ⊢; exact ih

theorem blank_step_lineHazard {c : Char} (hc : isBlank c = true) (y : Line) :
    lineHazard .code (c :: y) = lineHazard .code y := by
  rcases isBlank_cases hc with rfl | rfl <;> cases y <;> simp [lineHazard]

theorem blank_step_scanTriple {c : Char} (hc : isBlank c = true) (y : Line) :
    scanTriple none (c :: y) = scanTriple none y := by
  rcases isBlank_cases hc with rfl | rfl <;> simp [scanTriple]

theorem blank_step_scanHazardP {c : Char} (hc : isBlank c = true) (y : Line) :
    scanHazardP none (c :: y) = scanHazardP none y := by
  rcases isBlank_cases hc with rfl | rfl <;> simp [scanHazardP]

theorem lineHazard_blanks : ∀ (P x : Line), Blanks P → lineHazard .code (P ++ x) = lineHazard .code x
  | [], _, _ => rfl
  | c :: P, x, h => by
      rw [List.cons_append, blank_step_lineHazard (h c (by simp)), lineHazard_blanks P x (fun d hd => h d (by simp [hd]))]

theorem scanTriple_blanks : ∀ (P x : Line), Blanks P → scanTriple none (P ++ x) = scanTriple none x
  | [], _, _ => rfl
  | c :: P, x, h => by
      rw [List.cons_append, blank_step_scanTriple (h c (by simp)), scanTriple_blanks P x (fun d hd => h d (by simp [hd]))]

theorem scanHazardP_blanks : ∀ (P x : Line), Blanks P → scanHazardP none (P ++ x) = scanHazardP none x
  | [], _, _ => rfl
  | c :: P, x, h => by
      rw [List.cons_append, blank_step_scanHazardP (h c (by simp)),
        scanHazardP_blanks P x (fun d hd => h d (by simp [hd]))]

theorem ewb_blanks : ∀ (P x : Line), Blanks P → endsWithBackslash (P ++ x) = endsWithBackslash x
  | [], _, _ => rfl
  | c :: P, x, h => by
      have ih := ewb_blanks P x (fun d hd => h d (by simp [hd]))
      have hc : c ≠ '\\' := by rcases isBlank_cases (h c (by simp)) with rfl | rfl <;> decide
      cases hP : P ++ x with
      | nil =>
        have hx : x = [] := by cases P <;> simp_all
        have hp : P = [] := by cases P <;> simp_all
        subst hx hp
        simp [hc]
      | cons d y => rw [List.cons_append, hP, ewb_cons_cons, ← hP, ih]

/-- no TAB, LF or CR in the line: tab expansion leaves it alone -/
abbrev NoTabs (l : Line) : Prop := ∀ c ∈ l, c ≠ '\t' ∧ c ≠ '\n' ∧ c ≠ '\r'

theorem margin_blanks : ∀ (l : Line), Blanks (margin l)
  | [] => fun _ h => by simp [margin] at h
  | c :: r => by
      intro d hd
      by_cases hc : isBlank c
      · simp only [margin, List.takeWhile, hc, List.mem_cons] at hd
        rcases hd with rfl | hd
        · exact hc
        · exact margin_blanks r d hd
      · simp [margin, List.takeWhile, hc] at hd

theorem replaceMargin_split (m : Option Line) (hm : ∀ M, m = some M → Blanks M) (l : Line) :
    ∃ P, Blanks P ∧ l = P ++ replaceMargin m [] l := by
  cases m with
  | none => exact ⟨[], fun _ h => by simp at h, by simp [replaceMargin]⟩
  | some M =>
    simp only [replaceMargin, List.nil_append]
    split
    · rename_i h
      have hp : M <+: l := List.isPrefixOf_iff_prefix.mp h
      obtain ⟨t, rfl⟩ := hp
      exact ⟨M, hm M rfl, by simp⟩
    · exact ⟨[], fun _ h => by simp at h, by simp⟩

theorem replaceMargin_noTabs (m : Option Line) (l : Line) (h : NoTabs l) : NoTabs (replaceMargin m [] l) := by
  cases m with
  | none => simpa [replaceMargin] using h
  | some M =>
    simp only [replaceMargin, List.nil_append]
    split
    · intro c hc; exact h c (List.mem_of_mem_drop hc)
    · exact h

/-- the margin in force is made of blanks -/
def MarginOK (m : Option Line) : Prop := ∀ M, m = some M → Blanks M

theorem marginOK_next (m : Option Line) (hm : MarginOK m) (l : Line) : MarginOK (nextMargin m l) := by
  cases m with
  | some x => exact hm
  | none =>
    intro M hM
    simp only [nextMargin] at hM
    split at hM
    · simp only [Option.some.injEq] at hM; subst hM; exact margin_blanks l
    · simp at hM

/-- re-margining a hazard-free tab-free block leaves its lexical structure alone: the result is hazard-free (for
both guards) and every line starts in the same mode -/
theorem remargin_preserves : ∀ (ls : List Line) (m0 : Mode) (mg : Option Line), MarginOK mg →
    (∀ l ∈ ls, NoTabs l) → hazardFreeFrom m0 ls = true → printerHazardFreeFrom (tripleOf m0) ls = true →
    hazardFreeFrom m0 (Spec.remargin (Spec.multiFlagsFrom m0 ls) mg ls) = true
    ∧ printerHazardFreeFrom (tripleOf m0) (Spec.remargin (Spec.multiFlagsFrom m0 ls) mg ls) = true
    ∧ Spec.multiFlagsFrom m0 (Spec.remargin (Spec.multiFlagsFrom m0 ls) mg ls) = Spec.multiFlagsFrom m0 ls
  | [], _, _, _, _, _, _ => by simp [Spec.remargin, Spec.multiFlagsFrom, hazardFreeFrom, printerHazardFreeFrom]
  | l :: r, m0, mg, hmg, hnt, hz, hzp => by
      simp only [hazardFreeFrom, Bool.and_eq_true, Bool.not_eq_true'] at hz
      simp only [printerHazardFreeFrom, Bool.and_eq_true, Bool.not_eq_true'] at hzp
      have hsim := (lex_sim m0 l hz.1).1
      have hnt' : ∀ l' ∈ r, NoTabs l' := fun l' h' => hnt l' (by simp [h'])
      by_cases hin : m0.inside = true
      · have ih := remargin_preserves r (lexLine m0 l) mg hmg hnt' hz.2 (by rw [← hsim]; exact hzp.2)
        simp only [Spec.multiFlagsFrom, Spec.remargin, hin, if_true, hazardFreeFrom, printerHazardFreeFrom, hz.1,
          hzp.1, Bool.not_false, Bool.true_and]
        rw [hsim]
        exact ⟨ih.1, ih.2.1, by rw [ih.2.2]⟩
      · have hcode : m0 = .code := by cases m0 <;> simp_all [Mode.inside]
        subst hcode
        have hexp : expandTabs 0 l = l := expandTabs_id 0 l (hnt l (by simp))
        have hmg' := marginOK_next mg hmg l
        obtain ⟨P, hP, hl⟩ := replaceMargin_split _ hmg' l
        have ih := remargin_preserves r (lexLine .code l) _ hmg' hnt' hz.2 (by rw [← hsim]; exact hzp.2)
        have htc : tripleOf Mode.code = none := rfl
        simp only [Spec.multiFlagsFrom, Spec.remargin, Mode.inside, Bool.false_eq_true, if_false, hexp,
          hazardFreeFrom, printerHazardFreeFrom, htc] at ih ⊢
        generalize hx : replaceMargin (nextMargin mg l) [] l = x at hl ih ⊢
        have e1 : lexLine .code x = lexLine .code l := by rw [hl]; exact (lexLine_blanks P x hP).symm
        have e2 : lineHazard .code x = lineHazard .code l := by rw [hl]; exact (lineHazard_blanks P x hP).symm
        have e3 : scanTriple none x = scanTriple none l := by rw [hl]; exact (scanTriple_blanks P x hP).symm
        have e4 : scanHazardP none x = scanHazardP none l := by rw [hl]; exact (scanHazardP_blanks P x hP).symm
        have hz1 : lineHazard .code l = false := hz.1
        have hzp1 : scanHazardP none l = false := by simpa [tripleOf] using hzp.1
        have hs' : scanTriple none l = tripleOf (lexLine .code l) := by simpa [tripleOf] using hsim
        rw [e1, e2, e3, e4, hz1, hzp1, hs']
        exact ⟨by simpa using ih.1, by simpa using ih.2.1, by rw [ih.2.2]⟩

theorem dropWhile_takeWhile_nil (p : Char → Bool) : ∀ l : Line, (l.dropWhile p).takeWhile p = []
  | [] => rfl
  | c :: r => by
      by_cases hc : p c
      · simp [List.dropWhile, hc, dropWhile_takeWhile_nil p r]
      · simp [List.dropWhile, List.takeWhile, hc]

theorem dropWhile_idem (p : Char → Bool) : ∀ l : Line, (l.dropWhile p).dropWhile p = l.dropWhile p
  | [] => rfl
  | c :: r => by
      by_cases hc : p c
      · simp [List.dropWhile, hc, dropWhile_idem p r]
      · simp [List.dropWhile, hc]

theorem replaceMargin_margin (x : Line) : replaceMargin (some (margin x)) [] x = x.dropWhile isBlank := by
  have hp : (List.takeWhile isBlank x).isPrefixOf x = true := by
    simp [List.isPrefixOf_iff_prefix, List.takeWhile_prefix]
  simp only [replaceMargin, margin, hp, if_true, List.nil_append]
  exact drop_takeWhile_length isBlank x

/-- the printer's pass over what the lexer's pass produced, for any flags: "strip the margin, put the target
indentation in front" -/
theorem reindent_remargin (ind : Line) : ∀ (fl : List Bool) (ls : List Line) (mg mp : Option Line),
    (∀ l ∈ ls, NoTabs l) → ((mg = none ∧ mp = none) ∨ ((∃ M, mg = some M) ∧ mp = some [])) →
    Spec.reindent ind fl mp (Spec.remargin fl mg ls) = Spec.roundtrip ind fl mg ls
  | _, [], _, _, _, _ => by simp [Spec.remargin, Spec.reindent, Spec.roundtrip]
  | [], _ :: _, _, _, _, _ => by simp [Spec.remargin, Spec.reindent, Spec.roundtrip]
  | true :: fs, l :: ls, mg, mp, hnt, hm => by
      simp only [Spec.remargin, Spec.reindent, Spec.roundtrip, if_true]
      rw [reindent_remargin ind fs ls mg mp (fun l' h' => hnt l' (by simp [h'])) hm]
  | false :: fs, l :: ls, mg, mp, hnt, hm => by
      have hexp : expandTabs 0 l = l := expandTabs_id 0 l (hnt l (by simp))
      have hnt' : ∀ l' ∈ ls, NoTabs l' := fun l' h' => hnt l' (by simp [h'])
      simp only [Spec.remargin, Spec.reindent, Spec.roundtrip, Bool.false_eq_true, if_false, hexp]
      rcases hm with ⟨rfl, rfl⟩ | ⟨⟨M, rfl⟩, rfl⟩
      · by_cases hc : isCodeLine l = true
        · -- the first code line: it fixes the margin and loses it; what is left starts with a non-blank
          simp only [nextMargin, hc, if_true, replaceMargin_margin]
          have hx : expandTabs 0 (l.dropWhile isBlank) = l.dropWhile isBlank :=
            expandTabs_id 0 _ (fun c h => hnt l (by simp) c ((List.dropWhile_sublist isBlank).subset h))
          have hcx : isCodeLine (l.dropWhile isBlank) = true := by
            simpa [isCodeLine, dropWhile_idem] using hc
          have hmx : margin (l.dropWhile isBlank) = [] := dropWhile_takeWhile_nil isBlank l
          simp only [hx, hcx, if_true, hmx, pIndentLine, nextMargin]
          rw [reindent_remargin ind fs ls (some (margin l)) (some []) hnt' (Or.inr ⟨⟨_, rfl⟩, rfl⟩)]
        · simp only [nextMargin, hc, Bool.false_eq_true, if_false, replaceMargin, hexp, pIndentLine, reduceCtorEq]
          rw [reindent_remargin ind fs ls none none hnt' (Or.inl ⟨rfl, rfl⟩)]
      · have hx : expandTabs 0 (replaceMargin (some M) [] l) = replaceMargin (some M) [] l :=
          expandTabs_id 0 _ (replaceMargin_noTabs (some M) l (hnt l (by simp)))
        simp only [nextMargin, hx, pIndentLine, if_true]
        rw [reindent_remargin ind fs ls (some M) (some []) hnt' (Or.inr ⟨⟨_, rfl⟩, rfl⟩)]

theorem roundtrip_inside (ind : Line) : ∀ (fl : List Bool) (m : Option Line) (ls : List Line) (i : Nat),
    fl[i]? = some true → (Spec.roundtrip ind fl m ls)[i]? = ls[i]?
  | _, _, [], _, _ => by simp [Spec.roundtrip]
  | [], _, _ :: _, _, h => by simp at h
  | f :: fs, m, l :: ls, 0, h => by
      simp only [List.getElem?_cons_zero, Option.some.injEq] at h
      simp [Spec.roundtrip, h]
  | f :: fs, m, l :: ls, i + 1, h => by
      simp only [List.getElem?_cons_succ] at h
      simp only [Spec.roundtrip]
      split <;> simp [roundtrip_inside ind fs _ ls i h]

theorem roundtrip_outside (ind : Line) : ∀ (fl : List Bool) (M : Line) (ls : List Line) (i : Nat) (l : Line),
    fl[i]? = some false → ls[i]? = some l →
    (Spec.roundtrip ind fl (some M) ls)[i]? = some (ind ++ replaceMargin (some M) [] l)
  | _, _, [], _, _, _, h => by simp at h
  | [], _, _ :: _, _, _, h, _ => by simp at h
  | f :: fs, M, l0 :: ls, 0, l, h, hl => by
      simp only [List.getElem?_cons_zero, Option.some.injEq] at h hl
      simp [Spec.roundtrip, h, hl]
  | f :: fs, M, l0 :: ls, i + 1, l, h, hl => by
      simp only [List.getElem?_cons_succ] at h hl
      simp only [Spec.roundtrip]
      split <;> simp [roundtrip_outside ind fs M ls i l h hl]

/-- lexer-side pass, then printer-side pass, on a hazard-free tab-free block -/
theorem roundtrip_agree (ind : Line) (ls : List Line) (hnt : ∀ l ∈ ls, NoTabs l)
    (hz : hazardFree ls = true) (hzp : printerHazardFree ls = true) :
    flushLoop ind (false, false) none (adjustLoop .init none ls)
      = Spec.roundtrip ind (Spec.multiFlags ls) none ls := by
  have h0 : MarginOK none := fun _ h => by simp at h
  obtain ⟨p1, p2, p3⟩ := remargin_preserves ls .code none h0 hnt hz hzp
  rw [adjust_agree ls .code .init none rel_init hz]
  rw [flush_agree ind _ .code .init (false, false) none rel_init prel_init p1 p2, p3]
  exact reindent_remargin ind _ ls none none hnt (Or.inl ⟨rfl, rfl⟩)

end MakoModel.PyExpr.Ws
