import MakoModel.PyExpr.Ws
/-! The implementation's `in_multi_line` state machine agrees with the lexical specification on hazard-free blocks
(helper lemmas for C19: `adjust_ws_spec_partial`). -/
set_option linter.unusedSimpArgs false
set_option linter.unusedVariables false
namespace MakoModel.PyExpr.Ws
open Spec

def tripleOf : Mode → Option Q
  | .str3 q => some q
  | _ => none

@[simp] theorem ewb_nil : endsWithBackslash [] = false := rfl
@[simp] theorem ewb_one (a : Char) : endsWithBackslash [a] = (a == '\\') := by
  simp [endsWithBackslash]
@[simp] theorem ewb_cons_cons (a b : Char) (r : Line) : endsWithBackslash (a :: b :: r) = endsWithBackslash (b :: r) := by
  simp [endsWithBackslash, List.getLast?_cons_cons]

theorem backslash_ne_qchar (q : Q) : ¬ '\\' = q.char := by cases q <;> decide

theorem scan_none_skip (c : Char) (r : Line) (h : triggers (c :: r) = false) :
    scanTriple none (c :: r) = scanTriple none r := by
  unfold triggers at h
  split at h <;> simp_all [scanTriple]

theorem scan_some_skip (q : Q) (c : Char) (r : Line) (h : c ≠ q.char) :
    scanTriple (some q) (c :: r) = scanTriple (some q) r := by
  cases q <;> simp_all [scanTriple, Q.char]

macro "rec_case" ih:ident r:ident h:ident : tactic => `(tactic| (
  obtain ⟨ih1, ih2, ih3⟩ := $ih (by simp_all [lineHazard, triggers, Q.char])
  refine ⟨?_, ?_, ?_⟩
  · first
    | (simp_all [scanTriple, tripleOf, triggers, lineHazard, Q.char]; done)
    | (simp only [lineHazard, Bool.or_eq_false_iff, beq_eq_false_iff_ne, ne_eq] at $h:ident
       first
       | (rw [show ∀ x y, scanTriple (tripleOf (Mode.str1 x)) y = scanTriple none y from fun _ _ => rfl] at *
          rw [scan_none_skip _ _ (by first | exact backslash_ne_qchar _ | (simp [triggers]; done) | (simp_all; done)), scan_none_skip _ _ (by first | exact backslash_ne_qchar _ | (simp [triggers]; done) | (simp_all; done))]; simp_all [tripleOf]; done)
       | (simp only [tripleOf] at *; rw [scan_none_skip _ _ (by first | exact backslash_ne_qchar _ | (simp [triggers]; done) | (simp_all; done))]; simp_all [tripleOf]; done)
       | (simp only [tripleOf] at *; rw [scan_some_skip _ _ _ (by first | exact backslash_ne_qchar _ | (simp [triggers]; done) | (simp_all; done)), scan_some_skip _ _ _ (by first | exact backslash_ne_qchar _ | (simp [triggers]; done) | (simp_all; done))]; simp_all [tripleOf]; done)
       | (simp only [tripleOf] at *; rw [scan_some_skip _ _ _ (by first | exact backslash_ne_qchar _ | (simp [triggers]; done) | (simp_all; done))]; simp_all [tripleOf]; done))
  · intro hc; cases $r:ident <;> simp_all [lexLine, lineHazard]
  · intro hc; cases $r:ident <;> simp_all [lexLine, lineHazard]))

theorem lex_sim (m : Mode) (l : Line) (h : lineHazard m l = false) :
    scanTriple (tripleOf m) l = tripleOf (lexLine m l)
    ∧ (lexLine m l = .code → endsWithBackslash l = false)
    ∧ ((lexLine m l = .cont ∨ ∃ q, lexLine m l = .str1 q) → endsWithBackslash l = true) := by
  fun_induction lexLine m l
  case case1 => simp [scanTriple, tripleOf]
  case case2 => simp [scanTriple, tripleOf]
  case case3 => simp [scanTriple, tripleOf]
  case case4 => simp [scanTriple, tripleOf]
  case case5 => simp_all [scanTriple, tripleOf, lineHazard]
  case case6 => simp_all [scanTriple, tripleOf, lineHazard]
  case case7 r ih => rec_case ih r h
  case case8 r ih => rec_case ih r h
  case case9 r ih => rec_case ih r h
  case case10 r ih => rec_case ih r h
  case case11 r _ ih => rec_case ih r h
  case case12 r _ ih => rec_case ih r h
  case case13 r _ ih => rec_case ih r h
  case case14 r _ ih => rec_case ih r h
  case case15 c r _ _ _ _ _ _ ih => rec_case ih r h
  case case16 c r _ _ _ _ _ _ ih => rec_case ih r h
  case case17 => simp [lineHazard] at h
  case case18 => simp [scanTriple, tripleOf]
  case case19 q c r ih => rec_case ih r h
  case case20 c r _ _ ih => rec_case ih r h
  case case21 q c r _ _ _ ih => rec_case ih r h
  case case22 => simp [scanTriple, tripleOf]
  case case23 q => cases q <;> simp [scanTriple, tripleOf]
  case case24 q c r ih => rec_case ih r h
  case case25 r ih => rec_case ih r h
  case case26 r ih => rec_case ih r h
  case case27 q c r _ _ _ _ ih => rec_case ih r h

/-- how the specification's mode at a line start and the implementation's state correspond -/
def Rel (m : Mode) (st : MLState) : Prop :=
  st.triple = tripleOf m ∧ (m = .code → st.backslashed = false)
    ∧ ((m = .cont ∨ ∃ q, m = .str1 q) → st.backslashed = true)

theorem rel_init : Rel .code .init := ⟨rfl, fun _ => rfl, by simp⟩

theorem rel_flag {m : Mode} {st : MLState} (h : Rel m st) (l : Line) : (stepLine st l).1 = m.inside := by
  obtain ⟨h1, h2, h3⟩ := h
  cases m <;> simp_all [stepLine, Mode.inside, tripleOf]

theorem rel_step {m : Mode} {st : MLState} (h : Rel m st) (l : Line) (hz : lineHazard m l = false) :
    Rel (lexLine m l) (stepLine st l).2 := by
  obtain ⟨h1, _, _⟩ := h
  obtain ⟨s1, s2, s3⟩ := lex_sim m l hz
  exact ⟨by simp [stepLine, h1, s1], by simpa [stepLine] using s2, by simpa [stepLine] using s3⟩

theorem flags_agree : ∀ (ls : List Line) (m : Mode) (st : MLState), Rel m st → hazardFreeFrom m ls = true →
    multiFlagsFrom st ls = Spec.multiFlagsFrom m ls
  | [], _, _, _, _ => rfl
  | l :: r, m, st, h, hz => by
      simp only [hazardFreeFrom, Bool.and_eq_true, Bool.not_eq_true'] at hz
      simp only [multiFlagsFrom, Spec.multiFlagsFrom, rel_flag h l]
      rw [flags_agree r (lexLine m l) _ (rel_step h l hz.1) hz.2]

theorem adjust_agree : ∀ (ls : List Line) (m : Mode) (st : MLState) (mg : Option Line), Rel m st →
    hazardFreeFrom m ls = true → adjustLoop st mg ls = Spec.remargin (Spec.multiFlagsFrom m ls) mg ls
  | [], _, _, _, _, _ => by simp [adjustLoop, Spec.remargin]
  | l :: r, m, st, mg, h, hz => by
      simp only [hazardFreeFrom, Bool.and_eq_true, Bool.not_eq_true'] at hz
      have ih := fun mg' => adjust_agree r (lexLine m l) _ mg' (rel_step h l hz.1) hz.2
      simp only [adjustLoop, Spec.multiFlagsFrom, Spec.remargin, rel_flag h l, ih]

/-! ### what `Spec.remargin` guarantees, whatever the flags -/

theorem remargin_length : ∀ (fl : List Bool) (m : Option Line) (ls : List Line),
    (Spec.remargin fl m ls).length = ls.length
  | _, _, [] => by simp [Spec.remargin]
  | [], _, _ :: _ => by simp [Spec.remargin]
  | f :: fs, m, l :: ls => by
      simp only [Spec.remargin]
      split <;> simp [remargin_length]

/-- a line that starts inside a literal or after a continuation is reproduced untouched -/
theorem remargin_inside : ∀ (fl : List Bool) (m : Option Line) (ls : List Line) (i : Nat),
    fl[i]? = some true → (Spec.remargin fl m ls)[i]? = ls[i]?
  | _, _, [], _, _ => by simp [Spec.remargin]
  | [], _, _ :: _, _, h => by simp at h
  | f :: fs, m, l :: ls, 0, h => by
      simp only [List.getElem?_cons_zero, Option.some.injEq] at h
      simp [Spec.remargin, h]
  | f :: fs, m, l :: ls, i + 1, h => by
      simp only [List.getElem?_cons_succ] at h
      simp only [Spec.remargin]
      split <;> simp [remargin_inside fs _ ls i h]

/-- once the block's margin `M` is known, every other line is the tab-expanded original with exactly `M` taken off
its front (when it starts with `M`; unchanged otherwise) -/
theorem remargin_outside : ∀ (fl : List Bool) (M : Line) (ls : List Line) (i : Nat) (l : Line),
    fl[i]? = some false → ls[i]? = some l →
    (Spec.remargin fl (some M) ls)[i]? = some (replaceMargin (some M) [] (expandTabs 0 l))
  | _, _, [], _, _, _, h => by simp at h
  | [], _, _ :: _, _, _, h, _ => by simp at h
  | f :: fs, M, l0 :: ls, 0, l, h, hl => by
      simp only [List.getElem?_cons_zero, Option.some.injEq] at h hl
      simp [Spec.remargin, h, hl]
  | f :: fs, M, l0 :: ls, i + 1, l, h, hl => by
      simp only [List.getElem?_cons_succ] at h hl
      simp only [Spec.remargin]
      split <;> simp [remargin_outside fs M ls i l h hl]

theorem drop_takeWhile_length (p : Char → Bool) : ∀ x : Line, x.drop (x.takeWhile p).length = x.dropWhile p
  | [] => rfl
  | c :: r => by
      by_cases hc : p c <;> simp [List.takeWhile, List.dropWhile, hc, drop_takeWhile_length p r]

/-- before any code line has been seen, a blank or comment line only has its tabs expanded; the first code line
fixes the margin (its own leading blanks) and loses it -/
theorem remargin_first (fs : List Bool) (l : Line) (ls : List Line) :
    Spec.remargin (false :: fs) none (l :: ls) =
      if isCodeLine (expandTabs 0 l) then
        (expandTabs 0 l).dropWhile isBlank :: Spec.remargin fs (some (margin (expandTabs 0 l))) ls
      else expandTabs 0 l :: Spec.remargin fs none ls := by
  simp only [Spec.remargin, Bool.false_eq_true, if_false]
  split
  · have : ∀ x : Line, replaceMargin (some (margin x)) [] x = x.dropWhile isBlank := by
      intro x
      have hp : (margin x).isPrefixOf x = true := by
        simp [margin, List.isPrefixOf_iff_prefix, List.takeWhile_prefix]
      unfold margin at hp
      simp only [replaceMargin, margin, hp, if_true, List.nil_append]
      exact drop_takeWhile_length isBlank x
    simp [this]
  · simp [replaceMargin]

/-- `replaceMargin` with the empty replacement removes exactly the margin -/
theorem replaceMargin_drop (M l : Line) (h : M.isPrefixOf l = true) : replaceMargin (some M) [] l = l.drop M.length := by
  simp [replaceMargin, h]

/-- a line without TAB, CR, LF is its own tab expansion -/
theorem expandTabs_id : ∀ (col : Nat) (l : Line), (∀ c ∈ l, c ≠ '\t' ∧ c ≠ '\n' ∧ c ≠ '\r') → expandTabs col l = l
  | _, [], _ => rfl
  | col, c :: r, h => by
      have hc := h c (by simp)
      simp only [expandTabs, hc.1, hc.2.1, hc.2.2, or_self, if_false]
      rw [expandTabs_id _ r (fun x hx => h x (by simp [hx]))]

end MakoModel.PyExpr.Ws
