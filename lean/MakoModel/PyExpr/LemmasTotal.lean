import MakoModel.PyExpr.PrintSpec
/-! The printer is defined wherever `totalGuard` holds (helper lemmas for C19). -/
set_option linter.unusedSimpArgs false
set_option linter.unusedVariables false

namespace MakoModel.PyExpr

macro "gunfold" h:ident : tactic =>
  `(tactic| simp only [Expr.all, allOpt, allList, allOptList, allKeywords, allDict, allComps, allArgs, totalLocal,
      Bool.and_eq_true, List.all_cons, List.all_nil, Keyword.named, DictItem.keyed, Option.isSome_iff_exists,
      Bool.true_and, Bool.and_true] at $h:ident)

macro "tclose" : tactic =>
  `(tactic| (simp [print, printOpt, printList, printOptList, printDict, printDictKeys, printDictValues, printCmp,
      printKeywords, printKeywordsGeneric, printComps, printDefaults, printSig, printArgsGeneric, *] <;>
      (repeat' split) <;> simp [*]))

set_option maxHeartbeats 1000000 in
mutual
theorem total_print : ∀ (e : Expr), e.all totalLocal = true → ∃ t, print e = some t
  | .name id _, _ => by tclose
  | .const _ r, _ => by tclose
  | .attribute v a, h => by
      gunfold h; obtain ⟨t1, e1⟩ := total_print v h; tclose
  | .subscript v s, h => by
      gunfold h; obtain ⟨t1, e1⟩ := total_print v h.1; obtain ⟨t2, e2⟩ := total_print s h.2; tclose
  | .slice lo hi none, h => by
      gunfold h
      obtain ⟨t1, e1⟩ := total_printOpt lo h.1; obtain ⟨t2, e2⟩ := total_printOpt hi h.2
      tclose
  | .slice lo hi (some s), h => by
      gunfold h
      obtain ⟨t1, e1⟩ := total_printOpt lo h.1.1; obtain ⟨t2, e2⟩ := total_printOpt hi h.1.2
      obtain ⟨t3, e3⟩ := total_print s h.2
      tclose
  | .call f args kws, h => by
      gunfold h
      obtain ⟨t1, e1⟩ := total_print f h.1.1.2; obtain ⟨t2, e2⟩ := total_printList args h.1.2
      obtain ⟨t3, e3⟩ := total_printKeywords kws h.1.1.1 h.2
      obtain ⟨t4, e4⟩ := total_printKeywordsGeneric kws h.2
      tclose
  | .unaryOp op e, h => by
      gunfold h; obtain ⟨s, es⟩ := h.1; obtain ⟨t1, e1⟩ := total_print e h.2; tclose
  | .binOp l op r, h => by
      gunfold h; obtain ⟨s, es⟩ := h.1.1
      obtain ⟨t1, e1⟩ := total_print l h.1.2; obtain ⟨t2, e2⟩ := total_print r h.2; tclose
  | .boolOp op vs, h => by
      gunfold h; obtain ⟨s, es⟩ := h.1
      obtain ⟨t1, e1⟩ := total_printList vs h.2; tclose
  | .compare l ops cs, h => by
      gunfold h
      obtain ⟨t1, e1⟩ := total_print l h.1.2; obtain ⟨t2, e2⟩ := total_printList cs h.2
      obtain ⟨t3, e3⟩ := total_printCmp ops cs h.1.1 h.2
      tclose
  | .ifExp c b o, h => by
      gunfold h
      obtain ⟨t1, e1⟩ := total_print c h.1.1; obtain ⟨t2, e2⟩ := total_print b h.1.2
      obtain ⟨t3, e3⟩ := total_print o h.2; tclose
  | .lambda a b, h => by
      gunfold h
      obtain ⟨t1, e1⟩ := total_printSig a h.1; obtain ⟨t2, e2⟩ := total_printArgsGeneric a h.1
      obtain ⟨t3, e3⟩ := total_print b h.2; tclose
  | .tuple es, h => by gunfold h; obtain ⟨t1, e1⟩ := total_printList es h; tclose
  | .list es, h => by gunfold h; obtain ⟨t1, e1⟩ := total_printList es h; tclose
  | .set es, h => by gunfold h; obtain ⟨t1, e1⟩ := total_printList es h; tclose
  | .dict items, h => by
      gunfold h
      obtain ⟨t1, e1⟩ := total_printDict items h.1 h.2
      obtain ⟨t2, e2⟩ := total_printDictKeys items h.2; obtain ⟨t3, e3⟩ := total_printDictValues items h.2
      tclose
  | .listComp e gs, h => by
      gunfold h; obtain ⟨t1, e1⟩ := total_print e h.1; obtain ⟨t2, e2⟩ := total_printComps gs h.2; tclose
  | .setComp e gs, h => by
      gunfold h; obtain ⟨t1, e1⟩ := total_print e h.1; obtain ⟨t2, e2⟩ := total_printComps gs h.2; tclose
  | .generatorExp e gs, h => by
      gunfold h; obtain ⟨t1, e1⟩ := total_print e h.1; obtain ⟨t2, e2⟩ := total_printComps gs h.2; tclose
  | .dictComp k v gs, h => by
      gunfold h
      obtain ⟨t1, e1⟩ := total_print k h.1.1; obtain ⟨t2, e2⟩ := total_print v h.1.2
      obtain ⟨t3, e3⟩ := total_printComps gs h.2; tclose
  | .joinedStr src vs, h => by gunfold h; obtain ⟨t1, e1⟩ := total_printList vs h; tclose
  | .formattedValue v _ spec, h => by
      gunfold h; obtain ⟨t1, e1⟩ := total_print v h.1; obtain ⟨t2, e2⟩ := total_printOpt spec h.2; tclose
  | .starred v, h => by gunfold h; obtain ⟨t1, e1⟩ := total_print v h; tclose
  | .namedExpr a v, h => by
      gunfold h; obtain ⟨t1, e1⟩ := total_print a h.1; obtain ⟨t2, e2⟩ := total_print v h.2; tclose
  | .await v, h => by gunfold h; obtain ⟨t1, e1⟩ := total_print v h; tclose
  | .yield none, h => by gunfold h; simp at h
  | .yield (some e), h => by gunfold h; obtain ⟨t1, e1⟩ := total_print e h.2; tclose
  | .yieldFrom v, h => by gunfold h; obtain ⟨t1, e1⟩ := total_print v h; tclose
theorem total_printOpt : ∀ (o : Option Expr), allOpt totalLocal o = true → ∃ t, printOpt o = some t
  | none, _ => by tclose
  | some e, h => by gunfold h; obtain ⟨t1, e1⟩ := total_print e h; tclose
theorem total_printList : ∀ (es : List Expr), allList totalLocal es = true → ∃ ts, printList es = some ts
  | [], _ => by tclose
  | e :: es, h => by
      gunfold h; obtain ⟨t1, e1⟩ := total_print e h.1; obtain ⟨t2, e2⟩ := total_printList es h.2; tclose
theorem total_printOptList : ∀ (es : List (Option Expr)), allOptList totalLocal es = true →
    ∃ t, printOptList es = some t
  | [], _ => by tclose
  | none :: es, h => by gunfold h; obtain ⟨t2, e2⟩ := total_printOptList es h; tclose
  | some e :: es, h => by
      gunfold h; obtain ⟨t1, e1⟩ := total_print e h.1; obtain ⟨t2, e2⟩ := total_printOptList es h.2; tclose
theorem total_printDict : ∀ (items : List DictItem), items.all DictItem.keyed = true →
    allDict totalLocal items = true → ∃ ts, printDict items = some ts
  | [], _, _ => by tclose
  | .mk none v :: r, hk, _ => by gunfold hk; simp at hk
  | .mk (some k) v :: r, hk, h => by
      gunfold hk; gunfold h
      obtain ⟨t1, e1⟩ := total_print k h.1.1; obtain ⟨t2, e2⟩ := total_print v h.1.2
      obtain ⟨t3, e3⟩ := total_printDict r hk.2 h.2; tclose
theorem total_printDictKeys : ∀ (items : List DictItem), allDict totalLocal items = true →
    ∃ t, printDictKeys items = some t
  | [], _ => by tclose
  | .mk none _ :: r, h => by gunfold h; obtain ⟨t3, e3⟩ := total_printDictKeys r h.2; tclose
  | .mk (some k) _ :: r, h => by
      gunfold h; obtain ⟨t1, e1⟩ := total_print k h.1.1; obtain ⟨t3, e3⟩ := total_printDictKeys r h.2; tclose
theorem total_printDictValues : ∀ (items : List DictItem), allDict totalLocal items = true →
    ∃ t, printDictValues items = some t
  | [], _ => by tclose
  | .mk none v :: r, h => by
      gunfold h; obtain ⟨t1, e1⟩ := total_print v h.1; obtain ⟨t3, e3⟩ := total_printDictValues r h.2; tclose
  | .mk (some _) v :: r, h => by
      gunfold h; obtain ⟨t1, e1⟩ := total_print v h.1.2; obtain ⟨t3, e3⟩ := total_printDictValues r h.2; tclose
theorem total_printCmp : ∀ (ops : List CmpOp) (cs : List Expr), (ops.all fun o => o.sym.isSome) = true →
    allList totalLocal cs = true → ∃ t, printCmp ops cs = some t
  | _, [], _, _ => by tclose
  | [], _ :: _, _, _ => by tclose
  | op :: ops, c :: cs, ho, h => by
      gunfold ho; gunfold h; obtain ⟨s, es⟩ := ho.1
      obtain ⟨t1, e1⟩ := total_print c h.1; obtain ⟨t2, e2⟩ := total_printCmp ops cs ho.2 h.2; tclose
theorem total_printKeywords : ∀ (ks : List Keyword), ks.all Keyword.named = true →
    allKeywords totalLocal ks = true → ∃ ts, printKeywords ks = some ts
  | [], _, _ => by tclose
  | .mk arg v :: ks, hk, h => by
      gunfold hk; gunfold h; obtain ⟨a, ea⟩ := hk.1
      obtain ⟨t1, e1⟩ := total_print v h.1; obtain ⟨t2, e2⟩ := total_printKeywords ks hk.2 h.2; tclose
theorem total_printKeywordsGeneric : ∀ (ks : List Keyword), allKeywords totalLocal ks = true →
    ∃ t, printKeywordsGeneric ks = some t
  | [], _ => by tclose
  | .mk _ v :: ks, h => by
      gunfold h
      obtain ⟨t1, e1⟩ := total_print v h.1; obtain ⟨t2, e2⟩ := total_printKeywordsGeneric ks h.2; tclose
theorem total_printComps : ∀ (gs : List Comp), allComps totalLocal gs = true → ∃ t, printComps gs = some t
  | [], _ => by tclose
  | .mk target iter ifs _ :: gs, h => by
      gunfold h
      obtain ⟨t1, e1⟩ := total_print target h.1.1.1; obtain ⟨t2, e2⟩ := total_print iter h.1.1.2
      obtain ⟨t3, e3⟩ := total_printList ifs h.1.2; obtain ⟨t4, e4⟩ := total_printComps gs h.2; tclose
theorem total_printDefaults : ∀ (as : List Str) (ds : List Expr), allList totalLocal ds = true →
    ∃ ts, printDefaults as ds = some ts
  | _, [], _ => by tclose
  | [], _ :: _, _ => by tclose
  | a :: as, d :: ds, h => by
      gunfold h
      obtain ⟨t1, e1⟩ := total_print d h.1; obtain ⟨t2, e2⟩ := total_printDefaults as ds h.2; tclose
theorem total_printSig : ∀ (a : Args), allArgs totalLocal a = true → ∃ ts, printSig a = some ts
  | .mk _ args vararg _ _ kwarg defaults, h => by
      gunfold h
      obtain ⟨t1, e1⟩ := total_printDefaults (args.drop (args.length - defaults.length)) defaults h.2; tclose
theorem total_printArgsGeneric : ∀ (a : Args), allArgs totalLocal a = true → ∃ t, printArgsGeneric a = some t
  | .mk posonly args vararg kwonly kwDefaults kwarg defaults, h => by
      gunfold h
      obtain ⟨t1, e1⟩ := total_printOptList kwDefaults h.1; obtain ⟨t2, e2⟩ := total_printList defaults h.2; tclose
end

end MakoModel.PyExpr
