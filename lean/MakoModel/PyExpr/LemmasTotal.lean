import MakoModel.PyExpr.PrintSpec
/-! The printer is defined wherever `totalGuard` holds (helper lemmas for C19). -/
set_option linter.unusedSimpArgs false
set_option linter.unusedVariables false

namespace MakoModel.PyExpr

macro "gunfold" h:ident : tactic =>
  `(tactic| simp only [Expr.all, allOpt, allList, allOptList, allKeywords, allDict, allComps, allArgs, totalLocal,
      Bool.and_eq_true, List.all_cons, List.all_nil, Option.isSome_iff_exists,
      Bool.true_and, Bool.and_true] at $h:ident)

macro "tclose" : tactic =>
  `(tactic| (simp [print, printOpt, printList, printOptList, printDict, printDictKeys, printDictValues, printCmp,
      printKeywords, printKeywordsGeneric, printComps, printDefaults, printSig, printArgsGeneric, printOps,
      printKwDefaults, *] <;>
      (repeat' split) <;> simp [*]))

set_option maxHeartbeats 1000000 in
mutual
theorem total_print (hs : SymbolsTotal) : ∀ (e : Expr), e.all totalLocal = true → ∃ t, print e = some t
  | .name id _, _ => by tclose
  | .const _ r, _ => by tclose
  | .attribute v a, h => by
      gunfold h; obtain ⟨t1, e1⟩ := total_print hs v h; tclose
  | .subscript v s, h => by
      gunfold h; obtain ⟨t1, e1⟩ := total_print hs v h.1; obtain ⟨t2, e2⟩ := total_print hs s h.2; tclose
  | .slice lo hi none, h => by
      gunfold h
      obtain ⟨t1, e1⟩ := total_printOpt hs lo h.1; obtain ⟨t2, e2⟩ := total_printOpt hs hi h.2
      tclose
  | .slice lo hi (some s), h => by
      gunfold h
      obtain ⟨t1, e1⟩ := total_printOpt hs lo h.1.1; obtain ⟨t2, e2⟩ := total_printOpt hs hi h.1.2
      obtain ⟨t3, e3⟩ := total_print hs s h.2
      tclose
  | .call f args kws, h => by
      gunfold h
      obtain ⟨t1, e1⟩ := total_print hs f h.1.1; obtain ⟨t2, e2⟩ := total_printList hs args h.1.2
      obtain ⟨t3, e3⟩ := total_printKeywords hs kws h.2
      obtain ⟨t4, e4⟩ := total_printKeywordsGeneric hs kws h.2
      tclose
  | .unaryOp op e, h => by
      gunfold h; obtain ⟨s, es⟩ := hs.unary op; obtain ⟨t1, e1⟩ := total_print hs e h; tclose
  | .binOp l op r, h => by
      gunfold h; obtain ⟨s, es⟩ := hs.bin op
      obtain ⟨t1, e1⟩ := total_print hs l h.1; obtain ⟨t2, e2⟩ := total_print hs r h.2; tclose
  | .boolOp op vs, h => by
      gunfold h; obtain ⟨s, es⟩ := hs.bool op
      obtain ⟨t1, e1⟩ := total_printList hs vs h; obtain ⟨t2, e2⟩ := total_printOps hs vs h; tclose
  | .compare l ops cs, h => by
      gunfold h
      obtain ⟨t1, e1⟩ := total_print hs l h.1; obtain ⟨t2, e2⟩ := total_printList hs cs h.2
      obtain ⟨t3, e3⟩ := total_printCmp hs ops cs h.2
      tclose
  | .ifExp c b o, h => by
      gunfold h
      obtain ⟨t1, e1⟩ := total_print hs c h.1.1; obtain ⟨t2, e2⟩ := total_print hs b h.1.2
      obtain ⟨t3, e3⟩ := total_print hs o h.2; tclose
  | .lambda a b, h => by
      gunfold h
      obtain ⟨t1, e1⟩ := total_printSig hs a h.1; obtain ⟨t2, e2⟩ := total_printArgsGeneric hs a h.1
      obtain ⟨t3, e3⟩ := total_print hs b h.2; tclose
  | .tuple es, h => by gunfold h; obtain ⟨t1, e1⟩ := total_printList hs es h; tclose
  | .list es, h => by gunfold h; obtain ⟨t1, e1⟩ := total_printList hs es h; tclose
  | .set es, h => by gunfold h; obtain ⟨t1, e1⟩ := total_printList hs es h; tclose
  | .dict items, h => by
      gunfold h
      obtain ⟨t1, e1⟩ := total_printDict hs items h
      obtain ⟨t2, e2⟩ := total_printDictKeys hs items h; obtain ⟨t3, e3⟩ := total_printDictValues hs items h
      tclose
  | .listComp e gs, h => by
      gunfold h; obtain ⟨t1, e1⟩ := total_print hs e h.1; obtain ⟨t2, e2⟩ := total_printComps hs gs h.2; tclose
  | .setComp e gs, h => by
      gunfold h; obtain ⟨t1, e1⟩ := total_print hs e h.1; obtain ⟨t2, e2⟩ := total_printComps hs gs h.2; tclose
  | .generatorExp e gs, h => by
      gunfold h; obtain ⟨t1, e1⟩ := total_print hs e h.1; obtain ⟨t2, e2⟩ := total_printComps hs gs h.2; tclose
  | .dictComp k v gs, h => by
      gunfold h
      obtain ⟨t1, e1⟩ := total_print hs k h.1.1; obtain ⟨t2, e2⟩ := total_print hs v h.1.2
      obtain ⟨t3, e3⟩ := total_printComps hs gs h.2; tclose
  | .joinedStr src vs, h => by gunfold h; obtain ⟨t1, e1⟩ := total_printList hs vs h; tclose
  | .formattedValue v _ spec, h => by
      gunfold h; obtain ⟨t1, e1⟩ := total_print hs v h.1; obtain ⟨t2, e2⟩ := total_printOpt hs spec h.2; tclose
  | .starred v, h => by gunfold h; obtain ⟨t1, e1⟩ := total_print hs v h; tclose
  | .namedExpr a v, h => by
      gunfold h; obtain ⟨t1, e1⟩ := total_print hs a h.1; obtain ⟨t2, e2⟩ := total_print hs v h.2; tclose
  | .await v, h => by gunfold h; obtain ⟨t1, e1⟩ := total_print hs v h; tclose
  | .yield none, h => by gunfold h; simp at h
  | .yield (some e), h => by gunfold h; obtain ⟨t1, e1⟩ := total_print hs e h.2; tclose
  | .yieldFrom v, h => by gunfold h; obtain ⟨t1, e1⟩ := total_print hs v h; tclose
theorem total_printOpt (hs : SymbolsTotal) : ∀ (o : Option Expr), allOpt totalLocal o = true → ∃ t, printOpt o = some t
  | none, _ => by tclose
  | some e, h => by gunfold h; obtain ⟨t1, e1⟩ := total_print hs e h; tclose
theorem total_printList (hs : SymbolsTotal) : ∀ (es : List Expr), allList totalLocal es = true → ∃ ts, printList es = some ts
  | [], _ => by tclose
  | e :: es, h => by
      gunfold h; obtain ⟨t1, e1⟩ := total_print hs e h.1; obtain ⟨t2, e2⟩ := total_printList hs es h.2; tclose
theorem total_printOptList (hs : SymbolsTotal) : ∀ (es : List (Option Expr)), allOptList totalLocal es = true →
    ∃ t, printOptList es = some t
  | [], _ => by tclose
  | none :: es, h => by gunfold h; obtain ⟨t2, e2⟩ := total_printOptList hs es h; tclose
  | some e :: es, h => by
      gunfold h; obtain ⟨t1, e1⟩ := total_print hs e h.1; obtain ⟨t2, e2⟩ := total_printOptList hs es h.2; tclose
theorem total_printDict (hs : SymbolsTotal) : ∀ (items : List DictItem),
    allDict totalLocal items = true → ∃ ts, printDict items = some ts
  | [], _ => by tclose
  | .mk none v :: r, h => by
      gunfold h
      obtain ⟨t2, e2⟩ := total_print hs v h.1
      obtain ⟨t3, e3⟩ := total_printDict hs r h.2; tclose
  | .mk (some k) v :: r, h => by
      gunfold h
      obtain ⟨t1, e1⟩ := total_print hs k h.1.1; obtain ⟨t2, e2⟩ := total_print hs v h.1.2
      obtain ⟨t3, e3⟩ := total_printDict hs r h.2; tclose
theorem total_printDictKeys (hs : SymbolsTotal) : ∀ (items : List DictItem), allDict totalLocal items = true →
    ∃ t, printDictKeys items = some t
  | [], _ => by tclose
  | .mk none _ :: r, h => by gunfold h; obtain ⟨t3, e3⟩ := total_printDictKeys hs r h.2; tclose
  | .mk (some k) _ :: r, h => by
      gunfold h; obtain ⟨t1, e1⟩ := total_print hs k h.1.1; obtain ⟨t3, e3⟩ := total_printDictKeys hs r h.2; tclose
theorem total_printDictValues (hs : SymbolsTotal) : ∀ (items : List DictItem), allDict totalLocal items = true →
    ∃ t, printDictValues items = some t
  | [], _ => by tclose
  | .mk none v :: r, h => by
      gunfold h; obtain ⟨t1, e1⟩ := total_print hs v h.1; obtain ⟨t3, e3⟩ := total_printDictValues hs r h.2; tclose
  | .mk (some _) v :: r, h => by
      gunfold h; obtain ⟨t1, e1⟩ := total_print hs v h.1.2; obtain ⟨t3, e3⟩ := total_printDictValues hs r h.2; tclose
theorem total_printCmp (hs : SymbolsTotal) : ∀ (ops : List CmpOp) (cs : List Expr),
    allList totalLocal cs = true → ∃ t, printCmp ops cs = some t
  | _, [], _ => by tclose
  | [], _ :: _, _ => by tclose
  | op :: ops, c :: cs, h => by
      gunfold h; obtain ⟨s, es⟩ := hs.cmp op
      obtain ⟨t1, e1⟩ := total_print hs c h.1; obtain ⟨t2, e2⟩ := total_printCmp hs ops cs h.2; tclose
theorem total_printKeywords (hs : SymbolsTotal) : ∀ (ks : List Keyword),
    allKeywords totalLocal ks = true → ∃ ts, printKeywords ks = some ts
  | [], _ => by tclose
  | .mk arg v :: ks, h => by
      gunfold h
      obtain ⟨t1, e1⟩ := total_print hs v h.1; obtain ⟨t2, e2⟩ := total_printKeywords hs ks h.2; tclose
theorem total_printOps (hs : SymbolsTotal) : ∀ (es : List Expr), allList totalLocal es = true →
    ∃ ts, printOps es = some ts
  | [], _ => by tclose
  | e :: es, h => by
      gunfold h; obtain ⟨t1, e1⟩ := total_print hs e h.1; obtain ⟨t2, e2⟩ := total_printOps hs es h.2; tclose
theorem total_printKwDefaults (hs : SymbolsTotal) : ∀ (as : List Str) (ds : List (Option Expr)),
    allOptList totalLocal ds = true → ∃ ts, printKwDefaults as ds = some ts
  | _, [], _ => by tclose
  | [], _ :: _, _ => by tclose
  | a :: as, none :: ds, h => by
      gunfold h; obtain ⟨t2, e2⟩ := total_printKwDefaults hs as ds h; tclose
  | a :: as, some d :: ds, h => by
      gunfold h
      obtain ⟨t1, e1⟩ := total_print hs d h.1; obtain ⟨t2, e2⟩ := total_printKwDefaults hs as ds h.2; tclose
theorem total_printKeywordsGeneric (hs : SymbolsTotal) : ∀ (ks : List Keyword), allKeywords totalLocal ks = true →
    ∃ t, printKeywordsGeneric ks = some t
  | [], _ => by tclose
  | .mk _ v :: ks, h => by
      gunfold h
      obtain ⟨t1, e1⟩ := total_print hs v h.1; obtain ⟨t2, e2⟩ := total_printKeywordsGeneric hs ks h.2; tclose
theorem total_printComps (hs : SymbolsTotal) : ∀ (gs : List Comp), allComps totalLocal gs = true → ∃ t, printComps gs = some t
  | [], _ => by tclose
  | .mk target iter ifs _ :: gs, h => by
      gunfold h
      obtain ⟨t1, e1⟩ := total_print hs target h.1.1.1; obtain ⟨t2, e2⟩ := total_print hs iter h.1.1.2
      obtain ⟨t3, e3⟩ := total_printList hs ifs h.1.2; obtain ⟨t4, e4⟩ := total_printComps hs gs h.2
      obtain ⟨t5, e5⟩ := total_printOps hs ifs h.1.2; tclose
theorem total_printDefaults (hs : SymbolsTotal) : ∀ (as : List Str) (ds : List Expr), allList totalLocal ds = true →
    ∃ ts, printDefaults as ds = some ts
  | _, [], _ => by tclose
  | [], _ :: _, _ => by tclose
  | a :: as, d :: ds, h => by
      gunfold h
      obtain ⟨t1, e1⟩ := total_print hs d h.1; obtain ⟨t2, e2⟩ := total_printDefaults hs as ds h.2; tclose
theorem total_printSig (hs : SymbolsTotal) : ∀ (a : Args), allArgs totalLocal a = true → ∃ ts, printSig a = some ts
  | .mk posonly args vararg kwonly kwDefaults kwarg defaults, h => by
      gunfold h
      obtain ⟨t1, e1⟩ := total_printDefaults hs
        ((posonly ++ args).drop ((posonly ++ args).length - defaults.length)) defaults h.2
      obtain ⟨t2, e2⟩ := total_printKwDefaults hs kwonly kwDefaults h.1
      simp only [printSig, e1, e2, bind, Option.bind_some, pure]
      exact ⟨_, rfl⟩
theorem total_printArgsGeneric (hs : SymbolsTotal) : ∀ (a : Args), allArgs totalLocal a = true → ∃ t, printArgsGeneric a = some t
  | .mk posonly args vararg kwonly kwDefaults kwarg defaults, h => by
      gunfold h
      obtain ⟨t1, e1⟩ := total_printOptList hs kwDefaults h.1; obtain ⟨t2, e2⟩ := total_printList hs defaults h.2; tclose
end

end MakoModel.PyExpr
