import MakoModel.Names.Scopes
/-! What one `_Identifiers` traversal (`visit`) does to each of its collections. -/
namespace MakoModel.Names

/-- `<%page>` and `<%block>` arguments of the list, through its blocks -/
def argsThrough : Body → List Name
  | .nil => []
  | .page _ a _ r => a ++ argsThrough r
  | .block _ _ _ a _ b r => a ++ argsThrough b ++ argsThrough r
  | .leaf _ _ _ r | .text _ _ r | .code _ _ _ r | .defn _ _ _ _ _ r | .call _ _ _ _ _ r => argsThrough r

/-- names of the named blocks of the list, through its blocks -/
def namedThrough : Body → List Name
  | .nil => []
  | .block _ nm _ _ _ b r => (match nm with | some n => [n] | none => []) ++ namedThrough b ++ namedThrough r
  | .leaf _ _ _ r | .text _ _ r | .code _ _ _ r | .page _ _ _ r | .defn _ _ _ _ _ r | .call _ _ _ _ _ r => namedThrough r

/-- names read by the nodes of the list, through its blocks -/
def readsThrough : Body → List Name
  | .nil => []
  | .leaf _ _ u r => u ++ readsThrough r
  | .text _ u r => u ++ readsThrough r
  | .code _ _ u r => u ++ readsThrough r
  | .page _ _ u r => u ++ readsThrough r
  | .defn _ _ _ u _ r => u ++ readsThrough r
  | .block _ _ _ _ u b r => u ++ readsThrough b ++ readsThrough r
  | .call _ _ _ u _ r => u ++ readsThrough r

section ops
variable (i : Ids) (us d a : List Name) (f : Name)

@[simp] theorem addUndecl_declared : (i.addUndecl us).declared = i.declared := rfl
@[simp] theorem addUndecl_locDecl : (i.addUndecl us).locDecl = i.locDecl := rfl
@[simp] theorem addUndecl_argDecl : (i.addUndecl us).argDecl = i.argDecl := rfl
@[simp] theorem addUndecl_topdefs : (i.addUndecl us).topdefs = i.topdefs := rfl
@[simp] theorem addUndecl_closdefs : (i.addUndecl us).closdefs = i.closdefs := rfl
@[simp] theorem addUndecl_locAssigned : (i.addUndecl us).locAssigned = i.locAssigned := rfl
theorem mem_addUndecl {x : Name} : x ∈ (i.addUndecl us).undeclared ↔
    x ∈ i.undeclared ∨ (x ∈ us ∧ x ≠ contextName ∧ x ∉ i.declared ∧ x ∉ i.locDecl) := by
  simp [Ids.addUndecl, List.mem_filter]

@[simp] theorem addLoc_declared : (i.addLoc d).declared = i.declared := rfl
@[simp] theorem addLoc_undeclared : (i.addLoc d).undeclared = i.undeclared := rfl
@[simp] theorem addLoc_locDecl : (i.addLoc d).locDecl = i.locDecl ++ d := rfl
@[simp] theorem addLoc_argDecl : (i.addLoc d).argDecl = i.argDecl := rfl
@[simp] theorem addLoc_topdefs : (i.addLoc d).topdefs = i.topdefs := rfl
@[simp] theorem addLoc_closdefs : (i.addLoc d).closdefs = i.closdefs := rfl

@[simp] theorem addAssigned_declared : (i.addAssigned d).declared = i.declared := rfl
@[simp] theorem addAssigned_undeclared : (i.addAssigned d).undeclared = i.undeclared := rfl
@[simp] theorem addAssigned_locDecl : (i.addAssigned d).locDecl = i.locDecl := rfl
@[simp] theorem addAssigned_argDecl : (i.addAssigned d).argDecl = i.argDecl := rfl
@[simp] theorem addAssigned_topdefs : (i.addAssigned d).topdefs = i.topdefs := rfl
@[simp] theorem addAssigned_closdefs : (i.addAssigned d).closdefs = i.closdefs := rfl

@[simp] theorem addArgs_declared : (i.addArgs a).declared = i.declared := rfl
@[simp] theorem addArgs_undeclared : (i.addArgs a).undeclared = i.undeclared := rfl
@[simp] theorem addArgs_locDecl : (i.addArgs a).locDecl = i.locDecl := rfl
@[simp] theorem addArgs_argDecl : (i.addArgs a).argDecl = i.argDecl ++ a := rfl
@[simp] theorem addArgs_topdefs : (i.addArgs a).topdefs = i.topdefs := rfl
@[simp] theorem addArgs_closdefs : (i.addArgs a).closdefs = i.closdefs := rfl

@[simp] theorem addTop_declared : (i.addTop f).declared = i.declared := rfl
@[simp] theorem addTop_undeclared : (i.addTop f).undeclared = i.undeclared := rfl
@[simp] theorem addTop_locDecl : (i.addTop f).locDecl = i.locDecl := rfl
@[simp] theorem addTop_argDecl : (i.addTop f).argDecl = i.argDecl := rfl
@[simp] theorem addTop_topdefs : (i.addTop f).topdefs = i.topdefs ++ [f] := rfl
@[simp] theorem addTop_closdefs : (i.addTop f).closdefs = i.closdefs := rfl

@[simp] theorem addClos_declared : (i.addClos f).declared = i.declared := rfl
@[simp] theorem addClos_undeclared : (i.addClos f).undeclared = i.undeclared := rfl
@[simp] theorem addClos_locDecl : (i.addClos f).locDecl = i.locDecl := rfl
@[simp] theorem addClos_argDecl : (i.addClos f).argDecl = i.argDecl := rfl
@[simp] theorem addClos_topdefs : (i.addClos f).topdefs = i.topdefs := rfl
@[simp] theorem addClos_closdefs : (i.addClos f).closdefs = i.closdefs ++ [f] := rfl

@[simp] theorem addUndeclRaw_declared : (i.addUndeclRaw f).declared = i.declared := rfl
@[simp] theorem addUndeclRaw_undeclared : (i.addUndeclRaw f).undeclared = i.undeclared ++ [f] := rfl
@[simp] theorem addUndeclRaw_locDecl : (i.addUndeclRaw f).locDecl = i.locDecl := rfl
@[simp] theorem addUndeclRaw_argDecl : (i.addUndeclRaw f).argDecl = i.argDecl := rfl
@[simp] theorem addUndeclRaw_topdefs : (i.addUndeclRaw f).topdefs = i.topdefs := rfl
@[simp] theorem addUndeclRaw_closdefs : (i.addUndeclRaw f).closdefs = i.closdefs := rfl
end ops

section enter
variable (i : Ids) (self : Bool) (nm : Option Name) (fn : Name) (a u : List Name)

@[simp] theorem enterBlock_declared : (i.enterBlock self nm fn a u).declared = i.declared := by
  cases nm <;> cases self <;> simp [Ids.enterBlock]
@[simp] theorem enterBlock_locDecl : (i.enterBlock self nm fn a u).locDecl = i.locDecl := by
  cases nm <;> cases self <;> simp [Ids.enterBlock]
@[simp] theorem enterBlock_argDecl : (i.enterBlock self nm fn a u).argDecl = i.argDecl ++ a := by
  cases nm <;> cases self <;> simp [Ids.enterBlock]
theorem enterBlock_topdefs : (i.enterBlock self nm fn a u).topdefs =
    i.topdefs ++ (match nm with | some n => [n] | none => []) := by
  cases nm <;> cases self <;> simp [Ids.enterBlock]
theorem enterBlock_closdefs : (i.enterBlock self nm fn a u).closdefs =
    i.closdefs ++ (match nm with | some _ => [] | none => if self then [] else [fn]) := by
  cases nm <;> cases self <;> simp [Ids.enterBlock]
theorem mem_enterBlock_undeclared {x : Name} : x ∈ (i.enterBlock self nm fn a u).undeclared ↔
    x ∈ (i.addUndecl u).undeclared ∨ nm = some x := by
  cases nm <;> cases self <;> simp [Ids.enterBlock, eq_comm]
end enter

theorem visit_declared : ∀ (b : Body) (i : Ids) (r : Bool), (visit i r b).declared = i.declared
  | .nil, _, _ => rfl
  | .leaf _ d u b, i, r => by simp [visit, Ids.checkDeclared, visit_declared b]
  | .text _ u b, i, r => by simp [visit, visit_declared b]
  | .code _ d u b, i, r => by simp [visit, Ids.checkDeclared, visit_declared b]
  | .page _ a u b, i, r => by simp [visit, Ids.checkDeclared, visit_declared b]
  | .defn _ f _ u _ b, i, r => by cases r <;> simp [visit, visit_declared b]
  | .block _ nm fn a u bb b, i, r => by simp [visit, visit_declared b, visit_declared bb]
  | .call _ _ _ u _ b, i, r => by simp [visit, visit_declared b]

theorem mem_visit_locDecl {x : Name} : ∀ (b : Body) (i : Ids) (r : Bool),
    x ∈ (visit i r b).locDecl ↔ x ∈ i.locDecl ∨ x ∈ declsThrough b
  | .nil, _, _ => by simp [visit, declsThrough]
  | .leaf _ d u b, i, r => by simp [visit, declsThrough, Ids.checkDeclared, mem_visit_locDecl b, or_assoc]
  | .text _ u b, i, r => by simp [visit, declsThrough, mem_visit_locDecl b]
  | .code _ d u b, i, r => by simp [visit, declsThrough, Ids.checkDeclared, mem_visit_locDecl b, or_assoc]
  | .page _ a u b, i, r => by simp [visit, declsThrough, Ids.checkDeclared, mem_visit_locDecl b, or_assoc]
  | .defn _ f _ u _ b, i, r => by cases r <;> simp [visit, declsThrough, mem_visit_locDecl b]
  | .block _ nm fn a u bb b, i, r => by
      simp [visit, declsThrough, mem_visit_locDecl b, mem_visit_locDecl bb, or_assoc]
  | .call _ _ _ u _ b, i, r => by simp [visit, declsThrough, mem_visit_locDecl b]

theorem mem_visit_argDecl {x : Name} : ∀ (b : Body) (i : Ids) (r : Bool),
    x ∈ (visit i r b).argDecl ↔ x ∈ i.argDecl ∨ x ∈ argsThrough b
  | .nil, _, _ => by simp [visit, argsThrough]
  | .leaf _ d u b, i, r => by simp [visit, argsThrough, Ids.checkDeclared, mem_visit_argDecl b]
  | .text _ u b, i, r => by simp [visit, argsThrough, mem_visit_argDecl b]
  | .code _ d u b, i, r => by simp [visit, argsThrough, Ids.checkDeclared, mem_visit_argDecl b]
  | .page _ a u b, i, r => by simp [visit, argsThrough, Ids.checkDeclared, mem_visit_argDecl b, or_assoc]
  | .defn _ f _ u _ b, i, r => by cases r <;> simp [visit, argsThrough, mem_visit_argDecl b]
  | .block _ nm fn a u bb b, i, r => by
      simp [visit, argsThrough, mem_visit_argDecl b, mem_visit_argDecl bb, or_assoc]
  | .call _ _ _ u _ b, i, r => by simp [visit, argsThrough, mem_visit_argDecl b]

theorem mem_visit_closdefs {x : Name} : ∀ (b : Body) (i : Ids) (r : Bool),
    x ∈ (visit i r b).closdefs ↔ x ∈ i.closdefs ∨ x ∈ closOf r b
  | .nil, _, _ => by simp [visit, closOf]
  | .leaf _ d u b, i, r => by simp [visit, closOf, Ids.checkDeclared, mem_visit_closdefs b]
  | .text _ u b, i, r => by simp [visit, closOf, mem_visit_closdefs b]
  | .code _ d u b, i, r => by simp [visit, closOf, Ids.checkDeclared, mem_visit_closdefs b]
  | .page _ a u b, i, r => by simp [visit, closOf, Ids.checkDeclared, mem_visit_closdefs b]
  | .defn _ f _ u _ b, i, r => by cases r <;> simp [visit, closOf, mem_visit_closdefs b, or_assoc]
  | .block _ nm fn a u bb b, i, r => by
      cases nm <;>
        simp [visit, closOf, mem_visit_closdefs b, mem_visit_closdefs bb, enterBlock_closdefs, or_assoc]
  | .call _ _ _ u _ b, i, r => by simp [visit, closOf, mem_visit_closdefs b]

theorem mem_visit_topdefs {x : Name} : ∀ (b : Body) (i : Ids) (r : Bool),
    x ∈ (visit i r b).topdefs ↔ x ∈ i.topdefs ∨ x ∈ topsOf r b
  | .nil, _, _ => by simp [visit, topsOf]
  | .leaf _ d u b, i, r => by simp [visit, topsOf, Ids.checkDeclared, mem_visit_topdefs b]
  | .text _ u b, i, r => by simp [visit, topsOf, mem_visit_topdefs b]
  | .code _ d u b, i, r => by simp [visit, topsOf, Ids.checkDeclared, mem_visit_topdefs b]
  | .page _ a u b, i, r => by simp [visit, topsOf, Ids.checkDeclared, mem_visit_topdefs b]
  | .defn _ f _ u _ b, i, r => by cases r <;> simp [visit, topsOf, mem_visit_topdefs b, or_assoc]
  | .block _ nm fn a u bb b, i, r => by
      cases nm <;>
        simp [visit, topsOf, mem_visit_topdefs b, mem_visit_topdefs bb, enterBlock_topdefs, or_assoc]
  | .call _ _ _ u _ b, i, r => by simp [visit, topsOf, mem_visit_topdefs b]

/-- `undeclared` only grows -/
theorem visit_undeclared_mono {x : Name} : ∀ (b : Body) (i : Ids) (r : Bool),
    x ∈ i.undeclared → x ∈ (visit i r b).undeclared
  | .nil, _, _, h => h
  | .leaf _ d u b, i, r, h => visit_undeclared_mono b _ r (by simp [Ids.checkDeclared, mem_addUndecl, h])
  | .text _ u b, i, r, h => visit_undeclared_mono b _ r (by simp [mem_addUndecl, h])
  | .code _ d u b, i, r, h => visit_undeclared_mono b _ r (by simp [Ids.checkDeclared, mem_addUndecl, h])
  | .page _ a u b, i, r, h => visit_undeclared_mono b _ r (by simp [Ids.checkDeclared, mem_addUndecl, h])
  | .defn _ f _ u _ b, i, r, h => visit_undeclared_mono b _ r (by cases r <;> simp [mem_addUndecl, h])
  | .block _ nm fn a u bb b, i, r, h =>
      visit_undeclared_mono b _ r (visit_undeclared_mono bb _ false
        (by rw [mem_enterBlock_undeclared]; exact Or.inl (by simp [mem_addUndecl, h])))
  | .call _ _ _ u _ b, i, r, h => visit_undeclared_mono b _ r (by simp [mem_addUndecl, h])

/-- a name recorded as undeclared was not declared (except the unconditional `undeclared.add(funcname)` of named blocks) -/
theorem visit_undeclared_sub {x : Name} : ∀ (b : Body) (i : Ids) (r : Bool),
    x ∈ (visit i r b).undeclared → x ∈ i.undeclared ∨ x ∉ i.declared ∨ x ∈ namedThrough b
  | .nil, _, _, h => Or.inl h
  | .leaf _ d u b, i, r, h => by
      rcases visit_undeclared_sub b _ r h with h' | h' | h'
      · simp [Ids.checkDeclared, mem_addUndecl] at h'
        rcases h' with h' | h'
        · exact Or.inl h'
        · exact Or.inr (Or.inl h'.2.2.1)
      · exact Or.inr (Or.inl (by simpa [Ids.checkDeclared] using h'))
      · exact Or.inr (Or.inr (by simpa [namedThrough] using h'))
  | .text _ u b, i, r, h => by
      rcases visit_undeclared_sub b _ r h with h' | h' | h'
      · simp [mem_addUndecl] at h'
        rcases h' with h' | h'
        · exact Or.inl h'
        · exact Or.inr (Or.inl h'.2.2.1)
      · exact Or.inr (Or.inl (by simpa using h'))
      · exact Or.inr (Or.inr (by simpa [namedThrough] using h'))
  | .code _ d u b, i, r, h => by
      rcases visit_undeclared_sub b _ r h with h' | h' | h'
      · simp [Ids.checkDeclared, mem_addUndecl] at h'
        rcases h' with h' | h'
        · exact Or.inl h'
        · exact Or.inr (Or.inl h'.2.2.1)
      · exact Or.inr (Or.inl (by simpa [Ids.checkDeclared] using h'))
      · exact Or.inr (Or.inr (by simpa [namedThrough] using h'))
  | .page _ a u b, i, r, h => by
      rcases visit_undeclared_sub b _ r h with h' | h' | h'
      · simp [Ids.checkDeclared, mem_addUndecl] at h'
        rcases h' with h' | h'
        · exact Or.inl h'
        · exact Or.inr (Or.inl h'.2.2.1)
      · exact Or.inr (Or.inl (by simpa [Ids.checkDeclared] using h'))
      · exact Or.inr (Or.inr (by simpa [namedThrough] using h'))
  | .defn _ f _ u _ b, i, r, h => by
      rcases visit_undeclared_sub b _ r h with h' | h' | h'
      · cases r <;> simp [mem_addUndecl] at h' <;>
          (rcases h' with h' | h'
           · exact Or.inl h'
           · exact Or.inr (Or.inl h'.2.2.1))
      · exact Or.inr (Or.inl (by cases r <;> simpa using h'))
      · exact Or.inr (Or.inr (by simpa [namedThrough] using h'))
  | .block _ nm fn a u bb b, i, r, h => by
      rcases visit_undeclared_sub b _ r h with h' | h' | h'
      · rcases visit_undeclared_sub bb _ false h' with h'' | h'' | h''
        · rw [mem_enterBlock_undeclared] at h''
          rcases h'' with h'' | h''
          · simp [mem_addUndecl] at h''
            rcases h'' with h'' | h''
            · exact Or.inl h''
            · exact Or.inr (Or.inl h''.2.2.1)
          · exact Or.inr (Or.inr (by simp [namedThrough, h'']))
        · exact Or.inr (Or.inl (by simpa using h''))
        · exact Or.inr (Or.inr (by simp [namedThrough, h'']))
      · exact Or.inr (Or.inl (by simpa [visit_declared] using h'))
      · exact Or.inr (Or.inr (by simp [namedThrough, h']))
  | .call _ _ _ u _ b, i, r, h => by
      rcases visit_undeclared_sub b _ r h with h' | h' | h'
      · simp [mem_addUndecl] at h'
        rcases h' with h' | h'
        · exact Or.inl h'
        · exact Or.inr (Or.inl h'.2.2.1)
      · exact Or.inr (Or.inl (by simpa using h'))
      · exact Or.inr (Or.inr (by simpa [namedThrough] using h'))

theorem visit_locDecl_mono {x : Name} (b : Body) (i : Ids) (r : Bool) (h : x ∈ i.locDecl) : x ∈ (visit i r b).locDecl :=
  (mem_visit_locDecl b i r).mpr (Or.inl h)

/-- every name read by the list is accounted for -/
theorem visit_reads {x : Name} : ∀ (b : Body) (i : Ids) (r : Bool), x ∈ readsThrough b → x ≠ contextName →
    x ∈ i.declared ∨ x ∈ (visit i r b).locDecl ∨ x ∈ (visit i r b).undeclared := by
  have step : ∀ (i : Ids) (u : List Name), x ∈ u → x ≠ contextName →
      x ∈ i.declared ∨ x ∈ i.locDecl ∨ x ∈ (i.addUndecl u).undeclared := by
    intro i u hu hx
    by_cases h1 : x ∈ i.declared
    · exact Or.inl h1
    · by_cases h2 : x ∈ i.locDecl
      · exact Or.inr (Or.inl h2)
      · exact Or.inr (Or.inr (by simp [mem_addUndecl, hu, hx, h1, h2]))
  intro b
  induction b with
  | nil => intro i r h; simp [readsThrough] at h
  | leaf _ d u b ih =>
    intro i r h hx
    simp only [readsThrough, List.mem_append] at h
    simp only [visit]
    rcases h with h | h
    · rcases step i u h hx with h' | h' | h'
      · exact Or.inl h'
      · exact Or.inr (Or.inl (visit_locDecl_mono b _ r (by simp [Ids.checkDeclared, h'])))
      · exact Or.inr (Or.inr (visit_undeclared_mono b _ r (by simpa [Ids.checkDeclared] using h')))
    · simpa [Ids.checkDeclared] using ih (i.checkDeclared d u) r h hx
  | text _ u b ih =>
    intro i r h hx
    simp only [readsThrough, List.mem_append] at h
    simp only [visit]
    rcases h with h | h
    · rcases step i u h hx with h' | h' | h'
      · exact Or.inl h'
      · exact Or.inr (Or.inl (visit_locDecl_mono b _ r (by simp [h'])))
      · exact Or.inr (Or.inr (visit_undeclared_mono b _ r h'))
    · simpa using ih (i.addUndecl u) r h hx
  | code _ d u b ih =>
    intro i r h hx
    simp only [readsThrough, List.mem_append] at h
    simp only [visit]
    rcases h with h | h
    · rcases step i u h hx with h' | h' | h'
      · exact Or.inl h'
      · exact Or.inr (Or.inl (visit_locDecl_mono b _ r (by simp [Ids.checkDeclared, h'])))
      · exact Or.inr (Or.inr (visit_undeclared_mono b _ r (by simpa [Ids.checkDeclared] using h')))
    · simpa [Ids.checkDeclared] using ih ((i.checkDeclared d u).addAssigned d) r h hx
  | page _ a u b ih =>
    intro i r h hx
    simp only [readsThrough, List.mem_append] at h
    simp only [visit]
    rcases h with h | h
    · rcases step (i.addArgs a) u h hx with h' | h' | h'
      · exact Or.inl (by simpa using h')
      · exact Or.inr (Or.inl (visit_locDecl_mono b _ r (by simp [Ids.checkDeclared]; exact Or.inl (by simpa using h'))))
      · exact Or.inr (Or.inr (visit_undeclared_mono b _ r (by simpa [Ids.checkDeclared] using h')))
    · simpa [Ids.checkDeclared] using ih ((i.addArgs a).checkDeclared a u) r h hx
  | defn _ f _ u _ b _ ih =>
    intro i r h hx
    simp only [readsThrough, List.mem_append] at h
    simp only [visit]
    rcases h with h | h
    · rcases step (if r then i.addTop f else i.addClos f) u h hx with h' | h' | h'
      · exact Or.inl (by cases r <;> simpa using h')
      · exact Or.inr (Or.inl (visit_locDecl_mono b _ r (by cases r <;> simpa using h')))
      · exact Or.inr (Or.inr (visit_undeclared_mono b _ r h'))
    · have := ih ((if r then i.addTop f else i.addClos f).addUndecl u) r h hx
      cases r <;> simpa using this
  | block _ nm fn a u bb b ihb ih =>
    intro i r h hx
    simp only [readsThrough, List.mem_append] at h
    simp only [visit]
    rcases h with (h | h) | h
    · rcases step i u h hx with h' | h' | h'
      · exact Or.inl h'
      · exact Or.inr (Or.inl (visit_locDecl_mono b _ r (visit_locDecl_mono bb _ false (by simpa using h'))))
      · exact Or.inr (Or.inr (visit_undeclared_mono b _ r (visit_undeclared_mono bb _ false
          (by rw [mem_enterBlock_undeclared]; exact Or.inl h'))))
    · rcases ihb (i.enterBlock false nm fn a u) false h hx with h' | h' | h'
      · exact Or.inl (by simpa using h')
      · exact Or.inr (Or.inl (visit_locDecl_mono b _ r h'))
      · exact Or.inr (Or.inr (visit_undeclared_mono b _ r h'))
    · simpa [visit_declared] using ih (visit (i.enterBlock false nm fn a u) false bb) r h hx
  | call _ _ _ u _ b _ ih =>
    intro i r h hx
    simp only [readsThrough, List.mem_append] at h
    simp only [visit]
    rcases h with h | h
    · rcases step i u h hx with h' | h' | h'
      · exact Or.inl h'
      · exact Or.inr (Or.inl (visit_locDecl_mono b _ r (by simpa using h')))
      · exact Or.inr (Or.inr (visit_undeclared_mono b _ r h'))
    · simpa using ih (i.addUndecl u) r h hx

end MakoModel.Names
