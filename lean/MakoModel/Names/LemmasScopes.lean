import MakoModel.Names.LemmasFrames
/-! Every scope the generator writes for a guarded template has a closure chain satisfying `ChainOK`, and the
names it reads are available in it. -/
namespace MakoModel.Names

def ScopeOK (c : Cfg) (T : List Name) (s : Scope) : Prop :=
  ChainOK c T s.frames ∧ ∀ x ∈ readsOf s.body, x ≠ contextName → Avail c s.frames x

theorem callDefsIn_nil (c : Cfg) (mods : Ids) (inDef useCD : Bool) (cal : Ids) (ccD : Frame) (rest : List Frame)
    (path : List PathEl) : ∀ (b : Body), callDefNames b = [] → callDefsIn c mods inDef useCD cal ccD rest path b = []
  | .nil, _ => by simp [callDefsIn]
  | .leaf _ _ _ r, h => by simpa [callDefsIn] using callDefsIn_nil c mods inDef useCD cal ccD rest path r (by simpa [callDefNames] using h)
  | .text _ _ r, h => by simpa [callDefsIn] using callDefsIn_nil c mods inDef useCD cal ccD rest path r (by simpa [callDefNames] using h)
  | .code _ _ _ r, h => by simpa [callDefsIn] using callDefsIn_nil c mods inDef useCD cal ccD rest path r (by simpa [callDefNames] using h)
  | .page _ _ _ r, h => by simpa [callDefsIn] using callDefsIn_nil c mods inDef useCD cal ccD rest path r (by simpa [callDefNames] using h)
  | .defn _ _ _ _ _ _, h => by simp [callDefNames] at h
  | .block _ _ _ _ _ _ _, h => by simp [callDefNames] at h
  | .call _ _ _ _ b r, h => by
      simp only [callDefNames, List.append_eq_nil_iff] at h
      by_cases hf : Generated.Names.callDefsDescendCalls = true
      · simp only [hf, if_true] at h
        simp [callDefsIn, hf, callDefsIn_nil c mods inDef useCD cal ccD rest path b h.1,
          callDefsIn_nil c mods inDef useCD cal ccD rest path r h.2]
      · simp [callDefsIn, hf, callDefsIn_nil c mods inDef useCD cal ccD rest path r h.2]

/-- start state of a `<%def>`'s own `_Identifiers` -/
theorem defStart_und (i : Ids) (u a : List Name) : ∀ x ∈ ((i.addUndecl u).addArgs a).undeclared, i.undeclared = [] →
    x ∉ ((i.addUndecl u).addArgs a).declared := by
  intro x hx h0
  simp only [addArgs_undeclared, mem_addUndecl, h0, List.not_mem_nil, false_or] at hx
  simpa using hx.2.2.1

theorem branch_locDecl (p : Ids) (n : Bool) : (p.branch n).locDecl = [] := rfl
theorem branch_closdefs (p : Ids) (n : Bool) : (p.branch n).closdefs = [] := rfl
theorem branch_undeclared (p : Ids) (n : Bool) : (p.branch n).undeclared = [] := rfl
theorem branch_argDecl (p : Ids) (n : Bool) : (p.branch n).argDecl = [] := rfl
theorem branch_topdefs (p : Ids) (n : Bool) : (p.branch n).topdefs = p.topdefs := rfl

/-- a scope whose `_Identifiers` is `visit i0 false b` for a start state `i0` derived from a `branch` -/
theorem scope_of_visit {c : Cfg} {T : List Name} {i0 : Ids} {b : Body} {params : List Name} {ul : Bool} {rest : List Frame}
    (hrest : ChainOK c T rest)
    (h0loc : i0.locDecl = []) (h0clos : i0.closdefs = [])
    (h0und : ∀ x ∈ i0.undeclared, x ∉ i0.declared)
    (h0tops : ∀ x, x ∈ i0.topdefs ↔ x ∈ T)
    (hnamed : ∀ x ∈ namedThrough b, x ∉ i0.declared) (htops : ∀ x ∈ topsOf false b, x ∈ T)
    (hlist : listOK false b = true) (hloop : loopOK c (closOf false b) = true)
    (hp : ∀ x, x ∈ params ↔ x ∈ i0.argDecl)
    (hfwd : ∀ x, x ∈ i0.declared → Avail c rest x) (hback : ∀ x, Avail c rest x → x ∈ i0.declared) :
    let fr : Frame := { ids := visit i0 false b, params, own := ownOf b, defs := closOf false b, useLocals := ul }
    FrameOK c T fr ∧ ChainOK c T (fr :: rest) ∧ (∀ x ∈ readsOf b, x ≠ contextName → Avail c (fr :: rest) x) := by
  intro fr
  have hpg := (listOK_spec (x := []) b false hlist).2.2 rfl
  have hF : FrameOK c T fr := frameOK_visit h0loc h0clos h0und (fun x => (h0tops x).mp) (fun x => (h0tops x).mpr) hlist
    hnamed htops hloop (by intro x; simp [hp x, hpg])
  refine ⟨hF, ChainOK.frame hrest hF ?_ ?_, reads_avail hF ?_⟩
  · intro x hx
    exact Or.inl (hfwd x (by simpa [fr, visit_declared] using hx))
  · intro x hx
    show x ∈ (visit i0 false b).declared
    rw [visit_declared]
    exact hback x hx
  · intro x hx hne
    have := visit_reads b i0 false (readsOf_sub_through b x hx) hne
    simpa [fr, visit_declared] using this

/-- the same with extra arguments appended afterwards (`**pageargs` of a named block) -/
theorem scope_of_visit_extra {c : Cfg} {T : List Name} {i0 : Ids} {b : Body} {params : List Name} {ul : Bool} {rest : List Frame}
    (e : List Name)
    (hrest : ChainOK c T rest)
    (h0loc : i0.locDecl = []) (h0clos : i0.closdefs = [])
    (h0und : ∀ x ∈ i0.undeclared, x ∉ i0.declared)
    (h0tops : ∀ x, x ∈ i0.topdefs ↔ x ∈ T)
    (hnamed : ∀ x ∈ namedThrough b, x ∉ i0.declared) (htops : ∀ x ∈ topsOf false b, x ∈ T)
    (hlist : listOK false b = true) (hloop : loopOK c (closOf false b) = true)
    (hp : ∀ x, x ∈ params ↔ x ∈ i0.argDecl)
    (hfwd : ∀ x, x ∈ i0.declared → Avail c rest x) (hback : ∀ x, Avail c rest x → x ∈ i0.declared) :
    let fr : Frame := { ids := (visit i0 false b).addArgs e, params := params ++ e, own := ownOf b, defs := closOf false b,
                        useLocals := ul }
    FrameOK c T fr ∧ ChainOK c T (fr :: rest) ∧ (∀ x ∈ readsOf b, x ≠ contextName → Avail c (fr :: rest) x) := by
  intro fr
  have base := scope_of_visit (ul := ul) hrest h0loc h0clos h0und h0tops hnamed htops hlist hloop hp hfwd hback
  have hF : FrameOK c T fr := base.1.addArgs e
  refine ⟨hF, ChainOK.frame hrest hF ?_ ?_, reads_avail hF ?_⟩
  · intro x hx
    exact Or.inl (hfwd x (by simpa [fr, visit_declared] using hx))
  · intro x hx
    show x ∈ ((visit i0 false b).addArgs e).declared
    rw [addArgs_declared, visit_declared]
    exact hback x hx
  · intro x hx hne
    have := visit_reads b i0 false (readsOf_sub_through b x hx) hne
    simpa [fr, visit_declared] using this

mutual
theorem scopesIn_ok {c : Cfg} {T : List Name} {mods : Ids} (hm : ModsOK c T mods) :
    ∀ (b : Body) (named inDef useLoc emitTop : Bool) (fr : Frame) (rest : List Frame) (path : List PathEl) (own root : Bool),
      ChainOK c T (fr :: rest) → FrameOK c T fr → good c named b = true → (∀ x ∈ topsOf root b, x ∈ T) →
      ∀ s ∈ scopesIn c mods inDef useLoc emitTop fr rest path own root b, ScopeOK c T s
  | .nil, _, _, _, _, _, _, _, _, _, _, _, _, _ => by simp [scopesIn]
  | .leaf _ _ _ r, named, inDef, useLoc, emitTop, fr, rest, path, own, root, hch, hfr, hg, ht => by
      simpa [scopesIn] using scopesIn_ok hm r named inDef useLoc emitTop fr rest path own root hch hfr (by simpa [good] using hg)
        (by simpa [topsOf] using ht)
  | .text _ _ r, named, inDef, useLoc, emitTop, fr, rest, path, own, root, hch, hfr, hg, ht => by
      simpa [scopesIn] using scopesIn_ok hm r named inDef useLoc emitTop fr rest path own root hch hfr (by simpa [good] using hg)
        (by simpa [topsOf] using ht)
  | .code _ _ _ r, named, inDef, useLoc, emitTop, fr, rest, path, own, root, hch, hfr, hg, ht => by
      simpa [scopesIn] using scopesIn_ok hm r named inDef useLoc emitTop fr rest path own root hch hfr (by simpa [good] using hg)
        (by simpa [topsOf] using ht)
  | .page _ _ _ r, named, inDef, useLoc, emitTop, fr, rest, path, own, root, hch, hfr, hg, ht => by
      simpa [scopesIn] using scopesIn_ok hm r named inDef useLoc emitTop fr rest path own root hch hfr (by simpa [good] using hg)
        (by simpa [topsOf] using ht)
  | .defn t f a u b r, named, inDef, useLoc, emitTop, fr, rest, path, own, root, hch, hfr, hg, ht => by
      simp only [good, Bool.and_eq_true] at hg
      obtain ⟨⟨⟨hgb, hlb⟩, hloopb⟩, hgr⟩ := hg
      have htr : ∀ x ∈ topsOf root r, x ∈ T := fun x hx => ht x (by simp [topsOf, hx])
      have hrec := scopesIn_ok hm r named inDef useLoc emitTop fr rest path own root hch hfr hgr htr
      have hn := good_false_named c b hgb
      intro s hs
      simp only [scopesIn, List.mem_append] at hs
      rcases hs with hs | hs
      · cases root with
        | true =>
          simp only [if_true, List.mem_cons] at hs
          have hfT : f ∈ T := ht f (by simp [topsOf])
          have key := scope_of_visit (c := c) (T := T) (b := b) (params := a) (ul := false) (rest := [])
            (i0 := (((mods.branch false).addTop f).addUndecl u).addArgs a) ChainOK.nil rfl rfl
            (by
              intro x hx
              simp only [addArgs_undeclared, mem_addUndecl, addTop_undeclared, branch_undeclared, List.not_mem_nil, false_or] at hx
              simpa using hx.2.2.1)
            (by
              intro x
              simp only [addArgs_topdefs, addUndecl_topdefs, addTop_topdefs, branch_topdefs, List.mem_append, List.mem_singleton]
              constructor
              · rintro (h | h)
                · exact (hm.tops x).mp h
                · exact h ▸ hfT
              · exact fun h => Or.inl ((hm.tops x).mpr h))
            (by simp [hn.2]) (by simp [hn.1]) hlb hloopb (by intro x; simp [branch_argDecl])
            (by
              intro x hx
              simp only [addArgs_declared, addUndecl_declared, addTop_declared] at hx
              exact (mem_branch_false_mods hm x).mp hx)
            (by
              intro x hx
              simp only [addArgs_declared, addUndecl_declared, addTop_declared]
              exact (mem_branch_false_mods hm x).mpr hx)
          rcases hs with rfl | hs
          · exact ⟨key.2.1, key.2.2⟩
          · exact scopesIn_ok hm b false true false false _ [] _ true false key.2.1 key.1 hgb (by simp [hn.1]) s hs
        | false =>
          simp only [Bool.false_eq_true, if_false] at hs
          by_cases hw : f ∈ toWrite c fr.ids none
          · simp only [hw, if_true, List.mem_cons] at hs
            have lk := link_nested rest hfr
            have key := scope_of_visit (c := c) (T := T) (b := b) (params := a) (ul := useLoc) (rest := fr :: rest)
              (i0 := ((fr.ids.branch true).addUndecl u).addArgs a) hch rfl rfl
              (by
                intro x hx
                simp only [addArgs_undeclared, mem_addUndecl, branch_undeclared, List.not_mem_nil, false_or] at hx
                simpa using hx.2.2.1)
              (by intro x; simpa [branch_topdefs] using hfr.tops x)
              (by simp [hn.2]) (by simp [hn.1]) hlb hloopb (by intro x; simp [branch_argDecl])
              (by intro x hx; exact lk.1 x (by simpa using hx))
              (by intro x hx; simpa using lk.2 x hx)
            rcases hs with rfl | hs
            · exact ⟨key.2.1, key.2.2⟩
            · exact scopesIn_ok hm b false inDef useLoc false _ (fr :: rest) _ true false key.2.1 key.1 hgb (by simp [hn.1]) s hs
          · simp [hw] at hs
      · exact hrec s hs
  | .block t nm fn a u b r, named, inDef, useLoc, emitTop, fr, rest, path, own, root, hch, hfr, hg, ht => by
      simp only [good, Bool.and_eq_true] at hg
      obtain ⟨⟨⟨⟨hnm, hgb⟩, hlb⟩, hloopb⟩, hgr⟩ := hg
      have htr : ∀ x ∈ topsOf root r, x ∈ T := fun x hx => ht x (by simp [topsOf, hx])
      have htb : ∀ x ∈ topsOf false b, x ∈ T := fun x hx => ht x (by simp [topsOf, hx])
      have hrec := scopesIn_ok hm r named inDef useLoc emitTop fr rest path own root hch hfr hgr htr
      have hvia := scopesIn_ok hm b (named && nm.isSome) inDef useLoc emitTop fr rest path false false hch hfr hgb htb
      intro s hs
      simp only [scopesIn, List.mem_append] at hs
      rcases hs with (hs | hs) | hs
      · cases nm with
        | none =>
          simp only at hs
          have hgb' : good c false b = true := by simpa using hgb
          have hn := good_false_named c b hgb'
          by_cases hw : fn ∈ toWrite c fr.ids none
          · simp only [hw, if_true, List.mem_cons] at hs
            have lk := link_nested rest hfr
            have key := scope_of_visit (c := c) (T := T) (b := b) (params := a) (ul := useLoc) (rest := fr :: rest)
              (i0 := (fr.ids.branch true).enterBlock true none fn a u) hch (by simp [branch_locDecl])
              (by simp [enterBlock_closdefs, branch_closdefs])
              (by
                intro x hx
                rw [mem_enterBlock_undeclared] at hx
                simp only [mem_addUndecl, branch_undeclared, List.not_mem_nil, false_or, reduceCtorEq, or_false] at hx
                simpa using hx.2.2.1)
              (by intro x; simpa [enterBlock_topdefs, branch_topdefs] using hfr.tops x)
              (by simp [hn.2]) (by simp [hn.1]) hlb hloopb (by intro x; simp [branch_argDecl])
              (by intro x hx; exact lk.1 x (by simpa using hx))
              (by intro x hx; simpa using lk.2 x hx)
            rcases hs with rfl | hs
            · exact ⟨key.2.1, key.2.2⟩
            · exact scopesIn_ok hm b false inDef useLoc false _ (fr :: rest) _ true false key.2.1 key.1 hgb' (by simp [hn.1]) s hs
          · simp [hw] at hs
        | some n =>
          simp only at hs
          simp only [Bool.and_eq_true, decide_eq_true_eq] at hnm
          have hgb' : good c named b = true := by simpa using hgb
          cases emitTop with
          | false => simp at hs
          | true =>
            simp only [if_true, List.mem_cons] at hs
            have hnT : n ∈ T := ht n (by simp [topsOf])
            have key := scope_of_visit_extra (c := c) (T := T) (b := b) (params := a) (ul := false) (rest := [])
              (i0 := (mods.branch false).enterBlock true (some n) fn a u) [pageargsName] ChainOK.nil (by simp [branch_locDecl])
              (by simp [enterBlock_closdefs, branch_closdefs])
              (by
                intro x hx
                rw [mem_enterBlock_undeclared] at hx
                simp only [enterBlock_declared]
                rcases hx with hx | hx
                · simp only [mem_addUndecl, branch_undeclared, List.not_mem_nil, false_or] at hx
                  exact hx.2.2.1
                · simp only [Option.some.injEq] at hx
                  subst hx
                  exact fun h' => hnm.2 ((mem_branch_false_mods hm n).mp h'))
              (by
                intro x
                simp only [enterBlock_topdefs, branch_topdefs, List.mem_append, List.mem_singleton]
                constructor
                · rintro (h | h)
                  · exact (hm.tops x).mp h
                  · exact h ▸ hnT
                · exact fun h => Or.inl ((hm.tops x).mpr h))
              (by
                intro x hx h'
                simp only [enterBlock_declared] at h'
                exact good_named_fresh c named b hgb' x hx ((mem_branch_false_mods hm x).mp h'))
              htb hlb hloopb (by intro x; simp [branch_argDecl])
              (by
                intro x hx
                simp only [enterBlock_declared] at hx
                exact (mem_branch_false_mods hm x).mp hx)
              (by
                intro x hx
                simp only [enterBlock_declared]
                exact (mem_branch_false_mods hm x).mpr hx)
            rcases hs with rfl | hs
            · exact ⟨key.2.1, key.2.2⟩
            · exact scopesIn_ok hm b named true false false _ [] _ true false key.2.1 key.1 hgb' htb s hs
      · exact hvia s hs
      · exact hrec s hs
  | .call t args d u b r, named, inDef, useLoc, emitTop, fr, rest, path, own, root, hch, hfr, hg, ht => by
      simp only [good, Bool.and_eq_true, Bool.or_eq_true, decide_eq_true_eq, List.isEmpty_iff] at hg
      obtain ⟨⟨⟨⟨⟨⟨⟨⟨hgb, hlb⟩, hloopb⟩, hcmod⟩, hdsub⟩, hasub⟩, hcdsub⟩, hdefs⟩, hgr⟩ := hg
      have htr : ∀ x ∈ topsOf root r, x ∈ T := fun x hx => ht x (by simp [topsOf, hx])
      have hrec := scopesIn_ok hm r named inDef useLoc emitTop fr rest path own root hch hfr hgr htr
      intro s hs
      simp only [scopesIn, List.mem_append] at hs
      rcases hs with hs | hs
      · cases own with
        | false => simp at hs
        | true =>
          simp only [if_true, List.mem_append, List.mem_singleton] at hs
          have hn := good_false_named c b hgb
          have hl := fun x => listOK_spec (x := x) b false hlb
          have hpg : pageArgsOf b = [] := (hl []).2.2 rfl
          have lk := link_nested rest hfr
          -- facts about `callable_identifiers`
          have hcal_decl : (callableIds fr.ids d u b).declared = (fr.ids.branch true).declared := by
            simp [callableIds, visitCallSelf, visit_declared]
          have hcal_clos : ∀ x, x ∈ (callableIds fr.ids d u b).closdefs ↔ x ∈ closOf false b := by
            intro x; simp [callableIds, visitCallSelf, mem_visit_closdefs, branch_closdefs]
          have hcal_loc : ∀ x, x ∈ (callableIds fr.ids d u b).locDecl ↔ x ∈ declsThrough b := by
            intro x; simp [callableIds, visitCallSelf, mem_visit_locDecl, branch_locDecl]
          have hcal_arg : ∀ x, x ∈ (callableIds fr.ids d u b).argDecl ↔ x ∈ d := by
            intro x
            simp [callableIds, visitCallSelf, mem_visit_argDecl, branch_argDecl, (hl x).2.1, hpg]
          have hcal_tops : ∀ x, x ∈ (callableIds fr.ids d u b).topdefs ↔ x ∈ T := by
            intro x
            simp [callableIds, visitCallSelf, mem_visit_topdefs, branch_topdefs, hn.1, hfr.tops x]
          have hbr : ∀ x, x ∈ ((callableIds fr.ids d u b).branch false).declared ↔
              x ∈ (fr.ids.branch true).declared ∨ x ∈ closOf false b ∨ x ∈ declsThrough b ∨ x ∈ d := by
            intro x
            simp only [Ids.branch, Bool.false_eq_true, if_false, List.append_nil, List.mem_append, hcal_decl, hcal_clos x,
              hcal_loc x, hcal_arg x]
            simp only [Ids.branch, if_true, List.mem_append, or_assoc]
          -- the two synthetic `ccall` frames
          have hflag : Generated.Names.callDefsDropCaller = true := by decide
          have hccB : ChainOK c T ({ ccall := true, params := [callerName], defs := callDefNames b } :: fr :: rest) :=
            ChainOK.ccall hch rfl rfl (by simp)
          have hccD : ChainOK c T ({ ccall := true, defs := callDefNames b, blocks := [callerName] } :: fr :: rest) :=
            ChainOK.ccall hch rfl rfl (by intro x hx; simp at hx; subst hx; exact hcmod)
          have hbrD : ∀ x, x ∈ (({ (callableIds fr.ids d u b) with
                declared := (callableIds fr.ids d u b).declared.filter (fun x => decide (x ≠ callerName)) } : Ids).branch false).declared ↔
              (x ∈ (fr.ids.branch true).declared ∧ x ≠ callerName) ∨ x ∈ closOf false b ∨ x ∈ declsThrough b ∨ x ∈ d := by
            intro x
            simp only [Ids.branch, Bool.false_eq_true, if_false, List.append_nil, List.mem_append, List.mem_filter,
              decide_eq_true_eq, hcal_decl, hcal_clos x, hcal_loc x, hcal_arg x]
            simp only [Ids.branch, if_true, List.mem_append, or_assoc]
          -- the frame of `body()`
          have hF0 := frameOK_visit (c := c) (T := T) (b := b) (root := false) (params := args)
            (ul := !inDef && (!fr.ids.locAssigned.isEmpty || !fr.ids.argDecl.isEmpty))
            (i0 := (((callableIds fr.ids d u b).branch false).addUndecl u).addArgs d) rfl rfl
            (by
              intro x hx
              simp only [addArgs_undeclared, mem_addUndecl, branch_undeclared, List.not_mem_nil, false_or] at hx
              simpa using hx.2.2.1)
            (by intro x hx; exact (hcal_tops x).mp (by simpa [branch_topdefs] using hx))
            (by intro x hx; simpa [branch_topdefs] using (hcal_tops x).mpr hx)
            hlb (by simp [hn.2]) (by simp [hn.1]) hloopb
            (by
              intro x
              simp only [addArgs_argDecl, addUndecl_argDecl, branch_argDecl, List.nil_append, hpg, List.not_mem_nil, or_false]
              exact ⟨hasub x, hdsub x⟩)
          have hFB := hF0.callBody callerName (fun f => decide (f ∉ callDefNames b))
          have hBdecl : ∀ x, x ∈ (callBodyIds fr.ids d u b).declared ↔
              x ∈ ((callableIds fr.ids d u b).branch false).declared ∨ x = callerName := by
            intro x
            simp [callBodyIds, Ids.addDeclared, visitCallSelf, visit_declared]
          have hchB : ChainOK c T (({ ids := callBodyIds fr.ids d u b, params := args, own := ownOf b, defs := (closOf false b).filter (fun f => decide (f ∉ callDefNames b)), useLocals := !inDef && (!fr.ids.locAssigned.isEmpty || !fr.ids.argDecl.isEmpty) } : Frame) ::
              ({ ccall := true, params := [callerName], defs := callDefNames b } : Frame) :: fr :: rest) := by
            refine ChainOK.frame hccB hFB ?_ ?_
            · intro x hx
              have hx' := (hBdecl x).mp hx
              rcases hx' with hx' | hx'
              · rcases (hbr x).mp hx' with h | h | h | h
                · exact Or.inl (by simp only [Avail, if_true]; exact Or.inr (Or.inr ⟨by simp, lk.1 x h⟩))
                · by_cases hcd : x ∈ callDefNames b
                  · exact Or.inl (by simp only [Avail, if_true]; exact Or.inr (Or.inl hcd))
                  · exact Or.inr (Or.inr (Or.inr (by simp [List.mem_filter, h, hcd])))
                · exact Or.inr (Or.inl (by
                    simp [callBodyIds, Ids.addDeclared, visitCallSelf, mem_visit_locDecl, branch_locDecl, h]))
                · exact Or.inr (Or.inr (Or.inl (by
                    simp [callBodyIds, Ids.addDeclared, visitCallSelf, mem_visit_argDecl, branch_argDecl, h])))
              · exact Or.inl (by simp only [Avail, if_true]; exact Or.inl (by simp [hx']))
            · intro x hx
              simp only [Avail, if_true] at hx
              apply (hBdecl x).mpr
              rcases hx with hx | hx | hx
              · exact Or.inr (by simpa using hx)
              · exact Or.inl ((hbr x).mpr (Or.inr (Or.inl (hcdsub x hx))))
              · exact Or.inl ((hbr x).mpr (Or.inl (lk.2 x hx.2)))
          have hreadsB : ∀ x ∈ readsOf b, x ≠ contextName →
              x ∈ (callBodyIds fr.ids d u b).declared ∨ x ∈ (callBodyIds fr.ids d u b).locDecl ∨
                x ∈ (callBodyIds fr.ids d u b).undeclared := by
            intro x hx hne
            have := visit_reads b ((((callableIds fr.ids d u b).branch false).addUndecl u).addArgs d) false
              (readsOf_sub_through b x hx) hne
            rcases this with h | h | h
            · exact Or.inl ((hBdecl x).mpr (Or.inl (by simpa using h)))
            · exact Or.inr (Or.inl (by simpa [callBodyIds, Ids.addDeclared, visitCallSelf] using h))
            · by_cases hc : x = callerName
              · exact Or.inl ((hBdecl x).mpr (Or.inr hc))
              · exact Or.inr (Or.inr (by
                  simp only [callBodyIds, Ids.addDeclared, visitCallSelf, List.mem_filter, decide_eq_true_eq]
                  exact ⟨h, hc⟩))
          rcases hs with (hs | hs) | hs
          · -- defs of the call
            by_cases hcd : callDefNames b = []
            · rw [callDefsIn_nil _ _ _ _ _ _ _ _ b hcd] at hs
              simp at hs
            · have hdf := hdefs.resolve_left hcd
              obtain ⟨⟨hd0, hdt0⟩, hclsub⟩ := hdf
              simp only [hflag, if_true] at hs
              refine callDefsIn_ok hm b inDef _ ({ (callableIds fr.ids d u b) with
                declared := (callableIds fr.ids d u b).declared.filter (fun x => decide (x ≠ callerName)) } : Ids) _ (fr :: rest) _
                hccD hgb ?_ ?_ (fun x => hcal_tops x) s hs
              · intro x hx
                simp only [Avail, if_true]
                rcases (hbrD x).mp hx with h | h | h | h
                · exact Or.inr (Or.inr ⟨by simpa using h.2, lk.1 x h.1⟩)
                · exact Or.inr (Or.inl (hclsub x h))
                · simp [hdt0] at h
                · simp [hd0] at h
              · intro x hx
                simp only [Avail, if_true] at hx
                rcases hx with hx | hx | hx
                · simp at hx
                · exact (hbrD x).mpr (Or.inr (Or.inl (hcdsub x hx)))
                · exact (hbrD x).mpr (Or.inl ⟨lk.2 x hx.2, by simpa using hx.1⟩)
          · subst hs
            exact ⟨hchB, reads_avail hFB hreadsB⟩
          · exact scopesIn_ok hm b false inDef _ false _ _ _ true false hchB hFB hgb (by simp [hn.1]) s hs
      · exact hrec s hs

theorem callDefsIn_ok {c : Cfg} {T : List Name} {mods : Ids} (hm : ModsOK c T mods) :
    ∀ (b : Body) (inDef useCD : Bool) (cal : Ids) (ccD : Frame) (rest : List Frame) (path : List PathEl),
      ChainOK c T (ccD :: rest) → good c false b = true →
      (∀ x, x ∈ (cal.branch false).declared → Avail c (ccD :: rest) x) →
      (∀ x, Avail c (ccD :: rest) x → x ∈ (cal.branch false).declared) →
      (∀ x, x ∈ cal.topdefs ↔ x ∈ T) →
      ∀ s ∈ callDefsIn c mods inDef useCD cal ccD rest path b, ScopeOK c T s
  | .nil, _, _, _, _, _, _, _, _, _, _, _ => by simp [callDefsIn]
  | .leaf _ _ _ r, inDef, useCD, cal, ccD, rest, path, hch, hg, hA, hB, hT => by
      simpa [callDefsIn] using callDefsIn_ok hm r inDef useCD cal ccD rest path hch (by simpa [good] using hg) hA hB hT
  | .text _ _ r, inDef, useCD, cal, ccD, rest, path, hch, hg, hA, hB, hT => by
      simpa [callDefsIn] using callDefsIn_ok hm r inDef useCD cal ccD rest path hch (by simpa [good] using hg) hA hB hT
  | .code _ _ _ r, inDef, useCD, cal, ccD, rest, path, hch, hg, hA, hB, hT => by
      simpa [callDefsIn] using callDefsIn_ok hm r inDef useCD cal ccD rest path hch (by simpa [good] using hg) hA hB hT
  | .page _ _ _ r, inDef, useCD, cal, ccD, rest, path, hch, hg, hA, hB, hT => by
      simpa [callDefsIn] using callDefsIn_ok hm r inDef useCD cal ccD rest path hch (by simpa [good] using hg) hA hB hT
  | .defn t f a u b r, inDef, useCD, cal, ccD, rest, path, hch, hg, hA, hB, hT => by
      simp only [good, Bool.and_eq_true] at hg
      obtain ⟨⟨⟨hgb, hlb⟩, hloopb⟩, hgr⟩ := hg
      have hn := good_false_named c b hgb
      have hrec := callDefsIn_ok hm r inDef useCD cal ccD rest path hch hgr hA hB hT
      intro s hs
      simp only [callDefsIn, List.mem_append, List.mem_cons] at hs
      have key := scope_of_visit (c := c) (T := T) (b := b) (params := a) (ul := useCD) (rest := ccD :: rest)
        (i0 := ((cal.branch false).addUndecl u).addArgs a) hch rfl rfl
        (by
          intro x hx
          simp only [addArgs_undeclared, mem_addUndecl, branch_undeclared, List.not_mem_nil, false_or] at hx
          simpa using hx.2.2.1)
        (by intro x; simpa [branch_topdefs] using hT x)
        (by simp [hn.2]) (by simp [hn.1]) hlb hloopb (by intro x; simp [branch_argDecl])
        (by intro x hx; exact hA x (by simpa using hx))
        (by intro x hx; simpa using hB x hx)
      rcases hs with (rfl | hs) | hs
      · exact ⟨key.2.1, key.2.2⟩
      · exact scopesIn_ok hm b false inDef useCD false _ (ccD :: rest) _ true false key.2.1 key.1 hgb (by simp [hn.1]) s hs
      · exact hrec s hs
  | .block t nm fn a u b r, inDef, useCD, cal, ccD, rest, path, hch, hg, hA, hB, hT => by
      simp only [good, Bool.and_eq_true] at hg
      obtain ⟨⟨⟨⟨hnm, hgb⟩, hlb⟩, hloopb⟩, hgr⟩ := hg
      cases nm with
      | some n => simp at hnm
      | none =>
        have hgb' : good c false b = true := by simpa using hgb
        have hn := good_false_named c b hgb'
        have hrec := callDefsIn_ok hm r inDef useCD cal ccD rest path hch hgr hA hB hT
        intro s hs
        simp only [callDefsIn, List.mem_append, List.mem_cons] at hs
        have key := scope_of_visit (c := c) (T := T) (b := b) (params := a) (ul := useCD) (rest := ccD :: rest)
          (i0 := (cal.branch false).enterBlock true none fn a u) hch (by simp [branch_locDecl])
          (by simp [enterBlock_closdefs, branch_closdefs])
          (by
            intro x hx
            rw [mem_enterBlock_undeclared] at hx
            simp only [mem_addUndecl, branch_undeclared, List.not_mem_nil, false_or, reduceCtorEq, or_false] at hx
            simpa using hx.2.2.1)
          (by intro x; simpa [enterBlock_topdefs, branch_topdefs] using hT x)
          (by simp [hn.2]) (by simp [hn.1]) hlb hloopb (by intro x; simp [branch_argDecl])
          (by intro x hx; exact hA x (by simpa using hx))
          (by intro x hx; simpa using hB x hx)
        rcases hs with (rfl | hs) | hs
        · exact ⟨key.2.1, key.2.2⟩
        · exact scopesIn_ok hm b false inDef useCD false _ (ccD :: rest) _ true false key.2.1 key.1 hgb' (by simp [hn.1]) s hs
        · exact hrec s hs
  | .call _ _ _ _ b r, inDef, useCD, cal, ccD, rest, path, hch, hg, hA, hB, hT => by
      simp only [good, Bool.and_eq_true] at hg
      have hgb : good c false b = true := hg.1.1.1.1.1.1.1.1
      have hgr : good c false r = true := hg.2
      intro s hs
      simp only [callDefsIn, List.mem_append] at hs
      rcases hs with hs | hs
      · by_cases hf : Generated.Names.callDefsDescendCalls = true
        · simp only [hf, if_true] at hs
          exact callDefsIn_ok hm b inDef useCD cal ccD rest path hch hgb hA hB hT s hs
        · simp [hf] at hs
      · exact callDefsIn_ok hm r inDef useCD cal ccD rest path hch hgr hA hB hT s hs
end

end MakoModel.Names

namespace MakoModel.Names

/-- top-level defs and named blocks of the template (`main_identifiers.topleveldefs`) -/
def topNames (c : Cfg) (t : Body) : List Name := (moduleIds c t).topdefs

theorem modsOK (c : Cfg) (t : Body) : ModsOK c (topNames c t) (moduleIds c t) :=
  { decl := rfl, tops := fun _ => Iff.rfl, clos := rfl, loc := rfl, arg := rfl }

theorem mem_topNames (c : Cfg) (t : Body) (x : Name) : x ∈ topNames c t ↔ x ∈ topsOf true t := by
  simp [topNames, moduleIds, mem_visit_topdefs]

theorem bodyFrame_ok {c : Cfg} {t : Body} (hg : goodT c t = true) :
    FrameOK c (topNames c t) (bodyFrame c t) ∧ ChainOK c (topNames c t) [bodyFrame c t] ∧
      (∀ x ∈ readsOf t, x ≠ contextName → Avail c [bodyFrame c t] x) := by
  simp only [goodT, Bool.and_eq_true] at hg
  obtain ⟨⟨hgood, hlist⟩, hloop⟩ := hg
  have hm := modsOK c t
  have hF0 := frameOK_visit (c := c) (T := topNames c t) (b := t) (root := true) (params := pageArgsOf t)
    (ul := (bodyFrame c t).useLocals) (i0 := (moduleIds c t).branch false) rfl rfl
    (by simp [branch_undeclared])
    (by intro x hx; exact hx) (by intro x hx; exact hx) hlist
    (by intro x hx h'; exact good_named_fresh c true t hgood x hx ((mem_branch_false_mods hm x).mp h'))
    (by intro x hx; exact (mem_topNames c t x).mpr hx) hloop
    (by intro x; simp [branch_argDecl])
  have hF : FrameOK c (topNames c t) (bodyFrame c t) := hF0.addArgs [pageargsName]
  refine ⟨hF, ChainOK.frame ChainOK.nil hF ?_ ?_, reads_avail hF ?_⟩
  · intro x hx
    refine Or.inl ?_
    have : x ∈ ((moduleIds c t).branch false).declared := by
      simpa [bodyFrame, bodyIds, visit_declared] using hx
    exact (mem_branch_false_mods hm x).mp this
  · intro x hx
    have : x ∈ ((moduleIds c t).branch false).declared := (mem_branch_false_mods hm x).mpr hx
    simpa [bodyFrame, bodyIds, visit_declared] using this
  · intro x hx hne
    have := visit_reads t ((moduleIds c t).branch false) true (readsOf_sub_through t x hx) hne
    simpa [bodyFrame, bodyIds, visit_declared] using this

/-- every generated function of a guarded template: its closure chain satisfies the invariants and every name
it reads is available in it -/
theorem allScopes_ok {c : Cfg} {t : Body} (hg : goodT c t = true) :
    ∀ s ∈ allScopes c t, ScopeOK c (topNames c t) s := by
  have hb := bodyFrame_ok hg
  have hg' := hg
  simp only [goodT, Bool.and_eq_true] at hg'
  intro s hs
  simp only [allScopes, List.mem_cons] at hs
  rcases hs with rfl | hs
  · exact ⟨hb.2.1, hb.2.2⟩
  · exact scopesIn_ok (modsOK c t) t true false _ true (bodyFrame c t) [] _ true true hb.2.1 hb.1 hg'.1.1
      (fun x hx => (mem_topNames c t x).mpr hx) s hs

end MakoModel.Names
