import MakoModel.Names.Lemmas
/-!
# The refinement argument of `resolution_order` at the level of closure chains

`ChainOK` states the bookkeeping invariants that tie the `_Identifiers` of the frames of a closure chain to
the template-side description of the same frames (`params / own / defs`).  Under these invariants Python's
LEGB lookup on the generated functions (`Impl.resolve`) denotes the value the specification prescribes
(`Spec.resolve`).  That the chains the generator builds satisfy `ChainOK` is shown in `LemmasScopes`.
-/
namespace MakoModel.Names

/-- what the specification does once no enclosing scope binds the name -/
def Spec.tail (c : Cfg) (topdefs : List Name) (rt : RT) (x : Name) : SVal :=
  if x ∈ c.moduleNames then .global
  else if c.enableLoop && decide (x = loopName) then .loopObj
  else if x ∈ topdefs then .defFn
  else if x ∈ c.nsNames then .nsObj
  else Spec.fetch c.strict rt x

def Spec.resolveFrom (c : Cfg) (topdefs : List Name) (rt : RT) (chain : List Frame) (d : Nat) (x : Name) : SVal :=
  match Spec.scopeLookup chain d x with
  | some (d', cell) => .scoped d' cell
  | none => Spec.tail c topdefs rt x

theorem Spec.resolve_eq (c : Cfg) (T : List Name) (rt : RT) (chain : List Frame) {x : Name} (hx : x ≠ contextName) :
    Spec.resolve c T rt chain x = Spec.resolveFrom c T rt chain 0 x := by
  unfold Spec.resolve Spec.resolveFrom Spec.tail
  rw [if_neg hx]
  generalize Spec.scopeLookup chain 0 x = r
  cases r with
  | none => rfl
  | some p => obtain ⟨a, b⟩ := p; rfl

/-- names a closure nested in the head frame can use without fetching them -/
def Avail (c : Cfg) : List Frame → Name → Prop
  | [], x => x ∈ c.moduleNames
  | p :: rest, x =>
    if p.ccall then x ∈ p.params ∨ x ∈ p.defs ∨ (x ∉ p.blocks ∧ Avail c rest x)
    else x ∈ p.params ∨ tagsOf p.own x ≠ [] ∨ x ∈ p.defs ∨ x ∈ p.ids.undeclared ∨ x ∈ p.ids.declared

/-- a frame's `_Identifiers` agree with the template-side description of the scope -/
structure FrameOK (c : Cfg) (T : List Name) (f : Frame) : Prop where
  notcc : f.ccall = false
  nob : f.blocks = []
  arg : ∀ x, x ∈ f.ids.argDecl → x ∈ f.params
  loc : ∀ x, x ∈ f.ids.locDecl → x ∈ f.params ∨ tagsOf f.own x ≠ []
  argR : ∀ x, x ∈ f.params → x ∈ f.ids.argDecl
  locR : ∀ x, tagsOf f.own x ≠ [] → x ∈ f.ids.locDecl
  clos : ∀ x, x ∈ f.ids.closdefs ↔ x ∈ f.defs
  und : ∀ x, x ∈ f.ids.undeclared → x ∉ f.ids.declared
  tops : ∀ x, x ∈ f.ids.topdefs ↔ x ∈ T
  loopdef : c.enableLoop = true → loopName ∉ f.defs

inductive ChainOK (c : Cfg) (T : List Name) : List Frame → Prop where
  | nil : ChainOK c T []
  | ccall {f : Frame} {rest : List Frame} : ChainOK c T rest → f.ccall = true → f.own = [] →
      (∀ x ∈ f.blocks, x ∉ c.moduleNames) → ChainOK c T (f :: rest)
  | frame {f : Frame} {rest : List Frame} : ChainOK c T rest → FrameOK c T f →
      (∀ x, x ∈ f.ids.declared → Avail c rest x ∨ x ∈ f.ids.locDecl ∨ x ∈ f.ids.argDecl ∨ x ∈ f.defs) →
      (∀ x, Avail c rest x → x ∈ f.ids.declared) → ChainOK c T (f :: rest)

theorem tagsOf_nil (x : Name) : tagsOf [] x = [] := rfl

/-- a name that is not available above is bound by no enclosing scope and is no module-level name -/
theorem not_avail {c : Cfg} {T : List Name} : ∀ {chain : List Frame}, ChainOK c T chain → ∀ (d : Nat) (x : Name),
    ¬ Avail c chain x → Spec.scopeLookup chain d x = none ∧ x ∉ c.moduleNames := by
  intro chain h
  induction h with
  | nil => intro d x hx; exact ⟨rfl, hx⟩
  | @ccall f rest _ hcc hown hblk ih =>
    intro d x hx
    simp only [Avail, hcc, if_true, not_or] at hx
    by_cases hb : x ∈ f.blocks
    · exact ⟨by simp [Spec.scopeLookup, hx.1, hx.2.1, hown, tagsOf_nil, hb], hblk x hb⟩
    · have hr : ¬ Avail c rest x := fun ha => hx.2.2 ⟨hb, ha⟩
      have := ih (d + 1) x hr
      simp [Spec.scopeLookup, hx.1, hx.2.1, hown, tagsOf_nil, hb, this]
  | @frame f rest _ hf _ hback ih =>
    intro d x hx
    simp only [Avail, hf.notcc, Bool.false_eq_true, if_false, not_or] at hx
    obtain ⟨h1, h2, h3, _, h5⟩ := hx
    have hrest : ¬ Avail c rest x := fun ha => h5 (hback x ha)
    have := ih (d + 1) x hrest
    have h2' : tagsOf f.own x = [] := by simpa using h2
    simp [Spec.scopeLookup, h1, h2', h3, hf.nob, this]

theorem toSVal_fetched {c : Cfg} {rt : RT} (h : RTOK c rt) (d : Nat) (x : Name) :
    (Res.cell d Cell.fetched).toSVal c rt x = Spec.fetch c.strict rt x := by
  simp only [Res.toSVal]
  exact fetchExpr_refines h x

/-- the core refinement: on a chain satisfying the invariants the generated code's lookup of an available name
denotes what the specification prescribes -/
theorem resolve_avail {c : Cfg} {T : List Name} {rt : RT} (hrt : RTOK c rt) :
    ∀ {chain : List Frame}, ChainOK c T chain → ∀ (d : Nat) (x : Name), Avail c chain x →
      (Impl.resolveFrom c chain d x).toSVal c rt x = Spec.resolveFrom c T rt chain d x := by
  intro chain h
  induction h with
  | nil =>
    intro d x hx
    have hx' : x ∈ c.moduleNames := hx
    simp [Impl.resolveFrom, Spec.resolveFrom, Spec.scopeLookup, Spec.tail, hx', Res.toSVal]
  | @ccall f rest _ hcc hown _ ih =>
    intro d x hx
    simp only [Avail, hcc, if_true] at hx
    by_cases h1 : x ∈ f.params
    · simp [Impl.resolveFrom, Frame.lookup, Spec.resolveFrom, Spec.scopeLookup, h1, Res.toSVal]
    · by_cases h2 : x ∈ f.defs
      · simp [Impl.resolveFrom, Frame.lookup, Spec.resolveFrom, Spec.scopeLookup, h1, h2, hown, tagsOf_nil, hcc, Res.toSVal]
      · have hr : x ∉ f.blocks ∧ Avail c rest x := by
          rcases hx with hx | hx | hx
          · exact absurd hx h1
          · exact absurd hx h2
          · exact hx
        have := ih (d + 1) x hr.2
        simpa [Impl.resolveFrom, Frame.lookup, Spec.resolveFrom, Spec.scopeLookup, h1, h2, hown, tagsOf_nil, hcc, hr.1] using this
  | @frame f rest hrest hf hfwd hback ih =>
    intro d x hx
    simp only [Avail, hf.notcc, Bool.false_eq_true, if_false] at hx
    by_cases h1 : x ∈ f.params
    · simp [Impl.resolveFrom, Frame.lookup, Spec.resolveFrom, Spec.scopeLookup, h1, Res.toSVal]
    · cases h2 : tagsOf f.own x with
      | cons t ts =>
        simp [Impl.resolveFrom, Frame.lookup, Spec.resolveFrom, Spec.scopeLookup, h1, h2, Res.toSVal]
      | nil =>
        have hnarg : x ∉ f.ids.argDecl := fun h' => h1 (hf.arg x h')
        have hnloc : x ∉ f.ids.locDecl := fun h' => by
          rcases hf.loc x h' with h'' | h''
          · exact h1 h''
          · exact h'' h2
        by_cases h3 : x ∈ f.defs
        · -- a nested def / anonymous block of the scope: written inline
          have hcl : x ∈ f.ids.closdefs := (hf.clos x).mpr h3
          have hloop : c.enableLoop = true → x ≠ loopName := fun he hxl => hf.loopdef he (hxl ▸ h3)
          have hw : x ∈ toWrite c f.ids none := mem_toWrite_none.mpr ⟨Or.inr hcl, hnarg, hnloc, hloop⟩
          simp [Impl.resolveFrom, Frame.lookup, Spec.resolveFrom, Spec.scopeLookup, h1, h2, h3, hf.notcc, hw, classify, hcl,
            Res.toSVal]
        · have hncl : x ∉ f.ids.closdefs := fun h' => h3 ((hf.clos x).mp h')
          by_cases h4 : x ∈ f.ids.undeclared
          · -- fetched (or declared as stub / namespace / loop) at the entry of this function
            have hnd : x ∉ f.ids.declared := hf.und x h4
            have hna : ¬ Avail c rest x := fun ha => hnd (hback x ha)
            have hn := not_avail hrest (d + 1) x hna
            have hraw : x ∈ toWriteRaw f.ids := mem_toWriteRaw.mpr ⟨Or.inl h4, hnarg, hnloc⟩
            by_cases hl : c.enableLoop = true ∧ x = loopName
            · obtain ⟨he, hxl⟩ := hl
              subst hxl
              have hnw : loopName ∉ toWrite c f.ids none := fun h' => (mem_toWrite_none.mp h').2.2.2 he rfl
              have hhl : hasLoop c f.ids = true := by
                simp only [hasLoop, he, Bool.true_and, decide_eq_true_eq]
                exact hraw
              simp [Impl.resolveFrom, Frame.lookup, Spec.resolveFrom, Spec.scopeLookup, Spec.tail, h1, h2, h3, hf.nob, hf.notcc, hnw,
                hhl, he, hn.1, hn.2, Res.toSVal]
            · have hloop : c.enableLoop = true → x ≠ loopName := fun he hxl => hl ⟨he, hxl⟩
              have hw : x ∈ toWrite c f.ids none := mem_toWrite_none.mpr ⟨Or.inl h4, hnarg, hnloc, hloop⟩
              have hnl : (c.enableLoop && decide (x = loopName)) = false := by
                cases he : c.enableLoop
                · simp
                · simp [hloop he]
              by_cases ht : x ∈ f.ids.topdefs
              · have hT : x ∈ T := (hf.tops x).mp ht
                simp [Impl.resolveFrom, Frame.lookup, Spec.resolveFrom, Spec.scopeLookup, Spec.tail, h1, h2, h3, hf.nob, hf.notcc, hw,
                  classify, hncl, ht, hT, hn.1, hn.2, hnl, Res.toSVal]
              · have hT : x ∉ T := fun h' => ht ((hf.tops x).mpr h')
                by_cases hns : x ∈ c.nsNames
                · simp [Impl.resolveFrom, Frame.lookup, Spec.resolveFrom, Spec.scopeLookup, Spec.tail, h1, h2, h3, hf.nob, hf.notcc, hw,
                    classify, hncl, ht, hT, hns, hn.1, hn.2, hnl, Res.toSVal]
                · have := toSVal_fetched hrt d x
                  simp [Impl.resolveFrom, Frame.lookup, Spec.resolveFrom, Spec.scopeLookup, Spec.tail, h1, h2, h3, hf.nob, hf.notcc, hw,
                    classify, hncl, ht, hT, hns, hn.1, hn.2, hnl, this]
          · -- inherited from the enclosing functions
            have hd : x ∈ f.ids.declared := by
              rcases hx with hx | hx | hx | hx | hx
              · exact absurd hx h1
              · exact absurd h2 hx
              · exact absurd hx h3
              · exact absurd hx h4
              · exact hx
            have ha : Avail c rest x := by
              rcases hfwd x hd with h' | h' | h' | h'
              · exact h'
              · exact absurd h' hnloc
              · exact absurd h' hnarg
              · exact absurd h' h3
            have hnw : x ∉ toWrite c f.ids none := fun h' => by
              rcases (mem_toWrite_none.mp h').1 with h'' | h''
              · exact h4 h''
              · exact hncl h''
            have hnl : ¬ (hasLoop c f.ids = true ∧ x = loopName) := by
              rintro ⟨hh, hxl⟩
              simp only [hasLoop, Bool.and_eq_true, decide_eq_true_eq] at hh
              rcases (mem_toWriteRaw.mp hh.2).1 with h'' | h''
              · exact h4 (hxl ▸ h'')
              · exact hncl (hxl ▸ h'')
            have := ih (d + 1) x ha
            have hl' : (hasLoop c f.ids && decide (x = loopName)) = false := by
              cases hh : hasLoop c f.ids
              · simp
              · simp; exact fun hxl => hnl ⟨hh, hxl⟩
            simpa [Impl.resolveFrom, Frame.lookup, Spec.resolveFrom, Spec.scopeLookup, h1, h2, h3, hf.nob, hf.notcc, hnw, hl'] using this

end MakoModel.Names
