import MakoModel.Names.Model
/-! Helper lemmas for C04: `dedup`, `to_write`, the emitted prelude, the fetch expressions. -/
namespace MakoModel.Names

theorem mem_dedup {x : Name} : ∀ {l : List Name}, x ∈ dedup l ↔ x ∈ l
  | [] => by simp [dedup]
  | y :: ys => by
    have ih := @mem_dedup x ys
    by_cases h : y ∈ ys
    · simp only [dedup, h, if_true, ih, List.mem_cons]
      constructor
      · exact Or.inr
      · rintro (rfl | h') <;> assumption
    · simp only [dedup, h, if_false, List.mem_cons, ih]

theorem nodup_dedup : ∀ (l : List Name), (dedup l).Nodup
  | [] => by simp [dedup]
  | y :: ys => by
    by_cases h : y ∈ ys
    · simpa [dedup, h] using nodup_dedup ys
    · have : y ∉ dedup ys := fun h' => h (mem_dedup.mp h')
      simp [dedup, h, this, nodup_dedup ys]

theorem mem_toWriteRaw {i : Ids} {x : Name} :
    x ∈ toWriteRaw i ↔ (x ∈ i.undeclared ∨ x ∈ i.closdefs) ∧ x ∉ i.argDecl ∧ x ∉ i.locDecl := by
  simp only [toWriteRaw, mem_dedup, List.mem_filter, List.mem_append, decide_eq_true_eq]

theorem nodup_toWriteRaw (i : Ids) : (toWriteRaw i).Nodup := nodup_dedup _

theorem mem_toWrite_none {c : Cfg} {i : Ids} {x : Name} :
    x ∈ toWrite c i none ↔
      (x ∈ i.undeclared ∨ x ∈ i.closdefs) ∧ x ∉ i.argDecl ∧ x ∉ i.locDecl ∧ (c.enableLoop = true → x ≠ loopName) := by
  unfold toWrite
  by_cases h : c.enableLoop = true
  · simp [h, List.mem_filter, mem_toWriteRaw, and_assoc]
  · simp [h, mem_toWriteRaw]

theorem mem_toWrite_some {c : Cfg} {i : Ids} {l : List Name} {x : Name} :
    x ∈ toWrite c i (some l) ↔ x ∈ toWrite c i none ∧ x ∈ l := by
  simp [toWrite, List.mem_filter]

theorem nodup_toWrite (c : Cfg) (i : Ids) (limit : Option (List Name)) : (toWrite c i limit).Nodup := by
  unfold toWrite
  cases limit <;> by_cases h : c.enableLoop = true <;> simp only [h, if_true] <;>
    first
      | exact nodup_toWriteRaw i
      | exact List.Pairwise.filter _ (nodup_toWriteRaw i)
      | exact List.Pairwise.filter _ (List.Pairwise.filter _ (nodup_toWriteRaw i))

/-! ### `sorted(to_write)` -/

theorem nameLe_total : ∀ (a b : Name), nameLe a b = true ∨ nameLe b a = true
  | [], _ => Or.inl rfl
  | _ :: _, [] => Or.inr rfl
  | a :: as, b :: bs => by
    by_cases h1 : a.toNat < b.toNat
    · simp [nameLe, h1]
    · by_cases h2 : b.toNat < a.toNat
      · simp [nameLe, h2]
      · simp only [nameLe, h1, h2, if_false]
        exact nameLe_total as bs

/-- adjacent elements are in order -/
def SortedNames : List Name → Prop
  | [] => True
  | [_] => True
  | x :: y :: r => nameLe x y = true ∧ SortedNames (y :: r)

theorem perm_insertName (x : Name) : ∀ (l : List Name), (insertName x l).Perm (x :: l)
  | [] => List.Perm.refl _
  | y :: ys => by
    by_cases h : nameLe x y = true
    · simp [insertName, h]
    · simp only [insertName, h, if_false, Bool.false_eq_true]
      exact ((perm_insertName x ys).cons y).trans (List.Perm.swap x y ys)

theorem perm_sortNames : ∀ (l : List Name), (sortNames l).Perm l
  | [] => List.Perm.refl _
  | x :: xs => (perm_insertName x (sortNames xs)).trans ((perm_sortNames xs).cons x)

theorem sorted_insertName (x : Name) : ∀ (l : List Name), SortedNames l → SortedNames (insertName x l)
  | [], _ => trivial
  | [y], _ => by
    by_cases h : nameLe x y = true
    · simp [insertName, h, SortedNames]
    · have := (nameLe_total x y).resolve_left h
      simp [insertName, h, SortedNames, this]
  | y :: z :: r, hs => by
    by_cases h : nameLe x y = true
    · simp only [insertName, h, if_true]
      exact ⟨h, hs⟩
    · have hyx := (nameLe_total x y).resolve_left h
      have ih := sorted_insertName x (z :: r) hs.2
      simp only [insertName, h, if_false, Bool.false_eq_true]
      by_cases h2 : nameLe x z = true
      · simp only [insertName, h2, if_true] at ih ⊢
        exact ⟨hyx, ih⟩
      · simp only [insertName, h2, if_false, Bool.false_eq_true] at ih ⊢
        exact ⟨hs.1, ih⟩

theorem sorted_sortNames : ∀ (l : List Name), SortedNames (sortNames l)
  | [] => trivial
  | x :: xs => sorted_insertName x _ (sorted_sortNames xs)

/-! ### the emitted prelude -/

def Stmt.isDecl : Stmt → Bool
  | .decl _ _ => true
  | _ => false

def Stmt.isBody : Stmt → Bool
  | .body _ => true
  | _ => false

def Stmt.declName : Stmt → Option Name
  | .decl x _ => some x
  | _ => none

/-- everything `emit` writes before the declarations -/
def emitPre (c : Cfg) (i : Ids) (toplevel : Bool) (mlocals : Option (List Name)) : List Stmt :=
  (match mlocals with | some ks => [Stmt.mlocalsInit ks] | none => [])
  ++ (if toplevel && c.hasNsImports then [Stmt.importNsInit] else [])
  ++ (if hasLoop c i then [Stmt.loopInit] else [])

theorem emit_eq (c : Cfg) (i : Ids) (tl ul : Bool) (ml : Option (List Name)) (order : List Name) (n : Nat) :
    emit c i tl ul ml order n =
      emitPre c i tl ml ++ order.map (fun x => Stmt.decl x (classify c i ul x)) ++
        Stmt.writerInit :: (List.range n).map Stmt.body := by
  cases ml <;> simp [emit, emitPre, List.append_assoc]

theorem emitPre_no_decl (c : Cfg) (i : Ids) (tl : Bool) (ml : Option (List Name)) :
    ∀ s ∈ emitPre c i tl ml, s.isDecl = false ∧ s.isBody = false := by
  intro s hs
  unfold emitPre at hs
  cases ml <;> by_cases h1 : (tl && c.hasNsImports) = true <;> by_cases h2 : hasLoop c i = true <;>
    simp [h1, h2] at hs <;> (try rcases hs with rfl | rfl | rfl) <;> (try rcases hs with rfl | rfl) <;>
    (try subst hs) <;> simp [Stmt.isDecl, Stmt.isBody]

theorem declNames_emit (c : Cfg) (i : Ids) (tl ul : Bool) (ml : Option (List Name)) (order : List Name) (n : Nat) :
    (emit c i tl ul ml order n).filterMap Stmt.declName = order := by
  rw [emit_eq]
  have h1 : (emitPre c i tl ml).filterMap Stmt.declName = [] := by
    apply List.filterMap_eq_nil_iff.mpr
    intro s hs
    have := (emitPre_no_decl c i tl ml s hs).1
    cases s <;> simp_all [Stmt.declName, Stmt.isDecl]
  have h2 : ((List.range n).map Stmt.body).filterMap Stmt.declName = [] := by
    apply List.filterMap_eq_nil_iff.mpr
    intro s hs
    simp at hs
    obtain ⟨k, _, rfl⟩ := hs
    rfl
  simp [List.filterMap_append, h1, List.filterMap_map, Function.comp_def, Stmt.declName]

/-! ### fetch expressions -/

/-- the regenerated fact: `Context.get` / `Context.__getitem__` test key membership, so a key bound to `None` is bound -/
theorem boundIn_get (m : Dict) (x : Name) : boundIn Generated.Names.ctxGetByMembership m x = m x := by
  have : Generated.Names.ctxGetByMembership = true := by decide
  rw [this]
  unfold boundIn
  cases m x with
  | none => rfl
  | some v => cases v <;> rfl

theorem boundIn_getitem (m : Dict) (x : Name) : boundIn Generated.Names.ctxGetItemByMembership m x = m x := by
  have : Generated.Names.ctxGetItemByMembership = true := by decide
  rw [this]
  unfold boundIn
  cases m x with
  | none => rfl
  | some v => cases v <;> rfl

/-- run-time well-formedness: `_import_ns` is empty without `import=` namespaces and never holds `UNDEFINED` -/
structure RTOK (c : Cfg) (rt : RT) : Prop where
  noImports : c.hasNsImports = false → ∀ x, rt.importNs x = none
  importDefined : ∀ x, rt.importNs x ≠ some .undefined

theorem fetchExpr_refines {c : Cfg} {rt : RT} (h : RTOK c rt) (x : Name) :
    (match fetchExpr c rt x with
      | .val v => SVal.val v
      | .nameError => SVal.strictError) = Spec.fetch c.strict rt x := by
  have hu := h.importDefined x
  unfold fetchExpr Spec.fetch ctxGetItem ctxGet dget
  simp only [boundIn_get, boundIn_getitem]
  by_cases hi : c.hasNsImports = true
  · cases hs : c.strict <;> cases h1 : rt.importNs x <;> cases h2 : rt.data x <;> cases h3 : rt.builtins x <;>
      simp_all
  · have hn := h.noImports (by simpa using hi) x
    cases hs : c.strict <;> cases h2 : rt.data x <;> cases h3 : rt.builtins x <;> simp_all

theorem fetchExpr_nameError_iff {c : Cfg} {rt : RT} (h : RTOK c rt) (x : Name) :
    fetchExpr c rt x = .nameError ↔
      c.strict = true ∧ rt.importNs x = none ∧ rt.data x = none ∧ rt.builtins x = none := by
  have hu := h.importDefined x
  unfold fetchExpr ctxGetItem ctxGet dget
  simp only [boundIn_get, boundIn_getitem]
  by_cases hi : c.hasNsImports = true
  · cases hs : c.strict <;> cases h1 : rt.importNs x <;> cases h2 : rt.data x <;> cases h3 : rt.builtins x <;>
      simp_all
  · have hn := h.noImports (by simpa using hi) x
    cases hs : c.strict <;> cases h2 : rt.data x <;> cases h3 : rt.builtins x <;> simp_all

/-- fetch declarations of a prelude, in emission order -/
def fetchNames : List Stmt → List Name
  | [] => []
  | .decl x .fetch :: r => x :: fetchNames r
  | _ :: r => fetchNames r

theorem runPrelude_error {c : Cfg} {rt : RT} : ∀ (stmts : List Stmt) (x : Name),
    runPrelude c rt stmts = .error x →
      x ∈ fetchNames stmts ∧ fetchExpr c rt x = .nameError
  | [], x, h => by simp [runPrelude] at h
  | s :: r, x, h => by
    cases s with
    | decl y k =>
      cases k with
      | fetch =>
        simp only [runPrelude] at h
        cases hf : fetchExpr c rt y with
        | nameError =>
          simp [hf] at h
          subst h
          exact ⟨by simp [fetchNames], hf⟩
        | val v =>
          simp [hf] at h
          cases hr : runPrelude c rt r with
          | error e =>
            simp [hr, Except.map] at h
            subst h
            have := runPrelude_error r e hr
            exact ⟨by simp [fetchNames, this.1], this.2⟩
          | ok env => simp [hr, Except.map] at h
      | inlineDef | defStub _ | nsGet =>
        simp only [runPrelude] at h
        have := runPrelude_error r x h
        exact ⟨by simpa [fetchNames] using this.1, this.2⟩
    | mlocalsInit _ | importNsInit | loopInit | writerInit | body _ =>
      simp only [runPrelude] at h
      have := runPrelude_error r x h
      exact ⟨by simpa [fetchNames] using this.1, this.2⟩

theorem runPrelude_ok_iff {c : Cfg} {rt : RT} : ∀ (stmts : List Stmt),
    (∃ env, runPrelude c rt stmts = .ok env) ↔ ∀ x ∈ fetchNames stmts, fetchExpr c rt x ≠ .nameError
  | [] => by simp [runPrelude, fetchNames]
  | s :: r => by
    have ih := runPrelude_ok_iff (c := c) (rt := rt) r
    cases s with
    | decl y k =>
      cases k with
      | fetch =>
        simp only [runPrelude, fetchNames, List.mem_cons, forall_eq_or_imp]
        cases hf : fetchExpr c rt y with
        | nameError => simp
        | val v =>
          simp only [ne_eq, reduceCtorEq, not_false_eq_true, true_and]
          rw [← ih]
          cases hr : runPrelude c rt r <;> simp [Except.map]
      | inlineDef | defStub _ | nsGet => simpa [runPrelude, fetchNames] using ih
    | mlocalsInit _ | importNsInit | loopInit | writerInit | body _ => simpa [runPrelude, fetchNames] using ih

theorem fetchNames_emit (c : Cfg) (i : Ids) (tl ul : Bool) (ml : Option (List Name)) (order : List Name) (n : Nat) :
    ∀ x, x ∈ fetchNames (emit c i tl ul ml order n) ↔ x ∈ order ∧ classify c i ul x = .fetch := by
  intro x
  rw [emit_eq]
  have key : ∀ (l : List Stmt), (∀ s ∈ l, s.isDecl = false) → ∀ r, fetchNames (l ++ r) = fetchNames r := by
    intro l
    induction l with
    | nil => simp
    | cons s l ih =>
      intro hl r
      have hs := hl s (by simp)
      have := ih (fun s' h' => hl s' (by simp [h'])) r
      cases s <;> simp_all [fetchNames, Stmt.isDecl]
  have hmid : ∀ (o : List Name) (r : List Stmt), (∀ s ∈ r, s.isDecl = false) →
      (x ∈ fetchNames (o.map (fun y => Stmt.decl y (classify c i ul y)) ++ r) ↔ x ∈ o ∧ classify c i ul x = .fetch) := by
    intro o
    induction o with
    | nil =>
      intro r hr
      have := key r hr []
      simp at this
      simp [this, fetchNames]
    | cons y o ih =>
      intro r hr
      have := ih r hr
      cases hk : classify c i ul y <;> simp [fetchNames, hk, this]
      · intro h1 h2; subst h2; simp [hk] at h1
      · intro h1 h2; subst h2; simp [hk] at h1
      · intro h1 h2; subst h2; simp [hk] at h1
      · constructor
        · rintro (rfl | ⟨h1, h2⟩)
          · exact ⟨Or.inl rfl, hk⟩
          · exact ⟨Or.inr h1, h2⟩
        · rintro ⟨h1 | h1, h2⟩
          · exact Or.inl h1
          · exact Or.inr ⟨h1, h2⟩
  rw [List.append_assoc, key _ (fun s hs => (emitPre_no_decl c i tl ml s hs).1)]
  apply hmid
  intro s hs
  simp at hs
  rcases hs with rfl | ⟨k, _, rfl⟩ <;> rfl

end MakoModel.Names
