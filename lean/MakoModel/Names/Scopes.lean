import MakoModel.Names.Model
/-!
# Which scopes the code generator writes, and with which `_Identifiers`

`_GenerateRenderMethod` creates one `_Identifiers` per generated function:

* `render_body`, every top-level `<%def>` and every named `<%block>`: `compiler.identifiers.branch(node)`
  (parent = the module-level identifiers, `nested=False`);
* closure defs and anonymous blocks, from `write_variable_declares` of the enclosing function:
  `identifiers.branch(node, nested=True)` – only when their name is in `to_write`;
* `<%call>`: `callable_identifiers = identifiers.branch(node, nested=True)`,
  `body_identifiers = callable_identifiers.branch(node, nested=False)` (+ `add_declared("caller")`), the defs
  of the call from `callable_identifiers.branch(def, nested=False)`; they are emitted as *siblings* of
  `body()` inside `def ccall(caller)`.

`scopesIn` walks a node list once and lists the scopes together with their closure chain of frames.
-/
namespace MakoModel.Names

inductive PathEl where
  | fn (n : Name)
  | ccall (tag : Nat)
  | body
  deriving Repr, DecidableEq

inductive Kind where
  | body | topDef | namedBlock | nestedDef | anonBlock | callBody | callDef
  deriving Repr, DecidableEq

structure Scope where
  path : List PathEl
  kind : Kind
  /-- tag of the defining node (0 for the template body) -/
  tag : Nat
  /-- `self.in_def` of the generator while the function is written -/
  inDef : Bool
  /-- `write_variable_declares(…, toplevel=True)` -/
  toplevel : Bool
  /-- the function itself, then the enclosing functions -/
  frames : List Frame
  /-- own node list -/
  body : Body
  /-- keys of `__M_locals = __M_dict_builtin(…)` when emitted, in emission order -/
  mlocals : Option (List Name) := none
  /-- further `_Identifiers` constructed (and reserved-checked) with this scope: `callable_identifiers` of a `<%call>` -/
  extraIds : List Ids := []
  /-- names the template binds in this scope: assignment forms (through its blocks), arguments, names of its nested
  defs / blocks -/
  binds : List Name := []
  deriving Repr

def Scope.ids (s : Scope) : Ids := (s.frames.headD {}).ids

def renderName (f : Name) : Name := "render_".toList ++ f

/-- names of the defs / blocks `visitCallTag`'s `DefVisitor` writes into `ccall` (whether it descends into nested calls
is a regenerated fact) -/
def callDefNames : Body → List Name
  | .nil => []
  | .defn _ f _ _ _ r => f :: callDefNames r
  | .block _ _ fn _ _ _ r => fn :: callDefNames r
  | .call _ _ _ _ b r => (if Generated.Names.callDefsDescendCalls then callDefNames b else []) ++ callDefNames r
  | .leaf _ _ _ r | .text _ _ r | .code _ _ _ r | .page _ _ _ r => callDefNames r

/-- `body_identifiers` of a `<%call>` seen from the enclosing `_Identifiers` `p` -/
def callableIds (p : Ids) (d u : List Name) (b : Body) : Ids := visitCallSelf (p.branch true) d u b

def callBodyIds (p : Ids) (d u : List Name) (b : Body) : Ids :=
  let i := (visitCallSelf ((callableIds p d u b).branch false) d u b).addDeclared callerName
  { i with closdefs := i.closdefs.filter (fun f => decide (f ∉ callDefNames b)) }

mutual
/-- scopes written for the node list, seen from the function `fr` (enclosed by `rest`).
`own`: the list is emitted into `fr` itself (otherwise it belongs to a block nested in `fr`'s scope and only the
closures `fr`'s `_Identifiers` found in it are of interest).  `root`: the list is the template's own list.
`emitTop`: `fr` is `render_body` (named blocks are emitted as top-level functions from its `topleveldefs`). -/
def scopesIn (c : Cfg) (mods : Ids) (inDef useLoc emitTop : Bool) (fr : Frame) (rest : List Frame)
    (path : List PathEl) (own root : Bool) : Body → List Scope
  | .nil => []
  | .leaf _ _ _ r | .text _ _ r | .code _ _ _ r | .page _ _ _ r =>
      scopesIn c mods inDef useLoc emitTop fr rest path own root r
  | .defn t f a u b r =>
      (if root then
        let ids := visitDefSelf (mods.branch false) true f a u b
        let fr' : Frame := { ids, params := a, own := ownOf b, defs := closOf false b }
        let p' := [PathEl.fn (renderName f)]
        { path := p', kind := .topDef, tag := t, inDef := true, toplevel := true, frames := [fr'], body := b,
          binds := declsThrough b ++ a ++ closOf false b ++ [f] }
          :: scopesIn c mods true false false fr' [] p' true false b
      else if f ∈ toWrite c fr.ids none then
        let ids := visitDefSelf (fr.ids.branch true) false f a u b
        let fr' : Frame := { ids, params := a, own := ownOf b, defs := closOf false b, useLocals := useLoc }
        let p' := path ++ [PathEl.fn f]
        { path := p', kind := .nestedDef, tag := t, inDef, toplevel := false, frames := fr' :: fr :: rest, body := b,
          binds := declsThrough b ++ a ++ closOf false b }
          :: scopesIn c mods inDef useLoc false fr' (fr :: rest) p' true false b
      else [])
      ++ scopesIn c mods inDef useLoc emitTop fr rest path own root r
  | .block t nm fn a u b r =>
      (match nm with
       | none =>
          if fn ∈ toWrite c fr.ids none then
            let ids := visitBlockSelf (fr.ids.branch true) none fn a u b
            let fr' : Frame := { ids, params := a, own := ownOf b, defs := closOf false b, useLocals := useLoc }
            let p' := path ++ [PathEl.fn fn]
            { path := p', kind := .anonBlock, tag := t, inDef, toplevel := false, frames := fr' :: fr :: rest, body := b,
              binds := declsThrough b ++ a ++ closOf false b }
              :: scopesIn c mods inDef useLoc false fr' (fr :: rest) p' true false b
          else []
       | some n =>
          if emitTop then
            let ids := (visitBlockSelf (mods.branch false) (some n) fn a u b).addArgs [pageargsName]
            let fr' : Frame := { ids, params := a ++ [pageargsName], own := ownOf b, defs := closOf false b }
            let p' := [PathEl.fn (renderName n)]
            { path := p', kind := .namedBlock, tag := t, inDef := true, toplevel := true, frames := [fr'], body := b,
              binds := declsThrough b ++ a ++ closOf false b ++ [n] }
              :: scopesIn c mods true false false fr' [] p' true false b
          else [])
      ++ scopesIn c mods inDef useLoc emitTop fr rest path false false b
      ++ scopesIn c mods inDef useLoc emitTop fr rest path own root r
  | .call t args d u b r =>
      (if own then
        let cal := callableIds fr.ids d u b
        let bid := callBodyIds fr.ids d u b
        let useCD := !inDef && (!bid.locAssigned.isEmpty || !bid.argDecl.isEmpty)
        -- `fr`'s own `_Identifiers` is the top of the identifier stack while its nodes are traversed
        let ownUse := !inDef && (!fr.ids.locAssigned.isEmpty || !fr.ids.argDecl.isEmpty)
        -- `callable_identifiers.declared.discard("caller")` (regenerated flag): the defs of the call look `caller` up
        -- in the context, whatever the enclosing scopes know under that name
        let calD : Ids := if Generated.Names.callDefsDropCaller then
            { cal with declared := cal.declared.filter (fun x => decide (x ≠ callerName)) } else cal
        let ccD : Frame := { ccall := true, defs := callDefNames b,
                             blocks := if Generated.Names.callDefsDropCaller then [callerName] else [] }
        let ccB : Frame := { ccall := true, params := [callerName], defs := callDefNames b }
        let frB : Frame := { ids := bid, params := args, own := ownOf b, defs := (closOf false b).filter (fun f => decide (f ∉ callDefNames b)),
                              useLocals := ownUse }
        let pB := path ++ [PathEl.ccall t, PathEl.body]
        callDefsIn c mods inDef useCD calD ccD (fr :: rest) (path ++ [PathEl.ccall t]) b
        ++ [{ path := pB, kind := .callBody, tag := t, inDef, toplevel := false,
              frames := frB :: ccB :: fr :: rest, body := b, extraIds := [cal],
              binds := declsThrough b ++ d ++ closOf false b }]
        ++ scopesIn c mods inDef ownUse false frB (ccB :: fr :: rest) pB true false b
      else [])
      ++ scopesIn c mods inDef useLoc emitTop fr rest path own root r

/-- the defs and blocks of a `<%call>` (`DefVisitor` of `visitCallTag`) -/
def callDefsIn (c : Cfg) (mods : Ids) (inDef useCD : Bool) (cal : Ids) (ccD : Frame) (rest : List Frame)
    (path : List PathEl) : Body → List Scope
  | .nil => []
  | .leaf _ _ _ r | .text _ _ r | .code _ _ _ r | .page _ _ _ r =>
      callDefsIn c mods inDef useCD cal ccD rest path r
  | .call _ _ _ _ b r =>
      -- a `DefVisitor` without `visitCallTag` descends (default traversal) into a nested `<%call>`, whose defs are then
      -- written (and exported) here as well; regenerated flag
      (if Generated.Names.callDefsDescendCalls then callDefsIn c mods inDef useCD cal ccD rest path b else [])
        ++ callDefsIn c mods inDef useCD cal ccD rest path r
  | .defn t f a u b r =>
      (let ids := visitDefSelf (cal.branch false) false f a u b
       let fr' : Frame := { ids, params := a, own := ownOf b, defs := closOf false b, useLocals := useCD }
       let p' := path ++ [PathEl.fn f]
       { path := p', kind := .callDef, tag := t, inDef, toplevel := false, frames := fr' :: ccD :: rest, body := b,
         binds := declsThrough b ++ a ++ closOf false b }
         :: scopesIn c mods inDef useCD false fr' (ccD :: rest) p' true false b)
      ++ callDefsIn c mods inDef useCD cal ccD rest path r
  | .block t nm fn a u b r =>
      (let ids := visitBlockSelf (cal.branch false) nm fn a u b
       let fr' : Frame := { ids, params := a, own := ownOf b, defs := closOf false b, useLocals := useCD }
       let p' := path ++ [PathEl.fn fn]
       { path := p', kind := .callDef, tag := t, inDef, toplevel := false, frames := fr' :: ccD :: rest, body := b,
         binds := declsThrough b ++ a ++ closOf false b }
         :: scopesIn c mods inDef useCD false fr' (ccD :: rest) p' true false b)
      ++ callDefsIn c mods inDef useCD cal ccD rest path r
end

/-- `compiler.identifiers` while the render callables are written -/
def moduleIds (c : Cfg) (t : Body) : Ids :=
  { declared := c.moduleNames, topdefs := (visit {} true t).topdefs }

/-- `_Identifiers` of `render_body` (`**pageargs` is in the signature unless `<%page args>` has `**kw`) -/
def bodyIds (c : Cfg) (t : Body) : Ids := (visit ((moduleIds c t).branch false) true t).addArgs [pageargsName]

def bodyFrame (c : Cfg) (t : Body) : Frame :=
  let ids := bodyIds c t
  { ids, params := pageArgsOf t ++ [pageargsName], own := ownOf t, defs := closOf true t,
    useLocals := !ids.locAssigned.isEmpty || !ids.argDecl.isEmpty }

def bodyScope (c : Cfg) (t : Body) : Scope :=
  let fr := bodyFrame c t
  { path := [PathEl.fn (renderName "body".toList)], kind := .body, tag := 0, inDef := false, toplevel := true,
    frames := [fr], body := t,
    mlocals := if fr.useLocals then some (sortNames (dedup fr.ids.argDecl)) else none,
    binds := declsThrough t ++ closOf true t ++ topsOf true t }

/-- every generated function of the template with its `_Identifiers` and closure chain -/
def allScopes (c : Cfg) (t : Body) : List Scope :=
  let fr := bodyFrame c t
  bodyScope c t :: scopesIn c (moduleIds c t) false fr.useLocals true fr [] [PathEl.fn (renderName "body".toList)] true true t

/-- the `_Identifiers` built by `write_toplevel` only for its `topleveldefs` (it is also reserved-checked) -/
def mainIds (c : Cfg) (t : Body) : Ids := visit (({ declared := c.moduleDeclared } : Ids).branch false) true t

/-- reserved names found in `locally_declared` of some constructed `_Identifiers`:
compilation raises `NameConflictError` iff this list is non-empty -/
def compileConflicts (c : Cfg) (t : Body) : List Name :=
  (mainIds c t).conflicts c ++ (allScopes c t).flatMap (fun s => (s.ids :: s.extraIds).flatMap (fun i => i.conflicts c))

/-- names bound anywhere in the template by a form `_Identifiers` records in `locally_declared` -/
def declsDeep : Body → List Name
  | .nil => []
  | .leaf _ d _ r => d ++ declsDeep r
  | .text _ _ r => declsDeep r
  | .code _ d _ r => d ++ declsDeep r
  | .page _ a _ r => a ++ declsDeep r
  | .defn _ _ _ _ b r => declsDeep b ++ declsDeep r
  | .block _ _ _ _ _ b r => declsDeep b ++ declsDeep r
  | .call _ _ _ _ b r => declsDeep b ++ declsDeep r

/-- every name a template binds: the above plus def / block / call-body arguments and def / block names -/
def bindsDeep : Body → List Name
  | .nil => []
  | .leaf _ d _ r => d ++ bindsDeep r
  | .text _ _ r => bindsDeep r
  | .code _ d _ r => d ++ bindsDeep r
  | .page _ a _ r => a ++ bindsDeep r
  | .defn _ f a _ b r => f :: a ++ bindsDeep b ++ bindsDeep r
  | .block _ nm _ a _ b r => (match nm with | some n => [n] | none => []) ++ a ++ bindsDeep b ++ bindsDeep r
  | .call _ _ d _ b r => d ++ bindsDeep b ++ bindsDeep r

end MakoModel.Names
