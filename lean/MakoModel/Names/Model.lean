import MakoModel.Generated.Names
/-!
# Name resolution (property C04): `_Identifiers`, `write_variable_declares`, Python's view of the
generated functions, and the specification `Spec.resolve`

Modelled code: `mako/codegen.py` (`_Identifiers` – all visit methods, `branch`, `check_declared`,
`add_declared`; `write_variable_declares`; the `__M_locals` bookkeeping of `write_render_callable`,
`visitCode`, `write_def_decl`), `mako/runtime.py` (`Context.get/__getitem__`).

The per-construct `(declared, undeclared)` identifier sets of embedded Python are *inputs* of the model
(they are computed by `pyparser.FindIdentifiers`, modelled for C19).

A template body is a cons-style tree (`Body`): every constructor carries the rest of the node list of its
parent, so that the type is a plain inductive type and structural recursion / induction are available.
Every node has a `tag` (its pre-order number, chosen by the harness) used to name binding and read sites.
-/
namespace MakoModel.Names

abbrev Name := List Char

def contextName : Name := Generated.Names.contextName
def loopName : Name := Generated.Names.loopName
def callerName : Name := "caller".toList
def pageargsName : Name := "pageargs".toList

/-- node list of a template / def / block / call -/
inductive Body where
  | nil
  /-- expression, control line, include tag: `check_declared` -/
  | leaf (tag : Nat) (decl undecl : List Name) (rest : Body)
  /-- `<%text>`: only its undeclared identifiers are recorded -/
  | text (tag : Nat) (undecl : List Name) (rest : Body)
  /-- `<% %>` (not module level): `check_declared` + `locally_assigned` -/
  | code (tag : Nat) (decl undecl : List Name) (rest : Body)
  /-- `<%page args=…>` -/
  | page (tag : Nat) (args undecl : List Name) (rest : Body)
  /-- `<%def name="name(args)">`; `undecl` = names read by defaults / filter / attribute expressions -/
  | defn (tag : Nat) (name : Name) (args undecl : List Name) (body rest : Body)
  /-- `<%block>`; `name = none` for an anonymous block, `fname` is `funcname` (`__M_anon_<line>`) -/
  | block (tag : Nat) (name : Option Name) (fname : Name) (args undecl : List Name) (body rest : Body)
  /-- `<%call>` / `<%ns:def>`; `args` = parameters of `body()`, `decl` = `declared_identifiers()` (⊇ args) -/
  | call (tag : Nat) (args decl undecl : List Name) (body rest : Body)
  deriving Repr, DecidableEq

/-- compile-time configuration seen by the code generator -/
structure Cfg where
  /-- names declared by `<%! %>` blocks and by `imports=` lines -/
  moduleDeclared : List Name := []
  /-- keys of `compiler.namespaces` -/
  nsNames : List Name := []
  hasNsImports : Bool := false
  strict : Bool := false
  /-- `compiler.enable_loop` while render callables are written (`Template(enable_loop=…)` or `<%page enable_loop>`) -/
  enableLoop : Bool := true
  /-- whether `loop` is in `compiler.reserved_names` (`Template(enable_loop=…)` only) -/
  reservedLoop : Bool := true
  deriving Repr

def Cfg.reserved (c : Cfg) : List Name :=
  if c.reservedLoop then Generated.Names.reservedNames
  else Generated.Names.reservedNames.filter (fun n => decide (n ≠ loopName))

/-- names every template module declares at module level (`module_identifiers.declared`) -/
def Cfg.moduleNames (c : Cfg) : List Name := c.moduleDeclared ++ Generated.Names.toplevelDeclared

/-! ## `_Identifiers` -/

structure Ids where
  declared : List Name := []
  undeclared : List Name := []
  locDecl : List Name := []
  locAssigned : List Name := []
  argDecl : List Name := []
  topdefs : List Name := []
  closdefs : List Name := []
  deriving Repr, DecidableEq

/-- the loop shared by `check_declared` and the tag visitors:
`if ident != "context" and ident not in self.declared.union(self.locally_declared): self.undeclared.add(ident)` -/
def Ids.addUndecl (i : Ids) (us : List Name) : Ids :=
  { i with undeclared := i.undeclared ++
      us.filter (fun x => decide (x ≠ contextName ∧ x ∉ i.declared ∧ x ∉ i.locDecl)) }

def Ids.addLoc (i : Ids) (d : List Name) : Ids := { i with locDecl := i.locDecl ++ d }
def Ids.addAssigned (i : Ids) (d : List Name) : Ids := { i with locAssigned := i.locAssigned ++ d }
def Ids.addArgs (i : Ids) (a : List Name) : Ids := { i with argDecl := i.argDecl ++ a }
def Ids.addTop (i : Ids) (f : Name) : Ids := { i with topdefs := i.topdefs ++ [f] }
def Ids.addClos (i : Ids) (f : Name) : Ids := { i with closdefs := i.closdefs ++ [f] }
/-- `self.undeclared.add(node.funcname)` of `visitBlockTag` (unconditional) -/
def Ids.addUndeclRaw (i : Ids) (f : Name) : Ids := { i with undeclared := i.undeclared ++ [f] }

/-- `check_declared(node)` -/
def Ids.checkDeclared (i : Ids) (d u : List Name) : Ids := (i.addUndecl u).addLoc d

/-- bookkeeping of `visitBlockTag` before the children are visited -/
def Ids.enterBlock (i : Ids) (self : Bool) (name : Option Name) (fname : Name) (args undecl : List Name) : Ids :=
  let i1 := i.addUndecl undecl
  let i2 := match name with
    | some n => (i1.addTop n).addUndeclRaw n
    | none => if self then i1 else i1.addClos fname
  i2.addArgs args

/-- the traversal of the children of a scope node by one `_Identifiers` (`root`: the list is the
template's own node list, so that a `<%def>` in it `is_root()`).  Defs are visited one level deep, blocks
are traversed (`visitBlockTag` always visits `node.nodes`). -/
def visit (i : Ids) (root : Bool) : Body → Ids
  | .nil => i
  | .leaf _ d u r => visit (i.checkDeclared d u) root r
  | .text _ u r => visit (i.addUndecl u) root r
  | .code _ d u r => visit ((i.checkDeclared d u).addAssigned d) root r
  | .page _ a u r => visit ((i.addArgs a).checkDeclared a u) root r
  | .defn _ f _ u _ r => visit ((if root then i.addTop f else i.addClos f).addUndecl u) root r
  | .block _ nm fn a u b r => visit (visit (i.enterBlock false nm fn a u) false b) root r
  | .call _ _ _ u _ r => visit (i.addUndecl u) root r

/-- `_Identifiers(compiler, node, parent, nested)` up to the visit of `node` -/
def Ids.branch (p : Ids) (nested : Bool) : Ids :=
  { declared := p.declared ++ p.closdefs ++ p.locDecl ++ p.argDecl ++ (if nested then p.undeclared else []),
    topdefs := p.topdefs }

/-- `visitDefTag(self.node)` -/
def visitDefSelf (i : Ids) (isTop : Bool) (f : Name) (a u : List Name) (b : Body) : Ids :=
  visit (((if isTop then i.addTop f else i).addUndecl u).addArgs a) false b

/-- `visitBlockTag(self.node)` -/
def visitBlockSelf (i : Ids) (nm : Option Name) (fn : Name) (a u : List Name) (b : Body) : Ids :=
  visit (i.enterBlock true nm fn a u) false b

/-- `visitCallTag(self.node)` -/
def visitCallSelf (i : Ids) (d u : List Name) (b : Body) : Ids :=
  visit ((i.addUndecl u).addArgs d) false b

/-- `add_declared(ident)` -/
def Ids.addDeclared (i : Ids) (x : Name) : Ids :=
  { i with declared := i.declared ++ [x], undeclared := i.undeclared.filter (fun y => decide (y ≠ x)) }

/-- a collection of `_Identifiers` by its Python attribute name (dict-valued ones: their keys) -/
def Ids.collection (i : Ids) : String → List Name
  | "locally_declared" => i.locDecl
  | "argument_declared" => i.argDecl
  | "closuredefs" => i.closdefs
  | "topleveldefs" => i.topdefs
  | "declared" => i.declared
  | "undeclared" => i.undeclared
  | "locally_assigned" => i.locAssigned
  | _ => []

/-- the names the reserved-name test looks at (the collections are regenerated from `_Identifiers.__init__`) -/
def Ids.checked (i : Ids) : List Name := Generated.Names.reservedCheckedCollections.flatMap i.collection

/-- the reserved-name test at the end of `_Identifiers.__init__` -/
def Ids.conflicts (c : Cfg) (i : Ids) : List Name := c.reserved.filter (fun n => decide (n ∈ i.checked))

/-! ## `write_variable_declares` -/

def dedup : List Name → List Name
  | [] => []
  | x :: xs => if x ∈ xs then dedup xs else x :: dedup xs

/-- `to_write` before the `loop` adjustment -/
def toWriteRaw (i : Ids) : List Name :=
  dedup ((i.undeclared ++ i.closdefs).filter (fun x => decide (x ∉ i.argDecl ∧ x ∉ i.locDecl)))

def hasLoop (c : Cfg) (i : Ids) : Bool := c.enableLoop && decide (loopName ∈ toWriteRaw i)

/-- is a `% for` control line rewritten into `loop = __M_loop._enter(…)` / `for … in loop:` (`visitControlLine` +
`mangle_mako_loop`): only when the line or the nodes under it mention `loop`, and – regenerated fact – only while the
loop context is enabled -/
def forRewritten (c : Cfg) (mentionsLoop : Bool) : Bool :=
  (if Generated.Names.forRewriteOnlyWhenEnabled then c.enableLoop else true) && mentionsLoop

/-- the set `to_write` as a list without duplicates; the code iterates `sorted(to_write)` (`emitOrder`; before the
hash-seed repair: the set's hash order – `declares_exact` is stated for every permutation of this list) -/
def toWrite (c : Cfg) (i : Ids) (limit : Option (List Name)) : List Name :=
  let w := if c.enableLoop then (toWriteRaw i).filter (fun x => decide (x ≠ loopName)) else toWriteRaw i
  match limit with
  | none => w
  | some l => w.filter (fun x => decide (x ∈ l))

/-- Python's `str` order on names: lexicographic by code point -/
def nameLe : Name → Name → Bool
  | [], _ => true
  | _ :: _, [] => false
  | a :: as, b :: bs => if a.toNat < b.toNat then true else if b.toNat < a.toNat then false else nameLe as bs

def insertName (x : Name) : List Name → List Name
  | [] => [x]
  | y :: ys => if nameLe x y then x :: y :: ys else y :: insertName x ys

/-- `sorted(names)` -/
def sortNames : List Name → List Name
  | [] => []
  | x :: xs => insertName x (sortNames xs)

/-- the order in which `for ident in sorted(to_write)` emits the declarations -/
def emitOrder (c : Cfg) (i : Ids) (limit : Option (List Name)) : List Name := sortNames (toWrite c i limit)

/-- what one iteration of the loop emits -/
inductive DeclKind where
  /-- `write_inline_def` (closure def / anonymous block) -/
  | inlineDef
  /-- `write_def_decl`: stub calling `render_<f>(context…)`; `useLocals` = `context._locals(__M_locals)` -/
  | defStub (useLocals : Bool)
  /-- `x = _mako_get_namespace(context, 'x')` -/
  | nsGet
  /-- `x = context.get('x', UNDEFINED)` and its `_import_ns` / strict variants -/
  | fetch
  deriving Repr, DecidableEq

/-- `comp_idents` is `topleveldefs.union(closuredefs)` (closure defs win) -/
def classify (c : Cfg) (i : Ids) (useLocals : Bool) (x : Name) : DeclKind :=
  if x ∈ i.closdefs then .inlineDef
  else if x ∈ i.topdefs then .defStub useLocals
  else if x ∈ c.nsNames then .nsGet
  else .fetch

/-- statements of the prelude of a generated function, in emission order -/
inductive Stmt where
  | mlocalsInit (keys : List Name)
  | importNsInit
  | loopInit
  | decl (x : Name) (k : DeclKind)
  | writerInit
  | body (n : Nat)
  deriving Repr, DecidableEq

/-- the prelude + body skeleton of a generated function: `order` is the iteration order of `to_write` -/
def emit (c : Cfg) (i : Ids) (toplevel useLocals : Bool) (mlocals : Option (List Name)) (order : List Name)
    (nbody : Nat) : List Stmt :=
  (match mlocals with | some ks => [Stmt.mlocalsInit ks] | none => [])
  ++ (if toplevel && c.hasNsImports then [Stmt.importNsInit] else [])
  ++ (if hasLoop c i then [Stmt.loopInit] else [])
  ++ order.map (fun x => Stmt.decl x (classify c i useLocals x))
  ++ [Stmt.writerInit]
  ++ (List.range nbody).map Stmt.body

/-! ## Run-time values: `Context.get`, `Context.__getitem__`, the emitted fetch expressions -/

inductive Val where
  | undefined
  /-- Python's `None` -/
  | pyNone
  | obj (n : Nat)
  deriving Repr, DecidableEq

abbrev Dict := Name → Option Val

structure RT where
  /-- `_import_ns` after `_populate` -/
  importNs : Dict
  /-- `context._data` of the context the enclosing top-level function was called with -/
  data : Dict
  /-- `builtins.__dict__` -/
  builtins : Dict

/-- `dict.get(key, default)` -/
def dget (m : Dict) (x : Name) (dflt : Val) : Val := (m x).getD dflt

/-- "is the key bound in this dictionary" as the code under test decides it: by membership (`key in d`, `d.get(key,
default)` – the regenerated form) or, were the code to test the value, `None` counting as absent -/
def boundIn (byMembership : Bool) (m : Dict) (x : Name) : Option Val :=
  match m x with
  | some .pyNone => if byMembership then some .pyNone else none
  | r => r

/-- `Context.get(key, default)`: `self._data.get(key, builtins.__dict__.get(key, default))` -/
def ctxGet (rt : RT) (x : Name) (dflt : Val) : Val :=
  (boundIn Generated.Names.ctxGetByMembership rt.data x).getD (dget rt.builtins x dflt)

/-- `Context.__getitem__`: `if key in self._data: return self._data[key] else: return builtins.__dict__[key]`;
`none` = KeyError -/
def ctxGetItem (rt : RT) (x : Name) : Option Val :=
  match boundIn Generated.Names.ctxGetItemByMembership rt.data x with
  | some v => some v
  | none => rt.builtins x

inductive Fetched where
  | val (v : Val)
  /-- `raise NameError("'x' is not defined")` -/
  | nameError
  deriving Repr, DecidableEq

/-- the four shapes emitted by `write_variable_declares` for a plain identifier -/
def fetchExpr (c : Cfg) (rt : RT) (x : Name) : Fetched :=
  if c.hasNsImports then
    if c.strict then
      let v := dget rt.importNs x .undefined
      if v = .undefined then
        match ctxGetItem rt x with
        | some w => .val w
        | none => .nameError
      else .val v
    else .val (dget rt.importNs x (ctxGet rt x .undefined))
  else
    if c.strict then
      match ctxGetItem rt x with
      | some w => .val w
      | none => .nameError
    else .val (ctxGet rt x .undefined)

/-- executing the fetch statements of a prelude in emission order: the first failing one raises -/
def runPrelude (c : Cfg) (rt : RT) : List Stmt → Except Name (List (Name × Val))
  | [] => .ok []
  | .decl x .fetch :: r =>
      match fetchExpr c rt x with
      | .nameError => .error x
      | .val v => (runPrelude c rt r).map (fun env => (x, v) :: env)
  | _ :: r => runPrelude c rt r

/-! ## Python's view of the generated functions (LEGB) -/

/-- a generated function on the closure chain of a read site -/
structure Frame where
  ids : Ids := {}
  /-- parameters of the emitted `def` (without `context`) -/
  params : List Name := []
  /-- names assigned by the function's own code, with the tag of the assigning node -/
  own : List (Name × Nat) := []
  /-- nested `<%def>`s / anonymous blocks of the scope (for a `ccall` frame: the defs of the `<%call>`) -/
  defs : List Name := []
  /-- the synthetic `def ccall(caller)` frame of a `<%call>` (no `_Identifiers`) -/
  ccall : Bool := false
  /-- `context._locals(__M_locals)` is passed by the def stubs declared in this function -/
  useLocals : Bool := false
  /-- (`ccall` frame of the defs of a `<%call>`) names the defs never take from the enclosing scopes: `caller` -/
  blocks : List Name := []
  deriving Repr

def tagsOf (own : List (Name × Nat)) (x : Name) : List Nat :=
  (own.filter (fun p => decide (p.1 = x))).map (·.2)

inductive Cell where
  | param
  | assigned (tags : List Nat)
  | inlineDef
  | defStub (useLocals : Bool)
  | nsObj
  | fetched
  | loopObj
  deriving Repr, DecidableEq

/-- is `x` a local variable of the generated function, and of which kind -/
def Frame.lookup (c : Cfg) (f : Frame) (x : Name) : Option Cell :=
  if x ∈ f.params then some .param
  else match tagsOf f.own x with
    | t :: ts => some (.assigned (t :: ts))
    | [] =>
      if f.ccall then (if x ∈ f.defs then some .inlineDef else none)
      else if x ∈ toWrite c f.ids none then
        some (match classify c f.ids f.useLocals x with
              | .inlineDef => .inlineDef
              | .defStub u => .defStub u
              | .nsGet => .nsObj
              | .fetch => .fetched)
      else if hasLoop c f.ids && decide (x = loopName) then some .loopObj
      else none

inductive Res where
  /-- the `context` parameter -/
  | ctxObj
  /-- local variable of the function `depth` levels up the closure chain -/
  | cell (depth : Nat) (c : Cell)
  /-- module-level name of the generated module that a template can declare -/
  | global
  /-- free name without binding in the generated module: Python falls back to builtins / NameError -/
  | pyFallback
  deriving Repr, DecidableEq

def Impl.resolveFrom (c : Cfg) : List Frame → Nat → Name → Res
  | [], _, x => if x ∈ c.moduleNames then .global else .pyFallback
  | f :: fs, d, x =>
    match f.lookup c x with
    | some cell => .cell d cell
    | none => Impl.resolveFrom c fs (d + 1) x

/-- how the generated code resolves a read of `x` in the innermost function of `chain` -/
def Impl.resolve (c : Cfg) (chain : List Frame) (x : Name) : Res :=
  if x = contextName then .ctxObj else Impl.resolveFrom c chain 0 x

/-- tags of the leaves (expressions, control lines, include tags) emitted into the function itself -/
def ownLeafTags : Body → List Nat
  | .nil => []
  | .leaf t _ _ r => t :: ownLeafTags r
  | .text _ _ r | .code _ _ _ r | .page _ _ _ r | .defn _ _ _ _ _ r | .block _ _ _ _ _ _ r | .call _ _ _ _ _ r => ownLeafTags r

/-- `__M_loop` is a local of the functions that declare `loop = __M_loop = runtime.LoopStack()`; closures nested in
them see it -/
def mLoopAvailable (c : Cfg) (chain : List Frame) : Bool := chain.any (fun f => !f.ccall && hasLoop c f.ids)

/-- `% for` lines of the function that are rewritten to `loop = __M_loop._enter(…)` although no `__M_loop` is in scope
(`loopFors`: tags of the `% for` lines whose line or suite mentions `loop` – `codegen.LoopVariable`, an input like the
identifier sets): executing such a line raises Python's `NameError: name '__M_loop' is not defined` -/
def forErrors (c : Cfg) (loopFors : List Nat) (chain : List Frame) (body : Body) : List Nat :=
  (ownLeafTags body).filter (fun t => decide (t ∈ loopFors) && forRewritten c true && !mLoopAvailable c chain)

/-! ## Specification -/

inductive SCell where
  | param
  | assigned (tags : List Nat)
  | defFn
  deriving Repr, DecidableEq

inductive SVal where
  | ctxObj
  /-- variable of the enclosing scope `depth` levels up (Python's local / closure rule) -/
  | scoped (depth : Nat) (c : SCell)
  /-- module-level `<%! %>` name (or `UNDEFINED` / `STOP_RENDERING`) -/
  | global
  | loopObj
  /-- a top-level def / named block of the template -/
  | defFn
  /-- a `<%namespace name=…>` -/
  | nsObj
  | val (v : Val)
  /-- `NameError("'x' is not defined")` raised by the strict prelude -/
  | strictError
  /-- Python's own `NameError` (a name the generator believed declared has no binding) -/
  | pyNameError
  deriving Repr, DecidableEq

def Spec.scopeLookup : List Frame → Nat → Name → Option (Nat × SCell)
  | [], _, _ => none
  | f :: fs, d, x =>
    if x ∈ f.params then some (d, .param)
    else match tagsOf f.own x with
      | t :: ts => some (d, .assigned (t :: ts))
      | [] =>
        if x ∈ f.defs then some (d, .defFn)
        else if x ∈ f.blocks then none
        else Spec.scopeLookup fs (d + 1) x

/-- import= namespaces, then context data, then builtins, then UNDEFINED / strict NameError -/
def Spec.fetch (strict : Bool) (rt : RT) (x : Name) : SVal :=
  match rt.importNs x with
  | some v => .val v
  | none =>
    match rt.data x with
    | some v => .val v
    | none =>
      match rt.builtins x with
      | some v => .val v
      | none => if strict then .strictError else .val .undefined

/-- the resolution order of the property text; uses only `params / own / defs` of the frames (the template's
scopes), never their `_Identifiers` -/
def Spec.resolve (c : Cfg) (topdefs : List Name) (rt : RT) (chain : List Frame) (x : Name) : SVal :=
  if x = contextName then .ctxObj else
  match Spec.scopeLookup chain 0 x with
  | some (d, cell) => .scoped d cell
  | none =>
    if x ∈ c.moduleNames then .global
    else if c.enableLoop && decide (x = loopName) then .loopObj
    else if x ∈ topdefs then .defFn
    else if x ∈ c.nsNames then .nsObj
    else Spec.fetch c.strict rt x

/-- the value denoted by the generated code's resolution -/
def Res.toSVal (c : Cfg) (rt : RT) (x : Name) : Res → SVal
  | .ctxObj => .ctxObj
  | .cell d .param => .scoped d .param
  | .cell d (.assigned ts) => .scoped d (.assigned ts)
  | .cell d .inlineDef => .scoped d .defFn
  | .cell _ (.defStub _) => .defFn
  | .cell _ .nsObj => .nsObj
  | .cell _ .loopObj => .loopObj
  | .cell _ .fetched =>
    match fetchExpr c rt x with
    | .val v => .val v
    | .nameError => .strictError
  | .global => .global
  | .pyFallback =>
    match rt.builtins x with
    | some v => .val v
    | none => .pyNameError

/-! ## Own bindings of a scope (Python's view of the code emitted into one function) -/

/-- names assigned by the code of the node list itself (not by nested blocks, defs or calls) -/
def ownOf : Body → List (Name × Nat)
  | .nil => []
  | .leaf t d _ r => d.map (fun x => (x, t)) ++ ownOf r
  | .text _ _ r => ownOf r
  | .code t d _ r => d.map (fun x => (x, t)) ++ ownOf r
  | .page _ _ _ r => ownOf r
  | .defn _ _ _ _ _ r => ownOf r
  | .block _ _ _ _ _ _ r => ownOf r
  | .call _ _ _ _ _ r => ownOf r

/-- names bound by the leaves of the list, *through its blocks* (as `visitBlockTag` traverses them) -/
def declsThrough : Body → List Name
  | .nil => []
  | .leaf _ d _ r => d ++ declsThrough r
  | .text _ _ r => declsThrough r
  | .code _ d _ r => d ++ declsThrough r
  | .page _ a _ r => a ++ declsThrough r
  | .defn _ _ _ _ _ r => declsThrough r
  | .block _ _ _ _ _ b r => declsThrough b ++ declsThrough r
  | .call _ _ _ _ _ r => declsThrough r

/-- names read by the nodes of the list itself -/
def readsOf : Body → List Name
  | .nil => []
  | .leaf _ _ u r => u ++ readsOf r
  | .text _ u r => u ++ readsOf r
  | .code _ _ u r => u ++ readsOf r
  | .page _ _ u r => u ++ readsOf r
  | .defn _ _ _ u _ r => u ++ readsOf r
  | .block _ _ _ _ u _ r => u ++ readsOf r
  | .call _ _ _ u _ r => u ++ readsOf r

/-- `<%page>` arguments of the list -/
def pageArgsOf : Body → List Name
  | .nil => []
  | .page _ a _ r => a ++ pageArgsOf r
  | .leaf _ _ _ r | .text _ _ r | .code _ _ _ r | .defn _ _ _ _ _ r | .block _ _ _ _ _ _ r
  | .call _ _ _ _ _ r => pageArgsOf r

/-- closure defs of the list as `_Identifiers` finds them: `<%def>`s of the list (unless `root`) and
anonymous blocks, *including those inside blocks* -/
def closOf (root : Bool) : Body → List Name
  | .nil => []
  | .defn _ f _ _ _ r => (if root then [] else [f]) ++ closOf root r
  | .block _ nm fn _ _ b r => (match nm with | some _ => [] | none => [fn]) ++ closOf false b ++ closOf root r
  | .leaf _ _ _ r | .text _ _ r | .code _ _ _ r | .page _ _ _ r | .call _ _ _ _ _ r => closOf root r

/-- closure defs of the list itself: its `<%def>`s (unless `root`) and its anonymous blocks -/
def defsOf (root : Bool) : Body → List Name
  | .nil => []
  | .defn _ f _ _ _ r => (if root then [] else [f]) ++ defsOf root r
  | .block _ nm fn _ _ _ r => (match nm with | some _ => [] | none => [fn]) ++ defsOf root r
  | .leaf _ _ _ r | .text _ _ r | .code _ _ _ r | .page _ _ _ r | .call _ _ _ _ _ r => defsOf root r

/-- top-level defs and named blocks as the body's `_Identifiers` finds them -/
def topsOf (root : Bool) : Body → List Name
  | .nil => []
  | .defn _ f _ _ _ r => (if root then [f] else []) ++ topsOf root r
  | .block _ nm _ _ _ b r => (match nm with | some n => [n] | none => []) ++ topsOf false b ++ topsOf root r
  | .leaf _ _ _ r | .text _ _ r | .code _ _ _ r | .page _ _ _ r | .call _ _ _ _ _ r => topsOf root r

/-! ## The `__M_locals` mechanism -/

inductive MLVal where
  /-- value of a `render_body` argument (`<%page args>` / `pageargs`) at entry -/
  | arg
  /-- value assigned by the `<% %>` block `tag` -/
  | assigned (tag : Nat)
  deriving Repr, DecidableEq

abbrev ML := List (Name × MLVal)

/-- `dict.update` with the declared names of a code block -/
def mlUpdate (ml : ML) (d : List Name) (t : Nat) : ML :=
  ml.filter (fun p => decide (p.1 ∉ d)) ++ d.map (fun x => (x, MLVal.assigned t))

def mlGet (ml : ML) (x : Name) : Option MLVal := (ml.find? (fun p => decide (p.1 = x))).map (·.2)

/-- the key list of `__M_locals.update(…)` after a `<% %>` block declaring `d` (regenerated from `visitCode`: the
declared identifiers of the block – not minus the arguments of the body) -/
def mlKeys (args d : List Name) : List Name :=
  if Generated.Names.mlocalsUpdateMinusArgs then d.filter (fun x => decide (x ∉ args)) else d

/-- own `<% %>` blocks of a node list: their declared identifiers, in order -/
def codesOf : Body → List (List Name)
  | .nil => []
  | .code _ d _ r => d :: codesOf r
  | .leaf _ _ _ r | .text _ _ r | .page _ _ _ r | .defn _ _ _ _ _ r | .block _ _ _ _ _ _ r | .call _ _ _ _ _ r => codesOf r

/-- `__M_locals` as `render_body` and the closures nested in it maintain it, at the moment the node `stop`
starts executing (`args`: `argument_declared` of the body).  Everything nested in `render_body` is written with
`in_def = False`, so the `<% %>` blocks of anonymous blocks and `<%call>` bodies update the same dictionary; these
execute in place (a `<%call>` body: when the called def invokes `caller.body()` – assumed to happen once, at the
call).  Returns the dictionary and whether `stop` was reached. -/
def mlRun (args : List Name) (stop : Nat) : Body → ML × Bool → ML × Bool
  | _, (ml, true) => (ml, true)
  | .nil, s => s
  | .leaf t _ _ r, (ml, false) => if t = stop then (ml, true) else mlRun args stop r (ml, false)
  | .text t _ r, (ml, false) => if t = stop then (ml, true) else mlRun args stop r (ml, false)
  | .page t _ _ r, (ml, false) => if t = stop then (ml, true) else mlRun args stop r (ml, false)
  | .code t d _ r, (ml, false) =>
      if t = stop then (ml, true) else mlRun args stop r (mlUpdate ml (mlKeys args d) t, false)
  | .defn t _ _ _ _ r, (ml, false) => if t = stop then (ml, true) else mlRun args stop r (ml, false)
  | .block t nm _ _ _ b r, (ml, false) =>
      if t = stop then (ml, true) else
      match nm with
      | none => mlRun args stop r (mlRun args stop b (ml, false))
      | some _ => mlRun args stop r (ml, false)
  | .call t _ _ _ b r, (ml, false) =>
      if t = stop then (ml, true) else mlRun args stop r (mlRun args stop b (ml, false))

/-- does the node list (through anonymous blocks and call bodies) contain the node `stop` -/
def reaches (stop : Nat) : Body → Bool
  | .nil => false
  | .leaf t _ _ r | .text t _ r | .page t _ _ r | .code t _ _ r | .defn t _ _ _ _ r =>
      t == stop || reaches stop r
  | .block t nm _ _ _ b r =>
      t == stop || (match nm with | none => reaches stop b | some _ => false) || reaches stop r
  | .call t _ _ _ b r => t == stop || reaches stop b || reaches stop r

/-- specification: the body's `<%page>` arguments and the *current* values of the body's own `<% %>`
assignments at the moment the node `stop` (in the body, an anonymous block or a call body of it) executes -/
def Spec.overlayRun (stop : Nat) : Body → ML × Bool → ML × Bool
  | _, (ml, true) => (ml, true)
  | .nil, s => s
  | .leaf t _ _ r, (ml, false) => if t = stop then (ml, true) else Spec.overlayRun stop r (ml, false)
  | .text t _ r, (ml, false) => if t = stop then (ml, true) else Spec.overlayRun stop r (ml, false)
  | .page t _ _ r, (ml, false) => if t = stop then (ml, true) else Spec.overlayRun stop r (ml, false)
  | .code t d _ r, (ml, false) =>
      if t = stop then (ml, true) else Spec.overlayRun stop r (mlUpdate ml d t, false)
  | .defn t _ _ _ _ r, (ml, false) => if t = stop then (ml, true) else Spec.overlayRun stop r (ml, false)
  | .block t nm _ _ _ b r, (ml, false) =>
      if t = stop then (ml, true) else
      match nm with
      | none => if reaches stop b then (ml, true) else Spec.overlayRun stop r (ml, false)
      | some _ => Spec.overlayRun stop r (ml, false)
  | .call t _ _ _ b r, (ml, false) =>
      if t = stop then (ml, true) else
      if reaches stop b then (ml, true) else Spec.overlayRun stop r (ml, false)

/-- `__M_locals = __M_dict_builtin(a=a for a in argument_declared)` -/
def mlInit (args : List Name) : ML := (dedup args).map (fun x => (x, MLVal.arg))

/-- `context._locals(__M_locals)._data` as a key → source map: the overlay wins -/
inductive Src where
  | overlay (v : MLVal)
  | data
  deriving Repr, DecidableEq

def localsData (dataKeys : List Name) (ml : ML) (x : Name) : Option Src :=
  match mlGet ml x with
  | some v => some (.overlay v)
  | none => if x ∈ dataKeys then some .data else none

end MakoModel.Names
