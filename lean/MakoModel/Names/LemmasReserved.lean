import MakoModel.Names.LemmasVisit
/-! Every name a generated scope binds through an assignment form is in the `locally_declared` set of the
`_Identifiers` built for it, hence reserved-checked. -/
namespace MakoModel.Names

def ScopeDecl (s : Scope) : Prop := ∀ x ∈ declsThrough s.body, x ∈ s.ids.locDecl

theorem scopeDecl_visit {path : List PathEl} {kind : Kind} {tag : Nat} {inDef tl : Bool} {i0 : Ids} {b : Body}
    {fr : Frame} {rest : List Frame} (h : fr.ids.locDecl = (visit i0 false b).locDecl) :
    ScopeDecl { path, kind, tag, inDef, toplevel := tl, frames := fr :: rest, body := b } := by
  intro x hx
  show x ∈ fr.ids.locDecl
  rw [h]
  exact (mem_visit_locDecl b i0 false).mpr (Or.inr hx)

mutual
theorem scopesIn_decl (c : Cfg) (mods : Ids) :
    ∀ (b : Body) (inDef useLoc emitTop : Bool) (fr : Frame) (rest : List Frame) (path : List PathEl) (own root : Bool),
      ∀ s ∈ scopesIn c mods inDef useLoc emitTop fr rest path own root b, ScopeDecl s
  | .nil, _, _, _, _, _, _, _, _ => by simp [scopesIn]
  | .leaf _ _ _ r, inDef, useLoc, emitTop, fr, rest, path, own, root => by
      simpa [scopesIn] using scopesIn_decl c mods r inDef useLoc emitTop fr rest path own root
  | .text _ _ r, inDef, useLoc, emitTop, fr, rest, path, own, root => by
      simpa [scopesIn] using scopesIn_decl c mods r inDef useLoc emitTop fr rest path own root
  | .code _ _ _ r, inDef, useLoc, emitTop, fr, rest, path, own, root => by
      simpa [scopesIn] using scopesIn_decl c mods r inDef useLoc emitTop fr rest path own root
  | .page _ _ _ r, inDef, useLoc, emitTop, fr, rest, path, own, root => by
      simpa [scopesIn] using scopesIn_decl c mods r inDef useLoc emitTop fr rest path own root
  | .defn t f a u b r, inDef, useLoc, emitTop, fr, rest, path, own, root => by
      intro s hs
      simp only [scopesIn, List.mem_append] at hs
      rcases hs with hs | hs
      · cases root with
        | true =>
          simp only [if_true, List.mem_cons] at hs
          rcases hs with rfl | hs
          · exact scopeDecl_visit rfl
          · exact scopesIn_decl c mods b true false false _ [] _ true false s hs
        | false =>
          simp only [Bool.false_eq_true, if_false] at hs
          by_cases hw : f ∈ toWrite c fr.ids none
          · simp only [hw, if_true, List.mem_cons] at hs
            rcases hs with rfl | hs
            · exact scopeDecl_visit rfl
            · exact scopesIn_decl c mods b inDef useLoc false _ (fr :: rest) _ true false s hs
          · simp [hw] at hs
      · exact scopesIn_decl c mods r inDef useLoc emitTop fr rest path own root s hs
  | .block t nm fn a u b r, inDef, useLoc, emitTop, fr, rest, path, own, root => by
      intro s hs
      simp only [scopesIn, List.mem_append] at hs
      rcases hs with (hs | hs) | hs
      · cases nm with
        | none =>
          simp only at hs
          by_cases hw : fn ∈ toWrite c fr.ids none
          · simp only [hw, if_true, List.mem_cons] at hs
            rcases hs with rfl | hs
            · exact scopeDecl_visit rfl
            · exact scopesIn_decl c mods b inDef useLoc false _ (fr :: rest) _ true false s hs
          · simp [hw] at hs
        | some n =>
          simp only at hs
          cases emitTop with
          | false => simp at hs
          | true =>
            simp only [if_true, List.mem_cons] at hs
            rcases hs with rfl | hs
            · exact scopeDecl_visit (i0 := (mods.branch false).enterBlock true (some n) fn a u) rfl
            · exact scopesIn_decl c mods b true false false _ [] _ true false s hs
      · exact scopesIn_decl c mods b inDef useLoc emitTop fr rest path false false s hs
      · exact scopesIn_decl c mods r inDef useLoc emitTop fr rest path own root s hs
  | .call t args d u b r, inDef, useLoc, emitTop, fr, rest, path, own, root => by
      intro s hs
      simp only [scopesIn, List.mem_append] at hs
      rcases hs with hs | hs
      · cases own with
        | false => simp at hs
        | true =>
          simp only [if_true, List.mem_append, List.mem_singleton] at hs
          rcases hs with (hs | hs) | hs
          · exact callDefsIn_decl c mods b inDef _ _ _ _ _ s hs
          · subst hs
            exact scopeDecl_visit (i0 := (((callableIds fr.ids d u b).branch false).addUndecl u).addArgs d)
              (by simp [callBodyIds, Ids.addDeclared, visitCallSelf])
          · exact scopesIn_decl c mods b inDef _ false _ _ _ true false s hs
      · exact scopesIn_decl c mods r inDef useLoc emitTop fr rest path own root s hs

theorem callDefsIn_decl (c : Cfg) (mods : Ids) :
    ∀ (b : Body) (inDef useCD : Bool) (cal : Ids) (ccD : Frame) (rest : List Frame) (path : List PathEl),
      ∀ s ∈ callDefsIn c mods inDef useCD cal ccD rest path b, ScopeDecl s
  | .nil, _, _, _, _, _, _ => by simp [callDefsIn]
  | .leaf _ _ _ r, inDef, useCD, cal, ccD, rest, path => by
      simpa [callDefsIn] using callDefsIn_decl c mods r inDef useCD cal ccD rest path
  | .text _ _ r, inDef, useCD, cal, ccD, rest, path => by
      simpa [callDefsIn] using callDefsIn_decl c mods r inDef useCD cal ccD rest path
  | .code _ _ _ r, inDef, useCD, cal, ccD, rest, path => by
      simpa [callDefsIn] using callDefsIn_decl c mods r inDef useCD cal ccD rest path
  | .page _ _ _ r, inDef, useCD, cal, ccD, rest, path => by
      simpa [callDefsIn] using callDefsIn_decl c mods r inDef useCD cal ccD rest path
  | .defn t f a u b r, inDef, useCD, cal, ccD, rest, path => by
      intro s hs
      simp only [callDefsIn, List.mem_append, List.mem_cons] at hs
      rcases hs with (rfl | hs) | hs
      · exact scopeDecl_visit rfl
      · exact scopesIn_decl c mods b inDef useCD false _ (ccD :: rest) _ true false s hs
      · exact callDefsIn_decl c mods r inDef useCD cal ccD rest path s hs
  | .block t nm fn a u b r, inDef, useCD, cal, ccD, rest, path => by
      intro s hs
      simp only [callDefsIn, List.mem_append, List.mem_cons] at hs
      rcases hs with (rfl | hs) | hs
      · exact scopeDecl_visit (i0 := (cal.branch false).enterBlock true nm fn a u) rfl
      · exact scopesIn_decl c mods b inDef useCD false _ (ccD :: rest) _ true false s hs
      · exact callDefsIn_decl c mods r inDef useCD cal ccD rest path s hs
  | .call _ _ _ _ b r, inDef, useCD, cal, ccD, rest, path => by
      intro s hs
      simp only [callDefsIn, List.mem_append] at hs
      rcases hs with hs | hs
      · exact callDefsIn_decl c mods b inDef useCD cal ccD rest path s hs
      · exact callDefsIn_decl c mods r inDef useCD cal ccD rest path s hs
end

theorem allScopes_decl (c : Cfg) (t : Body) : ∀ s ∈ allScopes c t, ScopeDecl s := by
  intro s hs
  simp only [allScopes, List.mem_cons] at hs
  rcases hs with rfl | hs
  · intro x hx
    show x ∈ (bodyIds c t).locDecl
    simp only [bodyIds, addArgs_locDecl]
    exact (mem_visit_locDecl t _ true).mpr (Or.inr hx)
  · exact scopesIn_decl c (moduleIds c t) t false _ true _ [] _ true true s hs

theorem mem_conflicts {c : Cfg} {i : Ids} {x : Name} : x ∈ i.conflicts c ↔ x ∈ c.reserved ∧ x ∈ i.locDecl := by
  simp [Ids.conflicts, List.mem_filter]

end MakoModel.Names
