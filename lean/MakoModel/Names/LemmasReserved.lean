import MakoModel.Names.LemmasVisit
/-! Every name a generated scope binds – by an assignment form (through its blocks), as an argument, or as the name
of one of its defs / blocks – is in a collection the reserved-name test of `_Identifiers.__init__` looks at.
The four membership lemmas depend on the regenerated list of checked collections. -/
namespace MakoModel.Names

theorem checked_loc {i : Ids} {x : Name} (h : x ∈ i.locDecl) : x ∈ i.checked := by
  simp [Ids.checked, Generated.Names.reservedCheckedCollections, Ids.collection, h]
theorem checked_arg {i : Ids} {x : Name} (h : x ∈ i.argDecl) : x ∈ i.checked := by
  simp [Ids.checked, Generated.Names.reservedCheckedCollections, Ids.collection, h]
theorem checked_clos {i : Ids} {x : Name} (h : x ∈ i.closdefs) : x ∈ i.checked := by
  simp [Ids.checked, Generated.Names.reservedCheckedCollections, Ids.collection, h]
theorem checked_top {i : Ids} {x : Name} (h : x ∈ i.topdefs) : x ∈ i.checked := by
  simp [Ids.checked, Generated.Names.reservedCheckedCollections, Ids.collection, h]

def ScopeBind (s : Scope) : Prop := ∀ x ∈ s.binds, ∃ i ∈ s.ids :: s.extraIds, x ∈ i.checked

/-- what a traversal checks of the names bound in the list it visits -/
theorem bind_visit {i0 : Ids} {b : Body} {root : Bool} {ea et : List Name} {x : Name}
    (ha : ∀ y ∈ ea, y ∈ i0.argDecl) (ht : ∀ y ∈ et, y ∈ i0.topdefs)
    (hx : x ∈ declsThrough b ++ ea ++ closOf root b ++ et) : x ∈ (visit i0 root b).checked := by
  simp only [List.mem_append] at hx
  rcases hx with ((hx | hx) | hx) | hx
  · exact checked_loc ((mem_visit_locDecl b i0 root).mpr (Or.inr hx))
  · exact checked_arg ((mem_visit_argDecl b i0 root).mpr (Or.inl (ha x hx)))
  · exact checked_clos ((mem_visit_closdefs b i0 root).mpr (Or.inr hx))
  · exact checked_top ((mem_visit_topdefs b i0 root).mpr (Or.inl (ht x hx)))

theorem checked_addArgs {i : Ids} {e : List Name} {x : Name} (h : x ∈ i.checked) : x ∈ (i.addArgs e).checked := by
  simp only [Ids.checked, Generated.Names.reservedCheckedCollections, List.flatMap_cons, List.flatMap_nil, Ids.collection,
    List.mem_append, addArgs_argDecl, addArgs_closdefs, addArgs_locDecl, addArgs_topdefs] at h ⊢
  rcases h with h | h | h | h | h
  · exact Or.inl (Or.inl h)
  · exact Or.inr (Or.inl h)
  · exact Or.inr (Or.inr (Or.inl h))
  · exact Or.inr (Or.inr (Or.inr (Or.inl h)))
  · exact Or.inr (Or.inr (Or.inr (Or.inr h)))

theorem scopeBind_head {path : List PathEl} {kind : Kind} {tag : Nat} {inDef tl : Bool} {fr : Frame} {rest : List Frame}
    {b : Body} {ml : Option (List Name)} {ex : List Ids} {bs : List Name} (h : ∀ x ∈ bs, x ∈ fr.ids.checked) :
    ScopeBind { path, kind, tag, inDef, toplevel := tl, frames := fr :: rest, body := b, mlocals := ml, extraIds := ex, binds := bs } :=
  fun x hx => ⟨fr.ids, List.mem_cons_self, h x hx⟩

mutual
theorem scopesIn_bind (c : Cfg) (mods : Ids) :
    ∀ (b : Body) (inDef useLoc emitTop : Bool) (fr : Frame) (rest : List Frame) (path : List PathEl) (own root : Bool),
      ∀ s ∈ scopesIn c mods inDef useLoc emitTop fr rest path own root b, ScopeBind s
  | .nil, _, _, _, _, _, _, _, _ => by simp [scopesIn]
  | .leaf _ _ _ r, inDef, useLoc, emitTop, fr, rest, path, own, root => by
      simpa [scopesIn] using scopesIn_bind c mods r inDef useLoc emitTop fr rest path own root
  | .text _ _ r, inDef, useLoc, emitTop, fr, rest, path, own, root => by
      simpa [scopesIn] using scopesIn_bind c mods r inDef useLoc emitTop fr rest path own root
  | .code _ _ _ r, inDef, useLoc, emitTop, fr, rest, path, own, root => by
      simpa [scopesIn] using scopesIn_bind c mods r inDef useLoc emitTop fr rest path own root
  | .page _ _ _ r, inDef, useLoc, emitTop, fr, rest, path, own, root => by
      simpa [scopesIn] using scopesIn_bind c mods r inDef useLoc emitTop fr rest path own root
  | .defn t f a u b r, inDef, useLoc, emitTop, fr, rest, path, own, root => by
      intro s hs
      simp only [scopesIn, List.mem_append] at hs
      rcases hs with hs | hs
      · cases root with
        | true =>
          simp only [if_true, List.mem_cons] at hs
          rcases hs with rfl | hs
          · exact scopeBind_head (fun x hx => bind_visit (i0 := (((mods.branch false).addTop f).addUndecl u).addArgs a)
              (ea := a) (et := [f]) (by intro y hy; simp [hy]) (by intro y hy; simp at hy; simp [hy]) hx)
          · exact scopesIn_bind c mods b true false false _ [] _ true false s hs
        | false =>
          simp only [Bool.false_eq_true, if_false] at hs
          by_cases hw : f ∈ toWrite c fr.ids none
          · simp only [hw, if_true, List.mem_cons] at hs
            rcases hs with rfl | hs
            · exact scopeBind_head (fun x hx => bind_visit (i0 := ((fr.ids.branch true).addUndecl u).addArgs a)
                (ea := a) (et := []) (by intro y hy; simp [hy]) (by simp) (by simpa using hx))
            · exact scopesIn_bind c mods b inDef useLoc false _ (fr :: rest) _ true false s hs
          · simp [hw] at hs
      · exact scopesIn_bind c mods r inDef useLoc emitTop fr rest path own root s hs
  | .block t nm fn a u b r, inDef, useLoc, emitTop, fr, rest, path, own, root => by
      intro s hs
      simp only [scopesIn, List.mem_append] at hs
      rcases hs with (hs | hs) | hs
      · cases nm with
        | none =>
          simp only at hs
          by_cases hw : fn ∈ toWrite c fr.ids none
          · simp only [hw, if_true, List.mem_cons] at hs
            rcases hs with rfl | hs
            · exact scopeBind_head (fun x hx => bind_visit (i0 := (fr.ids.branch true).enterBlock true none fn a u)
                (ea := a) (et := []) (by intro y hy; simp [hy]) (by simp) (by simpa using hx))
            · exact scopesIn_bind c mods b inDef useLoc false _ (fr :: rest) _ true false s hs
          · simp [hw] at hs
        | some n =>
          simp only at hs
          cases emitTop with
          | false => simp at hs
          | true =>
            simp only [if_true, List.mem_cons] at hs
            rcases hs with rfl | hs
            · exact scopeBind_head (fun x hx => checked_addArgs (bind_visit
                (i0 := (mods.branch false).enterBlock true (some n) fn a u) (ea := a) (et := [n])
                (by intro y hy; simp [hy]) (by intro y hy; simp at hy; simp [enterBlock_topdefs, hy]) hx))
            · exact scopesIn_bind c mods b true false false _ [] _ true false s hs
      · exact scopesIn_bind c mods b inDef useLoc emitTop fr rest path false false s hs
      · exact scopesIn_bind c mods r inDef useLoc emitTop fr rest path own root s hs
  | .call t args d u b r, inDef, useLoc, emitTop, fr, rest, path, own, root => by
      intro s hs
      simp only [scopesIn, List.mem_append] at hs
      rcases hs with hs | hs
      · cases own with
        | false => simp at hs
        | true =>
          simp only [if_true, List.mem_append, List.mem_singleton] at hs
          rcases hs with (hs | hs) | hs
          · exact callDefsIn_bind c mods b inDef _ _ _ _ _ s hs
          · subst hs
            intro x hx
            refine ⟨callableIds fr.ids d u b, by simp, ?_⟩
            exact bind_visit (i0 := ((fr.ids.branch true).addUndecl u).addArgs d) (ea := d) (et := [])
              (by intro y hy; simp [hy]) (by simp) (by simpa using hx)
          · exact scopesIn_bind c mods b inDef _ false _ _ _ true false s hs
      · exact scopesIn_bind c mods r inDef useLoc emitTop fr rest path own root s hs

theorem callDefsIn_bind (c : Cfg) (mods : Ids) :
    ∀ (b : Body) (inDef useCD : Bool) (cal : Ids) (ccD : Frame) (rest : List Frame) (path : List PathEl),
      ∀ s ∈ callDefsIn c mods inDef useCD cal ccD rest path b, ScopeBind s
  | .nil, _, _, _, _, _, _ => by simp [callDefsIn]
  | .leaf _ _ _ r, inDef, useCD, cal, ccD, rest, path => by
      simpa [callDefsIn] using callDefsIn_bind c mods r inDef useCD cal ccD rest path
  | .text _ _ r, inDef, useCD, cal, ccD, rest, path => by
      simpa [callDefsIn] using callDefsIn_bind c mods r inDef useCD cal ccD rest path
  | .code _ _ _ r, inDef, useCD, cal, ccD, rest, path => by
      simpa [callDefsIn] using callDefsIn_bind c mods r inDef useCD cal ccD rest path
  | .page _ _ _ r, inDef, useCD, cal, ccD, rest, path => by
      simpa [callDefsIn] using callDefsIn_bind c mods r inDef useCD cal ccD rest path
  | .defn t f a u b r, inDef, useCD, cal, ccD, rest, path => by
      intro s hs
      simp only [callDefsIn, List.mem_append, List.mem_cons] at hs
      rcases hs with (rfl | hs) | hs
      · exact scopeBind_head (fun x hx => bind_visit (i0 := ((cal.branch false).addUndecl u).addArgs a)
          (ea := a) (et := []) (by intro y hy; simp [hy]) (by simp) (by simpa using hx))
      · exact scopesIn_bind c mods b inDef useCD false _ (ccD :: rest) _ true false s hs
      · exact callDefsIn_bind c mods r inDef useCD cal ccD rest path s hs
  | .block t nm fn a u b r, inDef, useCD, cal, ccD, rest, path => by
      intro s hs
      simp only [callDefsIn, List.mem_append, List.mem_cons] at hs
      rcases hs with (rfl | hs) | hs
      · exact scopeBind_head (fun x hx => bind_visit (i0 := (cal.branch false).enterBlock true nm fn a u)
          (ea := a) (et := []) (by intro y hy; simp [hy]) (by simp) (by simpa using hx))
      · exact scopesIn_bind c mods b inDef useCD false _ (ccD :: rest) _ true false s hs
      · exact callDefsIn_bind c mods r inDef useCD cal ccD rest path s hs
  | .call _ _ _ _ b r, inDef, useCD, cal, ccD, rest, path => by
      intro s hs
      simp only [callDefsIn, List.mem_append] at hs
      rcases hs with hs | hs
      · by_cases hf : Generated.Names.callDefsDescendCalls = true
        · simp only [hf, if_true] at hs
          exact callDefsIn_bind c mods b inDef useCD cal ccD rest path s hs
        · simp [hf] at hs
      · exact callDefsIn_bind c mods r inDef useCD cal ccD rest path s hs
end

theorem allScopes_bind (c : Cfg) (t : Body) : ∀ s ∈ allScopes c t, ScopeBind s := by
  intro s hs
  simp only [allScopes, List.mem_cons] at hs
  rcases hs with rfl | hs
  · intro x hx
    refine ⟨bodyIds c t, List.mem_cons_self, ?_⟩
    have hx' : x ∈ declsThrough t ++ closOf true t ++ topsOf true t := by simpa [bodyScope] using hx
    simp only [List.mem_append] at hx'
    rcases hx' with hx' | hx'
    · exact checked_addArgs (bind_visit (i0 := (moduleIds c t).branch false) (root := true) (ea := []) (et := [])
        (by simp) (by simp) (by simpa using hx'))
    · exact checked_addArgs (checked_top ((mem_visit_topdefs t _ true).mpr (Or.inr hx')))
  · exact scopesIn_bind c (moduleIds c t) t false _ true _ [] _ true true s hs

theorem mem_conflicts {c : Cfg} {i : Ids} {x : Name} : x ∈ i.conflicts c ↔ x ∈ c.reserved ∧ x ∈ i.checked := by
  simp [Ids.conflicts, List.mem_filter]

end MakoModel.Names
