import MakoModel.Names.Context
/-! Heap lemmas for the `Context` model: operations only allocate, and only write to what they allocated. -/
namespace MakoModel.Names.Context

theorem get_alloc_lt (h : Heap) (d : PDict) {i : Nat} (hi : i < h.dicts.length) : (h.alloc d).1.get i = h.get i := by
  simp [Heap.alloc, Heap.get, List.getD_eq_getElem?_getD, List.getElem?_append_left hi]

theorem get_alloc_new (h : Heap) (d : PDict) : (h.alloc d).1.get (h.alloc d).2 = d := by
  simp [Heap.alloc, Heap.get, List.getD_eq_getElem?_getD]

theorem alloc_id (h : Heap) (d : PDict) : (h.alloc d).2 = h.dicts.length := rfl

theorem length_alloc (h : Heap) (d : PDict) : (h.alloc d).1.dicts.length = h.dicts.length + 1 := by
  simp [Heap.alloc]

theorem length_set (h : Heap) (i : Nat) (d : PDict) : (h.set i d).dicts.length = h.dicts.length := by
  simp [Heap.set]

theorem get_set_ne (h : Heap) {i j : Nat} (d : PDict) (hij : i ≠ j) : (h.set j d).get i = h.get i := by
  simp [Heap.set, Heap.get, List.getD_eq_getElem?_getD, List.getElem?_set_ne (Ne.symm hij)]

theorem get_set_eq (h : Heap) {i : Nat} (d : PDict) (hi : i < h.dicts.length) : (h.set i d).get i = d := by
  simp [Heap.set, Heap.get, List.getD_eq_getElem?_getD, hi]

/-- the heap after an operation: nothing that existed changed, and it did not shrink -/
def Extends (h h' : Heap) : Prop :=
  h.dicts.length ≤ h'.dicts.length ∧ ∀ i, i < h.dicts.length → h'.get i = h.get i

theorem Extends.refl (h : Heap) : Extends h h := ⟨Nat.le_refl _, fun _ _ => rfl⟩

theorem Extends.trans {a b c : Heap} (h1 : Extends a b) (h2 : Extends b c) : Extends a c :=
  ⟨Nat.le_trans h1.1 h2.1, fun i hi => by rw [h2.2 i (Nat.lt_of_lt_of_le hi h1.1), h1.2 i hi]⟩

theorem extends_alloc (h : Heap) (d : PDict) : Extends h (h.alloc d).1 :=
  ⟨by simp [length_alloc], fun _ hi => get_alloc_lt h d hi⟩

theorem extends_set_new {h0 h : Heap} (he : Extends h0 h) {j : Nat} (hj : h0.dicts.length ≤ j) (d : PDict) :
    Extends h0 (h.set j d) :=
  ⟨by simpa [length_set] using he.1, fun i hi => by
    rw [get_set_ne h d (by omega), he.2 i hi]⟩

theorem ctxCopy_spec (h : Heap) (c : Ctx) :
    Extends h (ctxCopy h c).1 ∧ (ctxCopy h c).2.kwargs = c.kwargs ∧ (ctxCopy h c).2.data = h.dicts.length ∧
      (ctxCopy h c).1.dicts.length = h.dicts.length + 1 ∧ (ctxCopy h c).1.get (ctxCopy h c).2.data = h.get c.data := by
  refine ⟨extends_alloc _ _, rfl, rfl, by simp [ctxCopy, length_alloc], ?_⟩
  simp only [ctxCopy]
  exact get_alloc_new h (h.get c.data)

theorem ctxLocals_spec (h : Heap) (c : Ctx) (u : PDict) :
    Extends h (ctxLocals h c u).1 ∧ (ctxLocals h c u).2.kwargs = c.kwargs ∧
      ((ctxLocals h c u).2 = c ∨ (ctxLocals h c u).2.data = h.dicts.length) ∧
      (ctxLocals h c u).1.dicts.length ≤ h.dicts.length + 1 := by
  unfold ctxLocals
  by_cases hu : u.isEmpty = true
  · simp [hu, Extends.refl]
  · simp only [hu, if_false, Bool.false_eq_true]
    have hc := ctxCopy_spec h c
    refine ⟨extends_set_new hc.1 (by rw [hc.2.2.1]; exact Nat.le_refl _) _, hc.2.1, Or.inr hc.2.2.1, ?_⟩
    rw [length_set, hc.2.2.2.1]
    exact Nat.le_refl _

theorem ctxClean_spec (h : Heap) (c : Ctx) :
    Extends h (ctxClean h c).1 ∧ (ctxClean h c).2.kwargs = c.kwargs ∧ (ctxClean h c).2.data = h.dicts.length ∧
      (ctxClean h c).1.dicts.length = h.dicts.length + 1 := by
  unfold ctxClean
  have hc := ctxCopy_spec h c
  refine ⟨extends_set_new hc.1 (by rw [hc.2.2.1]; exact Nat.le_refl _) _, hc.2.1, hc.2.2.1, ?_⟩
  rw [length_set, hc.2.2.2.1]

theorem ctxKwargs_spec (h : Heap) (c : Ctx) :
    Extends h (ctxKwargs h c).1 ∧ (ctxKwargs h c).2 = h.dicts.length ∧
      (ctxKwargs h c).1.get (ctxKwargs h c).2 = h.get c.kwargs ∧ (ctxKwargs h c).1.dicts.length = h.dicts.length + 1 :=
  ⟨extends_alloc _ _, rfl, get_alloc_new h _, length_alloc h _⟩

/-- invariant of a render: every context derived from the first one shares its `_kwargs` dictionary `k`, whose
content is `K`; every dictionary handed out by `context.kwargs` holds `K`; all ids are allocated -/
structure Inv (k : DictId) (K : PDict) (s : St) : Prop where
  kw : ∀ c ∈ s.ctxs, c.kwargs = k
  kAlloc : k < s.heap.dicts.length
  kVal : s.heap.get k = K
  res : ∀ r ∈ s.results, r < s.heap.dicts.length ∧ s.heap.get r = K

theorem step_extends (s : St) (op : Op) : Extends s.heap (step s op).heap := by
  cases op with
  | locals t u =>
    simp only [step]
    cases h : s.ctxs[t]? with
    | none => exact Extends.refl _
    | some c => exact (ctxLocals_spec s.heap c u).1
  | copy t =>
    simp only [step]
    cases h : s.ctxs[t]? with
    | none => exact Extends.refl _
    | some c => exact (ctxCopy_spec s.heap c).1
  | clean t =>
    simp only [step]
    cases h : s.ctxs[t]? with
    | none => exact Extends.refl _
    | some c => exact (ctxClean_spec s.heap c).1
  | kwargs t =>
    simp only [step]
    cases h : s.ctxs[t]? with
    | none => exact Extends.refl _
    | some c => exact (ctxKwargs_spec s.heap c).1

theorem run_extends (s : St) (ops : List Op) : Extends s.heap (run s ops).heap := by
  induction ops generalizing s with
  | nil => exact Extends.refl _
  | cons op ops ih => exact (step_extends s op).trans (ih (step s op))

theorem step_inv {k : DictId} {K : PDict} {s : St} (hi : Inv k K s) (op : Op) : Inv k K (step s op) := by
  have he := step_extends s op
  have base : (step s op).heap.get k = K := by rw [he.2 k hi.kAlloc, hi.kVal]
  have kA : k < (step s op).heap.dicts.length := Nat.lt_of_lt_of_le hi.kAlloc he.1
  have oldres : ∀ r ∈ s.results, r < (step s op).heap.dicts.length ∧ (step s op).heap.get r = K := fun r hr =>
    ⟨Nat.lt_of_lt_of_le (hi.res r hr).1 he.1, by rw [he.2 r (hi.res r hr).1, (hi.res r hr).2]⟩
  cases op with
  | locals t u =>
    simp only [step] at *
    cases h : s.ctxs[t]? with
    | none => simpa [h] using hi
    | some c =>
      have hc := List.mem_of_getElem? h
      simp only [h] at he base kA oldres ⊢
      refine ⟨?_, kA, base, oldres⟩
      intro c' hc'
      simp at hc'
      rcases hc' with hc' | rfl
      · exact hi.kw c' hc'
      · rw [(ctxLocals_spec s.heap c u).2.1]; exact hi.kw c hc
  | copy t =>
    simp only [step] at *
    cases h : s.ctxs[t]? with
    | none => simpa [h] using hi
    | some c =>
      have hc := List.mem_of_getElem? h
      simp only [h] at he base kA oldres ⊢
      refine ⟨?_, kA, base, oldres⟩
      intro c' hc'
      simp at hc'
      rcases hc' with hc' | rfl
      · exact hi.kw c' hc'
      · rw [(ctxCopy_spec s.heap c).2.1]; exact hi.kw c hc
  | clean t =>
    simp only [step] at *
    cases h : s.ctxs[t]? with
    | none => simpa [h] using hi
    | some c =>
      have hc := List.mem_of_getElem? h
      simp only [h] at he base kA oldres ⊢
      refine ⟨?_, kA, base, oldres⟩
      intro c' hc'
      simp at hc'
      rcases hc' with hc' | rfl
      · exact hi.kw c' hc'
      · rw [(ctxClean_spec s.heap c).2.1]; exact hi.kw c hc
  | kwargs t =>
    simp only [step] at *
    cases h : s.ctxs[t]? with
    | none => simpa [h] using hi
    | some c =>
      have hc := List.mem_of_getElem? h
      simp only [h] at he base kA oldres ⊢
      have hk := ctxKwargs_spec s.heap c
      refine ⟨hi.kw, kA, base, ?_⟩
      intro r hr
      simp at hr
      rcases hr with hr | rfl
      · exact oldres r hr
      · refine ⟨by rw [hk.2.1, hk.2.2.2]; exact Nat.lt_succ_self _, ?_⟩
        rw [hk.2.2.1, hi.kw c hc, hi.kVal]

theorem run_inv {k : DictId} {K : PDict} {s : St} (hi : Inv k K s) (ops : List Op) : Inv k K (run s ops) := by
  induction ops generalizing s with
  | nil => exact hi
  | cons op ops ih => exact ih (step_inv hi op)

theorem ctxInit_spec (h : Heap) (src : DictId) :
    Extends h (ctxInit h src).1 ∧ (ctxInit h src).2.kwargs = h.dicts.length + 1 ∧
      (ctxInit h src).1.get (ctxInit h src).2.kwargs = h.get src ∧
      (ctxInit h src).2.kwargs < (ctxInit h src).1.dicts.length := by
  unfold ctxInit
  simp only [Heap.alloc]
  refine ⟨?_, ?_, ?_, ?_⟩
  · constructor
    · simp [Heap.set]
    · intro i hi
      rw [get_set_ne _ _ (by omega)]
      have h1 : i < (h.dicts ++ [h.get src]).length := by simp; omega
      simp [Heap.get, List.getD_eq_getElem?_getD, List.getElem?_append_left h1, List.getElem?_append_left hi]
  · simp
  · rw [get_set_ne _ _ (by simp)]
    simp [Heap.get, List.getD_eq_getElem?_getD]
  · simp [Heap.set]

end MakoModel.Names.Context
