import MakoModel.Names.Model
/-! The `__M_locals` dictionary maintained by the generated body equals the specified overlay when no `<% %>`
block inside an anonymous block / `<%call>` body of the body declares a name. -/
namespace MakoModel.Names

/-- through anonymous blocks and call bodies, no `<% %>` block declares a name (F-C04-5 excluded) -/
def noCodeDecl : Body → Bool
  | .nil => true
  | .leaf _ _ _ r | .text _ _ r | .page _ _ _ r | .defn _ _ _ _ _ r => noCodeDecl r
  | .code _ d _ r => d.isEmpty && noCodeDecl r
  | .block _ nm _ _ _ b r => (match nm with | none => noCodeDecl b | some _ => true) && noCodeDecl r
  | .call _ _ _ _ b r => noCodeDecl b && noCodeDecl r

/-- the body's own `<% %>` blocks may assign; those nested in its anonymous blocks / call bodies may not -/
def mlGuard : Body → Bool
  | .nil => true
  | .leaf _ _ _ r | .text _ _ r | .page _ _ _ r | .defn _ _ _ _ _ r | .code _ _ _ r => mlGuard r
  | .block _ nm _ _ _ b r => (match nm with | none => noCodeDecl b | some _ => true) && mlGuard r
  | .call _ _ _ _ b r => noCodeDecl b && mlGuard r

theorem mlUpdate_nil (ml : ML) (t : Nat) : mlUpdate ml [] t = ml := by
  simp [mlUpdate]

/-- the regenerated fact: `visitCode` copies *all* declared identifiers of the block -/
theorem mlKeys_eq (args d : List Name) : mlKeys args d = d := by
  have : Generated.Names.mlocalsUpdateMinusArgs = false := by decide
  simp [mlKeys, this]

theorem mlRun_found (args : List Name) (stop : Nat) : ∀ (b : Body) (ml : ML), mlRun args stop b (ml, true) = (ml, true)
  | .nil, _ => rfl
  | .leaf _ _ _ _, _ => rfl
  | .text _ _ _, _ => rfl
  | .code _ _ _ _, _ => rfl
  | .page _ _ _ _, _ => rfl
  | .defn _ _ _ _ _ _, _ => rfl
  | .block _ _ _ _ _ _ _, _ => rfl
  | .call _ _ _ _ _ _, _ => rfl

theorem overlayRun_found (stop : Nat) : ∀ (b : Body) (ml : ML), Spec.overlayRun stop b (ml, true) = (ml, true)
  | .nil, _ => rfl
  | .leaf _ _ _ _, _ => rfl
  | .text _ _ _, _ => rfl
  | .code _ _ _ _, _ => rfl
  | .page _ _ _ _, _ => rfl
  | .defn _ _ _ _ _ _, _ => rfl
  | .block _ _ _ _ _ _ _, _ => rfl
  | .call _ _ _ _ _ _, _ => rfl

/-- a list that declares nothing leaves `__M_locals` alone; it only may contain the node looked for -/
theorem mlRun_noCodeDecl (args : List Name) (stop : Nat) : ∀ (b : Body) (ml : ML), noCodeDecl b = true →
    mlRun args stop b (ml, false) = (ml, reaches stop b)
  | .nil, ml, _ => rfl
  | .leaf t _ _ r, ml, h => by
      by_cases ht : t = stop
      · simp [mlRun, reaches, ht]
      · simp [mlRun, reaches, ht, mlRun_noCodeDecl args stop r ml (by simpa [noCodeDecl] using h)]
  | .text t _ r, ml, h => by
      by_cases ht : t = stop
      · simp [mlRun, reaches, ht]
      · simp [mlRun, reaches, ht, mlRun_noCodeDecl args stop r ml (by simpa [noCodeDecl] using h)]
  | .page t _ _ r, ml, h => by
      by_cases ht : t = stop
      · simp [mlRun, reaches, ht]
      · simp [mlRun, reaches, ht, mlRun_noCodeDecl args stop r ml (by simpa [noCodeDecl] using h)]
  | .defn t _ _ _ _ r, ml, h => by
      by_cases ht : t = stop
      · simp [mlRun, reaches, ht]
      · simp [mlRun, reaches, ht, mlRun_noCodeDecl args stop r ml (by simpa [noCodeDecl] using h)]
  | .code t d _ r, ml, h => by
      simp only [noCodeDecl, Bool.and_eq_true, List.isEmpty_iff] at h
      by_cases ht : t = stop
      · simp [mlRun, reaches, ht]
      · simp [mlRun, reaches, ht, h.1, mlKeys_eq, mlUpdate_nil, mlRun_noCodeDecl args stop r ml h.2]
  | .block t nm _ _ _ b r, ml, h => by
      simp only [noCodeDecl, Bool.and_eq_true] at h
      by_cases ht : t = stop
      · simp [mlRun, reaches, ht]
      · cases nm with
        | some n => simp [mlRun, reaches, ht, mlRun_noCodeDecl args stop r ml h.2]
        | none =>
          have hb := mlRun_noCodeDecl args stop b ml h.1
          cases hr : reaches stop b
          · simp [mlRun, reaches, ht, hb, hr, mlRun_noCodeDecl args stop r ml h.2]
          · simp [mlRun, reaches, ht, hb, hr, mlRun_found]
  | .call t _ _ _ b r, ml, h => by
      simp only [noCodeDecl, Bool.and_eq_true] at h
      by_cases ht : t = stop
      · simp [mlRun, reaches, ht]
      · have hb := mlRun_noCodeDecl args stop b ml h.1
        cases hr : reaches stop b
        · simp [mlRun, reaches, ht, hb, hr, mlRun_noCodeDecl args stop r ml h.2]
        · simp [mlRun, reaches, ht, hb, hr, mlRun_found]

theorem mlRun_eq_overlay (args : List Name) (stop : Nat) : ∀ (b : Body) (ml : ML), mlGuard b = true →
    mlRun args stop b (ml, false) = Spec.overlayRun stop b (ml, false)
  | .nil, ml, _ => rfl
  | .leaf t _ _ r, ml, h => by
      by_cases ht : t = stop
      · simp [mlRun, Spec.overlayRun, ht]
      · simp [mlRun, Spec.overlayRun, ht, mlRun_eq_overlay args stop r ml (by simpa [mlGuard] using h)]
  | .text t _ r, ml, h => by
      by_cases ht : t = stop
      · simp [mlRun, Spec.overlayRun, ht]
      · simp [mlRun, Spec.overlayRun, ht, mlRun_eq_overlay args stop r ml (by simpa [mlGuard] using h)]
  | .page t _ _ r, ml, h => by
      by_cases ht : t = stop
      · simp [mlRun, Spec.overlayRun, ht]
      · simp [mlRun, Spec.overlayRun, ht, mlRun_eq_overlay args stop r ml (by simpa [mlGuard] using h)]
  | .defn t _ _ _ _ r, ml, h => by
      by_cases ht : t = stop
      · simp [mlRun, Spec.overlayRun, ht]
      · simp [mlRun, Spec.overlayRun, ht, mlRun_eq_overlay args stop r ml (by simpa [mlGuard] using h)]
  | .code t d _ r, ml, h => by
      by_cases ht : t = stop
      · simp [mlRun, Spec.overlayRun, ht]
      · simp [mlRun, Spec.overlayRun, ht, mlKeys_eq, mlRun_eq_overlay args stop r _ (by simpa [mlGuard] using h)]
  | .block t nm _ _ _ b r, ml, h => by
      simp only [mlGuard, Bool.and_eq_true] at h
      by_cases ht : t = stop
      · simp [mlRun, Spec.overlayRun, ht]
      · cases nm with
        | some n => simp [mlRun, Spec.overlayRun, ht, mlRun_eq_overlay args stop r ml h.2]
        | none =>
          have hb := mlRun_noCodeDecl args stop b ml h.1
          cases hr : reaches stop b
          · simp [mlRun, Spec.overlayRun, ht, hb, hr, mlRun_eq_overlay args stop r ml h.2]
          · simp [mlRun, Spec.overlayRun, ht, hb, hr, mlRun_found]
  | .call t _ _ _ b r, ml, h => by
      simp only [mlGuard, Bool.and_eq_true] at h
      by_cases ht : t = stop
      · simp [mlRun, Spec.overlayRun, ht]
      · have hb := mlRun_noCodeDecl args stop b ml h.1
        cases hr : reaches stop b
        · simp [mlRun, Spec.overlayRun, ht, hb, hr, mlRun_eq_overlay args stop r ml h.2]
        · simp [mlRun, Spec.overlayRun, ht, hb, hr, mlRun_found]

end MakoModel.Names
