import MakoModel.Basic.Wire
import MakoModel.Names.Scopes
import MakoModel.Names.Context
/-!
Driver handler of the name-resolution model: `names <fn> <args…>`

Wire: a *name list* is `n1+n2+…` (`_` for the empty list), every name in the usual code-point encoding.
A tree is a prefix token stream, a node list ends with `.`:
`L tag decl undecl` | `T tag undecl` | `C tag decl undecl` | `P tag args undecl` |
`D tag name args undecl <list>` | `B tag name|_ fname args undecl <list>` | `K tag args decl undecl <list>`.
-/
namespace MakoModel.Names.Drv
open MakoModel.Wire

def decNames (f : String) : Option (List Name) :=
  if f == "_" then some [] else (f.splitOn "+").mapM decStr

def encNames (xs : List Name) : String :=
  if xs.isEmpty then "_" else "+".intercalate (xs.map encStr)

def parseBody : Nat → List String → Option (Body × List String)
  | 0, _ => none
  | _ + 1, "." :: r => some (.nil, r)
  | n + 1, "L" :: t :: d :: u :: r => do
      let t ← t.toNat?; let d ← decNames d; let u ← decNames u
      let (rest, r) ← parseBody n r
      pure (.leaf t d u rest, r)
  | n + 1, "T" :: t :: u :: r => do
      let t ← t.toNat?; let u ← decNames u
      let (rest, r) ← parseBody n r
      pure (.text t u rest, r)
  | n + 1, "C" :: t :: d :: u :: r => do
      let t ← t.toNat?; let d ← decNames d; let u ← decNames u
      let (rest, r) ← parseBody n r
      pure (.code t d u rest, r)
  | n + 1, "P" :: t :: a :: u :: r => do
      let t ← t.toNat?; let a ← decNames a; let u ← decNames u
      let (rest, r) ← parseBody n r
      pure (.page t a u rest, r)
  | n + 1, "D" :: t :: f :: a :: u :: r => do
      let t ← t.toNat?; let f ← decStr f; let a ← decNames a; let u ← decNames u
      let (b, r) ← parseBody n r
      let (rest, r) ← parseBody n r
      pure (.defn t f a u b rest, r)
  | n + 1, "B" :: t :: nm :: fn :: a :: u :: r => do
      let t ← t.toNat?
      let nm ← (if nm == "_" then some none else (decStr nm).map some)
      let fn ← decStr fn; let a ← decNames a; let u ← decNames u
      let (b, r) ← parseBody n r
      let (rest, r) ← parseBody n r
      pure (.block t nm fn a u b rest, r)
  | n + 1, "K" :: t :: a :: d :: u :: r => do
      let t ← t.toNat?; let a ← decNames a; let d ← decNames d; let u ← decNames u
      let (b, r) ← parseBody n r
      let (rest, r) ← parseBody n r
      pure (.call t a d u b rest, r)
  | _, _ => none

def parseCfg : List String → Option (Cfg × List String)
  | md :: ns :: hi :: st :: el :: rl :: r => do
      let md ← decNames md; let ns ← decNames ns
      let hi ← decBool hi; let st ← decBool st; let el ← decBool el; let rl ← decBool rl
      pure ({ moduleDeclared := md, nsNames := ns, hasNsImports := hi, strict := st, enableLoop := el,
              reservedLoop := rl }, r)
  | _ => none

def encPath (p : List PathEl) : String :=
  ">".intercalate (p.map fun
    | .fn n => "f" ++ encStr n
    | .ccall t => "c" ++ toString t
    | .body => "b")

def encKind : Kind → String
  | .body => "body" | .topDef => "topDef" | .namedBlock => "namedBlock" | .nestedDef => "nestedDef"
  | .anonBlock => "anonBlock" | .callBody => "callBody" | .callDef => "callDef"

def encDeclKind : DeclKind → String
  | .inlineDef => "I" | .defStub true => "S1" | .defStub false => "S0" | .nsGet => "N" | .fetch => "F"

def encTags (ts : List Nat) : String := "_".intercalate (ts.map toString)

def encCell : Cell → String
  | .param => "p" | .assigned ts => "a" ++ encTags ts | .inlineDef => "i" | .defStub true => "s1"
  | .defStub false => "s0" | .nsObj => "n" | .fetched => "f" | .loopObj => "l"

def encRes : Res → String
  | .ctxObj => "ctx" | .cell d c => "c" ++ toString d ++ "." ++ encCell c | .global => "g" | .pyFallback => "y"

def encVal : Val → String
  | .undefined => "U" | .pyNone => "N" | .obj n => "o" ++ toString n

def encSVal : SVal → String
  | .ctxObj => "ctx"
  | .scoped d .param => "c" ++ toString d ++ ".p"
  | .scoped d (.assigned ts) => "c" ++ toString d ++ ".a" ++ encTags ts
  | .scoped d .defFn => "c" ++ toString d ++ ".i"
  | .global => "g" | .loopObj => "l" | .defFn => "s" | .nsObj => "n"
  | .val v => "v" ++ encVal v | .strictError => "E" | .pyNameError => "Y"

/-- key sets → dictionaries with recognisable values: import 1, context 2, builtin 3 -/
def mkRT (imp ctx bi : List Name) (ctxNone : List Name := []) : RT :=
  { importNs := fun x => if x ∈ imp then some (.obj 1) else none,
    data := fun x => if x ∈ ctxNone then some .pyNone else if x ∈ ctx then some (.obj 2) else none,
    builtins := fun x => if x ∈ bi then some (.obj 3) else none }

def sortStrs (xs : List String) : List String := (xs.toArray.qsort (· < ·)).toList

def encScope (c : Cfg) (rt : RT) (tops : List Name) (extra : List Name) (bodyArgs : List Name) (loopFors : List Nat)
    (s : Scope) : String :=
  let ids := s.ids
  let useLoc := (s.frames.headD {}).useLocals
  let decls := sortStrs ((toWrite c ids none).map fun x => encStr x ++ ":" ++ encDeclKind (classify c ids useLoc x))
  let names := dedup (readsOf s.body ++ extra)
  let res := names.map fun x =>
    encStr x ++ ":" ++ encRes (Impl.resolve c s.frames x) ++ ":" ++
      encSVal ((Impl.resolve c s.frames x).toSVal c rt x) ++ ":" ++ encSVal (Spec.resolve c tops rt s.frames x)
  "|".intercalate
    [ "P=" ++ encPath s.path, "K=" ++ encKind s.kind, "G=" ++ toString s.tag, "T=" ++ encBool s.toplevel,
      "L=" ++ encBool (hasLoop c ids),
      "M=" ++ (match s.mlocals with | some ks => encNames (sortStrs (ks.map encStr) |>.filterMap decStr) | none => "none"),
      "D=" ++ (if decls.isEmpty then "_" else "+".intercalate decls),
      -- emission order of the declarations and of the `__M_locals` keys (sorted since the hash-seed fix)
      "O=" ++ encNames (emitOrder c ids none),
      "MO=" ++ (match s.mlocals with | some ks => encNames ks | none => "none"),
      -- key lists of the `__M_locals.update(…)` statements of this function, in order
      "U=" ++ (if !s.inDef && !ids.locAssigned.isEmpty then
                 "/".intercalate ("" :: (codesOf s.body).map fun d => encNames (sortNames (dedup (mlKeys bodyArgs d))))
               else "-"),
      "FE=" ++ (let fe := forErrors c loopFors s.frames s.body
                if fe.isEmpty then "_" else "+".intercalate (fe.map toString)),
      "X=" ++ encNames ((s.ids :: s.extraIds).flatMap (fun i => i.conflicts c)),
      -- keys of `__M_locals = __M_dict_builtin(k=k, …)` without a Python binding: NameError at entry
      "E=" ++ encNames ((s.mlocals.getD []).filter fun k =>
                (Impl.resolve c s.frames k == .pyFallback) && (rt.builtins k).isNone),
      "R=" ++ (if res.isEmpty then "_" else "+".intercalate res) ]

def encML (ml : ML) : String :=
  if ml.isEmpty then "_" else
  "+".intercalate (sortStrs (ml.map fun p => encStr p.1 ++ "=" ++ (match p.2 with | .arg => "a" | .assigned t => "t" ++ toString t)))

def handle : Handler
  | "full" :: rest => do
      let (c, r) ← parseCfg rest
      match r with
      | imp :: ctx :: cnone :: bi :: extra :: stops :: lfs :: toks => do
          let imp ← decNames imp; let ctx ← decNames ctx; let cnone ← decNames cnone
          let bi ← decNames bi; let extra ← decNames extra
          let stops ← (if stops == "_" then some [] else (stops.splitOn "+").mapM (·.toNat?))
          let lfs ← (if lfs == "_" then some [] else (lfs.splitOn "+").mapM (·.toNat?))
          let (t, left) ← parseBody (toks.length + 1) toks
          if !left.isEmpty then none else
          let rt := mkRT imp ctx bi cnone
          let tops := (moduleIds c t).topdefs
          let scopes := (allScopes c t).map (encScope c rt tops extra (bodyFrame c t).ids.argDecl lfs)
          let fr := bodyFrame c t
          let mls := stops.map fun k =>
            let a := mlRun fr.ids.argDecl k t (mlInit fr.ids.argDecl, false)
            let b := Spec.overlayRun k t (mlInit fr.params, false)
            toString k ++ ":" ++ encBool a.2 ++ ":" ++ encML a.1 ++ ":" ++ encBool b.2 ++ ":" ++ encML b.1
          pure (";".intercalate scopes ++ " #C=" ++ encNames (dedup (compileConflicts c t))
                ++ " #ML=" ++ (if mls.isEmpty then "_" else ";".intercalate mls))
      | _ => none
  | ["forrewrite", el, m] => do
      let el ← decBool el; let m ← decBool m
      pure (encBool (forRewritten { enableLoop := el } m))
  | ["reserved", rl] => do
      let rl ← decBool rl
      pure (encNames (({ reservedLoop := rl } : Cfg).reserved))
  | "entry" :: e :: rl :: fresh :: keys :: kw :: [] => do
      let rl ← decBool rl; let fresh ← decBool fresh; let keys ← decNames keys; let kw ← decNames kw
      let e ← Context.decEntry e
      pure (Context.encOutcome (Context.renderEntry ({ reservedLoop := rl } : Cfg).reserved e fresh keys kw))
  | "ctxops" :: toks => Context.handleOps toks
  | _ => none

end MakoModel.Names.Drv
