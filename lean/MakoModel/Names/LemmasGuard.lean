import MakoModel.Names.LemmasVisit
import MakoModel.Names.LemmasResolve
/-!
The guard of `resolution_order_partial` (decidable, structural) and what it implies for one `_Identifiers`
traversal: under the guard the collections of a scope's `_Identifiers` describe exactly the scope's own
parameters, own assignments and nested defs.
-/
namespace MakoModel.Names

/-- the content of a block, through nested blocks, binds nothing (F-C04-4 excluded) -/
def blkPure : Body → Bool
  | .nil => true
  | .leaf _ d _ r => d.isEmpty && blkPure r
  | .text _ _ r => blkPure r
  | .code _ d _ r => d.isEmpty && blkPure r
  | .page _ _ _ _ => false
  | .defn _ _ _ _ _ r => blkPure r
  | .block _ _ _ a _ b r => a.isEmpty && blkPure b && blkPure r
  | .call _ _ _ _ _ r => blkPure r

/-- the own node list of a scope: `<%page>` only in the template's own list, blocks bind nothing -/
def listOK (root : Bool) : Body → Bool
  | .nil => true
  | .leaf _ _ _ r | .text _ _ r | .code _ _ _ r | .defn _ _ _ _ _ r | .call _ _ _ _ _ r => listOK root r
  | .page _ _ _ r => root && listOK root r
  | .block _ _ _ a _ b r => a.isEmpty && blkPure b && listOK root r

def loopOK (c : Cfg) (l : List Name) : Bool := !c.enableLoop || decide (loopName ∉ l)

/-- the guard, for every scope nested in the list.  `named`: named blocks may occur (body and its blocks). -/
def good (c : Cfg) (named : Bool) : Body → Bool
  | .nil => true
  | .leaf _ _ _ r | .text _ _ r | .code _ _ _ r | .page _ _ _ r => good c named r
  | .defn _ _ _ _ b r => good c false b && listOK false b && loopOK c (closOf false b) && good c named r
  | .block _ nm _ _ _ b r =>
      (match nm with | some n => named && decide (n ∉ c.moduleNames) | none => true) &&
      good c (named && nm.isSome) b && listOK false b && loopOK c (closOf false b) && good c named r
  | .call _ args d _ b r =>
      good c false b && listOK false b && loopOK c (closOf false b) &&
      decide (callerName ∉ c.moduleNames) && decide (∀ x ∈ d, x ∈ args) && decide (∀ x ∈ args, x ∈ d) && decide (∀ x ∈ callDefNames b, x ∈ closOf false b) &&
      ((callDefNames b).isEmpty ||
        (d.isEmpty && (declsThrough b).isEmpty && decide (∀ x ∈ closOf false b, x ∈ callDefNames b))) &&
      good c named r

/-- the guard for a whole template -/
def goodT (c : Cfg) (t : Body) : Bool := good c true t && listOK true t && loopOK c (closOf true t)

def ownNames (b : Body) : List Name := (ownOf b).map (·.1)

theorem tagsOf_ne_nil {own : List (Name × Nat)} {x : Name} : tagsOf own x ≠ [] ↔ x ∈ own.map (·.1) := by
  induction own with
  | nil => simp [tagsOf]
  | cons p own ih =>
    by_cases h : p.1 = x
    · simp [tagsOf, List.filter_cons, h]
    · have : tagsOf (p :: own) x = tagsOf own x := by simp [tagsOf, List.filter_cons, h]
      rw [this, ih]
      simp only [List.map_cons, List.mem_cons]
      constructor
      · exact Or.inr
      · rintro (h' | h')
        · exact absurd h'.symm h
        · exact h'

theorem blkPure_spec : ∀ (b : Body), blkPure b = true → declsThrough b = [] ∧ argsThrough b = []
  | .nil, _ => ⟨rfl, rfl⟩
  | .leaf _ d _ r, h => by
      simp only [blkPure, Bool.and_eq_true, List.isEmpty_iff] at h
      simp [declsThrough, argsThrough, h.1, blkPure_spec r h.2]
  | .text _ _ r, h => by simpa [declsThrough, argsThrough] using blkPure_spec r h
  | .code _ d _ r, h => by
      simp only [blkPure, Bool.and_eq_true, List.isEmpty_iff] at h
      simp [declsThrough, argsThrough, h.1, blkPure_spec r h.2]
  | .page _ _ _ _, h => by simp [blkPure] at h
  | .defn _ _ _ _ _ r, h => by simpa [declsThrough, argsThrough] using blkPure_spec r h
  | .block _ _ _ a _ b r, h => by
      simp only [blkPure, Bool.and_eq_true, List.isEmpty_iff] at h
      simp [declsThrough, argsThrough, h.1.1, blkPure_spec b h.1.2, blkPure_spec r h.2]
  | .call _ _ _ _ _ r, h => by simpa [declsThrough, argsThrough] using blkPure_spec r h

theorem listOK_spec {x : Name} : ∀ (b : Body) (root : Bool), listOK root b = true →
    (x ∈ declsThrough b ↔ x ∈ ownNames b ∨ x ∈ pageArgsOf b) ∧ (x ∈ argsThrough b ↔ x ∈ pageArgsOf b) ∧
      (root = false → pageArgsOf b = [])
  | .nil, _, _ => by simp [declsThrough, argsThrough, ownNames, ownOf, pageArgsOf]
  | .leaf _ d _ r, root, h => by
      have := listOK_spec (x := x) r root h
      simp [declsThrough, argsThrough, ownNames, ownOf, pageArgsOf, Function.comp_def] at this ⊢
      simp [this.1, this.2.1, or_assoc]
      exact this.2.2
  | .text _ _ r, root, h => by
      simpa [declsThrough, argsThrough, ownNames, ownOf, pageArgsOf] using listOK_spec (x := x) r root h
  | .code _ d _ r, root, h => by
      have := listOK_spec (x := x) r root h
      simp [declsThrough, argsThrough, ownNames, ownOf, pageArgsOf, Function.comp_def] at this ⊢
      simp [this.1, this.2.1, or_assoc]
      exact this.2.2
  | .page _ a _ r, root, h => by
      simp only [listOK, Bool.and_eq_true] at h
      have := listOK_spec (x := x) r root h.2
      simp [declsThrough, argsThrough, ownNames, ownOf, pageArgsOf] at this ⊢
      simp [this.1, this.2.1, h.1]
      constructor <;> intro h' <;> rcases h' with h' | h' | h' <;> simp [h']
  | .defn _ _ _ _ _ r, root, h => by
      simpa [declsThrough, argsThrough, ownNames, ownOf, pageArgsOf] using listOK_spec (x := x) r root h
  | .block _ _ _ a _ b r, root, h => by
      simp only [listOK, Bool.and_eq_true, List.isEmpty_iff] at h
      have hb := blkPure_spec b h.1.2
      have := listOK_spec (x := x) r root h.2
      simp [declsThrough, argsThrough, ownNames, ownOf, pageArgsOf, hb.1, hb.2, h.1.1] at this ⊢
      exact this
  | .call _ _ _ _ _ r, root, h => by
      simpa [declsThrough, argsThrough, ownNames, ownOf, pageArgsOf] using listOK_spec (x := x) r root h

theorem good_false_named : ∀ (c : Cfg) (b : Body), good c false b = true → topsOf false b = [] ∧ namedThrough b = []
  | _, .nil, _ => ⟨rfl, rfl⟩
  | c, .leaf _ _ _ r, h => by simpa [topsOf, namedThrough] using good_false_named c r h
  | c, .text _ _ r, h => by simpa [topsOf, namedThrough] using good_false_named c r h
  | c, .code _ _ _ r, h => by simpa [topsOf, namedThrough] using good_false_named c r h
  | c, .page _ _ _ r, h => by simpa [topsOf, namedThrough] using good_false_named c r h
  | c, .defn _ _ _ _ _ r, h => by
      simp only [good, Bool.and_eq_true] at h
      simpa [topsOf, namedThrough] using good_false_named c r h.2
  | c, .block _ nm _ _ _ b r, h => by
      simp only [good, Bool.and_eq_true] at h
      cases nm with
      | some n => simp at h
      | none =>
        have hb := good_false_named c b (by simpa using h.1.1.1.2)
        have hr := good_false_named c r h.2
        simp [topsOf, namedThrough, hb.1, hb.2, hr.1, hr.2]
  | c, .call _ _ _ _ _ r, h => by
      simp only [good, Bool.and_eq_true] at h
      simpa [topsOf, namedThrough] using good_false_named c r h.2

theorem good_named_fresh : ∀ (c : Cfg) (named : Bool) (b : Body), good c named b = true →
    ∀ x ∈ namedThrough b, x ∉ c.moduleNames
  | _, _, .nil, _ => by simp [namedThrough]
  | c, nd, .leaf _ _ _ r, h => by simpa [namedThrough] using good_named_fresh c nd r h
  | c, nd, .text _ _ r, h => by simpa [namedThrough] using good_named_fresh c nd r h
  | c, nd, .code _ _ _ r, h => by simpa [namedThrough] using good_named_fresh c nd r h
  | c, nd, .page _ _ _ r, h => by simpa [namedThrough] using good_named_fresh c nd r h
  | c, nd, .defn _ _ _ _ _ r, h => by
      simp only [good, Bool.and_eq_true] at h
      simpa [namedThrough] using good_named_fresh c nd r h.2
  | c, nd, .block _ nm _ _ _ b r, h => by
      simp only [good, Bool.and_eq_true] at h
      have hb := good_named_fresh c (nd && nm.isSome) b h.1.1.1.2
      have hr := good_named_fresh c nd r h.2
      intro x hx
      simp only [namedThrough, List.mem_append] at hx
      rcases hx with (hx | hx) | hx
      · cases nm with
        | none => simp at hx
        | some n =>
          simp at hx
          subst hx
          have := h.1.1.1.1
          simp at this
          exact this.2
      · exact hb x hx
      · exact hr x hx
  | c, nd, .call _ _ _ _ _ r, h => by
      simp only [good, Bool.and_eq_true] at h
      simpa [namedThrough] using good_named_fresh c nd r h.2

theorem namedThrough_sub_topsOf : ∀ (b : Body) (root : Bool) (x : Name), x ∈ namedThrough b → x ∈ topsOf root b
  | .nil, _, _, h => by simp [namedThrough] at h
  | .leaf _ _ _ r, root, x, h => by simpa [topsOf] using namedThrough_sub_topsOf r root x (by simpa [namedThrough] using h)
  | .text _ _ r, root, x, h => by simpa [topsOf] using namedThrough_sub_topsOf r root x (by simpa [namedThrough] using h)
  | .code _ _ _ r, root, x, h => by simpa [topsOf] using namedThrough_sub_topsOf r root x (by simpa [namedThrough] using h)
  | .page _ _ _ r, root, x, h => by simpa [topsOf] using namedThrough_sub_topsOf r root x (by simpa [namedThrough] using h)
  | .defn _ _ _ _ _ r, root, x, h => by
      have := namedThrough_sub_topsOf r root x (by simpa [namedThrough] using h)
      simp [topsOf, this]
  | .block _ nm _ _ _ b r, root, x, h => by
      simp only [namedThrough, List.mem_append] at h
      simp only [topsOf, List.mem_append]
      rcases h with (h | h) | h
      · exact Or.inl (Or.inl h)
      · exact Or.inl (Or.inr (namedThrough_sub_topsOf b false x h))
      · exact Or.inr (namedThrough_sub_topsOf r root x h)
  | .call _ _ _ _ _ r, root, x, h => by simpa [topsOf] using namedThrough_sub_topsOf r root x (by simpa [namedThrough] using h)

theorem readsOf_sub_through : ∀ (b : Body) (x : Name), x ∈ readsOf b → x ∈ readsThrough b
  | .nil, _, h => by simp [readsOf] at h
  | .leaf _ _ u r, x, h => by
      simp only [readsOf, readsThrough, List.mem_append] at h ⊢
      exact h.imp id (readsOf_sub_through r x)
  | .text _ u r, x, h => by
      simp only [readsOf, readsThrough, List.mem_append] at h ⊢
      exact h.imp id (readsOf_sub_through r x)
  | .code _ _ u r, x, h => by
      simp only [readsOf, readsThrough, List.mem_append] at h ⊢
      exact h.imp id (readsOf_sub_through r x)
  | .page _ _ u r, x, h => by
      simp only [readsOf, readsThrough, List.mem_append] at h ⊢
      exact h.imp id (readsOf_sub_through r x)
  | .defn _ _ _ u _ r, x, h => by
      simp only [readsOf, readsThrough, List.mem_append] at h ⊢
      exact h.imp id (readsOf_sub_through r x)
  | .block _ _ _ _ u _ r, x, h => by
      simp only [readsOf, readsThrough, List.mem_append] at h ⊢
      rcases h with h | h
      · exact Or.inl (Or.inl h)
      · exact Or.inr (readsOf_sub_through r x h)
  | .call _ _ _ u _ r, x, h => by
      simp only [readsOf, readsThrough, List.mem_append] at h ⊢
      exact h.imp id (readsOf_sub_through r x)

end MakoModel.Names
