import MakoModel.Names.LemmasGuard
/-! `FrameOK` and the chain links for each kind of scope the generator writes. -/
namespace MakoModel.Names

/-- the `_Identifiers` of a scope, under the guard, describe the scope -/
theorem frameOK_visit {c : Cfg} {T : List Name} {i0 : Ids} {b : Body} {root : Bool} {params : List Name} {ul : Bool}
    (h0loc : i0.locDecl = []) (h0clos : i0.closdefs = [])
    (h0und : ∀ x ∈ i0.undeclared, x ∉ i0.declared)
    (h0tops : ∀ x, x ∈ i0.topdefs → x ∈ T) (hT : ∀ x ∈ T, x ∈ i0.topdefs)
    (hlist : listOK root b = true)
    (hnamed : ∀ x ∈ namedThrough b, x ∉ i0.declared)
    (htops : ∀ x ∈ topsOf root b, x ∈ T)
    (hloop : loopOK c (closOf root b) = true)
    (hp : ∀ x, x ∈ params ↔ x ∈ i0.argDecl ∨ x ∈ pageArgsOf b) :
    FrameOK c T { ids := visit i0 root b, params, own := ownOf b, defs := closOf root b, useLocals := ul } := by
  have hl := fun x => listOK_spec (x := x) b root hlist
  refine { notcc := rfl, nob := rfl, arg := ?_, loc := ?_, argR := ?_, locR := ?_, clos := ?_, und := ?_, tops := ?_, loopdef := ?_ }
  · intro x hx
    rw [mem_visit_argDecl] at hx
    exact (hp x).mpr (hx.imp id (hl x).2.1.mp)
  · intro x hx
    rw [mem_visit_locDecl, h0loc] at hx
    simp only [List.not_mem_nil, false_or] at hx
    rcases (hl x).1.mp hx with h' | h'
    · exact Or.inr (tagsOf_ne_nil.mpr h')
    · exact Or.inl ((hp x).mpr (Or.inr h'))
  · intro x hx
    rw [mem_visit_argDecl]
    exact ((hp x).mp hx).imp id (hl x).2.1.mpr
  · intro x hx
    rw [mem_visit_locDecl]
    exact Or.inr ((hl x).1.mpr (Or.inl (tagsOf_ne_nil.mp hx)))
  · intro x
    rw [mem_visit_closdefs, h0clos]
    simp
  · intro x hx
    show x ∉ (visit i0 root b).declared
    rw [visit_declared]
    rcases visit_undeclared_sub b i0 root hx with h' | h' | h'
    · exact h0und x h'
    · exact h'
    · exact hnamed x h'
  · intro x
    rw [mem_visit_topdefs]
    constructor
    · rintro (h' | h')
      · exact h0tops x h'
      · exact htops x h'
    · intro h'
      exact Or.inl (hT x h')
  · intro he
    simpa [loopOK, he] using hloop

theorem FrameOK.addArgs {c : Cfg} {T : List Name} {f : Frame} (h : FrameOK c T f) (e : List Name) :
    FrameOK c T { f with ids := f.ids.addArgs e, params := f.params ++ e } := by
  refine { notcc := h.notcc, nob := h.nob, arg := ?_, loc := ?_, argR := ?_, locR := h.locR, clos := h.clos, und := h.und, tops := h.tops,
           loopdef := h.loopdef }
  · intro x hx
    simp only [addArgs_argDecl, List.mem_append] at hx ⊢
    exact hx.imp (h.arg x) id
  · intro x hx
    simp only [List.mem_append]
    rcases h.loc x hx with h' | h'
    · exact Or.inl (Or.inl h')
    · exact Or.inr h'
  · intro x hx
    simp only [addArgs_argDecl, List.mem_append] at hx ⊢
    exact hx.imp (h.argR x) id

/-- the modifications `visitCallTag` applies to `body_identifiers`: `add_declared("caller")` and the removal of the
defs of the call from `closuredefs` -/
theorem FrameOK.callBody {c : Cfg} {T : List Name} {f : Frame} (h : FrameOK c T f) (z : Name) (p : Name → Bool) :
    FrameOK c T { f with ids := { (f.ids.addDeclared z) with closdefs := (f.ids.addDeclared z).closdefs.filter p },
                         defs := f.defs.filter p } := by
  refine { notcc := h.notcc, nob := h.nob, arg := h.arg, loc := h.loc, argR := h.argR, locR := h.locR, clos := ?_, und := ?_, tops := h.tops,
           loopdef := ?_ }
  · intro x
    simp only [Ids.addDeclared, List.mem_filter]
    rw [h.clos x]
  · intro x hx
    simp only [Ids.addDeclared, List.mem_filter, decide_eq_true_eq, List.mem_append, List.mem_singleton] at hx ⊢
    rintro (h' | h')
    · exact h.und x hx.1 h'
    · exact hx.2 h'
  · intro he hl
    exact h.loopdef he (List.mem_filter.mp hl).1

theorem link_nested {c : Cfg} {T : List Name} {P : Frame} (rest : List Frame) (hP : FrameOK c T P) :
    (∀ x, x ∈ (P.ids.branch true).declared → Avail c (P :: rest) x) ∧
      (∀ x, Avail c (P :: rest) x → x ∈ (P.ids.branch true).declared) := by
  constructor
  · intro x hx
    simp only [Ids.branch, if_true, List.mem_append] at hx
    simp only [Avail, hP.notcc, Bool.false_eq_true, if_false]
    rcases hx with (((h | h) | h) | h) | h
    · exact Or.inr (Or.inr (Or.inr (Or.inr h)))
    · exact Or.inr (Or.inr (Or.inl ((hP.clos x).mp h)))
    · rcases hP.loc x h with h' | h'
      · exact Or.inl h'
      · exact Or.inr (Or.inl h')
    · exact Or.inl (hP.arg x h)
    · exact Or.inr (Or.inr (Or.inr (Or.inl h)))
  · intro x hx
    simp only [Avail, hP.notcc, Bool.false_eq_true, if_false] at hx
    simp only [Ids.branch, if_true, List.mem_append]
    rcases hx with h | h | h | h | h
    · exact Or.inl (Or.inr (hP.argR x h))
    · exact Or.inl (Or.inl (Or.inr (hP.locR x h)))
    · exact Or.inl (Or.inl (Or.inl (Or.inr ((hP.clos x).mpr h))))
    · exact Or.inr h
    · exact Or.inl (Or.inl (Or.inl (Or.inl h)))

/-- module-level `_Identifiers` while the render callables are written -/
structure ModsOK (c : Cfg) (T : List Name) (mods : Ids) : Prop where
  decl : mods.declared = c.moduleNames
  tops : ∀ x, x ∈ mods.topdefs ↔ x ∈ T
  clos : mods.closdefs = []
  loc : mods.locDecl = []
  arg : mods.argDecl = []

theorem mem_branch_false_mods {c : Cfg} {T : List Name} {mods : Ids} (hm : ModsOK c T mods) (x : Name) :
    x ∈ (mods.branch false).declared ↔ x ∈ c.moduleNames := by
  simp [Ids.branch, hm.decl, hm.clos, hm.loc, hm.arg]

/-- reads of a scope are available in it -/
theorem reads_avail {c : Cfg} {T : List Name} {f : Frame} {rest : List Frame} (hf : FrameOK c T f) {body : Body}
    (hr : ∀ x ∈ readsOf body, x ≠ contextName → x ∈ f.ids.declared ∨ x ∈ f.ids.locDecl ∨ x ∈ f.ids.undeclared) :
    ∀ x ∈ readsOf body, x ≠ contextName → Avail c (f :: rest) x := by
  intro x hx hne
  simp only [Avail, hf.notcc, Bool.false_eq_true, if_false]
  rcases hr x hx hne with h | h | h
  · exact Or.inr (Or.inr (Or.inr (Or.inr h)))
  · rcases hf.loc x h with h' | h'
    · exact Or.inl h'
    · exact Or.inr (Or.inl h')
  · exact Or.inr (Or.inr (Or.inr (Or.inl h)))

end MakoModel.Names
