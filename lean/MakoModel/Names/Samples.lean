import MakoModel.Names.Scopes
/-! Sample templates used by the `example`s and counterexample theorems of `Props/C04.lean`. -/
namespace MakoModel.C04
open MakoModel.Names

/-- `<%def name="f(a)">${a}${y}<%def name="g()">${a}${z}</%def>${g()}</%def><%block>${w}</%block>
<%call expr="f(1)" args="q">${q}${v}</%call><% k = 1 %>${k}${f(2)}` -/
def sampleTree : Body :=
  .defn 1 "f".toList ["a".toList] []
    (.leaf 2 [] ["a".toList, "y".toList] (.defn 3 "g".toList [] [] (.leaf 4 [] ["a".toList, "z".toList] .nil)
      (.leaf 5 [] ["g".toList] .nil)))
  (.block 6 none "__M_anon_6".toList [] [] (.leaf 7 [] ["w".toList] .nil)
  (.call 8 ["q".toList] ["q".toList] ["f".toList] (.leaf 9 [] ["q".toList, "v".toList] .nil)
  (.code 10 ["k".toList] [] (.leaf 11 [] ["k".toList, "f".toList] .nil))))

/-- `<%call expr="w()" args="q"><%def name="d()">${q}</%def></%call>` -/
def callDefTree : Body :=
  .call 1 ["q".toList] ["q".toList] ["w".toList] (.defn 2 "d".toList [] [] (.leaf 3 [] ["q".toList] .nil) .nil) .nil

def ctxHas (n : Name) : RT :=
  { importNs := fun _ => none, data := fun m => if m = n then some (.obj 2) else none, builtins := fun _ => none }

end MakoModel.C04
