import MakoModel.Basic.Wire
import MakoModel.Names.Model
/-!
# `runtime.Context` data isolation and the reserved-name test of the render entry points

Python dictionaries are objects with identity: the model keeps them in a heap (`Heap`, a list of
insertion-ordered association lists; a `DictId` is an index), so that "does not mutate the dictionary it is
called on" and aliasing (`_locals({})` returns `self`; `_copy` shares `_kwargs`) are expressible.

Modelled: `Context.__init__`, `kwargs`, `get`, `__getitem__`, `keys`, `_copy`, `_locals`,
`_clean_inheritance_tokens`, `_set_with_template`; `runtime._render`, `Template.render/render_unicode/
render_context`, `DefTemplate` (same entry points through `get_def`).
-/
namespace MakoModel.Names.Context
open MakoModel.Names

abbrev DictId := Nat
abbrev PDict := List (Name × Nat)

def dictSet (d : PDict) (k : Name) (v : Nat) : PDict :=
  if d.any (fun p => decide (p.1 = k)) then d.map (fun p => if p.1 = k then (k, v) else p) else d ++ [(k, v)]

def dictUpdate (d : PDict) (u : PDict) : PDict := u.foldl (fun acc p => dictSet acc p.1 p.2) d

def dictPop (d : PDict) (k : Name) : PDict := d.filter (fun p => decide (p.1 ≠ k))

def dictGet (d : PDict) (k : Name) : Option Nat := (d.find? (fun p => decide (p.1 = k))).map (·.2)

structure Heap where
  dicts : List PDict := []
  deriving Repr

def Heap.get (h : Heap) (i : DictId) : PDict := h.dicts.getD i []
def Heap.alloc (h : Heap) (d : PDict) : Heap × DictId := ({ dicts := h.dicts ++ [d] }, h.dicts.length)
def Heap.set (h : Heap) (i : DictId) (d : PDict) : Heap := { dicts := h.dicts.set i d }

structure Ctx where
  data : DictId
  kwargs : DictId
  deriving Repr, DecidableEq

def captureName : Name := "capture".toList
def selfName : Name := "self".toList
def parentName : Name := "parent".toList
def nextName : Name := "next".toList

/-- `Context(buffer, **src)`: the `**` call builds a new dict, `_kwargs = data.copy()`, then the two
built-in entries are stored into `_data` -/
def ctxInit (h : Heap) (src : DictId) : Heap × Ctx :=
  let (h1, d) := h.alloc (h.get src)
  let (h2, k) := h1.alloc (h1.get d)
  let h3 := h2.set d (dictSet (dictSet (h2.get d) captureName 1) callerName 2)
  (h3, { data := d, kwargs := k })

/-- `Context._copy` -/
def ctxCopy (h : Heap) (c : Ctx) : Heap × Ctx :=
  let (h1, d) := h.alloc (h.get c.data)
  (h1, { data := d, kwargs := c.kwargs })

/-- `Context._locals(d)` -/
def ctxLocals (h : Heap) (c : Ctx) (u : PDict) : Heap × Ctx :=
  if u.isEmpty then (h, c) else
  let (h1, c1) := ctxCopy h c
  (h1.set c1.data (dictUpdate (h1.get c1.data) u), c1)

/-- `Context._clean_inheritance_tokens` -/
def ctxClean (h : Heap) (c : Ctx) : Heap × Ctx :=
  let (h1, c1) := ctxCopy h c
  (h1.set c1.data (dictPop (dictPop (dictPop (h1.get c1.data) selfName) parentName) nextName), c1)

/-- `Context.kwargs` (a fresh copy) -/
def ctxKwargs (h : Heap) (c : Ctx) : Heap × DictId := h.alloc (h.get c.kwargs)

/-- context operations reachable from generated template code -/
inductive Op where
  | locals (target : Nat) (u : PDict)
  | copy (target : Nat)
  | clean (target : Nat)
  | kwargs (target : Nat)
  deriving Repr

structure St where
  heap : Heap
  ctxs : List Ctx
  /-- dictionaries returned by `context.kwargs` -/
  results : List DictId := []
  deriving Repr

def step (s : St) : Op → St
  | .locals t u =>
      match s.ctxs[t]? with
      | some c => let (h, c') := ctxLocals s.heap c u; { s with heap := h, ctxs := s.ctxs ++ [c'] }
      | none => s
  | .copy t =>
      match s.ctxs[t]? with
      | some c => let (h, c') := ctxCopy s.heap c; { s with heap := h, ctxs := s.ctxs ++ [c'] }
      | none => s
  | .clean t =>
      match s.ctxs[t]? with
      | some c => let (h, c') := ctxClean s.heap c; { s with heap := h, ctxs := s.ctxs ++ [c'] }
      | none => s
  | .kwargs t =>
      match s.ctxs[t]? with
      | some c => let (h, r) := ctxKwargs s.heap c; { s with heap := h, results := s.results ++ [r] }
      | none => s

def run (s : St) (ops : List Op) : St := ops.foldl step s

/-- `runtime._render`: the context is created from the caller's dictionary, then template code runs -/
def render (h : Heap) (src : DictId) (ops : List Op) : St :=
  let (h1, c) := ctxInit h src
  run { heap := h1, ctxs := [c] } ops

/-! ## reserved names at the render entry points -/

inductive Entry where
  | render | renderUnicode | renderContext | defRender | defRenderUnicode | defRenderContext
  /-- `<%include args=…>` / `Namespace.include_file(uri, **kw)`: `runtime._include_file` -/
  | includeFile
  deriving Repr, DecidableEq

inductive Outcome where
  /-- `NameConflictError("Reserved words passed to render(): …")` -/
  | nameConflict (names : List Name)
  | proceeds
  deriving Repr, DecidableEq

/-- `Context._set_with_template`: `t.reserved_names.intersection(self._data)` -/
def setWithTemplate (reserved : List Name) (dataKeys : List Name) : Outcome :=
  let bad := reserved.filter (fun n => decide (n ∈ dataKeys))
  if bad.isEmpty then .proceeds else .nameConflict bad

/-- `keys`: for `render*` the keyword arguments, for `render_context` the keys the given `Context` was
created with; `kw`: the extra keyword arguments of `render_context`; `fresh`: `context._with_template is None`.
`render_context` first runs `_set_with_template` on a fresh context, then (when the regenerated flags say the
code does so – for every context, fresh or already rendered into) intersects `kwargs` with the reserved names. -/
def renderEntry (reserved : List Name) (e : Entry) (fresh : Bool) (keys kw : List Name) : Outcome :=
  match e with
  | .render | .renderUnicode | .defRender | .defRenderUnicode =>
      setWithTemplate reserved (keys ++ [captureName, callerName])
  | .renderContext | .defRenderContext =>
      match (if fresh then setWithTemplate reserved (keys ++ [captureName, callerName]) else .proceeds) with
      | .nameConflict l => .nameConflict l
      | .proceeds =>
        -- the kwargs check: present at all, and either a statement of the function body itself or (were it nested
        -- under `if context._with_template is None`) reached for a fresh context only
        if Generated.Names.renderContextChecksKwargs &&
            (Generated.Names.renderContextKwargsCheckUnconditional || fresh) then setWithTemplate reserved kw
        else .proceeds
  | .includeFile =>
      -- the context is a `_clean_inheritance_tokens()` copy of the running one: never fresh, its data was checked
      if Generated.Names.includeChecksKwargs then setWithTemplate reserved kw else .proceeds

/-! ## wire -/
open MakoModel.Wire

def decEntry : String → Option Entry
  | "render" => some .render | "render_unicode" => some .renderUnicode | "render_context" => some .renderContext
  | "def.render" => some .defRender | "def.render_unicode" => some .defRenderUnicode
  | "def.render_context" => some .defRenderContext | "include" => some .includeFile | _ => none

def encOutcome : Outcome → String
  | .proceeds => "ok"
  | .nameConflict ns => "conflict:" ++ "+".intercalate (ns.map encStr)

def decDict (f : String) : Option PDict :=
  if f == "_" then some [] else
  (f.splitOn "+").mapM fun kv =>
    match kv.splitOn "=" with
    | [k, v] => do let k ← decStr k; let v ← v.toNat?; pure (k, v)
    | _ => none

def encDict (d : PDict) : String :=
  if d.isEmpty then "_" else "+".intercalate (d.map fun p => encStr p.1 ++ "=" ++ toString p.2)

def decOp (f : String) : Option Op :=
  match f.splitOn ":" with
  | ["L", t, d] => do let t ← t.toNat?; let d ← decDict d; pure (.locals t d)
  | ["C", t] => do let t ← t.toNat?; pure (.copy t)
  | ["N", t] => do let t ← t.toNat?; pure (.clean t)
  | ["K", t] => do let t ← t.toNat?; pure (.kwargs t)
  | _ => none

/-- `ctxops <src dict> <op>…` → data of every context ; kwargs of every context ; results of `kwargs` ; src after -/
def handleOps : List String → Option String
  | src :: ops => do
      let src ← decDict src
      let ops ← ops.mapM decOp
      let h0 : Heap := { dicts := [src] }
      let s := render h0 0 ops
      pure (";".intercalate (s.ctxs.map fun c => encDict (s.heap.get c.data)) ++ " # " ++
            ";".intercalate (s.ctxs.map fun c => encDict (s.heap.get c.kwargs)) ++ " # " ++
            (if s.results.isEmpty then "none" else ";".intercalate (s.results.map fun r => encDict (s.heap.get r))) ++ " # " ++
            encDict (s.heap.get 0))
  | _ => none

end MakoModel.Names.Context
