import MakoModel.Cache.Spec
import MakoModel.Generated.CacheStatus
/-!
Helper lemmas for C17: side conditions on the regenerated constants, `dict` lemmas, the unfolding of one
section invocation into its four cases, and the generic "every primitive transition preserves `I`, hence
rendering does" induction.
-/
namespace MakoModel.Cache
open MakoModel.Generated.Cache
variable {R : Type} [DecidableEq R]

/-! ## side conditions on `Generated/Cache.lean` (an edited source either still satisfies them or breaks these) -/

/-- `BeakerCacheImpl._get_cache` hands `starttime = Cache.starttime = module._modified_time` to Beaker on every call, with
    or without a timeout: mako's own back end honours the `starttime` contract (`Backend.honoursStarttime`) -/
theorem gen_beaker_starttime :
    beakerAlwaysPassesStarttime = true ∧ beakerStarttimeReachesCalls = true ∧ starttimeIsModuleModifiedTime = true := by
  decide
/-- the call site of a block writes what the block returns (/repo 248d875) -/
theorem gen_block_result_written : blockResultWritten = true := by decide
/-- the cache decorator fetches the writer when it is called: what a cached section writes goes to the buffer on top at
    call time, as for the uncached section -/
theorem gen_decorator_fetches_writer : decoratorFetchesWriter = true := by decide
/-- `context.get('local')` in a template's callables is that template's own namespace, also for an inherited template:
    a section uses the cache of the template that declares it (`eff`) -/
theorem gen_local_is_declaring_template : localIsDeclaringTemplate = true := by decide

/-- the translator understood the source the constants below were read from (else `Generated/CacheStatus.lean` does
    not build and says why) -/
theorem gen_regen_ok : True := MakoModel.Generated.CacheStatus.regen_ok

theorem gen_prefix_slice : prefixSlice = cachePrefix.length := by decide
theorem gen_key_attr_excluded : excludedAttr = cacheKeyAttr := by decide
theorem gen_key_attr_has_prefix : cachePrefix.isPrefixOf cacheKeyAttr = true := by decide
theorem gen_merge_order : mergeOrder = ["page", "section"] := by decide
theorem gen_defname_kw : genDefnameKw = popDefnameKw ∧ apiDefnameKw = popDefnameKw := by decide
theorem gen_inv_body : invBodyKey = bodyName ∧ invBodyDefname = bodyName := by decide
theorem gen_inv_def : invDefKeyPrefix = toplevelPrefix ∧ invDefDefnamePrefix = toplevelPrefix := by decide
theorem gen_disabled_bypasses : disabledBypassesBackend = true := by decide
theorem gen_cache_id : cacheIdIsModuleName = true := by decide
/-- `write_inline_def` hands its `buffered` flag to the cache decorator (repaired by /repo ec9a6d2) -/
theorem gen_inline_passes_buffered : inlinePassesBuffered = true := by decide
/-- mako's Beaker implementation overrides `CacheImpl.set` (repaired by /repo b9a6f20): the contract `set`/`get` of the
    abstract back end is the one its own implementation has -/
theorem gen_beaker_defines_set : beakerImplDefinesSet = true := by decide
/-- the rendering context is added to a copy, never to the `_def_regions` entry itself (the model's `addCtx` is pure) -/
theorem gen_context_added_to_copy : contextAddedToCopy = true ∧ contextGuard = "context and self.impl.pass_context" := by decide
theorem gen_names :
    bodyName = "render_body".toList ∧ toplevelPrefix = "render_".toList ∧ anonPrefix = "__M_anon_".toList ∧
    cacheKeyAttr = "cache_key".toList ∧ cachePrefix = "cache_".toList ∧ timeoutKey = "timeout".toList ∧
    contextKw = "context".toList := by decide

/-! ## `dict` lemmas -/

theorem aGet_aSet {β : Type} (a : List (Str × β)) (k k' : Str) (v : β) :
    aGet (aSet a k v) k' = if k = k' then some v else aGet a k' := by
  induction a with
  | nil => simp [aSet, aGet]
  | cons p r ih =>
    obtain ⟨k0, v0⟩ := p
    by_cases h0 : k0 = k
    · subst h0
      by_cases h1 : k0 = k' <;> simp [aSet, aGet, h1]
    · by_cases h1 : k = k'
      · subst h1
        simp [aSet, aGet, h0, ih]
      · simp [aSet, aGet, h0, ih, h1]

theorem aGet_foldl_aSet {β : Type} (b a : List (Str × β)) (k : Str) :
    aGet (b.foldl (fun acc p => aSet acc p.1 p.2) a) k =
      match aGet b.reverse k with
      | some v => some v
      | none => aGet a k := by
  induction b generalizing a with
  | nil => simp [aGet]
  | cons p r ih =>
    obtain ⟨k0, v0⟩ := p
    simp only [List.foldl_cons, List.reverse_cons]
    rw [ih]
    have happ : ∀ (l : List (Str × β)), aGet (l ++ [(k0, v0)]) k =
        match aGet l k with
        | some v => some v
        | none => if k0 = k then some v0 else none := by
      intro l
      induction l with
      | nil => simp [aGet]
      | cons q t iht =>
        obtain ⟨k1, v1⟩ := q
        by_cases h1 : k1 = k <;> simp [aGet, h1, iht]
    rw [happ, aGet_aSet]
    cases hr : aGet r.reverse k with
    | some x => simp
    | none => by_cases hk : k0 = k <;> simp [hk]

/-- `a.update(b)`: a key is looked up in `b` first (its last binding), then in `a` -/
theorem aGet_aUpdate {β : Type} (a b : List (Str × β)) (k : Str) :
    aGet (aUpdate a b) k = match aGetLast b k with
      | some v => some v
      | none => aGet a k := by
  unfold aUpdate aGetLast
  exact aGet_foldl_aSet b a k

theorem aGet_aSetDefault {β : Type} (a : List (Str × β)) (k k' : Str) (v : β) :
    aGet (aSetDefault a k v) k' =
      match aGet a k' with
      | some x => some x
      | none => if k = k' ∧ aGet a k = none then some v else none := by
  unfold aSetDefault
  have happ : ∀ (l : List (Str × β)), aGet (l ++ [(k, v)]) k' =
      match aGet l k' with
      | some x => some x
      | none => if k = k' then some v else none := by
    intro l
    induction l with
    | nil => simp [aGet]
    | cons q t iht =>
      obtain ⟨k1, v1⟩ := q
      by_cases h1 : k1 = k' <;> simp [aGet, h1, iht]
  cases hk : aGet a k with
  | some x =>
    cases hk' : aGet a k' <;> simp
  | none =>
    simp only [happ]
    cases hk' : aGet a k' <;> simp


/-! ### keys are unique in everything `aUpdate` builds -/

def keysOf {β : Type} (a : List (Str × β)) : List Str := a.map Prod.fst

theorem aGet_append_single {β : Type} (l : List (Str × β)) (k0 : Str) (v0 : β) (k : Str) :
    aGet (l ++ [(k0, v0)]) k =
      match aGet l k with
      | some v => some v
      | none => if k0 = k then some v0 else none := by
  induction l with
  | nil => simp [aGet]
  | cons q t iht =>
    obtain ⟨k1, v1⟩ := q
    by_cases h1 : k1 = k <;> simp [aGet, h1, iht]

theorem aGet_none_iff {β : Type} (a : List (Str × β)) (k : Str) : aGet a k = none ↔ k ∉ keysOf a := by
  induction a with
  | nil => simp [aGet, keysOf]
  | cons p r ih =>
    obtain ⟨k0, v0⟩ := p
    by_cases h : k0 = k
    · simp [aGet, keysOf, h]
    · have h' : ¬ k = k0 := fun e => h e.symm
      simp only [aGet, h, if_false, keysOf, List.map_cons, List.mem_cons, h', false_or]
      simpa [keysOf] using ih

theorem keysOf_aSet {β : Type} (a : List (Str × β)) (k : Str) (v : β) :
    keysOf (aSet a k v) = if k ∈ keysOf a then keysOf a else keysOf a ++ [k] := by
  induction a with
  | nil => simp [aSet, keysOf]
  | cons p r ih =>
    obtain ⟨k0, v0⟩ := p
    by_cases h : k0 = k
    · simp [aSet, keysOf, h]
    · have h' : ¬ k = k0 := fun e => h e.symm
      simp only [aSet, h, if_false, keysOf, List.map_cons, List.mem_cons, h', false_or]
      have := ih
      simp only [keysOf] at this
      rw [this]
      by_cases hm : k ∈ List.map Prod.fst r <;> simp [hm]

theorem nodup_aSet {β : Type} (a : List (Str × β)) (k : Str) (v : β) (h : (keysOf a).Nodup) :
    (keysOf (aSet a k v)).Nodup := by
  rw [keysOf_aSet]
  split
  · exact h
  · rename_i hk
    exact List.nodup_append.mpr ⟨h, by simp, by intro x hx y hy; simp at hy; subst hy; intro e; subst e; exact hk hx⟩

theorem nodup_aUpdate {β : Type} (a b : List (Str × β)) (h : (keysOf a).Nodup) : (keysOf (aUpdate a b)).Nodup := by
  unfold aUpdate
  induction b generalizing a with
  | nil => simpa using h
  | cons p r ih => simpa using ih _ (nodup_aSet a p.1 p.2 h)

theorem aGetLast_eq_aGet {β : Type} (a : List (Str × β)) (k : Str) (h : (keysOf a).Nodup) : aGetLast a k = aGet a k := by
  unfold aGetLast
  induction a with
  | nil => rfl
  | cons p r ih =>
    obtain ⟨k0, v0⟩ := p
    have hn : (keysOf r).Nodup := by
      simp only [keysOf, List.map_cons] at h ⊢
      exact (List.nodup_cons.mp h).2
    have hk0 : k0 ∉ keysOf r := by
      simp only [keysOf, List.map_cons] at h ⊢
      exact (List.nodup_cons.mp h).1
    rw [List.reverse_cons, aGet_append_single, ih hn]
    by_cases hk : k0 = k
    · subst hk
      have : aGet r k0 = none := (aGet_none_iff r k0).mpr hk0
      simp [this, aGet]
    · simp only [aGet, hk, if_false]
      cases aGet r k <;> rfl

/-- `a.update(b)` when `b` itself was built by updates: plain lookups -/
theorem aGet_aUpdate_nodup {β : Type} (a b : List (Str × β)) (k : Str) (hb : (keysOf b).Nodup) :
    aGet (aUpdate a b) k = match aGet b k with
      | some v => some v
      | none => aGet a k := by
  rw [aGet_aUpdate, aGetLast_eq_aGet b k hb]

theorem nodup_sectionKw (page h : Hdr) (env : Env) : (keysOf (sectionKw page h env)).Nodup := by
  unfold sectionKw
  exact nodup_aUpdate _ _ (nodup_aUpdate _ _ (by simp [keysOf]))

/-! ## one invocation, case by case -/

/-- the key under which a cached section goes to the back end from state `st` -/
def backendKey (P : Params R) (st : St R) (h : Hdr) (env' : Env) : Key R :=
  (cid (eff P h).tm,
   P.be.regionOf (getCacheKw (eff P h).tm.cacheArgs (st.regions (eff P h).tid) (fname h)
     (sectionKw (eff P h).tm.page h env')).1,
   keyOf h env')

/-- the keyword arguments handed to `impl.get_or_create` -/
def sentKw (P : Params R) (st : St R) (h : Hdr) (env' : Env) : Kw :=
  addCtx P.be.passContext (getCacheKw (eff P h).tm.cacheArgs (st.regions (eff P h).tid) (fname h)
    (sectionKw (eff P h).tm.page h env')).1

/-- state right after the wrapper has called `impl.get_or_create`: `_def_regions` memo updated, call recorded -/
def afterCall (P : Params R) (st : St R) (h : Hdr) (env' : Env) : St R :=
  (st.setRegions (eff P h).tid (getCacheKw (eff P h).tm.cacheArgs (st.regions (eff P h).tid) (fname h)
      (sectionKw (eff P h).tm.page h env')).2).emit
    (.call (eff P h).tid .goc (cid (eff P h).tm) (keyOf h env') (sentKw P st h env'))

theorem run_inv_uncached (P : Params R) (env : Env) (h : Hdr) (arg : Option Expr) (site : Site) (body rest : Items)
    (st : St R) (hc : h.cached = false) :
    run P env (.inv h arg site body rest) st =
      let b := run P (scope P h env arg) body st
      let r := run P env rest b.2
      (deliver h site (finish h b.1) ++ r.1, r.2) := by
  simp [run, hc]

theorem run_inv_disabled (P : Params R) (env : Env) (h : Hdr) (arg : Option Expr) (site : Site) (body rest : Items)
    (st : St R) (hc : h.cached = true) (hen : st.enabled (eff P h).tid = false) :
    run P env (.inv h arg site body rest) st =
      let b := run P (scope P h env arg) body (st.emit (.bypass (eff P h).tid (fname h)))
      let r := run P env rest b.2
      (deliver h site (finish h b.1) ++ r.1, r.2) := by
  simp [run, hc, hen]

theorem run_inv_hit (P : Params R) (env : Env) (h : Hdr) (arg : Option Expr) (site : Site) (body rest : Items)
    (st : St R) (v : Str) (hc : h.cached = true) (hen : st.enabled (eff P h).tid = true)
    (hs : visible P.be st (eff P h).tid (backendKey P st h (scope P h env arg)) = some v) :
    run P env (.inv h arg site body rest) st =
      let st1 := (afterCall P st h (scope P h env arg)).emit
        (.enter (eff P h).tid (fname h) (backendKey P st h (scope P h env arg)) (.hit v))
      let r := run P env rest st1
      (deliver h site v ++ r.1, r.2) := by
  unfold backendKey at hs
  simp [run, hc, hen, hs, afterCall, sentKw, backendKey]

theorem run_inv_miss (P : Params R) (env : Env) (h : Hdr) (arg : Option Expr) (site : Site) (body rest : Items)
    (st : St R) (hc : h.cached = true) (hen : st.enabled (eff P h).tid = true)
    (hs : visible P.be st (eff P h).tid (backendKey P st h (scope P h env arg)) = none) :
    run P env (.inv h arg site body rest) st =
      let env' := scope P h env arg
      let K := backendKey P st h env'
      let st0 := (afterCall P st h env').emit (.enter (eff P h).tid (fname h) K .miss)
      let b := run P env' body st0
      let v := finish h b.1
      let r := run P env rest ((b.2.put K v).emit (.created (eff P h).tid (fname h) K v ⟨P.tid, h, body, env', P.ctx, st0.snap⟩))
      (deliver h site v ++ r.1, r.2) := by
  unfold backendKey at hs
  simp [run, hc, hen, hs, afterCall, sentKw, backendKey]

/-! ## every primitive transition preserves `I`, hence rendering does -/

/-- `I` is preserved by the five primitive transitions a render of (a part of) the call tree `T` can make (the last
    one – a creation function has returned – knows which body ran from which state) -/
structure Preserved (P : Params R) (T : Items) (I : St R → Prop) : Prop where
  tick : ∀ st t, I st → I (st.emit (.tick t))
  bypass : ∀ st h, h ∈ hdrs T → I st → st.enabled (eff P h).tid = false → I (st.emit (.bypass (eff P h).tid (fname h)))
  hit : ∀ st h env' v, h ∈ hdrs T → I st → st.enabled (eff P h).tid = true → visible P.be st (eff P h).tid (backendKey P st h env') = some v →
    I ((afterCall P st h env').emit (.enter (eff P h).tid (fname h) (backendKey P st h env') (.hit v)))
  miss : ∀ st h env', h ∈ hdrs T → I st → st.enabled (eff P h).tid = true → visible P.be st (eff P h).tid (backendKey P st h env') = none →
    I ((afterCall P st h env').emit (.enter (eff P h).tid (fname h) (backendKey P st h env') .miss))
  created : ∀ st0 h body env' r key, h ∈ hdrs T → I (run P env' body st0).2 →
    I (((run P env' body st0).2.put (cid (eff P h).tm, r, key) (finish h (run P env' body st0).1)).emit
      (.created (eff P h).tid (fname h) (cid (eff P h).tm, r, key) (finish h (run P env' body st0).1)
        ⟨P.tid, h, body, env', P.ctx, st0.snap⟩))

theorem run_preserves (P : Params R) (T : Items) (I : St R → Prop) (hp : Preserved P T I) :
    ∀ (its : Items) (env : Env) (st : St R), (∀ h, h ∈ hdrs its → h ∈ hdrs T) → I st → I (run P env its st).2 := by
  intro its
  induction its with
  | nil => intro env st _ hi; simpa [run] using hi
  | text s rest ih => intro env st hsub hi; simpa [run] using ih env st (by simpa [hdrs] using hsub) hi
  | var x rest ih => intro env st hsub hi; simpa [run] using ih env st (by simpa [hdrs] using hsub) hi
  | tick t rest ih =>
    intro env st hsub hi
    simpa [run] using ih env _ (by simpa [hdrs] using hsub) (hp.tick st t hi)
  | inv h arg site body rest ihb ihr =>
    intro env st hsub hi
    have hh : h ∈ hdrs T := hsub h (by simp [hdrs])
    have hsb : ∀ x, x ∈ hdrs body → x ∈ hdrs T := fun x hx => hsub x (by simp [hdrs, hx])
    have hsr : ∀ x, x ∈ hdrs rest → x ∈ hdrs T := fun x hx => hsub x (by simp [hdrs, hx])
    by_cases hc : h.cached = true
    · by_cases hen : st.enabled (eff P h).tid = true
      · cases hs : visible P.be st (eff P h).tid (backendKey P st h (scope P h env arg)) with
        | some v =>
          rw [run_inv_hit P env h arg site body rest st v hc hen hs]
          exact ihr env _ hsr (hp.hit st h _ v hh hi hen hs)
        | none =>
          rw [run_inv_miss P env h arg site body rest st hc hen hs]
          refine ihr env _ hsr ?_
          exact hp.created _ h body _ _ _ hh (ihb _ _ hsb (hp.miss st h _ hh hi hen hs))
      · have hen' : st.enabled (eff P h).tid = false := by simpa using hen
        rw [run_inv_disabled P env h arg site body rest st hc hen']
        exact ihr env _ hsr (ihb _ _ hsb (hp.bypass st h hh hi hen'))
    · have hc' : h.cached = false := by simpa using hc
      rw [run_inv_uncached P env h arg site body rest st hc']
      exact ihr env _ hsr (ihb _ _ hsb hi)

end MakoModel.Cache
