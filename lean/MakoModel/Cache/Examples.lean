import MakoModel.Cache.Invariants
/-!
Concrete worlds used by the `example`s and `…_counterexample` theorems of `Props/C17.lean`.
-/
namespace MakoModel.Cache

/-- one container, no context wanted -/
def exBe : Backend Unit := { regionOf := fun _ => (), passContext := false, honoursStarttime := true }

/-- containers selected by the keyword `type` (what the recording back end and Beaker do) -/
def exBeType : Backend (Option ArgV) :=
  { regionOf := fun kw => aGet kw "type".toList, passContext := true, honoursStarttime := true }

def exPage (cached : Bool) : Hdr :=
  { kind := .page, name := [], line := 0, param := none, cached := cached, buffered := false, filtered := false,
    attrs := [] }

/-- `<%page cached="True"/>${tick('page')}<txt>${x}` -/
def exTm (uri txt : String) : Tmpl :=
  { uri := uri.toList, cacheArgs := [], enabled0 := true, page := exPage true,
    body := .tick "page".toList (.text txt.toList (.var "x".toList .nil)) }

/-- two templates in one lookup whose URIs differ in one punctuation character -/
def exW : World Unit := { be := exBe, tmpls := [exTm "/a-b.html" "first ", exTm "/a_b.html" "second "] }
/-- the same URI bound first to one text, then to another (`put_string` twice): index 1 replaces index 0 -/
def exWTakeover : World Unit := { be := exBe, tmpls := [exTm "/p.html" "v1 ", exTm "/p.html" "v2 "] }
/-- … on a back end that ignores `starttime` -/
def exWTakeoverNoStart : World Unit :=
  { be := { exBe with honoursStarttime := false }, tmpls := [exTm "/p.html" "v1 ", exTm "/p.html" "v2 "] }
def exWDistinct : World Unit := { be := exBe, tmpls := [exTm "/a-b.html" "first ", exTm "/c.html" "second "] }

def ctx (x : String) : Env := [("x".toList, x.toList)]

def exHist : List Op := [.render 0 (ctx "1"), .render 1 (ctx "2")]

/-- `<%def name="f(p)" cached="True" cache_type="ta" cache_timeout="30">${tick('f')}F${p}</%def>` -/
def exF : Hdr :=
  { kind := .topDef, name := "f".toList, line := 0, param := some "p".toList, cached := true, buffered := false,
    filtered := false,
    attrs := [("cached".toList, [.lit "True".toList]), ("cache_type".toList, [.lit "ta".toList]),
              ("cache_timeout".toList, [.lit "30".toList])] }

def exFBody : Items := .tick "f".toList (.text "F".toList (.var "p".toList .nil))

/-- `<%page cache_type="tp" cache_foo="pf"/>…${f(x)}` with `Template(cache_args={'type':'tt','foo':'tf','zed':'tz'})` -/
def exTmF : Tmpl :=
  { uri := "/f.html".toList
    cacheArgs := [("type".toList, .str "tt".toList), ("foo".toList, .str "tf".toList), ("zed".toList, .str "tz".toList)]
    enabled0 := true
    page := { exPage false with attrs := [("cache_type".toList, [.lit "tp".toList]), ("cache_foo".toList, [.lit "pf".toList])] }
    body := .tick "page".toList (.inv exF (some [.var "x".toList]) .plain exFBody .nil) }

def exWF : World (Option ArgV) := { be := exBeType, tmpls := [exTmF] }

/-- a nested def `<%def name="g()" cached="True" buffered="True">G</%def>` called as `${g() | wrapS}` -/
def exG : Hdr :=
  { kind := .nestedDef, name := "g".toList, line := 0, param := none, cached := true, buffered := true,
    filtered := false, attrs := [] }

/-! an inheritance chain: `/base.html` declares a cached def `side`; `/c1.html` and `/c2.html` inherit from it, declare
a cached def `side` of their own and call both (`${side()}`, `${parent.side()}`).  The call tree of a child is the base's
body with the child's body in the place of `${next.body()}`; every header names its declaring template. -/

def exHome (tid : Nat) (uri : String) : Home := { tid := tid, uri := uri.toList, cacheArgs := [], pageAttrs := [] }

def exSide (tid : Nat) (uri : String) : Hdr :=
  { kind := .topDef, name := "side".toList, line := 0, param := none, cached := true, buffered := false,
    filtered := false, attrs := [], home := some (exHome tid uri) }

def exSideBody (txt : String) : Items := .tick ("side of " ++ txt).toList (.text txt.toList .nil)

def exChild (tid : Nat) (uri txt : String) : Tmpl :=
  { uri := uri.toList, cacheArgs := [], enabled0 := true
    page := { exPage false with home := some (exHome 0 "/base.html") }
    body := .text "[".toList
      (.inv (exSide 0 "/base.html") none .plain (exSideBody "B")            -- the base's own `${side()}`
      (.inv { exPage false with home := some (exHome tid uri) } none .plain  -- `${next.body()}`: the child's body
        (.inv (exSide tid uri) none .plain (exSideBody txt)                  --   `${side()}`
        (.inv (exSide 0 "/base.html") none .plain (exSideBody "B") .nil))    --   `${parent.side()}`
      (.text "]".toList .nil))) }

def exWInherit : World Unit :=
  { be := exBe
    tmpls := [{ uri := "/base.html".toList, cacheArgs := [], enabled0 := true,
                page := { exPage false with home := some (exHome 0 "/base.html") }, body := .nil },
              exChild 1 "/c1.html" "C1", exChild 2 "/c2.html" "C2"] }

/-- the keyword arguments of the `get_or_create` calls for key `k` in a trace, oldest first -/
def gocArgs {R : Type} (tr : List (Ev R)) (k : Str) : List Kw :=
  tr.reverse.filterMap fun
    | .call _ .goc _ k' kw => if k' = k then some kw else none
    | _ => none

/-- the ticks of a trace, oldest first -/
def ticksOf {R : Type} (tr : List (Ev R)) : List Str :=
  tr.reverse.filterMap fun
    | .tick t => some t
    | _ => none

end MakoModel.Cache
