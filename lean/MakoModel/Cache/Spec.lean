import MakoModel.Cache.Model
/-!
# The specification monitor of C17

The property text speaks about what the back end *holds*: "its body is executed only when the backend has no
value for its key … and again after invalidate…", "produces the output an uncached render would have produced
when its cache entry was created", "entries of one template are never served to another".  `Spec` is that
notion, written without looking at the model's state: it is *replayed from the trace* – from the calls the back
end sees (`set`, `invalidate`), from the completed creations, from the assignments to `cache_enabled` and from the
(re)compilations of templates; it keeps its own clock.  Every entry remembers which template put it there, how and when.

`evRuns`, `evReplay`, `evCreation`, `evFresh`, `evOwn` are the five checks the monitor applies to the decision a cached
wrapper took (`enter … hit/miss`, `bypass`) against the replayed specification state *before* that event.  The theorems of
`Props/C17.lean` say that the monitor accepts the trace of every history for the first four, and for `evOwn` when the
module ids are distinct.
-/
namespace MakoModel.Cache
variable {R : Type} [DecidableEq R]

/-- how an entry came into the back end -/
inductive Prov (R : Type)
  | creation (c : Creation R)            -- a creation function: section, scope, context and pre-state it ran in
  | manual                               -- `cache.set`

structure Entry (R : Type) where
  val : Str
  owner : Nat                            -- index of the template that put it there
  prov : Prov R
  time : Nat                             -- when (specification clock)

structure Spec (R : Type) where
  store : Key R → Option (Entry R)
  enabled : Nat → Bool
  stamp : Nat → Nat                      -- when each template was last compiled
  clock : Nat                            -- advances with every `created` / `set`

def Spec.init (w : World R) : Spec R :=
  { store := fun _ => none
    enabled := fun t => match w.tmpls[t]? with | some tm => tm.enabled0 | none => true
    stamp := fun _ => 0
    clock := 0 }

/-- a new entry is stamped with the specification clock, which then advances -/
def Spec.put (s : Spec R) (K : Key R) (v : Str) (owner : Nat) (p : Prov R) : Spec R :=
  { s with store := fun K' => if K' = K then some ⟨v, owner, p, s.clock⟩ else s.store K'
           clock := s.clock + 1 }

/-- what counts as "the back end has a value for this key" for template `tid`: an entry, and – when the implementation
    honours `starttime` – one that is not older than the template itself -/
def Spec.visible (be : Backend R) (s : Spec R) (tid : Nat) (K : Key R) : Option (Entry R) :=
  match s.store K with
  | some e => if be.honoursStarttime && decide (e.time < s.stamp tid) then none else some e
  | none => none

def Spec.del (s : Spec R) (K : Key R) : Spec R :=
  { s with store := fun K' => if K' = K then none else s.store K' }

/-- effect of one event on what the back end holds / on `cache_enabled` -/
def Spec.step (be : Backend R) (s : Spec R) : Ev R → Spec R
  | .created tid _ K v c => s.put K v tid (.creation c)
  | .call tid (.set v) c k kw => s.put (c, be.regionOf kw, k) v tid .manual
  | .call _ .inv c k kw => s.del (c, be.regionOf kw, k)
  | .enabledSet t b => { s with enabled := fun t' => if t' = t then b else s.enabled t' }
  | .compiled t => { s with stamp := fun t' => if t' = t then s.clock else s.stamp t' }
  | _ => s

/-- specification state after a trace (newest event first) -/
def replay (w : World R) : List (Ev R) → Spec R
  | [] => Spec.init w
  | e :: older => (replay w older).step w.be e

/-- value of the *uncached* section `h` with body `body` in scope `env'` and state `st`: its content through its filter -/
def sectionValue (P : Params R) (env' : Env) (h : Hdr) (body : Items) (st : St R) : Str :=
  finish h (run P env' body st).1

/-- *body runs iff missing*: the wrapper bypasses the back end iff caching is disabled; otherwise it serves the
    stored value iff there is one and runs the body iff there is none -/
def evRuns (be : Backend R) (s : Spec R) : Ev R → Bool
  | .enter tid _ K (.hit _) => s.enabled tid && (s.visible be tid K).isSome
  | .enter tid _ K .miss => s.enabled tid && (s.visible be tid K).isNone
  | .bypass tid _ => !s.enabled tid
  | _ => true

/-- *replay*: what is served is exactly the value that the last `created`/`set` on that key put there -/
def evReplay (s : Spec R) : Ev R → Bool
  | .enter _ _ K (.hit v) => match s.store K with
    | some e => e.val == v
    | none => false
  | _ => true

/-- *starttime*: on a back end that honours it, what is served was stored no earlier than the serving template was
    compiled – entries left by a predecessor under the same cache id (the URI re-bound with `put_string`, a file
    reloaded by the lookup, a recycled `memory:0x…` id) are never served -/
def evFresh (be : Backend R) (s : Spec R) : Ev R → Bool
  | .enter tid _ K (.hit _) => match s.store K with
    | some e => !be.honoursStarttime || decide (s.stamp tid ≤ e.time)
    | none => true
  | _ => true

/-- *no cross-template service*: what is served was put there by the same template -/
def evOwn (s : Spec R) : Ev R → Bool
  | .enter tid _ K (.hit _) => match s.store K with
    | some e => e.owner == tid
    | none => true
  | _ => true

/-- *replay, in full*: what is served under a key is the value of the entry the specification state holds there, and
    if that entry was put by a creation function – the LAST completed creation on that key – the value is the output of
    the *uncached* section recorded there (header `c.h`, body `c.body`), in the scope `c.env` and render context `c.ctx`
    of that creation, from the store / flags / memos `c.pre` the back end was in when it called the creation function,
    in the render of template `c.rtid` (the entry's owner is the template that *declares* the section, which under
    `<%inherit>` need not be the rendered one). -/
def evCreation (w : World R) (s : Spec R) : Ev R → Prop
  | .enter _ _ K (.hit v) =>
    ∃ e, s.store K = some e ∧ e.val = v ∧
      match e.prov with
      | .manual => True
      | .creation c => ∃ tm, w.tmpls[c.rtid]? = some tm ∧
          v = sectionValue ⟨w.be, tm, c.rtid, c.ctx⟩ c.env c.h c.body c.pre.toSt
  | _ => True

/-- the monitor for a `Prop`-valued check -/
def traceAllP (w : World R) (chk : Spec R → Ev R → Prop) : List (Ev R) → Prop
  | [] => True
  | e :: older => chk (replay w older) e ∧ traceAllP w chk older

/-- the monitor: `chk` holds for every event against the specification state replayed from the events before it -/
def traceAll (w : World R) (chk : Spec R → Ev R → Bool) : List (Ev R) → Bool
  | [] => true
  | e :: older => chk (replay w older) e && traceAll w chk older

/-- cache ids (module names) of the world's templates are pairwise distinct -/
def IdsDistinct (w : World R) : Prop :=
  ∀ (i j : Nat) (ti tj : Tmpl), w.tmpls[i]? = some ti → w.tmpls[j]? = some tj → cid ti = cid tj → i = j

/-- the headers occurring in a call tree -/
def hdrs : Items → List Hdr
  | .nil => []
  | .text _ rest => hdrs rest
  | .var _ rest => hdrs rest
  | .tick _ rest => hdrs rest
  | .inv h _ _ body rest => h :: (hdrs body ++ hdrs rest)

/-- the whole call tree of a template, page included -/
def Tmpl.tree (tm : Tmpl) : Items := .inv tm.page none .plain tm.body .nil

/-- the `home` annotations of the world's call trees are truthful about the cache id: a section said to be declared by
    template `hm.tid` carries that template's URI -/
def HomesOK (w : World R) : Prop :=
  ∀ (t : Nat) (tm : Tmpl), w.tmpls[t]? = some tm → ∀ h, h ∈ hdrs tm.tree → ∀ hm, h.home = some hm →
    ∃ tm', w.tmpls[hm.tid]? = some tm' ∧ tm'.uri = hm.uri

/-- `HomesOK`, decidably -/
def homesOKb (w : World R) : Bool :=
  w.tmpls.all fun tm => (hdrs tm.tree).all fun h =>
    match h.home with
    | none => true
    | some hm => match w.tmpls[hm.tid]? with
      | some tm' => decide (tm'.uri = hm.uri)
      | none => false

/-- `[…].reverse.lookup` : the last binding of `k` -/
def aGetLast {β : Type} (a : List (Str × β)) (k : Str) : Option β := aGet a.reverse k

/-- is the op one of `invalidate_body / invalidate_def / invalidate_closure`? -/
def Op.isCallableInvalidation : Op → Bool
  | .invalidateBody _ => true
  | .invalidateDef _ _ => true
  | .invalidateClosure _ _ => true
  | _ => false

/-- the callable (template, `__M_defname`) an `invalidate_body/def/closure` addresses -/
def Op.invalidatedCallable : Op → Option (Nat × Str)
  | .invalidateBody t => some (t, MakoModel.Generated.Cache.invBodyDefname)
  | .invalidateDef t d => some (t, MakoModel.Generated.Cache.invDefDefnamePrefix ++ d)
  | .invalidateClosure t d => some (t, d)
  | _ => none

/-- no `invalidate_body/def/closure` is issued for a callable before that callable's first trip to the back end
    (i.e. before it has a `_def_regions` entry) -/
def noEarlyInvalidation (w : World R) : St R → List Op → Bool
  | _, [] => true
  | st, op :: ops =>
    (match op.invalidatedCallable with
     | some (t, d) => (aGet (st.regions t) d).isSome
     | none => true) && noEarlyInvalidation w (step w st op).2 ops

end MakoModel.Cache
