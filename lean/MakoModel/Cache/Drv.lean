import MakoModel.Basic.Wire
import MakoModel.Cache.Model
/-!
Driver handler for the cache model: `cache run <passContext 0|1> <honoursStarttime 0|1> <regionKey> <nT> <tmpl>… <nOps> <op>…`

All tokens are separated by single spaces; `str` is the wire encoding of a string.

```
tmpl  := uri:str kw enabled:0|1 hdr items
kw    := n (key:str argv)*            argv := s str | i nat | c
hdr   := kind:0..4 name:str line:nat (N | P str) cached buffered filtered attrs (L | H tid:nat uri:str kw attrs)
attrs := n (attr:str expr)*           (H …: the section is declared by that template, not by the rendered one)
expr  := n (L str | X str)*           (literal / variable)
items := ( T str | V str | K str | I hdr (N | A expr) site:0..3 items )* E
op    := R t env | B t | D t str | C t str | X t key:str kw | S t key:str val:str kw | G t key:str kw | N t 0|1 | P t
env   := n (name:str val:str)*
```
kinds: 0 page, 1 top-level def, 2 nested def, 3 named block, 4 anonymous block.  The back end's region
function is "value of the keyword `regionKey`".

Answer: the steps joined by ` | `; a step is `resp T n tick… C n call…` with
`resp := o str | g none | g some str | u | x`, `call := goc|set|get|inv cid key [val] nkw (key argv)*`,
keyword arguments sorted by key (code point order).
-/
namespace MakoModel.Cache.Drv
open MakoModel.Wire MakoModel.Cache

abbrev P (α : Type) := List String → Option (α × List String)

def pNat : P Nat
  | t :: r => t.toNat?.map (·, r)
  | [] => none

def pStr : P Str
  | t :: r => (decStr t).map (·, r)
  | [] => none

def pBool : P Bool
  | t :: r => (decBool t).map (·, r)
  | [] => none

def pRep {α : Type} (p : P α) : Nat → P (List α)
  | 0, ts => some ([], ts)
  | n + 1, ts => do
    let (a, ts) ← p ts
    let (as, ts) ← pRep p n ts
    pure (a :: as, ts)

def pList {α : Type} (p : P α) : P (List α) := fun ts => do
  let (n, ts) ← pNat ts
  pRep p n ts

def pArgV : P ArgV
  | "s" :: ts => do let (s, ts) ← pStr ts; pure (.str s, ts)
  | "i" :: ts => do let (n, ts) ← pNat ts; pure (.int n, ts)
  | "c" :: ts => some (.ctx, ts)
  | _ => none

def pKw : P Kw := pList fun ts => do
  let (k, ts) ← pStr ts
  let (v, ts) ← pArgV ts
  pure ((k, v), ts)

def pPart : P Part
  | "L" :: ts => do let (s, ts) ← pStr ts; pure (.lit s, ts)
  | "X" :: ts => do let (s, ts) ← pStr ts; pure (.var s, ts)
  | _ => none

def pExpr : P Expr := pList pPart

def pKind : P Kind
  | "0" :: ts => some (.page, ts)
  | "1" :: ts => some (.topDef, ts)
  | "2" :: ts => some (.nestedDef, ts)
  | "3" :: ts => some (.namedBlock, ts)
  | "4" :: ts => some (.anonBlock, ts)
  | _ => none

def pAttrs : P (List (Str × Expr)) := pList fun ts => do
  let (k, ts) ← pStr ts
  let (e, ts) ← pExpr ts
  pure ((k, e), ts)

def pSite : P Site
  | "0" :: ts => some (.plain, ts)
  | "1" :: ts => some (.filtered, ts)
  | "2" :: ts => some (.captured, ts)
  | "3" :: ts => some (.capturedFiltered, ts)
  | _ => none

def pHdr : P Hdr := fun ts => do
  let (kind, ts) ← pKind ts
  let (name, ts) ← pStr ts
  let (line, ts) ← pNat ts
  let (param, ts) ← (match ts with
    | "N" :: ts => some (none, ts)
    | "P" :: ts => do let (p, ts) ← pStr ts; pure (some p, ts)
    | _ => none : Option (Option Str × List String))
  let (cached, ts) ← pBool ts
  let (buffered, ts) ← pBool ts
  let (filtered, ts) ← pBool ts
  let (attrs, ts) ← pAttrs ts
  let (home, ts) ← (match ts with
    | "L" :: ts => some (none, ts)
    | "H" :: ts => do
      let (tid, ts) ← pNat ts
      let (uri, ts) ← pStr ts
      let (cacheArgs, ts) ← pKw ts
      let (pageAttrs, ts) ← pAttrs ts
      pure (some { tid, uri, cacheArgs, pageAttrs }, ts)
    | _ => none : Option (Option Home × List String))
  pure ({ kind, name, line, param, cached, buffered, filtered, attrs, home }, ts)

def pItems : Nat → P Items
  | 0, _ => none
  | fuel + 1, ts =>
    match ts with
    | "E" :: ts => some (.nil, ts)
    | "T" :: ts => do
      let (s, ts) ← pStr ts
      let (rest, ts) ← pItems fuel ts
      pure (.text s rest, ts)
    | "V" :: ts => do
      let (s, ts) ← pStr ts
      let (rest, ts) ← pItems fuel ts
      pure (.var s rest, ts)
    | "K" :: ts => do
      let (s, ts) ← pStr ts
      let (rest, ts) ← pItems fuel ts
      pure (.tick s rest, ts)
    | "I" :: ts => do
      let (h, ts) ← pHdr ts
      let (arg, ts) ← (match ts with
        | "N" :: ts => some (none, ts)
        | "A" :: ts => do let (e, ts) ← pExpr ts; pure (some e, ts)
        | _ => none : Option (Option Expr × List String))
      let (site, ts) ← pSite ts
      let (body, ts) ← pItems fuel ts
      let (rest, ts) ← pItems fuel ts
      pure (.inv h arg site body rest, ts)
    | _ => none

def pTmpl : P Tmpl := fun ts => do
  let (uri, ts) ← pStr ts
  let (cacheArgs, ts) ← pKw ts
  let (enabled0, ts) ← pBool ts
  let (page, ts) ← pHdr ts
  let (body, ts) ← pItems (ts.length + 1) ts
  pure ({ uri, cacheArgs, enabled0, page, body }, ts)

def pEnv : P Env := pList fun ts => do
  let (k, ts) ← pStr ts
  let (v, ts) ← pStr ts
  pure ((k, v), ts)

def pOp : P Op
  | "R" :: ts => do let (t, ts) ← pNat ts; let (c, ts) ← pEnv ts; pure (.render t c, ts)
  | "B" :: ts => do let (t, ts) ← pNat ts; pure (.invalidateBody t, ts)
  | "D" :: ts => do let (t, ts) ← pNat ts; let (d, ts) ← pStr ts; pure (.invalidateDef t d, ts)
  | "C" :: ts => do let (t, ts) ← pNat ts; let (d, ts) ← pStr ts; pure (.invalidateClosure t d, ts)
  | "X" :: ts => do
    let (t, ts) ← pNat ts; let (k, ts) ← pStr ts; let (kw, ts) ← pKw ts
    pure (.invalidate t k kw, ts)
  | "S" :: ts => do
    let (t, ts) ← pNat ts; let (k, ts) ← pStr ts; let (v, ts) ← pStr ts; let (kw, ts) ← pKw ts
    pure (.set t k v kw, ts)
  | "G" :: ts => do
    let (t, ts) ← pNat ts; let (k, ts) ← pStr ts; let (kw, ts) ← pKw ts
    pure (.get t k kw, ts)
  | "N" :: ts => do let (t, ts) ← pNat ts; let (b, ts) ← pBool ts; pure (.setEnabled t b, ts)
  | "P" :: ts => do let (t, ts) ← pNat ts; pure (.compile t, ts)
  | _ => none

/-! canonical output -/

def strLt : Str → Str → Bool
  | [], [] => false
  | [], _ :: _ => true
  | _ :: _, [] => false
  | a :: as, b :: bs => if a.toNat < b.toNat then true else if b.toNat < a.toNat then false else strLt as bs

def insertKw (p : Str × ArgV) : Kw → Kw
  | [] => [p]
  | q :: r => if strLt q.1 p.1 then q :: insertKw p r else p :: q :: r

def sortKw (kw : Kw) : Kw := kw.foldr insertKw []

def encArgV : ArgV → String
  | .str s => "s " ++ encStr s
  | .int n => "i " ++ toString n
  | .ctx => "c"

def encKw (kw : Kw) : String :=
  let s := sortKw kw
  toString s.length ++ String.join (s.map fun p => " " ++ encStr p.1 ++ " " ++ encArgV p.2)

abbrev Reg := Option ArgV

def encCall : Ev Reg → Option String
  | .call _ op c k kw =>
    let (name, v) := match op with
      | .goc => ("goc", "")
      | .set v => ("set", " " ++ encStr v)
      | .get => ("get", "")
      | .inv => ("inv", "")
    some (name ++ " " ++ encStr c ++ " " ++ encStr k ++ v ++ " " ++ encKw kw)
  | _ => none

def encTick : Ev Reg → Option String
  | .tick t => some (encStr t)
  | _ => none

def encResp : Resp → String
  | .out s => "o " ++ encStr s
  | .got none => "g none"
  | .got (some v) => "g some " ++ encStr v
  | .unit => "u"
  | .noTemplate => "x"

def encCounted (xs : List String) : String :=
  toString xs.length ++ String.join (xs.map fun x => " " ++ x)

def encStep (r : Resp) (evs : List (Ev Reg)) : String :=
  encResp r ++ " T " ++ encCounted (evs.filterMap encTick) ++ " C " ++ encCounted (evs.filterMap encCall)

def runSteps (w : World Reg) : St Reg → List Op → List String
  | _, [] => []
  | st, op :: ops =>
    let r := step w st op
    let new := (r.2.trace.take (r.2.trace.length - st.trace.length)).reverse
    encStep r.1 new :: runSteps w r.2 ops

def handle : Handler
  | "run" :: ts => do
    let (pass, ts) ← pBool ts
    let (start, ts) ← pBool ts
    let (rk, ts) ← pStr ts
    let (tmpls, ts) ← pList pTmpl ts
    let (ops, ts) ← pList pOp ts
    if !ts.isEmpty then none else
    let w : World Reg := { be := { regionOf := fun kw => aGet kw rk, passContext := pass, honoursStarttime := start }, tmpls := tmpls }
    pure (" | ".intercalate (runSteps w (St.init w) ops))
  | ["moduleid", u] => do let u ← decStr u; pure (encStr (moduleId u))
  | ["fname", kind, name, line] => do
    let (k, _) ← pKind [kind]
    let n ← decStr name
    let l ← line.toNat?
    pure (encStr (fname { kind := k, name := n, line := l, param := none, cached := true, buffered := false,
                          filtered := false, attrs := [] }))
  | _ => none

end MakoModel.Cache.Drv
