import MakoModel.Cache.Lemmas
/-!
Invariants of the cache model over arbitrary histories (helper lemmas for `Props/C17.lean`):

* `Sync`   – the model's store / `cache_enabled` flags are what the specification monitor replays from the
             trace, and the monitor's checks `evRuns`, `evReplay` accept the trace;
* `OwnInv` – every entry's recorded owner has the cache id of the entry's key, and (ids distinct) `evOwn` accepts;
* `Frozen` – a `_def_regions` memo entry never changes;
* `MemoFromRender` – without `invalidate_body/def/closure`, every memo entry was computed by a render of a
             section of that name: template ⊕ page ⊕ section arguments.
-/
namespace MakoModel.Cache
open MakoModel.Generated.Cache
variable {R : Type} [DecidableEq R]
set_option linter.unusedSectionVars false

/-! ### projections of the state primitives -/

@[simp] theorem emit_store (st : St R) (e : Ev R) : (st.emit e).store = st.store := rfl
@[simp] theorem emit_times (st : St R) (e : Ev R) : (st.emit e).times = st.times := rfl
@[simp] theorem emit_stamp (st : St R) (e : Ev R) : (st.emit e).stamp = st.stamp := rfl
@[simp] theorem emit_clock (st : St R) (e : Ev R) : (st.emit e).clock = st.clock := rfl
@[simp] theorem emit_enabled (st : St R) (e : Ev R) : (st.emit e).enabled = st.enabled := rfl
@[simp] theorem emit_regions (st : St R) (e : Ev R) : (st.emit e).regions = st.regions := rfl
@[simp] theorem emit_trace (st : St R) (e : Ev R) : (st.emit e).trace = e :: st.trace := rfl
@[simp] theorem put_store (st : St R) (K K' : Key R) (v : Str) :
    (st.put K v).store K' = if K' = K then some v else st.store K' := rfl
@[simp] theorem put_times (st : St R) (K K' : Key R) (v : Str) :
    (st.put K v).times K' = if K' = K then st.clock else st.times K' := rfl
@[simp] theorem put_stamp (st : St R) (K : Key R) (v : Str) : (st.put K v).stamp = st.stamp := rfl
@[simp] theorem put_clock (st : St R) (K : Key R) (v : Str) : (st.put K v).clock = st.clock + 1 := rfl
@[simp] theorem put_enabled (st : St R) (K : Key R) (v : Str) : (st.put K v).enabled = st.enabled := rfl
@[simp] theorem put_regions (st : St R) (K : Key R) (v : Str) : (st.put K v).regions = st.regions := rfl
@[simp] theorem put_trace (st : St R) (K : Key R) (v : Str) : (st.put K v).trace = st.trace := rfl
@[simp] theorem del_store (st : St R) (K K' : Key R) :
    (st.del K).store K' = if K' = K then none else st.store K' := rfl
@[simp] theorem del_times (st : St R) (K : Key R) : (st.del K).times = st.times := rfl
@[simp] theorem del_stamp (st : St R) (K : Key R) : (st.del K).stamp = st.stamp := rfl
@[simp] theorem del_clock (st : St R) (K : Key R) : (st.del K).clock = st.clock := rfl
@[simp] theorem del_enabled (st : St R) (K : Key R) : (st.del K).enabled = st.enabled := rfl
@[simp] theorem del_regions (st : St R) (K : Key R) : (st.del K).regions = st.regions := rfl
@[simp] theorem del_trace (st : St R) (K : Key R) : (st.del K).trace = st.trace := rfl
@[simp] theorem setRegions_store (st : St R) (t : Nat) (r : List (Str × Kw)) : (st.setRegions t r).store = st.store := rfl
@[simp] theorem setRegions_times (st : St R) (t : Nat) (r : List (Str × Kw)) : (st.setRegions t r).times = st.times := rfl
@[simp] theorem setRegions_stamp (st : St R) (t : Nat) (r : List (Str × Kw)) : (st.setRegions t r).stamp = st.stamp := rfl
@[simp] theorem setRegions_clock (st : St R) (t : Nat) (r : List (Str × Kw)) : (st.setRegions t r).clock = st.clock := rfl
@[simp] theorem setRegions_enabled (st : St R) (t : Nat) (r : List (Str × Kw)) : (st.setRegions t r).enabled = st.enabled := rfl
@[simp] theorem setRegions_trace (st : St R) (t : Nat) (r : List (Str × Kw)) : (st.setRegions t r).trace = st.trace := rfl
@[simp] theorem setRegions_regions (st : St R) (t t' : Nat) (r : List (Str × Kw)) :
    (st.setRegions t r).regions t' = if t' = t then r else st.regions t' := rfl
@[simp] theorem setEnabled_store (st : St R) (t : Nat) (b : Bool) : (st.setEnabled t b).store = st.store := rfl
@[simp] theorem setEnabled_times (st : St R) (t : Nat) (b : Bool) : (st.setEnabled t b).times = st.times := rfl
@[simp] theorem setEnabled_stamp (st : St R) (t : Nat) (b : Bool) : (st.setEnabled t b).stamp = st.stamp := rfl
@[simp] theorem setEnabled_clock (st : St R) (t : Nat) (b : Bool) : (st.setEnabled t b).clock = st.clock := rfl
@[simp] theorem setEnabled_regions (st : St R) (t : Nat) (b : Bool) : (st.setEnabled t b).regions = st.regions := rfl
@[simp] theorem setEnabled_trace (st : St R) (t : Nat) (b : Bool) : (st.setEnabled t b).trace = st.trace := rfl
@[simp] theorem setEnabled_enabled (st : St R) (t t' : Nat) (b : Bool) :
    (st.setEnabled t b).enabled t' = if t' = t then b else st.enabled t' := rfl
@[simp] theorem setStamp_store (st : St R) (t : Nat) : (st.setStamp t).store = st.store := rfl
@[simp] theorem setStamp_times (st : St R) (t : Nat) : (st.setStamp t).times = st.times := rfl
@[simp] theorem setStamp_clock (st : St R) (t : Nat) : (st.setStamp t).clock = st.clock := rfl
@[simp] theorem setStamp_enabled (st : St R) (t : Nat) : (st.setStamp t).enabled = st.enabled := rfl
@[simp] theorem setStamp_regions (st : St R) (t : Nat) : (st.setStamp t).regions = st.regions := rfl
@[simp] theorem setStamp_trace (st : St R) (t : Nat) : (st.setStamp t).trace = st.trace := rfl
@[simp] theorem setStamp_stamp (st : St R) (t t' : Nat) :
    (st.setStamp t).stamp t' = if t' = t then st.clock else st.stamp t' := rfl

@[simp] theorem afterCall_store (P : Params R) (st : St R) (h : Hdr) (env' : Env) :
    (afterCall P st h env').store = st.store := rfl
@[simp] theorem afterCall_times (P : Params R) (st : St R) (h : Hdr) (env' : Env) :
    (afterCall P st h env').times = st.times := rfl
@[simp] theorem afterCall_stamp (P : Params R) (st : St R) (h : Hdr) (env' : Env) :
    (afterCall P st h env').stamp = st.stamp := rfl
@[simp] theorem afterCall_clock (P : Params R) (st : St R) (h : Hdr) (env' : Env) :
    (afterCall P st h env').clock = st.clock := rfl
@[simp] theorem afterCall_enabled (P : Params R) (st : St R) (h : Hdr) (env' : Env) :
    (afterCall P st h env').enabled = st.enabled := rfl
@[simp] theorem afterCall_trace (P : Params R) (st : St R) (h : Hdr) (env' : Env) :
    (afterCall P st h env').trace =
      .call (eff P h).tid .goc (cid (eff P h).tm) (keyOf h env') (sentKw P st h env') :: st.trace := rfl
@[simp] theorem afterCall_regions (P : Params R) (st : St R) (h : Hdr) (env' : Env) (t' : Nat) :
    (afterCall P st h env').regions t' =
      if t' = (eff P h).tid then (getCacheKw (eff P h).tm.cacheArgs (st.regions (eff P h).tid) (fname h)
        (sectionKw (eff P h).tm.page h env')).2
      else st.regions t' := rfl

/-! ### replay / monitor on the events of the model -/

@[simp] theorem replay_nil (w : World R) : replay w [] = Spec.init w := rfl
@[simp] theorem replay_cons (w : World R) (e : Ev R) (tr : List (Ev R)) :
    replay w (e :: tr) = (replay w tr).step w.be e := rfl
@[simp] theorem traceAll_nil (w : World R) (chk : Spec R → Ev R → Bool) : traceAll w chk [] = true := rfl
@[simp] theorem traceAll_cons (w : World R) (chk : Spec R → Ev R → Bool) (e : Ev R) (tr : List (Ev R)) :
    traceAll w chk (e :: tr) = (chk (replay w tr) e && traceAll w chk tr) := rfl

@[simp] theorem step_tick (be : Backend R) (s : Spec R) (t : Str) : s.step be (.tick t) = s := rfl
@[simp] theorem step_bypass (be : Backend R) (s : Spec R) (t : Nat) (f : Str) : s.step be (.bypass t f) = s := rfl
@[simp] theorem step_enter (be : Backend R) (s : Spec R) (t : Nat) (f : Str) (K : Key R) (oc : Outcome) :
    s.step be (.enter t f K oc) = s := rfl
@[simp] theorem step_goc (be : Backend R) (s : Spec R) (t : Nat) (c k : Str) (kw : Kw) :
    s.step be (.call t .goc c k kw) = s := rfl
@[simp] theorem step_get (be : Backend R) (s : Spec R) (t : Nat) (c k : Str) (kw : Kw) :
    s.step be (.call t .get c k kw) = s := rfl
@[simp] theorem step_set (be : Backend R) (s : Spec R) (t : Nat) (v c k : Str) (kw : Kw) :
    s.step be (.call t (.set v) c k kw) = s.put (c, be.regionOf kw, k) v t .manual := rfl
@[simp] theorem step_inv (be : Backend R) (s : Spec R) (t : Nat) (c k : Str) (kw : Kw) :
    s.step be (.call t .inv c k kw) = s.del (c, be.regionOf kw, k) := rfl
@[simp] theorem step_created (be : Backend R) (s : Spec R) (t : Nat) (f : Str) (K : Key R) (v : Str) (c : Creation R) :
    s.step be (.created t f K v c) = s.put K v t (.creation c) := rfl
@[simp] theorem step_enabledSet (be : Backend R) (s : Spec R) (t : Nat) (b : Bool) :
    s.step be (.enabledSet t b) = { s with enabled := fun t' => if t' = t then b else s.enabled t' } := rfl
@[simp] theorem step_compiled (be : Backend R) (s : Spec R) (t : Nat) :
    s.step be (.compiled t) = { s with stamp := fun t' => if t' = t then s.clock else s.stamp t' } := rfl

@[simp] theorem spec_put_store (s : Spec R) (K K' : Key R) (v : Str) (o : Nat) (p : Prov R) :
    (s.put K v o p).store K' = if K' = K then some ⟨v, o, p, s.clock⟩ else s.store K' := rfl
@[simp] theorem spec_put_enabled (s : Spec R) (K : Key R) (v : Str) (o : Nat) (p : Prov R) :
    (s.put K v o p).enabled = s.enabled := rfl
@[simp] theorem spec_put_stamp (s : Spec R) (K : Key R) (v : Str) (o : Nat) (p : Prov R) :
    (s.put K v o p).stamp = s.stamp := rfl
@[simp] theorem spec_put_clock (s : Spec R) (K : Key R) (v : Str) (o : Nat) (p : Prov R) :
    (s.put K v o p).clock = s.clock + 1 := rfl
@[simp] theorem spec_del_store (s : Spec R) (K K' : Key R) :
    (s.del K).store K' = if K' = K then none else s.store K' := rfl
@[simp] theorem spec_del_enabled (s : Spec R) (K : Key R) : (s.del K).enabled = s.enabled := rfl
@[simp] theorem spec_del_stamp (s : Spec R) (K : Key R) : (s.del K).stamp = s.stamp := rfl
@[simp] theorem spec_del_clock (s : Spec R) (K : Key R) : (s.del K).clock = s.clock := rfl

/-! ### Sync -/

/-- the model state and the specification state replayed from its trace agree entry by entry -/
structure Agree (st : St R) (s : Spec R) : Prop where
  store : ∀ K, st.store K = (s.store K).map (·.val)
  times : ∀ K e, s.store K = some e → st.times K = e.time
  stamp : st.stamp = s.stamp
  clock : st.clock = s.clock
  enabled : ∀ t, st.enabled t = s.enabled t

theorem agree_visible (be : Backend R) (st : St R) (s : Spec R) (ha : Agree st s) (tid : Nat) (K : Key R) :
    visible be st tid K = (s.visible be tid K).map (·.val) := by
  unfold visible Spec.visible
  have h1 := ha.store K
  cases he : s.store K with
  | none => simp [he] at h1; simp [h1]
  | some e =>
    simp [he] at h1
    have h2 := ha.times K e he
    simp only [h1, h2, ha.stamp]
    split <;> rfl

theorem agree_put (st : St R) (s : Spec R) (ha : Agree st s) (K : Key R) (v : Str) (o : Nat) (p : Prov R) :
    Agree (st.put K v) (s.put K v o p) := by
  refine ⟨fun K' => ?_, fun K' e => ?_, by simpa using ha.stamp, by simp [ha.clock], by simpa using ha.enabled⟩
  · simp only [put_store, spec_put_store]; split <;> simp [ha.store K']
  · simp only [put_times, spec_put_store]
    split
    · intro he; cases he; exact ha.clock
    · exact ha.times K' e

theorem agree_del (st : St R) (s : Spec R) (ha : Agree st s) (K : Key R) : Agree (st.del K) (s.del K) := by
  refine ⟨fun K' => ?_, fun K' e => ?_, by simpa using ha.stamp, by simpa using ha.clock, by simpa using ha.enabled⟩
  · simp only [del_store, spec_del_store]; split <;> simp [ha.store K']
  · simp only [del_times, spec_del_store]
    split
    · intro he; cases he
    · exact ha.times K' e

structure Sync (w : World R) (st : St R) : Prop where
  agree : Agree st (replay w st.trace)
  runs : traceAll w (evRuns w.be) st.trace = true
  rep : traceAll w evReplay st.trace = true
  fresh : traceAll w (evFresh w.be) st.trace = true
  le : ∀ t, st.stamp t ≤ st.clock
  past : ∀ K v, st.store K = some v → st.times K < st.clock

theorem Sync.store {w : World R} {st : St R} (h : Sync w st) :
    ∀ K, st.store K = ((replay w st.trace).store K).map (·.val) := h.agree.store
theorem Sync.enabled {w : World R} {st : St R} (h : Sync w st) :
    ∀ t, st.enabled t = (replay w st.trace).enabled t := h.agree.enabled

theorem sync_init (w : World R) : Sync w (St.init w) := by
  refine ⟨⟨fun K => by simp [St.init, Spec.init], fun K e h => by simp [St.init, Spec.init] at h, rfl, rfl, fun t => ?_⟩,
    by simp [St.init], by simp [St.init], by simp [St.init], fun t => by simp [St.init],
    fun K v h => by simp [St.init] at h⟩
  simp only [St.init, Spec.init, replay_nil]
  cases w.tmpls[t]? <;> rfl

/-- an emitted event that leaves the specification state alone keeps `Agree` -/
theorem agree_emit_same (st : St R) (s : Spec R) (e : Ev R) (ha : Agree st s) : Agree (st.emit e) s :=
  ⟨ha.store, ha.times, ha.stamp, ha.clock, ha.enabled⟩

theorem sync_preserved (w : World R) (P : Params R) (T : Items) (hbe : P.be = w.be) : Preserved P T (Sync w) := by
  constructor
  · intro st t hi
    exact ⟨by simpa using agree_emit_same _ _ _ hi.agree, by simpa [evRuns] using hi.runs,
      by simpa [evReplay] using hi.rep, by simpa [evFresh] using hi.fresh, hi.le, hi.past⟩
  · intro st h _ hi hen
    refine ⟨by simpa using agree_emit_same _ _ _ hi.agree, ?_, by simpa [evReplay] using hi.rep,
      by simpa [evFresh] using hi.fresh, hi.le, hi.past⟩
    have := hi.enabled (eff P h).tid
    simp [evRuns, hi.runs, ← this, hen]
  · intro st h env' v _ hi hen hs
    have hv := agree_visible P.be st _ hi.agree (eff P h).tid (backendKey P st h env')
    rw [hs, hbe] at hv
    have hen' := hi.enabled (eff P h).tid
    have hag : Agree ((afterCall P st h env').emit (.enter (eff P h).tid (fname h) (backendKey P st h env') (.hit v)))
        (replay w st.trace) := ⟨hi.agree.store, hi.agree.times, hi.agree.stamp, hi.agree.clock, hi.agree.enabled⟩
    cases he : (replay w st.trace).visible w.be (eff P h).tid (backendKey P st h env') with
    | none => simp [he] at hv
    | some e =>
      simp [he] at hv
      -- the visible entry is the stored entry, and it is not older than the template
      have hst : (replay w st.trace).store (backendKey P st h env') = some e ∧
          (!w.be.honoursStarttime || decide ((replay w st.trace).stamp (eff P h).tid ≤ e.time)) = true := by
        unfold Spec.visible at he
        cases hs' : (replay w st.trace).store (backendKey P st h env') with
        | none => simp [hs'] at he
        | some e' =>
          simp only [hs'] at he
          split at he
          · cases he
          · rename_i hc
            cases he
            refine ⟨rfl, ?_⟩
            cases hh : w.be.honoursStarttime <;> simp [hh] at hc ⊢
            omega
      refine ⟨by simpa using hag, ?_, ?_, ?_, hi.le, hi.past⟩
      · simp [evRuns, hi.runs, ← hen', hen, he]
      · simp [evReplay, hi.rep, hst.1, hv]
      · simp only [emit_trace, afterCall_trace, traceAll_cons, replay_cons, step_goc]
        simp only [evFresh, hst.1, hst.2, hi.fresh, Bool.and_self]
  · intro st h env' _ hi hen hs
    have hv := agree_visible P.be st _ hi.agree (eff P h).tid (backendKey P st h env')
    rw [hs, hbe] at hv
    have hen' := hi.enabled (eff P h).tid
    have hag : Agree ((afterCall P st h env').emit (.enter (eff P h).tid (fname h) (backendKey P st h env') .miss))
        (replay w st.trace) := ⟨hi.agree.store, hi.agree.times, hi.agree.stamp, hi.agree.clock, hi.agree.enabled⟩
    refine ⟨by simpa using hag, ?_, by simpa [evReplay] using hi.rep, by simpa [evFresh] using hi.fresh, hi.le, hi.past⟩
    cases he : (replay w st.trace).visible w.be (eff P h).tid (backendKey P st h env') with
    | none => simp [evRuns, hi.runs, ← hen', hen, he]
    | some e => simp [he] at hv
  · intro st0 h body env' r key _ hi
    refine ⟨?_, by simpa [evRuns] using hi.runs, by simpa [evReplay] using hi.rep, by simpa [evFresh] using hi.fresh, ?_, ?_⟩
    · simpa using agree_emit_same _ _ _ (agree_put _ _ hi.agree (cid (eff P h).tm, r, key) _ (eff P h).tid _)
    · intro t; have := hi.le t; simp; omega
    · intro K v
      simp only [emit_store, put_store, emit_times, put_times, emit_clock, put_clock]
      split
      · intro _; omega
      · intro hK; have := hi.past K v hK; omega

theorem invalidateCore_sync (w : World R) (tm : Tmpl) (t : Nat) (st : St R) (key : Str) (kw : Kw) (d : Str)
    (hi : Sync w st) : Sync w (invalidateCore w.be tm t st key kw d) := by
  unfold invalidateCore
  refine ⟨?_, by simpa [evRuns] using hi.runs, by simpa [evReplay] using hi.rep, by simpa [evFresh] using hi.fresh,
    by simpa using hi.le, ?_⟩
  · have h0 : Agree ((st.setRegions t (getCacheKw tm.cacheArgs (st.regions t) d kw).2).emit
        (.call t .inv (cid tm) key (getCacheKw tm.cacheArgs (st.regions t) d kw).1)) (replay w st.trace) :=
      ⟨hi.agree.store, hi.agree.times, hi.agree.stamp, hi.agree.clock, hi.agree.enabled⟩
    simpa using agree_del _ _ h0 (cid tm, w.be.regionOf (getCacheKw tm.cacheArgs (st.regions t) d kw).1, key)
  · intro K' v
    simp only [del_store, del_times, del_clock, emit_store, emit_times, emit_clock, setRegions_store, setRegions_times,
      setRegions_clock]
    split
    · intro h; cases h
    · exact hi.past K' v

theorem step_sync (w : World R) (st : St R) (op : Op) (hi : Sync w st) : Sync w (step w st op).2 := by
  cases op with
  | render t c =>
    simp only [step]
    cases ht : w.tmpls[t]? with
    | none => simpa using hi
    | some tm =>
      exact run_preserves ⟨w.be, tm, t, c⟩ tm.tree (Sync w) (sync_preserved w _ _ rfl) _ c st (fun _ hh => hh) hi
  | invalidateBody t =>
    simp only [step]
    cases ht : w.tmpls[t]? with
    | none => simpa using hi
    | some tm => exact invalidateCore_sync w tm t st _ _ _ hi
  | invalidateDef t d =>
    simp only [step]
    cases ht : w.tmpls[t]? with
    | none => simpa using hi
    | some tm => exact invalidateCore_sync w tm t st _ _ _ hi
  | invalidateClosure t d =>
    simp only [step]
    cases ht : w.tmpls[t]? with
    | none => simpa using hi
    | some tm => exact invalidateCore_sync w tm t st _ _ _ hi
  | invalidate t k kw =>
    simp only [step]
    cases ht : w.tmpls[t]? with
    | none => simpa using hi
    | some tm => exact invalidateCore_sync w tm t st _ _ _ hi
  | set t k v kw =>
    simp only [step]
    cases ht : w.tmpls[t]? with
    | none => simpa using hi
    | some tm =>
      refine ⟨?_, by simpa [evRuns] using hi.runs, by simpa [evReplay] using hi.rep, by simpa [evFresh] using hi.fresh, ?_, ?_⟩
      · have h0 : Agree (st.emit (.call t (.set v) (cid tm) k (aUpdate tm.cacheArgs kw))) (replay w st.trace) :=
          agree_emit_same _ _ _ hi.agree
        simpa using agree_put _ _ h0 (cid tm, w.be.regionOf (aUpdate tm.cacheArgs kw), k) v t .manual
      · intro t'; have := hi.le t'; simp; omega
      · intro K v'
        simp only [put_store, emit_store, put_times, emit_times, put_clock, emit_clock]
        split
        · intro _; omega
        · intro hK; have := hi.past K v' hK; omega
  | get t k kw =>
    simp only [step]
    cases ht : w.tmpls[t]? with
    | none => simpa using hi
    | some tm =>
      exact ⟨by simpa using agree_emit_same _ _ _ hi.agree, by simpa [evRuns] using hi.runs,
        by simpa [evReplay] using hi.rep, by simpa [evFresh] using hi.fresh, hi.le, hi.past⟩
  | setEnabled t b =>
    simp only [step]
    cases ht : w.tmpls[t]? with
    | none => simpa using hi
    | some tm =>
      refine ⟨⟨hi.agree.store, hi.agree.times, hi.agree.stamp, hi.agree.clock, ?_⟩, by simpa [evRuns] using hi.runs,
        by simpa [evReplay] using hi.rep, by simpa [evFresh] using hi.fresh, hi.le, hi.past⟩
      intro t'
      simp only [emit_enabled, setEnabled_enabled, emit_trace, setEnabled_trace, replay_cons, step_enabledSet]
      split <;> simp [hi.enabled t']
  | compile t =>
    simp only [step]
    cases ht : w.tmpls[t]? with
    | none => simpa using hi
    | some tm =>
      refine ⟨⟨hi.agree.store, hi.agree.times, ?_, hi.agree.clock, hi.agree.enabled⟩, by simpa [evRuns] using hi.runs,
        by simpa [evReplay] using hi.rep, by simpa [evFresh] using hi.fresh, ?_, hi.past⟩
      · funext t'
        simp only [emit_stamp, setStamp_stamp, emit_trace, setStamp_trace, replay_cons, step_compiled]
        rw [hi.agree.clock, hi.agree.stamp]
      · intro t'
        simp only [emit_stamp, setStamp_stamp, emit_clock, setStamp_clock]
        split
        · exact Nat.le_refl _
        · exact hi.le t'

theorem runFrom_sync (w : World R) (ops : List Op) : ∀ (st : St R), Sync w st → Sync w (runFrom w st ops) := by
  induction ops with
  | nil => intro st hi; simpa [runFrom] using hi
  | cons op ops ih => intro st hi; simpa [runFrom] using ih _ (step_sync w st op hi)

theorem runHist_sync (w : World R) (h : List Op) : Sync w (runHist w h) :=
  runFrom_sync w h _ (sync_init w)

/-! ### ownership -/

structure OwnInv (w : World R) (st : St R) : Prop where
  owned : ∀ K e, (replay w st.trace).store K = some e → ∃ tm, w.tmpls[e.owner]? = some tm ∧ cid tm = K.1
  own : traceAll w evOwn st.trace = true

theorem own_init (w : World R) : OwnInv w (St.init w) :=
  ⟨fun K e h => by simp [St.init, Spec.init] at h, by simp [St.init]⟩

/-- every section of the tree is declared by a template of the world, under that template's cache id -/
def TreeHomesOK (w : World R) (P : Params R) (T : Items) : Prop :=
  ∀ h, h ∈ hdrs T → ∃ tm, w.tmpls[(eff P h).tid]? = some tm ∧ cid tm = cid (eff P h).tm

theorem treeHomesOK_of_world (w : World R) (hw : HomesOK w) (t : Nat) (tm : Tmpl) (c : Env)
    (ht : w.tmpls[t]? = some tm) : TreeHomesOK w ⟨w.be, tm, t, c⟩ tm.tree := by
  intro h hh
  cases hhm : h.home with
  | none => exact ⟨tm, by simp [eff, hhm, ht], by simp [eff, hhm]⟩
  | some hm =>
    obtain ⟨tm', h1, h2⟩ := hw t tm ht h hh hm hhm
    exact ⟨tm', by simp [eff, hhm, h1], by simp [eff, hhm, cid, h2]⟩

theorem homesOK_of_b (w : World R) (hb : homesOKb w = true) : HomesOK w := by
  intro t tm ht h hh hm hhm
  have hmem : tm ∈ w.tmpls := List.mem_of_getElem? ht
  simp only [homesOKb, List.all_eq_true] at hb
  have := hb tm hmem h hh
  simp only [hhm] at this
  cases h' : w.tmpls[hm.tid]? with
  | none => simp [h'] at this
  | some tm' => simp [h'] at this; exact ⟨tm', rfl, this⟩

theorem own_preserved (w : World R) (P : Params R) (T : Items) (hd : IdsDistinct w)
    (hwf : TreeHomesOK w P T) : Preserved P T (OwnInv w) := by
  constructor
  · intro st t hi
    exact ⟨by simpa using hi.owned, by simpa [evOwn] using hi.own⟩
  · intro st h _ hi _
    exact ⟨by simpa using hi.owned, by simpa [evOwn] using hi.own⟩
  · intro st h env' v hh hi _ _
    obtain ⟨tmh, htm, hcid⟩ := hwf h hh
    refine ⟨by simpa using hi.owned, ?_⟩
    have : evOwn (replay w st.trace) (.enter (eff P h).tid (fname h) (backendKey P st h env') (.hit v)) = true := by
      simp only [evOwn]
      cases he : (replay w st.trace).store (backendKey P st h env') with
      | none => rfl
      | some e =>
        obtain ⟨tm', h1, h2⟩ := hi.owned _ e he
        have : e.owner = (eff P h).tid :=
          hd e.owner (eff P h).tid tm' tmh h1 htm (by rw [hcid]; simpa [backendKey] using h2)
        simp [this]
    simp only [emit_trace, afterCall_trace, traceAll_cons, replay_cons, step_goc]
    rw [this]
    simpa [evOwn] using hi.own
  · intro st h env' _ hi _ _
    exact ⟨by simpa using hi.owned, by simpa [evOwn] using hi.own⟩
  · intro st0 h body env' r key hh hi
    obtain ⟨tmh, htm, hcid⟩ := hwf h hh
    refine ⟨?_, by simpa [evOwn] using hi.own⟩
    intro K e
    simp only [emit_trace, put_trace, replay_cons, step_created, spec_put_store]
    split
    · rename_i hK
      intro he
      cases he
      exact ⟨tmh, htm, by simp [hK, hcid]⟩
    · exact hi.owned K e

theorem invalidateCore_own (w : World R) (tm : Tmpl) (t : Nat) (st : St R) (key : Str) (kw : Kw) (d : Str)
    (hi : OwnInv w st) : OwnInv w (invalidateCore w.be tm t st key kw d) := by
  unfold invalidateCore
  refine ⟨?_, by simpa [evOwn] using hi.own⟩
  intro K e
  simp only [del_trace, emit_trace, setRegions_trace, replay_cons, step_inv, spec_del_store]
  split
  · intro he; cases he
  · exact hi.owned K e

theorem step_own (w : World R) (hd : IdsDistinct w) (hw : HomesOK w) (st : St R) (op : Op) (hi : OwnInv w st) :
    OwnInv w (step w st op).2 := by
  cases op with
  | render t c =>
    simp only [step]
    cases ht : w.tmpls[t]? with
    | none => simpa using hi
    | some tm =>
      exact run_preserves ⟨w.be, tm, t, c⟩ tm.tree (OwnInv w) (own_preserved w _ _ hd (treeHomesOK_of_world w hw t tm c ht)) _ c st (fun _ hh => hh) hi
  | invalidateBody t =>
    simp only [step]
    cases ht : w.tmpls[t]? with
    | none => simpa using hi
    | some tm => exact invalidateCore_own w tm t st _ _ _ hi
  | invalidateDef t d =>
    simp only [step]
    cases ht : w.tmpls[t]? with
    | none => simpa using hi
    | some tm => exact invalidateCore_own w tm t st _ _ _ hi
  | invalidateClosure t d =>
    simp only [step]
    cases ht : w.tmpls[t]? with
    | none => simpa using hi
    | some tm => exact invalidateCore_own w tm t st _ _ _ hi
  | invalidate t k kw =>
    simp only [step]
    cases ht : w.tmpls[t]? with
    | none => simpa using hi
    | some tm => exact invalidateCore_own w tm t st _ _ _ hi
  | set t k v kw =>
    simp only [step]
    cases ht : w.tmpls[t]? with
    | none => simpa using hi
    | some tm =>
      refine ⟨?_, by simpa [evOwn] using hi.own⟩
      intro K e
      simp only [put_trace, emit_trace, replay_cons, step_set, spec_put_store]
      split
      · rename_i hK
        intro he
        cases he
        exact ⟨tm, ht, by simp [hK]⟩
      · exact hi.owned K e
  | get t k kw =>
    simp only [step]
    cases ht : w.tmpls[t]? with
    | none => simpa using hi
    | some tm => exact ⟨by simpa using hi.owned, by simpa [evOwn] using hi.own⟩
  | setEnabled t b =>
    simp only [step]
    cases ht : w.tmpls[t]? with
    | none => simpa using hi
    | some tm => exact ⟨by simpa using hi.owned, by simpa [evOwn] using hi.own⟩
  | compile t =>
    simp only [step]
    cases ht : w.tmpls[t]? with
    | none => simpa using hi
    | some tm => exact ⟨by simpa using hi.owned, by simpa [evOwn] using hi.own⟩

theorem runFrom_own (w : World R) (hd : IdsDistinct w) (hw : HomesOK w) (ops : List Op) :
    ∀ (st : St R), OwnInv w st → OwnInv w (runFrom w st ops) := by
  induction ops with
  | nil => intro st hi; simpa [runFrom] using hi
  | cons op ops ih => intro st hi; simpa [runFrom] using ih _ (step_own w hd hw st op hi)

/-! ### the `_def_regions` memo -/

theorem getCacheKw_regs (ca : Kw) (regs : List (Str × Kw)) (d : Str) (kw : Kw) :
    (getCacheKw ca regs d kw).2 = regs ∨
    (d ≠ [] ∧ aGet regs d = none ∧ (getCacheKw ca regs d kw).2 = (d, aUpdate ca kw) :: regs) := by
  unfold getCacheKw
  by_cases hd : d = []
  · simp [hd]
  · cases hg : aGet regs d with
    | some r => simp [hd]
    | none => simp [hd]

/-- what `getCacheKw` answers: the memo entry if there is one (and a name was given), else template ⊕ given -/
theorem getCacheKw_fst (ca : Kw) (regs : List (Str × Kw)) (d : Str) (kw : Kw) :
    (getCacheKw ca regs d kw).1 =
      if d = [] then aUpdate ca kw else match aGet regs d with
        | some r => r
        | none => aUpdate ca kw := by
  unfold getCacheKw
  by_cases hd : d = []
  · simp [hd]
  · cases aGet regs d <;> simp [hd]

/-- after the call the memo holds what was answered -/
theorem getCacheKw_memo (ca : Kw) (regs : List (Str × Kw)) (d : Str) (kw : Kw) (hd : d ≠ []) :
    aGet (getCacheKw ca regs d kw).2 d = some (getCacheKw ca regs d kw).1 := by
  unfold getCacheKw
  cases hg : aGet regs d with
  | some r => simp [hd, hg]
  | none => simp [hd, aGet]

theorem getCacheKw_mono (ca : Kw) (regs : List (Str × Kw)) (d : Str) (kw : Kw) (d' : Str) (r : Kw)
    (h : aGet regs d' = some r) : aGet (getCacheKw ca regs d kw).2 d' = some r := by
  rcases getCacheKw_regs ca regs d kw with h1 | ⟨_, h2, h3⟩
  · rw [h1]; exact h
  · rw [h3]
    by_cases hdd : d = d'
    · subst hdd; rw [h2] at h; cases h
    · simp [aGet, hdd, h]

/-- memo entries present in `st0` are still there, unchanged, in `st` -/
def RegMono (st0 st : St R) : Prop :=
  ∀ t d r, aGet (st0.regions t) d = some r → aGet (st.regions t) d = some r

theorem regMono_preserved (P : Params R) (T : Items) (st0 : St R) : Preserved P T (RegMono st0) := by
  constructor
  · intro st t hi; exact hi
  · intro st h _ hi _; exact hi
  · intro st h env' v _ hi _ _ t d r h0
    have := hi t d r h0
    simp only [emit_regions, afterCall_regions]
    split
    · rename_i ht; subst ht; exact getCacheKw_mono _ _ _ _ _ _ this
    · exact this
  · intro st h env' _ hi _ _ t d r h0
    have := hi t d r h0
    simp only [emit_regions, afterCall_regions]
    split
    · rename_i ht; subst ht; exact getCacheKw_mono _ _ _ _ _ _ this
    · exact this
  · intro st0 h body env' r key _ hi; exact hi

theorem invalidateCore_regMono (be : Backend R) (tm : Tmpl) (t : Nat) (st0 st : St R) (key : Str) (kw : Kw) (d : Str)
    (hi : RegMono st0 st) : RegMono st0 (invalidateCore be tm t st key kw d) := by
  intro t' d' r h0
  have := hi t' d' r h0
  simp only [invalidateCore, del_regions, emit_regions, setRegions_regions]
  split
  · rename_i ht; subst ht; exact getCacheKw_mono _ _ _ _ _ _ this
  · exact this

theorem step_regMono (w : World R) (st0 st : St R) (op : Op) (hi : RegMono st0 st) : RegMono st0 (step w st op).2 := by
  cases op with
  | render t c =>
    simp only [step]
    cases ht : w.tmpls[t]? with
    | none => simpa using hi
    | some tm =>
      exact run_preserves ⟨w.be, tm, t, c⟩ tm.tree (RegMono st0) (regMono_preserved _ _ st0) _ c st (fun _ hh => hh) hi
  | invalidateBody t =>
    simp only [step]
    cases ht : w.tmpls[t]? with
    | none => simpa using hi
    | some tm => exact invalidateCore_regMono _ tm t st0 st _ _ _ hi
  | invalidateDef t d =>
    simp only [step]
    cases ht : w.tmpls[t]? with
    | none => simpa using hi
    | some tm => exact invalidateCore_regMono _ tm t st0 st _ _ _ hi
  | invalidateClosure t d =>
    simp only [step]
    cases ht : w.tmpls[t]? with
    | none => simpa using hi
    | some tm => exact invalidateCore_regMono _ tm t st0 st _ _ _ hi
  | invalidate t k kw =>
    simp only [step]
    cases ht : w.tmpls[t]? with
    | none => simpa using hi
    | some tm => exact invalidateCore_regMono _ tm t st0 st _ _ _ hi
  | set t k v kw =>
    simp only [step]
    cases ht : w.tmpls[t]? with
    | none => simpa using hi
    | some tm => simpa [RegMono] using hi
  | get t k kw =>
    simp only [step]
    cases ht : w.tmpls[t]? with
    | none => simpa using hi
    | some tm => simpa [RegMono] using hi
  | setEnabled t b =>
    simp only [step]
    cases ht : w.tmpls[t]? with
    | none => simpa using hi
    | some tm => simpa [RegMono] using hi
  | compile t =>
    simp only [step]
    cases ht : w.tmpls[t]? with
    | none => simpa using hi
    | some tm => simpa [RegMono] using hi

theorem runFrom_regMono (w : World R) (ops : List Op) :
    ∀ (st0 st : St R), RegMono st0 st → RegMono st0 (runFrom w st ops) := by
  induction ops with
  | nil => intro st0 st hi; simpa [runFrom] using hi
  | cons op ops ih => intro st0 st hi; simpa [runFrom] using ih st0 _ (step_regMono w st0 st op hi)

/-- every memo entry (of template `t`, callable `d`) was computed by a render – of some template `t'` of the world, in
    whose call tree a section `h` named `d` and declared by `t` occurs – as Template ⊕ page ⊕ section arguments of `t` -/
def MemoFromRender (w : World R) (st : St R) : Prop :=
  ∀ (t : Nat) (d : Str) (r : Kw), aGet (st.regions t) d = some r →
    ∃ (t' : Nat) (tm' : Tmpl) (c : Env) (h : Hdr) (env : Env), w.tmpls[t']? = some tm' ∧ h ∈ hdrs tm'.tree ∧
      (eff ⟨w.be, tm', t', c⟩ h).tid = t ∧ fname h = d ∧
      r = aUpdate (eff ⟨w.be, tm', t', c⟩ h).tm.cacheArgs (sectionKw (eff ⟨w.be, tm', t', c⟩ h).tm.page h env)

theorem memo_preserved (w : World R) (t0 : Nat) (tm0 : Tmpl) (c0 : Env) (ht0 : w.tmpls[t0]? = some tm0) :
    Preserved ⟨w.be, tm0, t0, c0⟩ tm0.tree (MemoFromRender w) := by
  have key : ∀ (st : St R) (h : Hdr) (env' : Env), h ∈ hdrs tm0.tree → MemoFromRender w st →
      MemoFromRender w (afterCall ⟨w.be, tm0, t0, c0⟩ st h env') := by
    intro st h env' hh hi t d r hr
    simp only [afterCall_regions] at hr
    split at hr
    · rename_i htt
      rcases getCacheKw_regs (eff ⟨w.be, tm0, t0, c0⟩ h).tm.cacheArgs (st.regions (eff ⟨w.be, tm0, t0, c0⟩ h).tid) (fname h)
        (sectionKw (eff ⟨w.be, tm0, t0, c0⟩ h).tm.page h env') with h1 | ⟨_, _, h3⟩
      · rw [h1, ← htt] at hr; exact hi _ d r hr
      · rw [h3] at hr
        by_cases hdd : fname h = d
        · simp [aGet, hdd] at hr
          exact ⟨t0, tm0, c0, h, env', ht0, hh, htt.symm, hdd, hr.symm⟩
        · simp [aGet, hdd] at hr
          rw [← htt] at hr
          exact hi _ d r hr
    · exact hi _ d r hr
  constructor
  · intro st t hi; exact hi
  · intro st h _ hi _; exact hi
  · intro st h env' v hh hi _ _ t d r hr
    exact key st h env' hh hi t d r (by simpa using hr)
  · intro st h env' hh hi _ _ t d r hr
    exact key st h env' hh hi t d r (by simpa using hr)
  · intro st0 h body env' r key _ hi; exact hi

theorem step_memo (w : World R) (st : St R) (op : Op) (hop : op.isCallableInvalidation = false)
    (hi : MemoFromRender w st) : MemoFromRender w (step w st op).2 := by
  cases op with
  | render t c =>
    simp only [step]
    cases ht : w.tmpls[t]? with
    | none => simpa using hi
    | some tm =>
      exact run_preserves ⟨w.be, tm, t, c⟩ tm.tree (MemoFromRender w) (memo_preserved w t tm c ht) _ c st
        (fun _ hh => hh) hi
  | invalidateBody t => simp [Op.isCallableInvalidation] at hop
  | invalidateDef t d => simp [Op.isCallableInvalidation] at hop
  | invalidateClosure t d => simp [Op.isCallableInvalidation] at hop
  | invalidate t k kw =>
    simp only [step]
    cases ht : w.tmpls[t]? with
    | none => simpa using hi
    | some tm =>
      intro t' d r hr
      simp only [invalidateCore, del_regions, emit_regions, setRegions_regions, getCacheKw, if_true] at hr
      split at hr
      · rename_i htt; subst htt; exact hi _ d r hr
      · exact hi _ d r hr
  | set t k v kw =>
    simp only [step]
    cases ht : w.tmpls[t]? with
    | none => simpa using hi
    | some tm => simpa [MemoFromRender] using hi
  | get t k kw =>
    simp only [step]
    cases ht : w.tmpls[t]? with
    | none => simpa using hi
    | some tm => simpa [MemoFromRender] using hi
  | setEnabled t b =>
    simp only [step]
    cases ht : w.tmpls[t]? with
    | none => simpa using hi
    | some tm => simpa [MemoFromRender] using hi
  | compile t =>
    simp only [step]
    cases ht : w.tmpls[t]? with
    | none => simpa using hi
    | some tm => simpa [MemoFromRender] using hi

theorem runFrom_memo (w : World R) (ops : List Op) (hops : ∀ op ∈ ops, op.isCallableInvalidation = false) :
    ∀ (st : St R), MemoFromRender w st → MemoFromRender w (runFrom w st ops) := by
  induction ops with
  | nil => intro st hi; simpa [runFrom] using hi
  | cons op ops ih =>
    intro st hi
    simp only [runFrom]
    exact ih (fun o ho => hops o (by simp [ho])) _ (step_memo w st op (hops op (by simp)) hi)

/-! ### a render's result depends on store / flags / memos only (not on the trace) -/

structure SnapEq (a b : St R) : Prop where
  store : a.store = b.store
  times : a.times = b.times
  stamp : a.stamp = b.stamp
  clock : a.clock = b.clock
  enabled : a.enabled = b.enabled
  regions : a.regions = b.regions

theorem snapEq_toSt (st : St R) : SnapEq st st.snap.toSt := ⟨rfl, rfl, rfl, rfl, rfl, rfl⟩

theorem snapEq_emit (a b : St R) (x y : Ev R) (h : SnapEq a b) : SnapEq (a.emit x) (b.emit y) :=
  ⟨h.store, h.times, h.stamp, h.clock, h.enabled, h.regions⟩

theorem snapEq_put (a b : St R) (K : Key R) (v : Str) (h : SnapEq a b) : SnapEq (a.put K v) (b.put K v) :=
  ⟨by funext K'; simp [h.store], by funext K'; simp [h.times, h.clock], h.stamp, by simp [h.clock], h.enabled, h.regions⟩

theorem visible_snap (be : Backend R) (a b : St R) (tid : Nat) (K : Key R) (h : SnapEq a b) :
    visible be a tid K = visible be b tid K := by
  simp [visible, h.store, h.times, h.stamp]

theorem backendKey_snap (P : Params R) (a b : St R) (h : Hdr) (env' : Env) (hs : SnapEq a b) :
    backendKey P a h env' = backendKey P b h env' := by
  simp [backendKey, hs.regions]

theorem snapEq_afterCall (P : Params R) (a b : St R) (h : Hdr) (env' : Env) (hs : SnapEq a b) :
    SnapEq (afterCall P a h env') (afterCall P b h env') :=
  ⟨hs.store, hs.times, hs.stamp, hs.clock, hs.enabled, by funext t; simp [hs.regions]⟩

theorem run_snap (P : Params R) : ∀ (its : Items) (env : Env) (a b : St R), SnapEq a b →
    (run P env its a).1 = (run P env its b).1 ∧ SnapEq (run P env its a).2 (run P env its b).2 := by
  intro its
  induction its with
  | nil => intro env a b h; simpa [run] using h
  | text s rest ih => intro env a b h; have := ih env a b h; simp [run, this.1, this.2]
  | var x rest ih => intro env a b h; have := ih env a b h; simp [run, this.1, this.2]
  | tick t rest ih => intro env a b h; simpa [run] using ih env _ _ (snapEq_emit a b _ _ h)
  | inv h arg site body rest ihb ihr =>
    intro env a b hs
    have hK := backendKey_snap P a b h (scope P h env arg) hs
    have cont : ∀ (stA stB : St R) (vA vB : Str), vA = vB → SnapEq stA stB →
        (deliver h site vA ++ (run P env rest stA).1 = deliver h site vB ++ (run P env rest stB).1) ∧
        SnapEq (run P env rest stA).2 (run P env rest stB).2 := by
      intro stA stB vA vB hv hse
      subst hv
      have := ihr env stA stB hse
      exact ⟨by rw [this.1], this.2⟩
    have done : ∀ (x y : St R) (Kx Ky : Key R) (vx vy : Str) (ex ey : Ev R), SnapEq x y → Kx = Ky → vx = vy →
        SnapEq ((x.put Kx vx).emit ex) ((y.put Ky vy).emit ey) := by
      intro x y Kx Ky vx vy ex ey hxy hk hv
      subst hk; subst hv
      exact snapEq_emit _ _ _ _ (snapEq_put _ _ _ _ hxy)
    by_cases hc : h.cached = true
    · by_cases hen : a.enabled (eff P h).tid = true
      · have henb : b.enabled (eff P h).tid = true := by rw [← hs.enabled]; exact hen
        cases hst : visible P.be a (eff P h).tid (backendKey P a h (scope P h env arg)) with
        | some v =>
          have hstb : visible P.be b (eff P h).tid (backendKey P b h (scope P h env arg)) = some v := by
            rw [← hK, ← visible_snap P.be a b (eff P h).tid _ hs]; exact hst
          rw [run_inv_hit P env h arg site body rest a v hc hen hst, run_inv_hit P env h arg site body rest b v hc henb hstb]
          exact cont _ _ v v rfl (snapEq_emit _ _ _ _ (snapEq_afterCall P a b h (scope P h env arg) hs))
        | none =>
          have hstb : visible P.be b (eff P h).tid (backendKey P b h (scope P h env arg)) = none := by
            rw [← hK, ← visible_snap P.be a b (eff P h).tid _ hs]; exact hst
          rw [run_inv_miss P env h arg site body rest a hc hen hst, run_inv_miss P env h arg site body rest b hc henb hstb]
          have hb := ihb (scope P h env arg) _ _ (snapEq_emit _ _
            (.enter (eff P h).tid (fname h) (backendKey P a h (scope P h env arg)) .miss)
            (.enter (eff P h).tid (fname h) (backendKey P b h (scope P h env arg)) .miss)
            (snapEq_afterCall P a b h (scope P h env arg) hs))
          exact cont _ _ _ _ (by rw [hb.1]) (done _ _ _ _ _ _ _ _ hb.2 hK (by rw [hb.1]))
      · have hen' : a.enabled (eff P h).tid = false := by simpa using hen
        have henb : b.enabled (eff P h).tid = false := by rw [← hs.enabled]; exact hen'
        rw [run_inv_disabled P env h arg site body rest a hc hen', run_inv_disabled P env h arg site body rest b hc henb]
        have hb := ihb (scope P h env arg) _ _ (snapEq_emit a b (.bypass (eff P h).tid (fname h)) (.bypass (eff P h).tid (fname h)) hs)
        exact cont _ _ _ _ (by rw [hb.1]) hb.2
    · have hc' : h.cached = false := by simpa using hc
      rw [run_inv_uncached P env h arg site body rest a hc', run_inv_uncached P env h arg site body rest b hc']
      have hb := ihb (scope P h env arg) _ _ hs
      exact cont _ _ _ _ (by rw [hb.1]) hb.2

/-- the value of the uncached section is the same from the state and from its bare snapshot -/
theorem sectionValue_snap (P : Params R) (env' : Env) (h : Hdr) (body : Items) (st : St R) :
    sectionValue P env' h body st.snap.toSt = sectionValue P env' h body st := by
  unfold sectionValue
  rw [(run_snap P body env' st st.snap.toSt (snapEq_toSt st)).1]

/-! ### provenance: every entry put by a creation function holds the uncached output recorded with it -/

@[simp] theorem traceAllP_nil (w : World R) (chk : Spec R → Ev R → Prop) : traceAllP w chk [] = True := rfl
@[simp] theorem traceAllP_cons (w : World R) (chk : Spec R → Ev R → Prop) (e : Ev R) (tr : List (Ev R)) :
    traceAllP w chk (e :: tr) = (chk (replay w tr) e ∧ traceAllP w chk tr) := rfl

def ProvOK (w : World R) (s : Spec R) : Prop :=
  ∀ K e, s.store K = some e →
    match e.prov with
    | .manual => True
    | .creation c => ∃ tm, w.tmpls[c.rtid]? = some tm ∧
        e.val = sectionValue ⟨w.be, tm, c.rtid, c.ctx⟩ c.env c.h c.body c.pre.toSt

structure ProvInv (w : World R) (st : St R) : Prop where
  sync : Sync w st
  prov : ProvOK w (replay w st.trace)
  chk : traceAllP w (evCreation w) st.trace

theorem prov_init (w : World R) : ProvInv w (St.init w) :=
  ⟨sync_init w, fun K e h => by simp [St.init, Spec.init] at h, by simp [St.init]⟩

theorem prov_preserved (w : World R) (P : Params R) (T : Items) (hbe : P.be = w.be)
    (htm : w.tmpls[P.tid]? = some P.tm) : Preserved P T (ProvInv w) := by
  have hs := sync_preserved w P T hbe
  constructor
  · intro st t hi
    exact ⟨hs.tick st t hi.sync, by simpa using hi.prov, by simpa [evCreation] using hi.chk⟩
  · intro st h hh hi hen
    exact ⟨hs.bypass st h hh hi.sync hen, by simpa using hi.prov, by simpa [evCreation] using hi.chk⟩
  · intro st h env' v hh hi hen hst
    refine ⟨hs.hit st h env' v hh hi.sync hen hst, by simpa using hi.prov, ?_⟩
    simp only [emit_trace, afterCall_trace, traceAllP_cons, replay_cons, step_goc]
    refine ⟨?_, by simp [evCreation], hi.chk⟩
    have hvis : st.store (backendKey P st h env') = some v := by
      unfold visible at hst
      cases hs' : st.store (backendKey P st h env') with
      | none => simp [hs'] at hst
      | some v' =>
        simp only [hs'] at hst
        split at hst
        · cases hst
        · cases hst; rfl
    have h1 := hi.sync.store (backendKey P st h env')
    rw [hvis] at h1
    cases he : (replay w st.trace).store (backendKey P st h env') with
    | none => simp [he] at h1
    | some e =>
      simp [he] at h1
      refine ⟨e, he, h1.symm, ?_⟩
      have := hi.prov _ e he
      rw [← h1] at this
      exact this
  · intro st h env' hh hi hen hst
    exact ⟨hs.miss st h env' hh hi.sync hen hst, by simpa using hi.prov, by simpa [evCreation] using hi.chk⟩
  · intro st0 h body env' r key hh hi
    refine ⟨hs.created st0 h body env' r key hh hi.sync, ?_, by simpa [evCreation] using hi.chk⟩
    intro K e
    simp only [emit_trace, put_trace, replay_cons, step_created, spec_put_store]
    split
    · intro he
      cases he
      refine ⟨P.tm, htm, ?_⟩
      have : (⟨w.be, P.tm, P.tid, P.ctx⟩ : Params R) = P := by cases P; simp_all
      simp only [this]
      rw [sectionValue_snap]
      rfl
    · exact hi.prov K e

theorem step_prov (w : World R) (st : St R) (op : Op) (hi : ProvInv w st) : ProvInv w (step w st op).2 := by
  have hsy := step_sync w st op hi.sync
  cases op with
  | render t c =>
    simp only [step]
    cases ht : w.tmpls[t]? with
    | none => simpa using hi
    | some tm =>
      exact run_preserves ⟨w.be, tm, t, c⟩ tm.tree (ProvInv w) (prov_preserved w _ _ rfl ht) _ c st (fun _ hh => hh) hi
  | invalidateBody t =>
    simp only [step] at hsy ⊢
    cases ht : w.tmpls[t]? with
    | none => simpa using hi
    | some tm =>
      simp only [ht] at hsy
      refine ⟨hsy, ?_, by simpa [invalidateCore, evCreation] using hi.chk⟩
      intro K e
      simp only [invalidateCore, del_trace, emit_trace, setRegions_trace, replay_cons, step_inv, spec_del_store]
      split
      · intro he; cases he
      · exact hi.prov K e
  | invalidateDef t d =>
    simp only [step] at hsy ⊢
    cases ht : w.tmpls[t]? with
    | none => simpa using hi
    | some tm =>
      simp only [ht] at hsy
      refine ⟨hsy, ?_, by simpa [invalidateCore, evCreation] using hi.chk⟩
      intro K e
      simp only [invalidateCore, del_trace, emit_trace, setRegions_trace, replay_cons, step_inv, spec_del_store]
      split
      · intro he; cases he
      · exact hi.prov K e
  | invalidateClosure t d =>
    simp only [step] at hsy ⊢
    cases ht : w.tmpls[t]? with
    | none => simpa using hi
    | some tm =>
      simp only [ht] at hsy
      refine ⟨hsy, ?_, by simpa [invalidateCore, evCreation] using hi.chk⟩
      intro K e
      simp only [invalidateCore, del_trace, emit_trace, setRegions_trace, replay_cons, step_inv, spec_del_store]
      split
      · intro he; cases he
      · exact hi.prov K e
  | invalidate t k kw =>
    simp only [step] at hsy ⊢
    cases ht : w.tmpls[t]? with
    | none => simpa using hi
    | some tm =>
      simp only [ht] at hsy
      refine ⟨hsy, ?_, by simpa [invalidateCore, evCreation] using hi.chk⟩
      intro K e
      simp only [invalidateCore, del_trace, emit_trace, setRegions_trace, replay_cons, step_inv, spec_del_store]
      split
      · intro he; cases he
      · exact hi.prov K e
  | set t k v kw =>
    simp only [step] at hsy ⊢
    cases ht : w.tmpls[t]? with
    | none => simpa using hi
    | some tm =>
      simp only [ht] at hsy
      refine ⟨hsy, ?_, by simpa [evCreation] using hi.chk⟩
      intro K e
      simp only [put_trace, emit_trace, replay_cons, step_set, spec_put_store]
      split
      · intro he; cases he; trivial
      · exact hi.prov K e
  | get t k kw =>
    simp only [step] at hsy ⊢
    cases ht : w.tmpls[t]? with
    | none => simpa using hi
    | some tm =>
      simp only [ht] at hsy
      exact ⟨hsy, by simpa using hi.prov, by simpa [evCreation] using hi.chk⟩
  | setEnabled t b =>
    simp only [step] at hsy ⊢
    cases ht : w.tmpls[t]? with
    | none => simpa using hi
    | some tm =>
      simp only [ht] at hsy
      refine ⟨hsy, ?_, by simpa [evCreation] using hi.chk⟩
      intro K e
      simpa using hi.prov K e
  | compile t =>
    simp only [step] at hsy ⊢
    cases ht : w.tmpls[t]? with
    | none => simpa using hi
    | some tm =>
      simp only [ht] at hsy
      refine ⟨hsy, ?_, by simpa [evCreation] using hi.chk⟩
      intro K e
      simpa using hi.prov K e

theorem runFrom_prov (w : World R) (ops : List Op) : ∀ (st : St R), ProvInv w st → ProvInv w (runFrom w st ops) := by
  induction ops with
  | nil => intro st hi; simpa [runFrom] using hi
  | cons op ops ih => intro st hi; simpa [runFrom] using ih _ (step_prov w st op hi)

/-! ### memo entries come from renders when no callable is invalidated before its first render -/

theorem invalidateCore_memo_late (w : World R) (tm : Tmpl) (t : Nat) (st : St R) (key d : Str)
    (hlate : (aGet (st.regions t) d).isSome = true) (hi : MemoFromRender w st) :
    MemoFromRender w (invalidateCore w.be tm t st key [] d) := by
  intro t' d' r hr
  simp only [invalidateCore, del_regions, emit_regions, setRegions_regions] at hr
  split at hr
  · rename_i htt
    subst htt
    rcases getCacheKw_regs tm.cacheArgs (st.regions t') d [] with h1 | ⟨_, h2, _⟩
    · rw [h1] at hr; exact hi _ d' r hr
    · rw [h2] at hlate; simp at hlate
  · exact hi _ d' r hr

theorem step_memo_late (w : World R) (st : St R) (op : Op)
    (hop : (match op.invalidatedCallable with
            | some (t, d) => (aGet (st.regions t) d).isSome
            | none => true) = true)
    (hi : MemoFromRender w st) : MemoFromRender w (step w st op).2 := by
  cases op with
  | invalidateBody t =>
    simp only [step]
    cases ht : w.tmpls[t]? with
    | none => simpa using hi
    | some tm => exact invalidateCore_memo_late w tm t st _ _ (by simpa [Op.invalidatedCallable] using hop) hi
  | invalidateDef t d =>
    simp only [step]
    cases ht : w.tmpls[t]? with
    | none => simpa using hi
    | some tm => exact invalidateCore_memo_late w tm t st _ _ (by simpa [Op.invalidatedCallable] using hop) hi
  | invalidateClosure t d =>
    simp only [step]
    cases ht : w.tmpls[t]? with
    | none => simpa using hi
    | some tm => exact invalidateCore_memo_late w tm t st _ _ (by simpa [Op.invalidatedCallable] using hop) hi
  | render t c => exact step_memo w st _ rfl hi
  | invalidate t k kw => exact step_memo w st _ rfl hi
  | set t k v kw => exact step_memo w st _ rfl hi
  | get t k kw => exact step_memo w st _ rfl hi
  | setEnabled t b => exact step_memo w st _ rfl hi
  | compile t => exact step_memo w st _ rfl hi

theorem runFrom_memo_late (w : World R) (ops : List Op) :
    ∀ (st : St R), noEarlyInvalidation w st ops = true → MemoFromRender w st → MemoFromRender w (runFrom w st ops) := by
  induction ops with
  | nil => intro st _ hi; simpa [runFrom] using hi
  | cons op ops ih =>
    intro st hg hi
    simp only [noEarlyInvalidation, Bool.and_eq_true] at hg
    simp only [runFrom]
    exact ih _ hg.2 (step_memo_late w st op hg.1 hi)

end MakoModel.Cache
