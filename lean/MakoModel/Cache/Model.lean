import MakoModel.Basic.Unicode
import MakoModel.Generated.Cache
/-!
# L6 (cache): cached sections, the `Cache` object and an abstract back end

Transcribed from

* `mako/codegen.py`  `write_cache_decorator` (key selection, collection of the `cache_*` arguments of the
  `<%page>` tag and of the section, `timeout` → `int`, `__M_defname`), `write_def_finish` and
  `write_inline_def` (what a cached × buffered × filtered callable writes and what it returns),
* `mako/cache.py`    `Cache.__init__` (`id`), `_ctx_get_or_create`, `_get_cache_kw` (the `_def_regions` memo),
  `set/get/invalidate`, `invalidate_body/def/closure`, and the `CacheImpl` contract,
* `mako/template.py` `module_id = re.sub(r"\W", "_", uri)`, `cache_args`, `cache_enabled`.

A template is given as its *call tree*: every place where a def is called (or a block stands) carries the
header of the def/block and its body, so running a template is structural recursion (`Items`).  A def that
is called from two places appears twice with the same header – hence the same key.

The back end is an abstract map `(cache id, region, key) ⇀ value` obeying the `CacheImpl` contract
(`get_or_create` stores what it creates, `invalidate` removes, `set`/`get`; an implementation that honours
`Cache.starttime` – Beaker, the in-tree reference back end – treats entries stored before the asking template was
compiled as absent, which is what keeps a template that *replaces* another one under the same URI from being served
its predecessor's entries); which of the keyword
arguments select the container ("region") is a parameter `Backend.regionOf` of the model (Beaker: `type`,
`dir`, …).  The state also carries the *trace*: the back-end calls as a recording `CacheImpl` sees them,
the execution counter's ticks, and ghost events (which branch a cached wrapper took; for every completed creation
the section, scope, context and pre-state it ran in) that the specification monitor in `Spec.lean` reads.

State of /repo followed: after ec9a6d2 (`write_inline_def` passes `buffered` on), b9a6f20 (`BeakerCacheImpl.set`) and
248d875 (`visitBlockTag` writes what a block's callable returns, so a buffered block shows its content where it stands).

Domain: strings for context values, def arguments, keys and values; `cache_timeout` a decimal literal;
templates render without raising.
-/
namespace MakoModel.Cache
open MakoModel.Generated.Cache

abbrev Str := List Char

/-! ## association lists with `dict` semantics -/

/-- `d.get(k)` -/
def aGet {β : Type} : List (Str × β) → Str → Option β
  | [], _ => none
  | (k', v) :: r, k => if k' = k then some v else aGet r k

/-- `d[k] = v` (an existing key keeps its position) -/
def aSet {β : Type} : List (Str × β) → Str → β → List (Str × β)
  | [], k, v => [(k, v)]
  | (k', v') :: r, k, v => if k' = k then (k, v) :: r else (k', v') :: aSet r k v

/-- `a.copy(); a.update(b)` -/
def aUpdate {β : Type} (a b : List (Str × β)) : List (Str × β) :=
  b.foldl (fun acc p => aSet acc p.1 p.2) a

/-- `d.setdefault(k, v)` -/
def aSetDefault {β : Type} (a : List (Str × β)) (k : Str) (v : β) : List (Str × β) :=
  match aGet a k with
  | some _ => a
  | none => a ++ [(k, v)]

/-! ## values, expressions, scopes -/

/-- a keyword argument as the back end receives it -/
inductive ArgV
  | str (s : Str)
  | int (n : Nat)
  | ctx                      -- the rendering `Context`
  deriving DecidableEq, Repr

abbrev Kw := List (Str × ArgV)
abbrev Env := List (Str × Str)

def envGet (e : Env) (x : Str) : Str := (aGet e x).getD []

/-- an attribute value `lit${x}lit…` as `parsed_attributes` holds it: a concatenation -/
inductive Part
  | lit (s : Str)
  | var (x : Str)
  deriving DecidableEq, Repr

abbrev Expr := List Part

def evalPart (env : Env) : Part → Str
  | .lit s => s
  | .var x => envGet env x

def evalExpr (env : Env) (e : Expr) : Str := e.flatMap (evalPart env)

/-- `int("…")` on a string of ASCII digits -/
def parseNat (s : Str) : Nat := s.foldl (fun n c => 10 * n + (c.toNat - 48)) 0

/-! ## sections -/

inductive Kind
  | page | topDef | nestedDef | namedBlock | anonBlock
  deriving DecidableEq, Repr

/-- the template that *declares* a section, when it is not the one being rendered (a base template's def or block
    reached through `<%inherit>`: `parent.f()`, `next.body()`, the base's own body): index, URI, `cache_args` and the
    `cache…` attributes of its `<%page>` tag.  The generated wrapper asks `context.get('local').cache`, and `local` in the
    context a template's callables run with is that template's own namespace (`runtime._inherit_from`). -/
structure Home where
  tid : Nat
  uri : Str
  cacheArgs : List (Str × ArgV)
  pageAttrs : List (Str × Expr)
  deriving DecidableEq, Repr

structure Hdr where
  kind : Kind
  name : Str                       -- def / block name (unused for page and anonymous block)
  line : Nat                       -- line of the tag (anonymous block)
  param : Option Str               -- the def's parameter
  cached : Bool
  buffered : Bool
  filtered : Bool                  -- `filter="wrapD"`
  attrs : List (Str × Expr)        -- the tag's `cache…` attributes, source order
  home : Option Home := none       -- declaring template, when it is not the rendered one
  deriving DecidableEq, Repr

/-- how a def is called: `${f(a)}`, `${f(a) | wrapS}`, `${capture(f, a)}`, `${capture(f, a) | wrapS}` – `capture` runs the
    callable with a fresh buffer on top of the context's buffer stack, returns what was written to it and drops the
    callable's return value -/
inductive Site
  | plain | filtered | captured | capturedFiltered
  deriving DecidableEq, Repr

/-- call tree of a template body -/
inductive Items
  | nil
  | text (s : Str) (rest : Items)
  | var (x : Str) (rest : Items)                 -- `${x}`
  | tick (tag : Str) (rest : Items)              -- `${tick('tag')}` : the execution counter, writes nothing
  | inv (h : Hdr) (arg : Option Expr) (site : Site) (body : Items) (rest : Items)
      -- a call of a def (`site`: how), or a block standing here
  deriving Repr

/-- the Python name of the section's render callable: `render_body`, `render_<name>` for a top-level def
    or named block, `<name>` for a nested def, `__M_anon_<line>` for an anonymous block -/
def fname (h : Hdr) : Str :=
  match h.kind with
  | .page => bodyName
  | .topDef => toplevelPrefix ++ h.name
  | .namedBlock => toplevelPrefix ++ h.name
  | .nestedDef => h.name
  | .anonBlock => anonPrefix ++ Nat.toDigits 10 h.line

/-- written by `write_inline_def` (closure inside the enclosing callable) rather than as a module-level function -/
def isInline : Kind → Bool
  | .nestedDef => true
  | .anonBlock => true
  | _ => false

/-- invoked through an expression `${f(..)}`, whose value is then written; blocks and the page are invoked
    as statements and their return value is dropped -/
def isCall : Kind → Bool
  | .topDef => true
  | .nestedDef => true
  | _ => false

/-- `cache_*` attributes of a tag minus `cache_key`, prefix cut off -/
def cacheAttrs (attrs : List (Str × Expr)) : List (Str × Expr) :=
  (attrs.filter fun a => cachePrefix.isPrefixOf a.1 && a.1 != excludedAttr).map
    fun a => (a.1.drop prefixSlice, a.2)

/-- a collected argument as it is passed: `timeout` was converted with `int(eval(..))` when the module was
    generated, every other one is the attribute's expression evaluated at the call -/
def argVal (env : Env) (k : Str) (e : Expr) : ArgV :=
  if k = timeoutKey then .int (parseNat (evalExpr env e)) else .str (evalExpr env e)

def evalArgs (env : Env) (as : List (Str × Expr)) : Kw := as.map fun a => (a.1, argVal env a.1 a.2)

/-- the keyword arguments of the generated `_ctx_get_or_create(...)` call: the page tag's, then the section's own -/
def sectionKw (page h : Hdr) (env : Env) : Kw :=
  aUpdate (aUpdate [] (evalArgs env (cacheAttrs page.attrs))) (evalArgs env (cacheAttrs h.attrs))

/-- the key expression: `cache_key` if present, else `repr(name)` -/
def keyOf (h : Hdr) (env : Env) : Str :=
  match aGet h.attrs cacheKeyAttr with
  | some e => evalExpr env e
  | none => fname h

def wrapD (s : Str) : Str := '[' :: s ++ [']']
def wrapS (s : Str) : Str := '<' :: s ++ ['>']

/-- value of the undecorated callable: the buffer's content through the section's own filter
    (`write_def_finish`; `buffer_filters` are empty) -/
def finish (h : Hdr) (o : Str) : Str := if h.filtered then wrapD o else o

/-- does the callable hand its content back as return value (else it writes it)?  Uncached: iff buffered.
    Cached: the decorator returns it iff *it* was told `buffered`; a module-level callable always tells it, and
    `write_inline_def` does iff `inlinePassesBuffered` (regenerated; true since /repo ec9a6d2, so: iff buffered). -/
def returnsValue (h : Hdr) : Bool :=
  if h.cached then h.buffered && (!isInline h.kind || inlinePassesBuffered) else h.buffered

/-- what appears in the output at the place of invocation when the section's value is `v`: a def call `${f(..)}` writes
    what the callable wrote and then its (possibly filtered) return value; a block's call site writes the block's return
    value too iff `blockResultWritten` (regenerated from `visitBlockTag`; true since /repo 248d875 – before, a buffered
    block's content was dropped) -/
def deliver (h : Hdr) (site : Site) (v : Str) : Str :=
  if isCall h.kind then
    -- what the callable writes while it runs / what it returns
    let w := if returnsValue h then [] else v
    let r := if returnsValue h then v else []
    -- the decorator of a cached inline callable writes through the writer its *enclosing* callable fetched when it
    -- started, unless it fetches the writer itself (`decoratorFetchesWriter`, regenerated): then what it writes lands
    -- below a buffer that `capture` has pushed since
    let escapes := h.cached && isInline h.kind && !returnsValue h && !decoratorFetchesWriter
    match site with
    | .plain => w ++ r
    | .filtered => w ++ wrapS r
    | .captured => w
    | .capturedFiltered => if escapes then w ++ wrapS [] else wrapS w
  else if returnsValue h && !blockResultWritten then [] else v

/-! ## templates, back end, state -/

structure Tmpl where
  uri : Str
  cacheArgs : Kw                   -- `Template(cache_args=…)`
  enabled0 : Bool                  -- `Template(cache_enabled=…)`
  page : Hdr                       -- the `<%page>` tag (kind `page`; no attributes when there is none)
  body : Items
  deriving Repr

/-- `re.sub(r"\W", "_", uri)` -/
def moduleId (uri : Str) : Str := uri.map fun c => if Basic.isWord c then c else moduleIdReplacement

/-- `Cache.id = template.module.__name__` -/
def cid (tm : Tmpl) : Str := moduleId tm.uri

structure Backend (R : Type) where
  regionOf : Kw → R                -- which container the keyword arguments select
  passContext : Bool               -- `CacheImpl.pass_context`
  honoursStarttime : Bool          -- entries stored before `Cache.starttime` (the template's compile stamp) count as absent

inductive BeOp
  | goc | set (v : Str) | get | inv
  deriving DecidableEq, Repr

inductive Outcome
  | hit (v : Str) | miss
  deriving DecidableEq, Repr

abbrev Key (R : Type) := Str × R × Str        -- (cache id, region, key)

/-- store, `cache_enabled` flags and `_def_regions` memos: everything a render's result depends on -/
structure Snap (R : Type) where
  store : Key R → Option Str
  times : Key R → Nat
  stamp : Nat → Nat
  clock : Nat
  enabled : Nat → Bool
  regions : Nat → List (Str × Kw)

/-- ghost record of one run of a creation function: which section (header, body), in which scope and render context,
    from which state (taken when the back end called the creation function) -/
structure Creation (R : Type) where
  rtid : Nat                       -- the template being rendered
  h : Hdr
  body : Items
  env : Env
  ctx : Env
  pre : Snap R

inductive Ev (R : Type)
  | call (tid : Nat) (op : BeOp) (cacheId : Str) (key : Str) (kw : Kw)   -- seen by the back end (`tid` is ghost)
  | tick (tag : Str)                                                      -- seen by the execution counter
  | enter (tid : Nat) (fn : Str) (K : Key R) (oc : Outcome)               -- ghost: branch taken by `get_or_create`
  | bypass (tid : Nat) (fn : Str)                                         -- ghost: `cache_enabled` was false
  | created (tid : Nat) (fn : Str) (K : Key R) (v : Str) (c : Creation R)  -- ghost: creation function returned `v`, stored
  | enabledSet (tid : Nat) (b : Bool)                                     -- ghost: `template.cache_enabled = b`
  | compiled (tid : Nat)                                                  -- ghost: the template was (re)compiled now

structure St (R : Type) where
  store : Key R → Option Str
  times : Key R → Nat                          -- when the entry under a key was stored (logical clock)
  stamp : Nat → Nat                            -- `Cache.starttime` = `module._modified_time` of each template
  clock : Nat                                  -- advances with every store
  enabled : Nat → Bool
  regions : Nat → List (Str × Kw)             -- `Cache._def_regions` of each template
  trace : List (Ev R)                          -- newest first

variable {R : Type} [DecidableEq R]

def St.snap (st : St R) : Snap R :=
  { store := st.store, times := st.times, stamp := st.stamp, clock := st.clock, enabled := st.enabled,
    regions := st.regions }
/-- a state with that store / stamps / flags / memos and an empty trace -/
def Snap.toSt (s : Snap R) : St R :=
  { store := s.store, times := s.times, stamp := s.stamp, clock := s.clock, enabled := s.enabled, regions := s.regions,
    trace := [] }
def St.emit (st : St R) (e : Ev R) : St R := { st with trace := e :: st.trace }
def St.put (st : St R) (K : Key R) (v : Str) : St R :=
  { st with store := fun K' => if K' = K then some v else st.store K'
            times := fun K' => if K' = K then st.clock else st.times K'
            clock := st.clock + 1 }
def St.setStamp (st : St R) (t : Nat) : St R :=
  { st with stamp := fun t' => if t' = t then st.clock else st.stamp t' }

/-- what the back end answers for `K` when asked on behalf of template `tid`: the stored value, unless the
    implementation honours `starttime` and the entry was stored before the template's compile stamp -/
def visible (be : Backend R) (st : St R) (tid : Nat) (K : Key R) : Option Str :=
  match st.store K with
  | some v => if be.honoursStarttime && decide (st.times K < st.stamp tid) then none else some v
  | none => none
def St.del (st : St R) (K : Key R) : St R :=
  { st with store := fun K' => if K' = K then none else st.store K' }
def St.setRegions (st : St R) (t : Nat) (r : List (Str × Kw)) : St R :=
  { st with regions := fun t' => if t' = t then r else st.regions t' }
def St.setEnabled (st : St R) (t : Nat) (b : Bool) : St R :=
  { st with enabled := fun t' => if t' = t then b else st.enabled t' }

/-- `Cache._get_cache_kw` before the `context` step: (arguments, new `_def_regions`).
    `defname = ""` stands for "no `__M_defname`" (`if not defname`). -/
def getCacheKw (cacheArgs : Kw) (regs : List (Str × Kw)) (defname : Str) (kw : Kw) : Kw × List (Str × Kw) :=
  if defname = [] then (aUpdate cacheArgs kw, regs)
  else match aGet regs defname with
    | some r => (r, regs)
    | none => (aUpdate cacheArgs kw, (defname, aUpdate cacheArgs kw) :: regs)

/-- `if context and self.impl.pass_context: tmpl_kw.setdefault("context", context)` -/
def addCtx (pass : Bool) (kw : Kw) : Kw := if pass then aSetDefault kw contextKw .ctx else kw

structure Params (R : Type) where
  be : Backend R
  tm : Tmpl
  tid : Nat
  ctx : Env                        -- the render's context data

/-- the scope of a section's wrapper and body: a module-level callable sees the context (plus its
    argument), a closure sees the enclosing scope -/
def scope (P : Params R) (h : Hdr) (env : Env) (arg : Option Expr) : Env :=
  let base := if isInline h.kind then env else P.ctx
  match h.param, arg with
  | some p, some a => (p, evalExpr env a) :: base
  | _, _ => base

/-- header of a `<%page>` tag with these `cache…` attributes -/
def pageHdr (attrs : List (Str × Expr)) : Hdr :=
  { kind := .page, name := [], line := 0, param := none, cached := false, buffered := false, filtered := false,
    attrs := attrs }

/-- whose cache a section uses: the declaring template's – id, `cache_args`, page arguments, `cache_enabled` flag,
    `_def_regions` memo and compile stamp are that template's; scope and render context stay those of the render -/
def eff (P : Params R) (h : Hdr) : Params R :=
  match h.home with
  | none => P
  | some hm =>
    { P with tid := hm.tid
             tm := { uri := hm.uri, cacheArgs := hm.cacheArgs, enabled0 := true, page := pageHdr hm.pageAttrs,
                     body := .nil } }

/-- Rendering.  For a cached section this is the generated wrapper calling `Cache._ctx_get_or_create`, which
    either runs the creation function (`cache_enabled` false), or asks the back end, which runs it iff it has no
    (sufficiently recent, see `visible`) value under the key and stores what it returned. -/
def run (P : Params R) (env : Env) : Items → St R → Str × St R
  | .nil, st => ([], st)
  | .text s rest, st =>
    let r := run P env rest st
    (s ++ r.1, r.2)
  | .var x rest, st =>
    let r := run P env rest st
    (envGet env x ++ r.1, r.2)
  | .tick t rest, st =>
    run P env rest (st.emit (.tick t))
  | .inv h arg site body rest, st =>
    let env' := scope P h env arg
    let a : Str × St R :=
      if !h.cached then
        let b := run P env' body st
        (finish h b.1, b.2)
      else if !(st.enabled (eff P h).tid) then
        let b := run P env' body (st.emit (.bypass (eff P h).tid (fname h)))
        (finish h b.1, b.2)
      else
        let Q := eff P h
        let key := keyOf h env'
        let g := getCacheKw Q.tm.cacheArgs (st.regions Q.tid) (fname h) (sectionKw Q.tm.page h env')
        let K : Key R := (cid Q.tm, P.be.regionOf g.1, key)
        let st0 := (st.setRegions Q.tid g.2).emit (.call Q.tid .goc (cid Q.tm) key (addCtx P.be.passContext g.1))
        match visible P.be st Q.tid K with
        | some v => (v, st0.emit (.enter Q.tid (fname h) K (.hit v)))
        | none =>
          let st1 := st0.emit (.enter Q.tid (fname h) K .miss)
          let b := run P env' body st1
          (finish h b.1, (b.2.put K (finish h b.1)).emit
            (.created Q.tid (fname h) K (finish h b.1) ⟨P.tid, h, body, env', P.ctx, st1.snap⟩))
    let r := run P env rest a.2
    (deliver h site a.1 ++ r.1, r.2)

/-! ## histories -/

inductive Op
  | render (t : Nat) (c : Env)
  | invalidateBody (t : Nat)
  | invalidateDef (t : Nat) (d : Str)
  | invalidateClosure (t : Nat) (d : Str)
  | invalidate (t : Nat) (k : Str) (kw : Kw)
  | set (t : Nat) (k : Str) (v : Str) (kw : Kw)
  | get (t : Nat) (k : Str) (kw : Kw)
  | setEnabled (t : Nat) (b : Bool)
  | compile (t : Nat)              -- the template object under this index is constructed (compiled) now
  deriving Repr

inductive Resp
  | out (s : Str)
  | got (v : Option Str)
  | unit
  | noTemplate
  deriving DecidableEq, Repr

structure World (R : Type) where
  be : Backend R
  tmpls : List Tmpl

/-- `Cache.invalidate(key, **kw)` with `__M_defname = defname` among `kw` (`""`: absent) -/
def invalidateCore (be : Backend R) (tm : Tmpl) (t : Nat) (st : St R) (key : Str) (kw : Kw) (defname : Str) : St R :=
  let g := getCacheKw tm.cacheArgs (st.regions t) defname kw
  (((st.setRegions t g.2).emit (.call t .inv (cid tm) key g.1)).del (cid tm, be.regionOf g.1, key))

def step (w : World R) (st : St R) : Op → Resp × St R
  | .render t c =>
    match w.tmpls[t]? with
    | none => (.noTemplate, st)
    | some tm =>
      let r := run ⟨w.be, tm, t, c⟩ c (.inv tm.page none .plain tm.body .nil) st
      (.out r.1, r.2)
  | .invalidateBody t =>
    match w.tmpls[t]? with
    | none => (.noTemplate, st)
    | some tm => (.unit, invalidateCore w.be tm t st invBodyKey [] invBodyDefname)
  | .invalidateDef t d =>
    match w.tmpls[t]? with
    | none => (.noTemplate, st)
    | some tm => (.unit, invalidateCore w.be tm t st (invDefKeyPrefix ++ d) [] (invDefDefnamePrefix ++ d))
  | .invalidateClosure t d =>
    match w.tmpls[t]? with
    | none => (.noTemplate, st)
    | some tm => (.unit, invalidateCore w.be tm t st d [] d)
  | .invalidate t k kw =>
    match w.tmpls[t]? with
    | none => (.noTemplate, st)
    | some tm => (.unit, invalidateCore w.be tm t st k kw [])
  | .set t k v kw =>
    match w.tmpls[t]? with
    | none => (.noTemplate, st)
    | some tm =>
      let a := aUpdate tm.cacheArgs kw
      (.unit, (st.emit (.call t (.set v) (cid tm) k a)).put (cid tm, w.be.regionOf a, k) v)
  | .get t k kw =>
    match w.tmpls[t]? with
    | none => (.noTemplate, st)
    | some tm =>
      let a := aUpdate tm.cacheArgs kw
      (.got (visible w.be st t (cid tm, w.be.regionOf a, k)), st.emit (.call t .get (cid tm) k a))
  | .setEnabled t b =>
    match w.tmpls[t]? with
    | none => (.noTemplate, st)
    | some _ => (.unit, (st.setEnabled t b).emit (.enabledSet t b))
  | .compile t =>
    match w.tmpls[t]? with
    | none => (.noTemplate, st)
    | some _ => (.unit, (st.setStamp t).emit (.compiled t))

def St.init (w : World R) : St R :=
  { store := fun _ => none
    times := fun _ => 0
    stamp := fun _ => 0
    clock := 0
    enabled := fun t => match w.tmpls[t]? with | some tm => tm.enabled0 | none => true
    regions := fun _ => []
    trace := [] }

/-- state after a history (from `st`) -/
def runFrom (w : World R) (st : St R) : List Op → St R
  | [] => st
  | op :: ops => runFrom w (step w st op).2 ops

def runHist (w : World R) (h : List Op) : St R := runFrom w (St.init w) h

/-- the responses of a history -/
def responses (w : World R) (st : St R) : List Op → List Resp
  | [] => []
  | op :: ops => (step w st op).1 :: responses w (step w st op).2 ops

end MakoModel.Cache
