import MakoModel.Pipeline.Model
/-! Helper lemmas for the filter-pipeline half of C02. -/
namespace MakoModel.Pipeline
open MakoModel.Generated.Pipeline

theorem nest_append (a b : List Str) (t : Str) : nest (a ++ b) t = nest b (nest a t) := by
  simp [nest, List.foldl_append]

theorem nest_cons (f : Str) (fs : List Str) (t : Str) : nest (f :: fs) t = nest fs (wrap f t) := rfl

theorem dropN_append (a b : List Str) : dropN (a ++ b) = dropN a ++ dropN b := by
  simp [dropN]

theorem dropN_of_not_mem {a : List Str} (h : nName ∉ a) : dropN a = a := by
  unfold dropN
  rw [List.filter_eq_self]
  intro x hx
  have : x ≠ nName := fun e => h (e ▸ hx)
  simpa using this

/-- the `for e in args` loop emits the composition of the non-`n` entries, first entry innermost -/
theorem applyFilters_eq (es : List Str) (t : Str) :
    applyFilters es t = nest ((dropN es).map resolve) t := by
  induction es generalizing t with
  | nil => rfl
  | cons e es ih =>
    unfold applyFilters
    by_cases h : e = nName
    · simp [h, ih, dropN]
    · have h' : (e != nName) = true := by simpa using h
      simp only [h, if_false, ih]
      simp [dropN, h', nest_cons]

theorem effectiveArgs_expr (fs : List Str) (cfg : Cfg) :
    dropN (effectiveArgs fs true cfg) = pipeline cfg fs := by
  unfold effectiveArgs pipeline
  by_cases h : nName ∈ fs
  · simp [h]
  · simp only [List.contains_iff_mem, h, if_false]
    cases hp : cfg.page with
    | none =>
      by_cases hd : cfg.default = [] <;> by_cases hn : nName ∈ fs <;> simp_all
    | some p =>
      by_cases hd : cfg.default = [] <;> by_cases hn : nName ∈ p <;> simp_all

theorem effectiveArgs_nonexpr (fs : List Str) (cfg : Cfg) : effectiveArgs fs false cfg = fs := by
  unfold effectiveArgs
  split <;> simp

theorem createFilterCallable_expr (fs : List Str) (t : Str) (cfg : Cfg) :
    createFilterCallable fs t true cfg = nest ((pipeline cfg fs).map resolve) t := by
  unfold createFilterCallable
  rw [applyFilters_eq, effectiveArgs_expr]

theorem createFilterCallable_nonexpr (fs : List Str) (t : Str) (cfg : Cfg) :
    createFilterCallable fs t false cfg = nest ((dropN fs).map resolve) t := by
  unfold createFilterCallable
  rw [applyFilters_eq, effectiveArgs_nonexpr]

/-! ### `splitCall` / `resolve` -/

theorem dropWhile_append_of_all {α} (p : α → Bool) (l r : List α) (h : ∀ x ∈ l, p x = true) :
    (l ++ r).dropWhile p = r.dropWhile p := by
  induction l with
  | nil => rfl
  | cons a l ih =>
    have ha := h a (by simp)
    simp [ha]
    exact ih (fun x hx => h x (by simp [hx]))

theorem takeWhile_append_of_all {α} (p : α → Bool) (l r : List α) (h : ∀ x ∈ l, p x = true) :
    (l ++ r).takeWhile p = l ++ r.takeWhile p := by
  induction l with
  | nil => rfl
  | cons a l ih =>
    have ha := h a (by simp)
    simp [ha]
    exact ih (fun x hx => h x (by simp [hx]))

theorem takeWhile_eq_self_of_all {α} (p : α → Bool) (l : List α) (h : ∀ x ∈ l, p x = true) :
    l.takeWhile p = l := by
  have := takeWhile_append_of_all p l [] h
  simpa using this

theorem dropWhile_eq_nil_of_all {α} (p : α → Bool) (l : List α) (h : ∀ x ∈ l, p x = true) :
    l.dropWhile p = [] := by
  have := dropWhile_append_of_all p l [] h
  simpa using this

theorem splitCallRaw_none_of_no_paren (e : Str) (h : '(' ∉ e) : splitCallRaw e = none := by
  unfold splitCallRaw
  split
  · rfl
  · rename_i c rest heq
    have hsub : ∀ x ∈ rest, x ∈ e := by
      intro x hx
      have : x ∈ c :: rest := by simp [hx]
      rw [← heq] at this
      exact (List.takeWhile_sublist _).subset this
    have : rest.dropWhile (· != '(') = [] := by
      apply dropWhile_eq_nil_of_all
      intro x hx
      have : x ≠ '(' := fun e' => h (e' ▸ hsub x hx)
      simpa using this
    simp [this]

theorem upToLast_snoc (c : Char) (a : Str) : upToLast c (a ++ [c]) = a ++ [c] := by
  simp [upToLast]

/-- a call `ident(args)` on one line is split at its first parenthesis -/
theorem splitCallRaw_call (ident args : Str) (hne : ident ≠ []) (hp : '(' ∉ ident) (hn : '\n' ∉ ident)
    (hna : '\n' ∉ args) :
    splitCallRaw (ident ++ '(' :: args ++ [')']) = some (ident, '(' :: args ++ [')']) := by
  cases ident with
  | nil => exact absurd rfl hne
  | cons c i =>
    have hall : ∀ x ∈ (c :: i) ++ '(' :: args ++ [')'], (x != '\n') = true := by
      intro x hx
      simp only [List.mem_append, List.mem_cons, List.not_mem_nil, or_false] at hx
      have : x ≠ '\n' := by
        rcases hx with (h | h) | h
        · rcases h with h | h
          · subst h; intro e; subst e; exact hn (by simp)
          · intro e; subst e; exact hn (List.mem_cons_of_mem _ h)
        · rcases h with h | h
          · rw [h]; decide
          · intro e; exact hna (e ▸ h)
        · rw [h]; decide
      simpa using this
    unfold splitCallRaw
    rw [takeWhile_eq_self_of_all _ _ hall]
    have hi : ∀ x ∈ i, (x != '(') = true := by
      intro x hx
      have : x ≠ '(' := fun e => hp (by subst e; exact List.mem_cons_of_mem _ hx)
      simpa using this
    have h1 : (i ++ '(' :: args ++ [')']).dropWhile (· != '(') = '(' :: args ++ [')'] := by
      rw [List.append_assoc, dropWhile_append_of_all _ _ _ hi]
      simp
    have h2 : (i ++ '(' :: args ++ [')']).takeWhile (· != '(') = i := by
      rw [List.append_assoc, takeWhile_append_of_all _ _ _ hi]
      simp
    simp only [List.cons_append, h1, h2]
    rw [upToLast_snoc]
    cases hb : args ++ [')'] with
    | nil => simp at hb
    | cons b bs => simp

theorem splitCall_none_of_no_paren (e : Str) (h : '(' ∉ e) : splitCall e = none := by
  unfold splitCall
  split
  · rfl
  · exact splitCallRaw_none_of_no_paren e h

/-- a one-line entry that ends with `)` passes the `$` of the anchored regex -/
theorem anchoredOk_call (ident args : Str) (hn : '\n' ∉ ident) (hna : '\n' ∉ args) :
    anchoredOk (ident ++ '(' :: args ++ [')']) = true := by
  have hall : ∀ x ∈ ident ++ '(' :: args ++ [')'], (x != '\n') = true := by
    intro x hx
    simp only [List.mem_append, List.mem_cons, List.not_mem_nil, or_false] at hx
    have : x ≠ '\n' := by
      rcases hx with (h | h) | h
      · intro e; subst e; exact hn h
      · rcases h with h | h
        · rw [h]; decide
        · intro e; exact hna (e ▸ h)
      · rw [h]; decide
    simpa using this
  unfold anchoredOk
  rw [takeWhile_eq_self_of_all _ _ hall]
  have hl : ('(' :: (args ++ [')'])).getLast? = some ')' := by
    show (('(' :: args) ++ [')']).getLast? = some ')'
    rw [List.getLast?_append]; simp
  simp [hl]

theorem splitCall_call (ident args : Str) (hne : ident ≠ []) (hp : '(' ∉ ident) (hn : '\n' ∉ ident)
    (hna : '\n' ∉ args) :
    splitCall (ident ++ '(' :: args ++ [')']) = some (ident, '(' :: args ++ [')']) := by
  unfold splitCall
  rw [anchoredOk_call ident args hn hna, splitCallRaw_call ident args hne hp hn hna]
  simp

/-! ### evaluation -/

theorem show_foldl (fs : List Str) (t0 : Tm) (tgt : Str) :
    (fs.foldl (fun acc f => Tm.app f acc) t0).show tgt = nest fs (t0.show tgt) := by
  induction fs generalizing t0 with
  | nil => rfl
  | cons f fs ih => simp [List.foldl_cons, ih, Tm.show, nest_cons]

theorem run_foldl {V : Type} (env : Str → V → V) (v : V) (fs : List Str) (t0 : Tm) :
    (fs.foldl (fun acc f => Tm.app f acc) t0).run env v =
      (evalPipeline env fs (t0.run env v).1, (t0.run env v).2 ++ pipelineLog env fs (t0.run env v).1) := by
  induction fs generalizing t0 with
  | nil => simp [evalPipeline, pipelineLog]
  | cons f fs ih =>
    simp only [List.foldl_cons]
    rw [ih]
    simp [Tm.run, evalPipeline, pipelineLog]

theorem pipelineLog_callees {V : Type} (env : Str → V → V) (fs : List Str) (v : V) :
    (pipelineLog env fs v).map (·.1) = fs := by
  induction fs generalizing v with
  | nil => rfl
  | cons f fs ih => simp [pipelineLog, ih]

end MakoModel.Pipeline
