import MakoModel.Pipeline.LemmasFilter
import MakoModel.Filters.Sites
/-!
`write_def_finish` and `write_cache_decorator` are transcribed twice: as emitted *text* in
`MakoModel/Pipeline/Model.lean` (`defFinishExpr`, `cacheDecoratorExpr`; property C02) and as operations on filter
*functions* in `MakoModel/Filters/Sites.lean` (`defFinish`, `callOnce`; property C10).  This file relates them on
the common flags: evaluating the text C02 emits, with the def's own filter and `buffer_filters` interpreted as the
functions `f` and `bufF` of C10's model, gives the value C10's model returns resp. writes.
(Not imported by `Props/C02.lean` or `Props/C10.lean`, so that neither check depends on the other's area; built
with the library through `MakoModel.lean`.)
-/
namespace MakoModel.Pipeline
open MakoModel.Filters.Sites

/-- the callee chain of the expression `write_def_finish` emits -/
def defChain (defArgs bufferFilters : List Str) (buffered cached : Bool) : List Str :=
  (dropN defArgs).map resolve ++ (if buffered && !cached then (dropN bufferFilters).map resolve else [])

theorem defFinishExpr_eq_nest (defArgs bufferFilters : List Str) (buffered cached : Bool) (tgt : Str) (cfg : Cfg) :
    defFinishExpr defArgs bufferFilters buffered cached tgt cfg
      = nest (defChain defArgs bufferFilters buffered cached) tgt := by
  unfold defFinishExpr defChain
  cases defArgs with
  | nil => cases buffered <;> cases cached <;> simp [createFilterCallable_nonexpr, dropN, nest]
  | cons f fs => cases buffered <;> cases cached <;> simp [createFilterCallable_nonexpr, nest]

/-- C02's emitted text, evaluated, is the value of C10's `defFinish` (returned when buffered or cached, written
otherwise), for every def that pushes a buffer -/
theorem defFinish_models_agree (env : Str → Str → Str) (defArgs bufferFilters : List Str)
    (buffered cached : Bool) (t : Str) (h : (buffered || cached || !defArgs.isEmpty) = true) :
    let f := evalPipeline env ((dropN defArgs).map resolve)
    let bufF := evalPipeline env ((dropN bufferFilters).map resolve)
    let r := defFinish ⟨buffered, !defArgs.isEmpty, cached⟩ f bufF t
    (if buffered || cached then r.1 else r.2)
      = evalPipeline env (defChain defArgs bufferFilters buffered cached) t := by
  cases defArgs with
  | nil =>
    cases buffered <;> cases cached <;>
      simp_all [defFinish, defChain, dropN, evalPipeline]
  | cons a as =>
    cases buffered <;> cases cached <;>
      simp [defFinish, defChain, evalPipeline]

/-- the caching wrapper: C02's `cacheDecoratorExpr` evaluated on the cached value is what C10's `callOnce`
returns (buffered) resp. writes (not buffered) -/
theorem cacheDecorator_models_agree (env : Str → Str → Str) (bufferFilters : List Str) (f : Str → Str)
    (filtered buffered : Bool) (cache : Option Str) (t : Str) :
    let bufF := evalPipeline env ((dropN bufferFilters).map resolve)
    let r := callOnce ⟨buffered, filtered, true⟩ f bufF cache t
    let v := (r.2.2).getD []
    (if buffered then r.1 else r.2.1)
      = evalPipeline env (if buffered then (dropN bufferFilters).map resolve else []) v := by
  cases buffered <;> cases cache <;> simp [callOnce, evalPipeline]

end MakoModel.Pipeline
