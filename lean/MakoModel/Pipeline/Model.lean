import MakoModel.Generated.Pipeline
/-!
# C02 – filter pipeline of `${expr | f1, f2}` and the expression scanner

Strings are `List Char`.  Three parts:

* (a) `createFilterCallable` / `visitExpression` / `defFinishExpr` / `cacheDecoratorExpr` / `callTagExpr` /
  `blockCallSiteExpr` – string-level transcription of `mako/codegen.py` (`create_filter_callable`,
  `visitExpression`, `write_def_finish`, `write_cache_decorator`, `visitCallTag`, `visitBlockTag`), parameterised
  by the regenerated `DEFAULT_ESCAPES` and call-regex flag; `contextNames` (the table's second role in
  `mako/parsetree.py`); and a small semantic layer (`Tm`, `evalPipeline`).
  `write_def_finish` / `write_cache_decorator` are also modelled, at the level of filter *functions*, in
  `MakoModel/Filters/Sites.lean` (property C10); `MakoModel/Pipeline/LemmasSites.lean` relates the two.
* (b) `parseUntilText` / `matchExpression` – deterministic transcription of the regex loop of
  `mako/lexer.py` (`parse_until_text`, `match_expression`, the empty-match `+1` rule of `match_reg`).
  All regexes used there look only *forward* from `match_position`, so the model works on the suffix
  `s.drop p`.
* (c) `Spec` – an independent character automaton describing Python's lexical structure (string literals,
  comments, bracket stack) used to *state* what the scanner must find.

Agreement of (a),(b) with the real code is checked by `harness/props/C02.py` on every run.
-/
namespace MakoModel.Pipeline
open MakoModel.Generated.Pipeline

abbrev Str := List Char

/-! ## (a) the filter pipeline -/

/-- what `create_filter_callable` reads from the compiler -/
structure Cfg where
  /-- `compiler.default_filters` (`Template(default_filters=…)`, `["str"]` when not given) -/
  default : List Str
  /-- `compiler.pagetag.filter_args.args`; `none` = the template has no `<%page>` tag -/
  page : Option (List Str)
deriving Repr, DecidableEq

def nName : Str := ['n']
def decodeDot : Str := ['d', 'e', 'c', 'o', 'd', 'e', '.']
def filtersDot : Str := ['f', 'i', 'l', 't', 'e', 'r', 's', '.']

/-- `re.match(r"decode\..+", name)` (no flags: `.` is any character but `\n`; a prefix match) -/
def isDecode (name : Str) : Bool :=
  decodeDot.isPrefixOf name &&
    (match name.drop decodeDot.length with
     | c :: _ => c != '\n'
     | [] => false)

/-- `filters.DEFAULT_ESCAPES.get(name)` -/
def lookupEscape (name : Str) : Option Str :=
  (defaultEscapes.find? (fun kv => kv.1 == name)).map (·.2)

/-- `locate_encode` -/
def locateEncode (name : Str) : Str :=
  if isDecode name then filtersDot ++ name else (lookupEscape name).getD name

/-- everything up to and including the last occurrence of `c` (`[]` when `c` does not occur) -/
def upToLast (c : Char) (s : Str) : Str := (s.reverse.dropWhile (· != c)).reverse

/-- `re.match(r"(.+?)(\(.*\))", e)` → `m.group(1, 2)` (the regex without a final `$`).
Deterministic reading: no flags, so both groups stay on the first line `L` of `e`; group 1 is lazy and
non-empty, so it ends at the first `(` at index ≥ 1 that has a `)` somewhere after it on `L` (if the first
such `(` has none, no later one has); group 2 is greedy, so it runs to the *last* `)` of `L`.  `re.match`
is a prefix match: what follows the last `)` is not part of the match. -/
def splitCallRaw (e : Str) : Option (Str × Str) :=
  match e.takeWhile (· != '\n') with
  | [] => none
  | c :: rest =>
    match rest.dropWhile (· != '(') with
    | [] => none
    | _ :: body =>
      match upToLast ')' body with
      | [] => none
      | b => some (c :: rest.takeWhile (· != '('), '(' :: b)

/-- the regex with a final `$` (`callRegexAnchored`, regenerated from the source): the greedy match above must end
at the end of the first line – the line ends with `)` – and the line must be the whole entry up to an optional
final newline (`$` without `re.M`) -/
def anchoredOk (e : Str) : Bool :=
  let line := e.takeWhile (· != '\n')
  line.getLast? == some ')' && (e.drop line.length == [] || e.drop line.length == ['\n'])

/-- `re.match(<the call regex of create_filter_callable>, e)` → `m.group(1, 2)` -/
def splitCall (e : Str) : Option (Str × Str) :=
  if callRegexAnchored && !anchoredOk e then none else splitCallRaw e

/-- the callee text emitted for one filter entry (body of the `for e in args` loop, `e != "n"`) -/
def resolve (e : Str) : Str :=
  match splitCall e with
  | some (ident, fargs) => locateEncode ident ++ fargs
  | none => locateEncode e

/-! ### the second role of `DEFAULT_ESCAPES`: which names of a filter list are demanded from the context

`Expression.undeclared_identifiers`, `TextTag/DefTag/BlockTag.undeclared_identifiers` (mako/parsetree.py) take the
identifiers Python's parser finds in the filter list (`h` → `h`, `decode.utf8` → `decode`, `f(1)` → `f`) and
subtract the keys of `DEFAULT_ESCAPES`; what is left is looked up in the context when the template renders
(`NameError` under `strict_undefined=True` when absent). -/

/-- `name in filters.DEFAULT_ESCAPES` -/
def isEscapeKey (name : Str) : Bool := defaultEscapes.any (fun kv => kv.1 == name)

/-- `filter_args.undeclared_identifiers.difference(filters.DEFAULT_ESCAPES.keys())` (as a list, order kept) -/
def contextNames (idents : List Str) : List Str := idents.filter (fun i => !isEscapeKey i)

def isIdentChar (c : Char) : Bool := c.isAlphanum || c == '_'

/-- the leading (ASCII) identifier of a filter entry: the name Python's parser reports for `name`,
`name.attr…` and `name(args)` -/
def headIdent (e : Str) : Str := e.takeWhile isIdentChar

/-! ### how the arguments of a filter call keep their grouping

The entries of a filter list are not copied from the template: `ArgumentList` parses them and `ExpressionGenerator`
(`SourceGenerator`, mako/_ast_util.py) re-emits them from the AST.  The full model of that printer belongs to
property C19 (`MakoModel/PyExpr`); here only the mechanism that keeps a sub-expression one group is recorded,
over the regenerated facts: an operator node parenthesises its own output, a conditional expression / lambda is
parenthesised by `visit_operand`, and every visitor with operand slots writes them through `visit_operand`. -/

inductive ArgKind where
  | atom | binOp | boolOp | compare | unaryOp | ifExp | lambda
deriving Repr, DecidableEq

def ArgKind.all : List ArgKind := [.atom, .binOp, .boolOp, .compare, .unaryOp, .ifExp, .lambda]

/-- the class name of the `ast` node / the suffix of its `visit_*` method -/
def ArgKind.name : ArgKind → Str
  | .atom => ['N', 'a', 'm', 'e']
  | .binOp => ['B', 'i', 'n', 'O', 'p']
  | .boolOp => ['B', 'o', 'o', 'l', 'O', 'p']
  | .compare => ['C', 'o', 'm', 'p', 'a', 'r', 'e']
  | .unaryOp => ['U', 'n', 'a', 'r', 'y', 'O', 'p']
  | .ifExp => ['I', 'f', 'E', 'x', 'p']
  | .lambda => ['L', 'a', 'm', 'b', 'd', 'a']

/-- is a node of kind `k`, written in an operand slot (`visit_operand`), one group – an atom, a text its own
visitor parenthesises, or a text `visit_operand` parenthesises? -/
def groupedInOperandSlot (k : ArgKind) : Bool :=
  k == .atom || selfParenthesisingVisitors.contains k.name || operandWrappedKinds.contains k.name

/-- the visitors that have operand slots -/
def operandParents : List Str :=
  [ArgKind.binOp.name, ArgKind.boolOp.name, ArgKind.compare.name, ArgKind.unaryOp.name, ArgKind.ifExp.name,
   ['A', 't', 't', 'r', 'i', 'b', 'u', 't', 'e'], ['S', 'u', 'b', 's', 'c', 'r', 'i', 'p', 't'], ['C', 'a', 'l', 'l'],
   ['S', 't', 'a', 'r', 'r', 'e', 'd']]

/-- the list the `for` loop of `create_filter_callable` iterates over -/
def effectiveArgs (args : List Str) (isExpr : Bool) (cfg : Cfg) : List Str :=
  if args.contains nName then args
  else if isExpr then
    let a1 := match cfg.page with
      | some p => p ++ args
      | none => args
    if !cfg.default.isEmpty && !a1.contains nName then cfg.default ++ a1 else a1
  else args

/-- `"%s(%s)" % (e, target)` -/
def wrap (callee target : Str) : Str := callee ++ '(' :: target ++ [')']

/-- the `for e in args` loop -/
def applyFilters : List Str → Str → Str
  | [], t => t
  | e :: es, t => if e = nName then applyFilters es t else applyFilters es (wrap (resolve e) t)

/-- `create_filter_callable(args, target, is_expression)` -/
def createFilterCallable (args : List Str) (target : Str) (isExpr : Bool) (cfg : Cfg) : Str :=
  applyFilters (effectiveArgs args isExpr cfg) target

/-- `visitExpression`: the argument of the emitted `__M_writer(…)`.  `escapes` is the raw (stripped) text
after `|`, `args` is `node.escapes_code.args`. -/
def visitExpression (escapes : Str) (args : List Str) (text : Str) (cfg : Cfg) : Str :=
  if !escapes.isEmpty || (match cfg.page with | some p => !p.isEmpty | none => false) || !cfg.default.isEmpty
  then createFilterCallable args text true cfg
  else text

/-- `write_def_finish`: the expression returned / written for a def or block whose `filter=` arguments are
`defArgs` (`filtered = len(defArgs) > 0`), with the template's `buffer_filters`. -/
def defFinishExpr (defArgs bufferFilters : List Str) (buffered cached : Bool) (s : Str) (cfg : Cfg) : Str :=
  let s1 := if !defArgs.isEmpty then createFilterCallable defArgs s false cfg else s
  if buffered && !cached then createFilterCallable bufferFilters s1 false cfg else s1

/-- `visitBlockTag`: the argument of `__M_writer(…)` written at the position of a block, `<call> or ''`, where
`call` is `__M_anon_<line>()` resp. `context['self'].<name>(**pageargs)`: what the block function returns is
written in place (a buffered block returns its content, any other block has written it and returns `''`) -/
def blockCallSiteExpr (call : Str) : Str := call ++ [' ', 'o', 'r', ' ', '\'', '\'']

/-- Python's `v or ''` on a str value -/
def pyOrEmpty (v : Str) : Str := if v = [] then [] else v

/-- `write_cache_decorator`: what the caching wrapper of a `cached="True"` def returns (buffered) or writes
(not buffered) around `s` = the `cache._ctx_get_or_create(…)` call; the wrapped function itself ends with
`defFinishExpr … (cached := true)` -/
def cacheDecoratorExpr (bufferFilters : List Str) (buffered : Bool) (s : Str) (cfg : Cfg) : Str :=
  if buffered then createFilterCallable bufferFilters s false cfg else s

/-- `visitCallTag`: the argument of `__M_writer(…)` for `<%call expr="e">`: the call expression is treated as an
expression substitution without local filters -/
def callTagExpr (e : Str) (cfg : Cfg) : Str := createFilterCallable [] e true cfg

/-- `visitTextTag`: the argument of `__M_writer(…)` after a filtered `<%text>` -/
def textTagExpr (args : List Str) (s : Str) (cfg : Cfg) : Str := createFilterCallable args s false cfg

/-! ### semantic layer -/

/-- the documented composition: `nest [f₁,…,f_k] t = f_k(…f₁(t))` as text -/
def nest (fs : List Str) (t : Str) : Str := fs.foldl (fun acc f => wrap f acc) t

/-- `xs ∖ n` -/
def dropN (xs : List Str) : List Str := xs.filter (· != nName)

/-- the documented pipeline of an expression with local filters `fs` -/
def pipeline (cfg : Cfg) (fs : List Str) : List Str :=
  if nName ∈ fs then dropN fs
  else
    let a := cfg.page.getD [] ++ fs
    dropN (if cfg.default ≠ [] ∧ nName ∉ a then cfg.default ++ a else a)

/-- emitted filter expression as a term: calls of named callees around the target -/
inductive Tm where
  | target : Tm
  | app (callee : Str) (arg : Tm) : Tm
deriving Repr, DecidableEq

def Tm.show (tgt : Str) : Tm → Str
  | .target => tgt
  | .app f a => wrap f (a.show tgt)

/-- the term `f_k(…f₁(target))` -/
def nestTm (fs : List Str) : Tm := fs.foldl (fun acc f => .app f acc) .target

/-- call-by-value evaluation of a term over an abstract value type, logging every call
`(callee, argument)` in the order the calls *return* -/
def Tm.run {V : Type} (env : Str → V → V) (v : V) : Tm → V × List (Str × V)
  | .target => (v, [])
  | .app f a =>
    let (x, log) := a.run env v
    (env f x, log ++ [(f, x)])

/-- the specification: feed the value through the filters left to right -/
def evalPipeline {V : Type} (env : Str → V → V) (fs : List Str) (v : V) : V :=
  fs.foldl (fun acc f => env f acc) v

/-- the calls `evalPipeline` makes, in order -/
def pipelineLog {V : Type} (env : Str → V → V) : List Str → V → List (Str × V)
  | [], _ => []
  | f :: fs, v => (f, v) :: pipelineLog env fs (env f v)

/-! ## (b) the scanner -/

/-- `#.*\n` at the head of `s` (no flags: `.*` stays on the line): the rest after the match -/
def matchComment : Str → Option Str
  | '#' :: r => if '\n' ∈ r then some ((r.dropWhile (· != '\n')).drop 1) else none
  | _ => none

/-- inner loop of the string-literal regex for a fixed opener `op` (see `det_string` in DESIGN.md,
Appendix B): scanning right, a backslash skips two characters (`\\.` with `re.S`), the first occurrence of
the opener at a non-skipped position closes (`[^\\]*?` is lazy); a backslash as the last character of the
text cannot be matched by `\\.` nor by `[^\\]`.  Returns the rest after the closing delimiter. -/
def scanClose (op : Str) : Str → Option Str
  | [] => none
  | ['\\'] => none
  | '\\' :: _ :: r => scanClose op r
  | c :: r => if op.isPrefixOf (c :: r) then some ((c :: r).drop op.length) else scanClose op r

def tryOpen (op s : Str) : Option Str :=
  if op.isPrefixOf s then scanClose op (s.drop op.length) else none

def dq3 : Str := ['"', '"', '"']
def sq3 : Str := ['\'', '\'', '\'']

/-- `(\"\"\"|\'\'\'|\"|\')[^\\]*?(\\.[^\\]*?)*\1` with `re.S`: the openers are tried in alternation order;
when the scan for the closing delimiter fails the regex engine falls through to the next opener (this is
where `"""abc` is read as the empty literal `""`). -/
def matchString (s : Str) : Option Str :=
  match tryOpen dq3 s with
  | some r => some r
  | none =>
  match tryOpen sq3 s with
  | some r => some r
  | none =>
  match tryOpen ['"'] s with
  | some r => some r
  | none => tryOpen ['\''] s

/-- `(t₁|t₂|…)` for literal terminators: first alternative that matches; an empty match advances by one
(`match_reg`) -/
def matchTerm (terms : List Str) (s : Str) : Option (Str × Str) :=
  terms.findSome? fun t =>
    if t.isPrefixOf s then some (t, if t.isEmpty then s.drop 1 else s.drop t.length) else none

/-- the look-ahead `(?=\"|\'|#|t₁|t₂…)` -/
def isStop (terms : List Str) : Str → Bool
  | [] => terms.any (·.isEmpty)
  | c :: r => c == '"' || c == '\'' || c == '#' || terms.any (·.isPrefixOf (c :: r))

/-- `(.*?)(?=\"|\'|#|terminators)` with `re.S`: the shortest prefix after which the look-ahead holds;
`(group 1, rest at the look-ahead)`; `none` when the look-ahead holds nowhere -/
def chunk (terms : List Str) : Str → Option (Str × Str)
  | [] => if isStop terms [] then some ([], []) else none
  | c :: r =>
    if isStop terms (c :: r) then some ([], c :: r)
    else match chunk terms r with
      | some (g, rest) => some (c :: g, rest)
      | none => none

/-- `brace_level, paren_level, bracket_level` (they can go negative in the real code) -/
structure Lv where
  brace : Int
  paren : Int
  bracket : Int
deriving Repr, DecidableEq

def Lv.zero : Lv := ⟨0, 0, 0⟩

def cnt (c : Char) (g : Str) : Int := ((g.count c : Nat) : Int)

/-- `level += group.count(open); level -= group.count(close)` for the three kinds -/
def Lv.add (l : Lv) (g : Str) : Lv :=
  ⟨l.brace + cnt '{' g - cnt '}' g, l.paren + cnt '(' g - cnt ')' g, l.bracket + cnt '[' g - cnt ']' g⟩

def Lv.nested (l : Lv) : Bool := decide (l.brace > 0) || decide (l.paren > 0) || decide (l.bracket > 0)

inductive Scan where
  | found (term rest : Str)
  | unterminated
  | outOfFuel
deriving Repr, DecidableEq

/-- the `while True` loop of `parse_until_text` on the remaining text `s`.  Every iteration consumes at
least one character (the `+1` rule makes this true for an empty chunk as well), `fuel = |s| + 1` suffices. -/
def loop (watch : Bool) (terms : List Str) : Nat → Str → Lv → Scan
  | 0, _, _ => .outOfFuel
  | fuel + 1, s, lv =>
    match matchComment s with
    | some r => loop watch terms fuel r lv
    | none =>
    match matchString s with
    | some r => loop watch terms fuel r lv
    | none =>
    match matchTerm terms s with
    | some (t, r) =>
      if !(watch && lv.nested) then .found t r
      else loop watch terms fuel r (lv.add t)
    | none =>
      match chunk terms s with
      | none => .unterminated
      | some (g, r) =>
        -- empty match of the chunk regex: `match_position = end + 1`, the character is skipped uncounted
        loop watch terms fuel (if g.isEmpty then r.drop 1 else r) (lv.add g)

inductive PUT where
  /-- `(text, terminator)` returned, `match_position = pos` afterwards -/
  | ok (text term : Str) (pos : Nat)
  /-- `SyntaxException("Expected: …")` -/
  | error
  | outOfFuel
deriving Repr, DecidableEq

/-- `parse_until_text(watch_nesting, *terminators)` called with `match_position = p` on text `s` -/
def parseUntilText (watch : Bool) (terms : List Str) (s : Str) (p : Nat) : PUT :=
  let start := s.drop p
  match loop watch terms (start.length + 1) start .zero with
  | .found t rest => .ok (start.take (start.length - rest.length - t.length)) t (s.length - rest.length)
  | .unterminated => .error
  | .outOfFuel => .outOfFuel

/-- `s[p:q]` -/
def slice (s : Str) (p q : Nat) : Str := (s.drop p).take (q - p)

def exprTerms : List Str := [['|'], ['}']]
def escTerms : List Str := [['}']]

/-- `text.replace("\r\n", "\n")` -/
def replaceCRLF : Str → Str
  | '\r' :: '\n' :: r => '\n' :: replaceCRLF r
  | c :: r => c :: replaceCRLF r
  | [] => []

def isWs (c : Char) : Bool := pyWhitespace.contains c.toNat

/-- `str.strip()` -/
def strip (s : Str) : Str := ((s.dropWhile isWs).reverse.dropWhile isWs).reverse

inductive ExprRes where
  | noMatch
  /-- `Expression(text, escapes)` appended, `match_position = pos` -/
  | node (text escapes : Str) (pos : Nat)
  /-- unterminated; `offset` is the start of the last regex match before the failing
  `parse_until_text` (the `${`, resp. the `|`), which is what the exception's line/column denote -/
  | error (offset : Nat)
  | outOfFuel
deriving Repr, DecidableEq

/-- `match_expression` at `match_position = p` -/
def matchExpression (s : Str) (p : Nat) : ExprRes :=
  if ['$', '{'].isPrefixOf (s.drop p) then
    match parseUntilText true exprTerms s (p + 2) with
    | .ok text t p1 =>
      if t = ['|'] then
        match parseUntilText true escTerms s p1 with
        | .ok esc _ p2 => .node (replaceCRLF text) (strip esc) p2
        | .error => .error (p1 - 1)
        | .outOfFuel => .outOfFuel
      else .node (replaceCRLF text) [] p1
    | .error => .error p
    | .outOfFuel => .outOfFuel
  else .noMatch

/-! ## (c) the lexical specification -/
namespace Spec

inductive Mode where
  | code
  /-- inside a string literal opened by `q` (`'` or `"`), single or triple quoted -/
  | str (q : Char) (triple : Bool)
  /-- inside a `#` comment -/
  | comment
deriving Repr, DecidableEq

structure St where
  /-- characters still to be passed over unseen (rest of a triple delimiter, the escaped character) -/
  skip : Nat
  mode : Mode
  /-- the closers expected, innermost first -/
  stack : List Char
deriving Repr, DecidableEq

def St.init : St := ⟨0, .code, []⟩

def closerOf : Char → Option Char
  | '(' => some ')'
  | '[' => some ']'
  | '{' => some '}'
  | _ => none

def isCloser (c : Char) : Bool := c == ')' || c == ']' || c == '}'

/-- One character `c` of the expression; `la` is the text after it (used only to recognise the triple
delimiters `'''` and `\"\"\"`, longest match first as in Python).  `none` = lexical error (closer that
does not match the innermost opener). -/
def step (st : St) (c : Char) (la : Str) : Option St :=
  match st.skip with
  | k + 1 => some { st with skip := k }
  | 0 =>
    match st.mode with
    | .code =>
      if c = '"' ∨ c = '\'' then
        if [c, c].isPrefixOf la then some { st with skip := 2, mode := .str c true }
        else some { st with mode := .str c false }
      else if c = '#' then some { st with mode := .comment }
      else match closerOf c with
        | some d => some { st with stack := d :: st.stack }
        | none =>
          if isCloser c then
            match st.stack with
            | d :: r => if d = c then some { st with stack := r } else none
            | [] => none
          else some st
    | .str q triple =>
      if c = '\\' then some { st with skip := 1 }
      else if triple then
        if c = q ∧ [q, q].isPrefixOf la then some { st with skip := 2, mode := .code } else some st
      else if c = q then some { st with mode := .code } else some st
    | .comment => if c = '\n' then some { st with mode := .code } else some st

def lex : St → Str → Option St
  | st, [] => some st
  | st, c :: r =>
    match step st c r with
    | some st' => lex st' r
    | none => none

/-- every string literal opened in `e` is closed in `e` (`'…'`, `"…"`, `'''…'''`, `\"\"\"…\"\"\"`, backslash
escapes one character), every `#` comment ends with a newline inside `e`, and `()[]{}` are balanced and
properly nested outside strings and comments -/
def wellLexed (e : Str) : Bool := lex .init e == some .init

/-- the terminators of the expression part (`bar = true`: `|` and `}`) resp. of the filter part (`}`) -/
def isTerm (bar : Bool) (c : Char) : Bool := c == '}' || (bar && c == '|')

def firstTopLevelFrom (bar : Bool) : St → Str → Nat → Option Nat
  | _, [], _ => none
  | st, c :: r, i =>
    if st = .init ∧ isTerm bar c then some i
    else match step st c r with
      | some st' => firstTopLevelFrom bar st' r (i + 1)
      | none => none

/-- index of the first terminator character that stands outside string literals and comments at bracket
depth 0 (`none` if there is none, or a lexical error comes first) -/
def firstTopLevel (bar : Bool) (s : Str) : Option Nat := firstTopLevelFrom bar .init s 0

end Spec

end MakoModel.Pipeline
