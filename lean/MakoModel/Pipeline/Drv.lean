import MakoModel.Basic.Wire
import MakoModel.Pipeline.Model
/-! Driver handler for the pipeline / scanner model: `pipe <fn> <args…>`.
A list of strings is sent as `<count> <item>…`. -/
namespace MakoModel.Pipeline.Drv
open MakoModel.Wire MakoModel.Pipeline

/-- `<count> <item>…` at the head of the fields -/
def takeList (fs : List String) : Option (List Str × List String) :=
  match fs with
  | [] => none
  | n :: rest => do
    let n ← n.toNat?
    if rest.length < n then none
    else
      let items ← (rest.take n).mapM decStr
      pure (items, rest.drop n)

/-- `<nD> D… <hasPage> <nP> P…` -/
def takeCfg (fs : List String) : Option (Cfg × List String) := do
  let (d, fs) ← takeList fs
  match fs with
  | hp :: fs =>
    let hp ← decBool hp
    let (p, fs) ← takeList fs
    pure (⟨d, if hp then some p else none⟩, fs)
  | [] => none

def encPUT : PUT → String
  | .ok t e p => s!"ok {encStr t} {encStr e} {p}"
  | .error => "err"
  | .outOfFuel => "fuel"

def handle : Handler
  | "cfc" :: ie :: tgt :: rest => do
    let ie ← decBool ie; let tgt ← decStr tgt
    let (cfg, rest) ← takeCfg rest
    let (args, rest) ← takeList rest
    if !rest.isEmpty then none
    pure (encStr (createFilterCallable args tgt ie cfg))
  | "visit" :: esc :: text :: rest => do
    let esc ← decStr esc; let text ← decStr text
    let (cfg, rest) ← takeCfg rest
    let (args, rest) ← takeList rest
    if !rest.isEmpty then none
    pure (encStr (visitExpression esc args text cfg))
  | "deffin" :: b :: c :: s :: rest => do
    let b ← decBool b; let c ← decBool c; let s ← decStr s
    let (cfg, rest) ← takeCfg rest
    let (da, rest) ← takeList rest
    let (bf, rest) ← takeList rest
    if !rest.isEmpty then none
    pure (encStr (defFinishExpr da bf b c s cfg))
  | "cachedeco" :: b :: s :: rest => do
    let b ← decBool b; let s ← decStr s
    let (cfg, rest) ← takeCfg rest
    let (bf, rest) ← takeList rest
    if !rest.isEmpty then none
    pure (encStr (cacheDecoratorExpr bf b s cfg))
  | ["blocksite", c] => do let c ← decStr c; pure (encStr (blockCallSiteExpr c))
  | "calltag" :: e :: rest => do
    let e ← decStr e
    let (cfg, rest) ← takeCfg rest
    if !rest.isEmpty then none
    pure (encStr (callTagExpr e cfg))
  | "pipeline" :: rest => do
    let (cfg, rest) ← takeCfg rest
    let (args, rest) ← takeList rest
    if !rest.isEmpty then none
    pure (encList ((pipeline cfg args).map resolve))
  | "ctxnames" :: rest => do
    let (ids, rest) ← takeList rest
    if !rest.isEmpty then none
    pure (encList (contextNames ids))
  | ["headident", e] => do let e ← decStr e; pure (encStr (headIdent e))
  | ["resolve", e] => do let e ← decStr e; pure (encStr (resolve e))
  | ["split", e] => do
    let e ← decStr e
    match splitCall e with
    | some (a, b) => pure s!"{encStr a} {encStr b}"
    | none => pure "none"
  | "scan" :: w :: s :: p :: rest => do
    let w ← decBool w; let s ← decStr s; let p ← p.toNat?
    let (terms, rest) ← takeList rest
    if !rest.isEmpty then none
    pure (encPUT (parseUntilText w terms s p))
  | ["expr", s, p] => do
    let s ← decStr s; let p ← p.toNat?
    match matchExpression s p with
    | .noMatch => pure "nomatch"
    | .node t e q => pure s!"node {encStr t} {encStr e} {q}"
    | .error o => pure s!"err {o}"
    | .outOfFuel => pure "fuel"
  | ["ftl", b, s] => do
    let b ← decBool b; let s ← decStr s
    pure (encOpt toString (Spec.firstTopLevel b s))
  | ["wl", e] => do let e ← decStr e; pure (encBool (Spec.wellLexed e))
  | _ => none

end MakoModel.Pipeline.Drv
