import MakoModel.Pipeline.LemmasScan
/-! `Spec.firstTopLevel bar s = some k` already says that `s[0,k)` is well-lexed: the only place where the
specification looks ahead (the second and third quote of a triple delimiter) can never look at the terminator,
because the quote of a literal is `'` or `"` and the terminator is `|` or `}`. -/
namespace MakoModel.Pipeline
open Spec

/-- the quote character recorded in a string mode is a quote -/
def StOk (st : St) : Prop :=
  match st.mode with
  | .str q _ => q = '"' ∨ q = '\''
  | _ => True

theorem StOk.init : StOk St.init := by simp [StOk, St.init]

theorem isPrefixOf_qq_ext (q c : Char) (p r : Str) (h : c ≠ q) :
    [q, q].isPrefixOf (p ++ c :: r) = [q, q].isPrefixOf p := by
  have h' : ¬ q = c := fun e => h e.symm
  match p with
  | [] => simp [List.isPrefixOf, h']
  | [y] => simp [List.isPrefixOf, h']
  | y :: z :: t => simp [List.isPrefixOf]

/-- looking ahead past a terminator character changes nothing -/
theorem step_la_ext (bar : Bool) (st : St) (x c : Char) (p r : Str) (hok : StOk st)
    (hc : isTerm bar c = true) : step st x (p ++ c :: r) = step st x p := by
  obtain ⟨hc1, hc2, _⟩ := isTerm_not_quote hc
  obtain ⟨k, m, stk⟩ := st
  cases k with
  | succ k => simp [step]
  | zero =>
    cases m with
    | code =>
      by_cases hx : x = '"' ∨ x = '\''
      · have hne : c ≠ x := by rcases hx with e | e <;> subst e <;> assumption
        simp [step, hx, isPrefixOf_qq_ext x c p r hne]
      · simp [step, hx]
    | comment => simp [step]
    | str q tr =>
      have hq : q = '"' ∨ q = '\'' := hok
      have hne : c ≠ q := by rcases hq with e | e <;> subst e <;> assumption
      simp [step, isPrefixOf_qq_ext q c p r hne]

theorem step_ok (st st' : St) (x : Char) (la : Str) (hok : StOk st) (h : step st x la = some st') : StOk st' := by
  obtain ⟨k, m, stk⟩ := st
  cases k with
  | succ k => simp [step] at h; subst h; exact hok
  | zero =>
    cases m with
    | code =>
      by_cases hx : x = '"' ∨ x = '\''
      · simp only [step, hx, if_true] at h
        split at h <;> (simp at h; subst h; simpa [StOk] using hx)
      · simp only [step, hx, if_false] at h
        by_cases hh : x = '#'
        · simp [hh] at h; subst h; simp [StOk]
        · simp only [hh, if_false] at h
          split at h
          · simp at h; subst h; simp [StOk]
          · split at h
            · split at h
              · split at h
                · simp at h; subst h; simp [StOk]
                · simp at h
              · simp at h
            · simp at h; subst h; simp [StOk]
    | comment =>
      simp only [step] at h
      split at h <;> (simp at h; subst h; simp [StOk])
    | str q tr =>
      have hq : q = '"' ∨ q = '\'' := hok
      simp only [step] at h
      split at h
      · simp at h; subst h; simpa [StOk] using hq
      · split at h
        · split at h <;> (simp at h; subst h; simp [StOk]; try exact hq)
        · split at h <;> (simp at h; subst h; simp [StOk]; try exact hq)

theorem ftl_prefix_lexed (bar : Bool) : ∀ (s : Str) (st : St) (i j : Nat), StOk st →
    firstTopLevelFrom bar st s i = some j →
    ∃ pre c r, s = pre ++ c :: r ∧ j = i + pre.length ∧ isTerm bar c = true ∧ lex st pre = some St.init := by
  intro s
  induction s with
  | nil => intro st i j _ h; simp [firstTopLevelFrom] at h
  | cons x s ih =>
    intro st i j hok h
    unfold firstTopLevelFrom at h
    by_cases hc : st = St.init ∧ isTerm bar x = true
    · rw [if_pos hc] at h
      simp at h
      exact ⟨[], x, s, rfl, by simp [h], hc.2, by simp [lex, hc.1]⟩
    · rw [if_neg hc] at h
      cases hs : step st x s with
      | none => simp [hs] at h
      | some st' =>
        simp only [hs] at h
        obtain ⟨pre, c, r, h1, h2, h3, h4⟩ := ih st' (i + 1) j (step_ok st st' x s hok hs) h
        refine ⟨x :: pre, c, r, by simp [h1], by simp [h2]; omega, h3, ?_⟩
        have : step st x pre = some st' := by
          rw [← step_la_ext bar st x c pre r hok h3, ← h1]; exact hs
        simp [lex, this, h4]

/-- the region in front of the first top-level terminator is well-lexed -/
theorem firstTopLevel_wellLexed (bar : Bool) (s : Str) (k : Nat) (h : firstTopLevel bar s = some k) :
    wellLexed (s.take k) = true := by
  obtain ⟨pre, c, r, h1, h2, _, h4⟩ := ftl_prefix_lexed bar s St.init 0 k StOk.init h
  have : s.take k = pre := by rw [h1, h2]; simp
  simp [wellLexed, this, h4]

end MakoModel.Pipeline
