import MakoModel.Pipeline.Model
/-! Helper lemmas for the scanner half of C02: the regex loop of `parse_until_text` finds exactly the
first top-level terminator of the lexical specification on every well-lexed region. -/
namespace MakoModel.Pipeline
open Spec

/-- the terminator lists of the two calls in `match_expression` -/
def T (bar : Bool) : List Str := if bar then exprTerms else escTerms

/-- characters at which the chunk regex's look-ahead holds (for the terminators `T bar`) -/
def stopChar (bar : Bool) (c : Char) : Bool := c == '"' || c == '\'' || c == '#' || isTerm bar c

/-- suffix form of `Spec.firstTopLevelFrom`: the text from the terminator on -/
def ftlSuf (bar : Bool) : St → Str → Option Str
  | _, [] => none
  | st, c :: r =>
    if st = .init ∧ isTerm bar c then some (c :: r)
    else match step st c r with
      | some st' => ftlSuf bar st' r
      | none => none

theorem ftl_bridge (bar : Bool) : ∀ (s : Str) (st : St) (i j : Nat),
    firstTopLevelFrom bar st s i = some j →
    ∃ pre c r, s = pre ++ c :: r ∧ j = i + pre.length ∧ ftlSuf bar st s = some (c :: r) := by
  intro s
  induction s with
  | nil => intro st i j h; simp [firstTopLevelFrom] at h
  | cons c r ih =>
    intro st i j h
    unfold firstTopLevelFrom at h
    unfold ftlSuf
    by_cases hc : st = .init ∧ isTerm bar c
    · rw [if_pos hc] at h
      rw [if_pos hc]
      refine ⟨[], c, r, rfl, ?_, rfl⟩
      simp at h; simp [h]
    · rw [if_neg hc] at h
      rw [if_neg hc]
      cases hs : step st c r with
      | none => simp [hs] at h
      | some st' =>
        simp only [hs] at h ⊢
        obtain ⟨pre, c', r', h1, h2, h3⟩ := ih st' (i + 1) j h
        refine ⟨c :: pre, c', r', by simp [h1], ?_, h3⟩
        simp [h2]; omega

theorem ftlSuf_shape (bar : Bool) : ∀ (s : Str) (st : St) (c : Char) (r : Str),
    ftlSuf bar st s = some (c :: r) → isTerm bar c = true ∧ ∃ pre, s = pre ++ c :: r := by
  intro s
  induction s with
  | nil => intro st c r h; simp [ftlSuf] at h
  | cons a s ih =>
    intro st c r h
    unfold ftlSuf at h
    by_cases hc : st = .init ∧ isTerm bar a
    · rw [if_pos hc] at h
      simp at h
      obtain ⟨rfl, rfl⟩ := h
      exact ⟨hc.2, [], rfl⟩
    · rw [if_neg hc] at h
      cases hs : step st a s with
      | none => simp [hs] at h
      | some st' =>
        simp only [hs] at h
        obtain ⟨h1, pre, h2⟩ := ih st' c r h
        exact ⟨h1, a :: pre, by simp [h2]⟩

/-! ### the specification automaton, item by item -/

theorem ftlSuf_skip (bar : Bool) (k : Nat) (m : Mode) (stk : List Char) (c : Char) (r : Str) :
    ftlSuf bar ⟨k + 1, m, stk⟩ (c :: r) = ftlSuf bar ⟨k, m, stk⟩ r := by
  simp [ftlSuf, St.init, step]

/-- opener text of a literal -/
def opOf (q : Char) (triple : Bool) : Str := if triple then [q, q, q] else [q]

theorem isPrefixOf_cons₂ (a b : Char) (x y : Str) :
    (a :: x).isPrefixOf (b :: y) = (a == b && x.isPrefixOf y) := by
  simp [List.isPrefixOf]

/-- inside a literal the specification passes over exactly what the string regex's inner scan passes over -/
theorem ftlSuf_str (bar : Bool) (q : Char) (tr : Bool) (stk : List Char) (s : Str) :
    ftlSuf bar ⟨0, .str q tr, stk⟩ s =
      match scanClose (opOf q tr) s with
      | some r' => ftlSuf bar ⟨0, .code, stk⟩ r'
      | none => none := by
  fun_induction scanClose (opOf q tr) s with
  | case1 => simp [ftlSuf]
  | case2 => simp [ftlSuf, St.init, step]
  | case3 x r ih =>
    rw [← ih]
    simp [ftlSuf, St.init, step]
  | case4 c r h1 h2 hp =>
    have hc : c ≠ '\\' := by
      intro e
      cases r with
      | nil => exact h1 e rfl
      | cons x r' => exact h2 x r' e rfl
    cases tr with
    | false =>
      simp only [opOf, Bool.false_eq_true, if_false] at hp ⊢
      have hcq : q = c := by simpa [List.isPrefixOf] using hp
      subst hcq
      simp [ftlSuf, St.init, step, hc]
    | true =>
      simp only [opOf, if_true] at hp ⊢
      have hp' : q = c ∧ [q, q] <+: r := by simpa [List.isPrefixOf] using hp
      obtain ⟨rfl, t, rfl⟩ := hp'
      simp [ftlSuf, St.init, step, hc, List.isPrefixOf]
  | case5 c r h1 h2 hp ih =>
    have hc : c ≠ '\\' := by
      intro e
      cases r with
      | nil => exact h1 e rfl
      | cons x r' => exact h2 x r' e rfl
    rw [← ih]
    cases tr with
    | false =>
      simp only [opOf, Bool.false_eq_true, if_false] at hp
      have hcq : c ≠ q := by
        intro e; apply hp; subst e; simp [List.isPrefixOf]
      simp [ftlSuf, St.init, step, hc, hcq]
    | true =>
      simp only [opOf, if_true] at hp
      have hp' : ¬ (c = q ∧ [q, q] <+: r) := by
        rintro ⟨rfl, h⟩
        exact hp (by simpa [List.isPrefixOf] using h)
      simp [ftlSuf, St.init, step, hc, hp']

/-- inside a comment the specification runs to the first newline -/
theorem ftlSuf_comment (bar : Bool) (stk : List Char) (r : Str) :
    ftlSuf bar ⟨0, .comment, stk⟩ r =
      if '\n' ∈ r then ftlSuf bar ⟨0, .code, stk⟩ ((r.dropWhile (· != '\n')).drop 1) else none := by
  induction r with
  | nil => simp [ftlSuf]
  | cons c r ih =>
    by_cases hc : c = '\n'
    · subst hc
      simp [ftlSuf, St.init, step]
    · have : ('\n' ∈ c :: r) = ('\n' ∈ r) := by
        simp [List.mem_cons, Ne.symm hc]
      have hd : (c :: r).dropWhile (· != '\n') = r.dropWhile (· != '\n') := by
        simp [hc]
      simp only [this, hd]
      rw [← ih]
      simp [ftlSuf, St.init, step, hc]

/-! ### level counters versus the bracket stack -/

structure Inv (stk : List Char) (lv : Lv) : Prop where
  closers : ∀ d ∈ stk, d = ')' ∨ d = ']' ∨ d = '}'
  brace : lv.brace = ((stk.count '}' : Nat) : Int)
  paren : lv.paren = ((stk.count ')' : Nat) : Int)
  bracket : lv.bracket = ((stk.count ']' : Nat) : Int)

theorem Inv.init : Inv [] Lv.zero := ⟨by simp, rfl, rfl, rfl⟩

theorem Inv.nested {stk : List Char} {lv : Lv} (h : Inv stk lv) : lv.nested = !stk.isEmpty := by
  cases stk with
  | nil =>
    have h1 := h.brace; have h2 := h.paren; have h3 := h.bracket
    simp at h1 h2 h3
    simp [Lv.nested, h1, h2, h3]
  | cons d t =>
    have h1 := h.brace; have h2 := h.paren; have h3 := h.bracket
    have hd := h.closers d (by simp)
    simp only [List.isEmpty_cons, Bool.not_false]
    rcases hd with rfl | rfl | rfl
    · have : lv.paren > 0 := by rw [h2]; simp
      simp [Lv.nested, this]
    · have : lv.bracket > 0 := by rw [h3]; simp
      simp [Lv.nested, this]
    · have : lv.brace > 0 := by rw [h1]; simp
      simp [Lv.nested, this]

theorem cnt_cons (x c : Char) (g : Str) : cnt x (c :: g) = cnt x [c] + cnt x g := by
  simp [cnt, List.count_cons]; omega

theorem Lv.add_cons (lv : Lv) (c : Char) (g : Str) : lv.add (c :: g) = (lv.add [c]).add g := by
  simp only [Lv.add]
  rw [cnt_cons '{' c g, cnt_cons '}' c g, cnt_cons '(' c g, cnt_cons ')' c g, cnt_cons '[' c g, cnt_cons ']' c g]
  congr 1 <;> omega

theorem Lv.add_nil (lv : Lv) : lv.add [] = lv := by
  simp [Lv.add, cnt]

theorem cnt_singleton (x c : Char) : cnt x [c] = if c = x then 1 else 0 := by
  by_cases h : c = x <;> simp [cnt, h]

theorem Inv.push_paren {stk : List Char} {lv : Lv} (h : Inv stk lv) : Inv (')' :: stk) (lv.add ['(']) := by
  refine ⟨?_, ?_, ?_, ?_⟩
  · intro d hd
    rcases List.mem_cons.mp hd with rfl | hd
    · simp
    · exact h.closers d hd
  all_goals simp [Lv.add, cnt_singleton, h.brace, h.paren, h.bracket]

theorem Inv.push_bracket {stk : List Char} {lv : Lv} (h : Inv stk lv) : Inv (']' :: stk) (lv.add ['[']) := by
  refine ⟨?_, ?_, ?_, ?_⟩
  · intro d hd
    rcases List.mem_cons.mp hd with rfl | hd
    · simp
    · exact h.closers d hd
  all_goals simp [Lv.add, cnt_singleton, h.brace, h.paren, h.bracket]

theorem Inv.push_brace {stk : List Char} {lv : Lv} (h : Inv stk lv) : Inv ('}' :: stk) (lv.add ['{']) := by
  refine ⟨?_, ?_, ?_, ?_⟩
  · intro d hd
    rcases List.mem_cons.mp hd with rfl | hd
    · simp
    · exact h.closers d hd
  all_goals simp [Lv.add, cnt_singleton, h.brace, h.paren, h.bracket]

theorem Inv.pop {d : Char} {stk : List Char} {lv : Lv} (h : Inv (d :: stk) lv) : Inv stk (lv.add [d]) := by
  have hd := h.closers d (by simp)
  have h1 := h.brace; have h2 := h.paren; have h3 := h.bracket
  refine ⟨fun x hx => h.closers x (List.mem_cons_of_mem _ hx), ?_, ?_, ?_⟩ <;>
    rcases hd with rfl | rfl | rfl <;>
    simp [Lv.add, cnt_singleton] at h1 h2 h3 ⊢ <;> omega

theorem Inv.same {stk : List Char} {lv : Lv} (h : Inv stk lv) (c : Char)
    (h1 : c ≠ '(') (h2 : c ≠ ')') (h3 : c ≠ '[') (h4 : c ≠ ']') (h5 : c ≠ '{') (h6 : c ≠ '}') :
    Inv stk (lv.add [c]) := by
  refine ⟨h.closers, ?_, ?_, ?_⟩ <;>
    simp [Lv.add, cnt_singleton, h1, h2, h3, h4, h5, h6, h.brace, h.paren, h.bracket]

/-! ### the regexes at a character -/

theorem matchComment_ne (c : Char) (r : Str) (h : c ≠ '#') : matchComment (c :: r) = none := by
  unfold matchComment
  split
  · rename_i heq; simp at heq; exact absurd heq.1 h
  · rfl

theorem matchComment_length {s r : Str} (h : matchComment s = some r) : r.length < s.length := by
  unfold matchComment at h
  split at h
  · rename_i r0
    split at h
    · simp at h
      subst h
      have := (List.dropWhile_sublist (fun x => x != '\n') (l := r0)).length_le
      simp; omega
    · simp at h
  · simp at h

theorem scanClose_length (op : Str) (s : Str) {r : Str} (h : scanClose op s = some r) : r.length ≤ s.length := by
  fun_induction scanClose op s with
  | case1 => simp at h
  | case2 => simp at h
  | case3 x r0 ih => have := ih h; simp; omega
  | case4 c r0 h1 h2 hp => simp at h; subst h; simp
  | case5 c r0 h1 h2 hp ih => have := ih h; simp; omega

theorem matchString_nonquote (c : Char) (r : Str) (h1 : c ≠ '"') (h2 : c ≠ '\'') :
    matchString (c :: r) = none := by
  simp [matchString, tryOpen, dq3, sq3, List.isPrefixOf, Ne.symm h1, Ne.symm h2]

theorem matchString_nil : matchString [] = none := by
  simp [matchString, tryOpen, dq3, sq3, List.isPrefixOf]

theorem matchString_triple (c : Char) (r2 r' : Str) (hq : c = '"' ∨ c = '\'')
    (h : scanClose [c, c, c] r2 = some r') : matchString (c :: c :: c :: r2) = some r' := by
  rcases hq with rfl | rfl
  · simp [matchString, tryOpen, dq3, List.isPrefixOf, h]
  · simp [matchString, tryOpen, dq3, sq3, List.isPrefixOf, h]

theorem matchString_single (c : Char) (r : Str) (hq : c = '"' ∨ c = '\'') (hn : ¬ [c, c] <+: r) :
    matchString (c :: r) = scanClose [c] r := by
  rcases hq with rfl | rfl
  · cases hs : scanClose ['"'] r <;>
      simp [matchString, tryOpen, dq3, sq3, List.isPrefixOf, hs, hn]
  · cases hs : scanClose ['\''] r <;>
      simp [matchString, tryOpen, dq3, sq3, List.isPrefixOf, hs, hn]

theorem matchTerm_T (bar : Bool) (c : Char) (r : Str) :
    matchTerm (T bar) (c :: r) = if isTerm bar c = true then some ([c], r) else none := by
  cases bar
  · by_cases h2 : c = '}'
    · subst h2; simp [matchTerm, T, escTerms, isTerm]
    · have h2' : ¬ '}' = c := fun e => h2 e.symm
      simp [matchTerm, T, escTerms, isTerm, h2, h2']
  · by_cases h1 : c = '|'
    · subst h1; simp [matchTerm, T, exprTerms, isTerm]
    · have h1' : ¬ '|' = c := fun e => h1 e.symm
      by_cases h2 : c = '}'
      · subst h2; simp [matchTerm, T, exprTerms, isTerm]
      · have h2' : ¬ '}' = c := fun e => h2 e.symm
        simp [matchTerm, T, exprTerms, isTerm, h1, h1', h2, h2']

theorem isStop_T (bar : Bool) (c : Char) (r : Str) : isStop (T bar) (c :: r) = stopChar bar c := by
  have e1 : ('|' == c) = (c == '|') := BEq.comm
  have e2 : ('}' == c) = (c == '}') := BEq.comm
  cases bar
  · simp [isStop, T, escTerms, stopChar, isTerm, List.isPrefixOf, e2]
  · simp [isStop, T, exprTerms, stopChar, isTerm, List.isPrefixOf, e1, e2, Bool.or_comm]

theorem isStop_T_nil (bar : Bool) : isStop (T bar) [] = false := by
  cases bar <;> simp [isStop, T, exprTerms, escTerms]

theorem chunk_T (bar : Bool) : ∀ s : Str, (∃ x ∈ s, stopChar bar x = true) →
    ∃ g x r', chunk (T bar) s = some (g, x :: r') ∧ s = g ++ x :: r' ∧
      (∀ y ∈ g, stopChar bar y = false) ∧ stopChar bar x = true := by
  intro s
  induction s with
  | nil => intro ⟨x, hx, _⟩; simp at hx
  | cons c s ih =>
    intro ⟨x, hx, hsx⟩
    unfold chunk
    rw [isStop_T]
    by_cases hc : stopChar bar c = true
    · exact ⟨[], c, s, by simp [hc], rfl, by simp, hc⟩
    · have hc' : stopChar bar c = false := by simpa using hc
      have hx' : x ∈ s := by
        rcases List.mem_cons.mp hx with rfl | h
        · exact absurd hsx hc
        · exact h
      obtain ⟨g, y, r', h1, h2, h3, h4⟩ := ih ⟨x, hx', hsx⟩
      refine ⟨c :: g, y, r', by simp [hc', h1], by simp [h2], ?_, h4⟩
      intro z hz
      rcases List.mem_cons.mp hz with rfl | h
      · exact hc'
      · exact h3 z h

/-! ### a run of plain characters -/

theorem closerOf_none (c : Char) (h1 : c ≠ '(') (h2 : c ≠ '[') (h3 : c ≠ '{') : closerOf c = none := by
  unfold closerOf
  split <;> simp_all

theorem ftlSuf_plain_run (bar : Bool) : ∀ (g rest : Str) (stk : List Char) (lv : Lv) (suf : Str),
    (∀ y ∈ g, stopChar bar y = false) → Inv stk lv →
    ftlSuf bar ⟨0, .code, stk⟩ (g ++ rest) = some suf →
    ∃ stk', Inv stk' (lv.add g) ∧ ftlSuf bar ⟨0, .code, stk'⟩ rest = some suf := by
  intro g
  induction g with
  | nil => intro rest stk lv suf _ hi h; exact ⟨stk, by rw [Lv.add_nil]; exact hi, h⟩
  | cons c g ih =>
    intro rest stk lv suf hg hi h
    have hc := hg c (by simp)
    have hg' : ∀ y ∈ g, stopChar bar y = false := fun y hy => hg y (by simp [hy])
    simp only [stopChar, Bool.or_eq_false_iff, beq_eq_false_iff_ne, ne_eq] at hc
    obtain ⟨⟨⟨hq1, hq2⟩, hh⟩, ht⟩ := hc
    have hbrace : c ≠ '}' := by
      intro e; subst e; simp [isTerm] at ht
    rw [Lv.add_cons]
    simp only [List.cons_append] at h
    unfold ftlSuf at h
    simp only [ht, Bool.false_eq_true, and_false, if_false] at h
    by_cases o1 : c = '('
    · subst o1
      simp [step, closerOf] at h
      exact ih rest _ _ suf hg' hi.push_paren h
    by_cases o2 : c = '['
    · subst o2
      simp [step, closerOf] at h
      exact ih rest _ _ suf hg' hi.push_bracket h
    by_cases o3 : c = '{'
    · subst o3
      simp [step, closerOf] at h
      exact ih rest _ _ suf hg' hi.push_brace h
    have hco := closerOf_none c o1 o2 o3
    by_cases c1 : c = ')'
    · subst c1
      cases stk with
      | nil => simp [step, closerOf, isCloser] at h
      | cons d t =>
        by_cases hd : d = ')'
        · subst hd
          simp [step, closerOf, isCloser] at h
          exact ih rest _ _ suf hg' hi.pop h
        · simp [step, closerOf, isCloser, hd] at h
    by_cases c2 : c = ']'
    · subst c2
      cases stk with
      | nil => simp [step, closerOf, isCloser] at h
      | cons d t =>
        by_cases hd : d = ']'
        · subst hd
          simp [step, closerOf, isCloser] at h
          exact ih rest _ _ suf hg' hi.pop h
        · simp [step, closerOf, isCloser, hd] at h
    · simp [step, hco, isCloser, hq1, hq2, hh, c1, c2, hbrace] at h
      exact ih rest _ _ suf hg' (hi.same c o1 c1 o2 c2 o3 hbrace) h

/-! ### one iteration of the loop -/

theorem loop_comment {w : Bool} {ts : List Str} {fuel : Nat} {s r : Str} {lv : Lv}
    (h : matchComment s = some r) : loop w ts (fuel + 1) s lv = loop w ts fuel r lv := by
  simp [loop, h]

theorem loop_string {w : Bool} {ts : List Str} {fuel : Nat} {s r : Str} {lv : Lv}
    (h1 : matchComment s = none) (h2 : matchString s = some r) :
    loop w ts (fuel + 1) s lv = loop w ts fuel r lv := by
  simp [loop, h1, h2]

theorem loop_term_found {w : Bool} {ts : List Str} {fuel : Nat} {s t r : Str} {lv : Lv}
    (h1 : matchComment s = none) (h2 : matchString s = none) (h3 : matchTerm ts s = some (t, r))
    (hn : (w && lv.nested) = false) : loop w ts (fuel + 1) s lv = .found t r := by
  simp [loop, h1, h2, h3, hn]

theorem loop_term_nested {w : Bool} {ts : List Str} {fuel : Nat} {s t r : Str} {lv : Lv}
    (h1 : matchComment s = none) (h2 : matchString s = none) (h3 : matchTerm ts s = some (t, r))
    (hn : (w && lv.nested) = true) : loop w ts (fuel + 1) s lv = loop w ts fuel r (lv.add t) := by
  simp [loop, h1, h2, h3, hn]

theorem loop_chunk {w : Bool} {ts : List Str} {fuel : Nat} {s g r : Str} {lv : Lv}
    (h1 : matchComment s = none) (h2 : matchString s = none) (h3 : matchTerm ts s = none)
    (h4 : chunk ts s = some (g, r)) (hg : g ≠ []) :
    loop w ts (fuel + 1) s lv = loop w ts fuel r (lv.add g) := by
  cases g with
  | nil => exact absurd rfl hg
  | cons a g => simp [loop, h1, h2, h3, h4]

/-! ### the loop invariant -/

theorem isTerm_not_quote {bar : Bool} {c : Char} (h : isTerm bar c = true) :
    c ≠ '"' ∧ c ≠ '\'' ∧ c ≠ '#' := by
  simp only [isTerm, Bool.or_eq_true, Bool.and_eq_true, beq_iff_eq] at h
  rcases h with rfl | ⟨_, rfl⟩ <;> decide

/-- Invariant of the scanner loop against the specification automaton: whenever the loop head is at a
position where the specification is in code mode with bracket stack `stk`, the level counters count the
closers on the stack; if the specification then finds its first top-level terminator `c` (rest `r`), the
loop returns exactly there. -/
theorem loop_spec (bar : Bool) : ∀ (fuel : Nat) (rest : Str) (stk : List Char) (lv : Lv) (c : Char) (r : Str),
    Inv stk lv → rest.length < fuel → ftlSuf bar ⟨0, .code, stk⟩ rest = some (c :: r) →
    loop true (T bar) fuel rest lv = .found [c] r := by
  intro fuel
  induction fuel with
  | zero => intro rest stk lv c r _ hl _; omega
  | succ fuel ih =>
    intro rest stk lv c r hi hl h
    cases rest with
    | nil => simp [ftlSuf] at h
    | cons a s =>
      have hlen : s.length < fuel := by simp at hl; omega
      by_cases hq : a = '"' ∨ a = '\''
      · -- a string literal
        have hnt : isTerm bar a = false := by
          cases ht : isTerm bar a with
          | false => rfl
          | true => have := isTerm_not_quote ht; rcases hq with e | e <;> simp_all
        have hnc : matchComment (a :: s) = none := matchComment_ne a s (by rcases hq with e | e <;> subst e <;> decide)
        unfold ftlSuf at h
        simp only [hnt, Bool.false_eq_true, and_false, if_false] at h
        by_cases h3 : [a, a] <+: s
        · obtain ⟨s2, rfl⟩ := h3
          have hstep : step ⟨0, .code, stk⟩ a ([a, a] ++ s2) = some ⟨2, .str a true, stk⟩ := by
            simp [step, hq, List.isPrefixOf]
          rw [hstep] at h
          simp only [List.cons_append, List.nil_append] at h
          rw [ftlSuf_skip, ftlSuf_skip, ftlSuf_str] at h
          cases hs : scanClose (opOf a true) s2 with
          | none => simp [hs] at h
          | some r' =>
            simp only [hs] at h
            have hm : matchString (a :: ([a, a] ++ s2)) = some r' := by
              simpa using matchString_triple a s2 r' hq (by simpa [opOf] using hs)
            rw [loop_string hnc hm]
            have := scanClose_length _ _ hs
            exact ih r' stk lv c r hi (by simp at hlen; omega) h
        · have hstep : step ⟨0, .code, stk⟩ a s = some ⟨0, .str a false, stk⟩ := by
            simp [step, hq, h3]
          rw [hstep] at h
          simp only [] at h
          rw [ftlSuf_str] at h
          cases hs : scanClose (opOf a false) s with
          | none => simp [hs] at h
          | some r' =>
            simp only [hs] at h
            have hm : matchString (a :: s) = some r' := by
              rw [matchString_single a s hq h3]; simpa [opOf] using hs
            rw [loop_string hnc hm]
            have := scanClose_length _ _ hs
            exact ih r' stk lv c r hi (by omega) h
      · have hq1 : a ≠ '"' := fun e => hq (Or.inl e)
        have hq2 : a ≠ '\'' := fun e => hq (Or.inr e)
        have hns : matchString (a :: s) = none := matchString_nonquote a s hq1 hq2
        by_cases hh : a = '#'
        · -- a comment
          subst hh
          unfold ftlSuf at h
          have hnt : isTerm bar '#' = false := by cases bar <;> decide
          simp only [hnt, Bool.false_eq_true, and_false, if_false] at h
          have hstep : step ⟨0, .code, stk⟩ '#' s = some ⟨0, .comment, stk⟩ := by simp [step]
          rw [hstep] at h
          simp only [] at h
          rw [ftlSuf_comment] at h
          by_cases hnl : '\n' ∈ s
          · simp only [hnl, if_true] at h
            have hm : matchComment ('#' :: s) = some ((s.dropWhile (· != '\n')).drop 1) := by
              simp [matchComment, hnl]
            rw [loop_comment hm]
            have := matchComment_length hm
            exact ih _ stk lv c r hi (by simp at this ⊢; omega) h
          · simp [hnl] at h
        · have hnc : matchComment (a :: s) = none := matchComment_ne a s hh
          by_cases ht : isTerm bar a = true
          · -- a terminator character
            have hmt : matchTerm (T bar) (a :: s) = some ([a], s) := by rw [matchTerm_T]; simp [ht]
            cases stk with
            | nil =>
              unfold ftlSuf at h
              simp [St.init, ht] at h
              obtain ⟨rfl, rfl⟩ := h
              have hn : (true && lv.nested) = false := by rw [hi.nested]; rfl
              exact loop_term_found hnc hns hmt hn
            | cons d t =>
              have hn : (true && lv.nested) = true := by rw [hi.nested]; rfl
              rw [loop_term_nested hnc hns hmt hn]
              unfold ftlSuf at h
              simp only [St.init, St.mk.injEq, reduceCtorEq, and_false, false_and, if_false] at h
              by_cases hb : a = '}'
              · subst hb
                by_cases hd : d = '}'
                · subst hd
                  simp [step, closerOf, isCloser] at h
                  exact ih s t _ c r hi.pop (by omega) h
                · simp [step, closerOf, isCloser, hd] at h
              · have hbar : a = '|' := by
                  simp only [isTerm, Bool.or_eq_true, Bool.and_eq_true, beq_iff_eq] at ht
                  rcases ht with e | ⟨_, e⟩
                  · exact absurd e hb
                  · exact e
                subst hbar
                simp [step, closerOf, isCloser] at h
                exact ih s (d :: t) _ c r (hi.same '|' (by decide) (by decide) (by decide) (by decide) (by decide) (by decide)) (by omega) h
          · -- a run of plain characters up to the next quote, `#` or terminator character
            have ht' : isTerm bar a = false := by simpa using ht
            have hmt : matchTerm (T bar) (a :: s) = none := by rw [matchTerm_T]; simp [ht']
            obtain ⟨htc, pre, hpre⟩ := ftlSuf_shape bar _ _ _ _ h
            have hex : ∃ x ∈ a :: s, stopChar bar x = true :=
              ⟨c, by rw [hpre]; simp, by simp [stopChar, htc]⟩
            obtain ⟨g, x, r', hch, hsplit, hplain, hstop⟩ := chunk_T bar (a :: s) hex
            have hsa : stopChar bar a = false := by simp [stopChar, hq1, hq2, hh, ht']
            have hg : g ≠ [] := by
              intro e; subst e
              simp at hsplit
              rw [← hsplit.1, hsa] at hstop
              exact absurd hstop (by simp)
            rw [loop_chunk hnc hns hmt hch hg]
            rw [hsplit] at h
            obtain ⟨stk', hi', h'⟩ := ftlSuf_plain_run bar g (x :: r') stk lv _ hplain hi h
            have hl2 : (x :: r').length < fuel := by
              have : (a :: s).length = g.length + (x :: r').length := by rw [hsplit]; simp
              have : g.length > 0 := List.length_pos_iff.mpr hg
              simp at *; omega
            exact ih (x :: r') stk' _ c r hi' hl2 h'

/-- the scanner started at `p` returns exactly the specification's first top-level terminator -/
theorem scan_spec_gen (bar : Bool) (s : Str) (p q : Nat) (hpq : p ≤ q)
    (hq : Spec.firstTopLevel bar (s.drop p) = some (q - p)) :
    ∃ c, s[q]? = some c ∧ Spec.isTerm bar c = true ∧
      parseUntilText true (T bar) s p = .ok (slice s p q) [c] (q + 1) := by
  unfold Spec.firstTopLevel at hq
  obtain ⟨pre, c, r, hsplit, hlen, hsuf⟩ := ftl_bridge bar _ _ _ _ hq
  have hterm := (ftlSuf_shape bar _ _ _ _ hsuf).1
  have hloop := loop_spec bar ((s.drop p).length + 1) (s.drop p) [] Lv.zero c r Inv.init (by omega) hsuf
  have hqp : q = p + pre.length := by omega
  have hsl : (s.drop p).length = pre.length + 1 + r.length := by rw [hsplit]; simp; omega
  have hsl2 : (s.drop p).length = s.length - p := List.length_drop
  refine ⟨c, ?_, hterm, ?_⟩
  · have : (s.drop p)[pre.length]? = some c := by rw [hsplit]; simp
    rw [List.getElem?_drop] at this
    rw [hqp]; exact this
  · unfold parseUntilText
    simp only [hloop]
    have e1 : (s.drop p).length - r.length - [c].length = pre.length := by simp; omega
    have e2 : s.length - r.length = q + 1 := by omega
    rw [e1, e2]
    congr 1
    unfold slice
    rw [show q - p = pre.length by omega, hsplit]

end MakoModel.Pipeline
