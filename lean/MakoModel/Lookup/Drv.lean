import MakoModel.Basic.Wire
import MakoModel.Lookup.Model
/-!
Driver handler for the lookup model.

`lookup run <ndirs> <checks 0|1> <cap -1|n> <moddir 0|1> <ops>` – `<ops>` is a `;`-separated history (or
several fields, which are concatenated), each op one of
`t<n>` tick · `w<d>.<u>.<c>` write · `d<d>.<u>` delete · `b<d>.<u>` break · `l<d>.<u>.<variant>` break late · `g<u>` get_template ·
`h<u>` has_template · `s<u>.<c>` put_string · `p<u>.<tid>` put_template (`-` = empty history).

Answer: `<step>;<step>;…|<final keys>|<construction count>` where a step is
`<out>/<branch>/<sorted keys, comma separated or ->/<construction count>` and `<out>` is
`-` · `ok.<id>.<content>` · `top` · `lookup` · `compile` · `late` · `oserr` · `has1` · `has0`.
`<branch>` names the path of the model that the step took (coverage only; computed from the pre-state).

`lookup const` answers the regenerated constants.
-/
namespace MakoModel.Lookup.Drv
open MakoModel.Wire MakoModel.Lookup

def nat? (s : String) : Option Nat := if s.isEmpty then none else s.toNat?

def parseOp (t : String) : Option Op :=
  if t.isEmpty then none else
  let tag := t.front
  let args := ((t.drop 1).toString.splitOn ".").mapM nat?
  match tag, args with
  | 't', some [n] => some (.tick n)
  | 'w', some [d, u, c] => some (.writeFile d u c)
  | 'd', some [d, u] => some (.deleteFile d u)
  | 'b', some [d, u] => some (.breakFile d u)
  | 'l', some [d, u, _] => some (.breakFileLate d u)
  | 'g', some [u] => some (.getTemplate u)
  | 'h', some [u] => some (.hasTemplate u)
  | 's', some [u, c] => some (.putString u c)
  | 'p', some [u, i] => some (.putTemplate u i)
  | _, _ => none

def parseOps (f : String) : Option (List Op) :=
  if f == "-" then some [] else (f.splitOn ";").mapM parseOp

def encExc : Exc → String
  | .topLevel => "top" | .lookup => "lookup" | .compile => "compile" | .late => "late" | .os => "oserr"

def encOut : Out → String
  | .none => "-"
  | .ok i c => s!"ok.{i}.{c}"
  | .exc e => encExc e
  | .has b => if b then "has1" else "has0"

def insertSorted (x : Nat) : List Nat → List Nat
  | [] => [x]
  | y :: r => if x ≤ y then x :: y :: r else y :: insertSorted x r

def sortNat (l : List Nat) : List Nat := l.foldr insertSorted []

def encKeys (c : Coll) : String :=
  let ks := sortNat (keys c)
  if ks.isEmpty then "-" else ",".intercalate (ks.map toString)

def fileKind (file : File) : String :=
  if file.broken then "broken" else if file.late then "late" else "good"

/-- what `_compile_from_file` finds in the module directory for (uri `k`, source `f`, `file`) -/
def modState (cfg : Cfg) (s : State) (k : Uri) (f : FileRef) (file : File) : String :=
  if !cfg.moddir then "nomoddir" else
  match s.mods k with
  | none => "nomod"
  | some m =>
    if m.time < file.mtime then (if m.late then "modolder-late" else "modolder")
    else if m.late then "modlate"
    else if m.src != f then "modothersrc"
    else "modreuse"

/-- which path of `get_template` the model takes from `s` (coverage information for the harness) -/
def branchGet (cfg : Cfg) (s : State) (k : Uri) : String :=
  match get? s.coll k with
  | some e =>
    if !cfg.checks then "hit-nocheck" else
    match e.val.file with
    | none => "hit-memory"
    | some f =>
      match s.fs f with
      | none => "hit-vanished"
      | some file =>
        if keepCached e.val.stamp file.mtime then "hit-fresh"
        else s!"hit-stale-{fileKind file}-{modState cfg s k f file}"
  | none =>
    match firstDir cfg.ndirs s.fs k with
    | none => "miss-none"
    | some d =>
      match s.fs (d, k) with
      | none => "miss-impossible"
      | some file =>
        let dn := if d == 0 then "dir0" else "dirN"
        s!"miss-{dn}-{fileKind file}-{modState cfg s k (d, k) file}"

/-- some other key than `u` disappeared: `_manage_size` trimmed -/
def trimmed (s s' : State) (u : Uri) : String :=
  if (keys s.coll).any (fun k => k != u && (get? s'.coll k).isNone) then "+trim" else ""

def branch (cfg : Cfg) (s s' : State) : Op → String
  | .tick _ => "tick"
  | .writeFile d u _ => if (s.fs (d, u)).isSome then "write-modify" else "write-create"
  | .deleteFile d u => if (s.fs (d, u)).isSome then "delete" else "delete-absent"
  | .breakFile _ _ => "break"
  | .breakFileLate _ _ => "break-late"
  | .getTemplate u => "get:" ++ branchGet cfg s u ++ trimmed s s' u
  | .hasTemplate u => "has:" ++ branchGet cfg s u ++ trimmed s s' u
  | .putString u _ =>
    (if (get? s.coll u).isSome then "puts-replace" else "puts-new") ++ trimmed s s' u
  | .putTemplate u i =>
    match s.made.find? (fun t => t.id == i) with
    | none => "putt-unknown"
    | some t => (if t.file.isSome then "putt-file" else "putt-memory") ++
        (if (get? s.coll u).isSome then "-replace" else "-new") ++ trimmed s s' u

def runSteps (cfg : Cfg) : State → List Op → List String → List String × State
  | s, [], acc => (acc.reverse, s)
  | s, op :: r, acc =>
    let (o, s') := step cfg s op
    let line := encOut o ++ "/" ++ branch cfg s s' op ++ "/" ++ encKeys s'.coll ++ "/" ++ toString s'.nextId
    runSteps cfg s' r (line :: acc)

def parseCap (f : String) : Option (Option Nat) :=
  if f == "-1" then some none else (nat? f).map some

def handle : Handler
  | "run" :: nd :: ck :: cap :: md :: opsFields => do
    let nd ← nat? nd
    let ck ← decBool ck
    let cap ← parseCap cap
    let md ← decBool md
    let ops ← parseOps (";".intercalate (opsFields.filter (· != "")))
    let cfg : Cfg := ⟨nd, ck, cap, md⟩
    let (lines, s) := runSteps cfg init ops []
    pure ((if lines.isEmpty then "-" else ";".intercalate lines) ++ "|" ++ encKeys s.coll ++ "|" ++ toString s.nextId)
  | ["const"] =>
    pure s!"{Generated.Lookup.thresholdNum}/{Generated.Lookup.thresholdDen} {Generated.Lookup.checkCompare} {Generated.Lookup.defaultFilesystemChecks} {Generated.Lookup.defaultCollectionSize} {Generated.Lookup.unboundedSentinel}"
  | _ => none

end MakoModel.Lookup.Drv
