import MakoModel.Generated.Lookup
/-!
# L7 – the lookup state machine (`mako/lookup.py: TemplateLookup`, `mako/util.py: LRUCache`)

A *history* is a list of operations `Op`; `step` executes one operation on a `State`, `run` a whole history.
What is modelled, line by line of the code that exists in /repo:

* `TemplateLookup.get_template` (hit → `_check` when `filesystem_checks`, else the entry; miss → scan of the
  directories in order, first `os.path.isfile` → `_load`; none → `TopLevelLookupException`),
* `_check` (no filename → the template; `os.stat` fails → `pop` + `TemplateLookupException`;
  `module._modified_time >= mtime` → the template; else `pop` + `_load`; an `OSError` escaping `_load` is turned
  into `TemplateLookupException` as well),
* `_load` (second-chance read of the collection, `Template(uri=…, filename=…)`, store; on any exception
  `pop(uri, None)` and re-raise),
* `Template.__init__` for a file (`_compile_from_file`): without module directory the *current* content is read
  and compiled, the module is stamped `_modified_time = time.time()` (`codegen.py`); with a module directory the
  module file of the **URI** is re-used when it exists, its mtime is not older than the source's and it was
  generated from the same source file name (then content and stamp are those stored in the module file),
  otherwise it is regenerated from the current content,
* `put_string`, `put_template`, `has_template`,
* `LRUCache`: `_Item` with a timestamp, `__getitem__` re-stamps, `__setitem__` creates an item (new stamp) or
  replaces the value of an existing item **without** re-stamping, then `_manage_size`; `pop`/`del` are the
  plain dict's.

Time.  `clock : Nat` is the wall clock in whole seconds (the property quantifies over whole-second steps):
`time.time()` and the mtime given to written files are `clock`.  `timeit.default_timer` (the LRU stamps) is
modelled as a *strictly increasing counter* `nextTs`: every reading returns the next integer.  The real timer is
monotone; two readings that return the same float would be a tie in `_manage_size`'s sort, which the model
does not have.  For the plain dict the stamps are ghost state (never read).

The construction counter `nextId` is incremented on every *entry* into `Template.__init__` (also when the
construction then fails); a successfully constructed template carries that number as its identity.
-/
namespace MakoModel.Lookup
open MakoModel.Generated.Lookup

abbrev Uri := Nat
abbrev Dir := Nat
abbrev Content := Nat
/-- a source file: (index of the directory in `directories`, name = the URI it serves) -/
abbrev FileRef := Dir × Uri

structure File where
  content : Content
  mtime : Nat
  /-- the content does not compile (lexer/parser raise) -/
  broken : Bool
  /-- the content compiles in Mako, but the generated module raises when it is imported / executed
  (`<% break %>`, `<%! import nonexistent %>`, `<%! raise … %>`) -/
  late : Bool
deriving DecidableEq, Repr

/-- a constructed `Template` -/
structure Tmpl where
  id : Nat
  uri : Uri
  /-- `template.filename` (`None` for `put_string` templates) -/
  file : Option FileRef
  /-- the content it was compiled from (what `render()` shows) -/
  content : Content
  /-- `template.module._modified_time` ("compiledAt") -/
  stamp : Nat
deriving DecidableEq, Repr

/-- `LRUCache._Item` (for the plain dict `ts` is ghost) -/
structure Entry where
  val : Tmpl
  ts : Nat
deriving DecidableEq, Repr

/-- a module file in `module_directory` (its path is a function of the URI only) -/
structure ModFile where
  /-- `_template_filename` written into the module -/
  src : FileRef
  content : Content
  /-- `_modified_time` written into the module = mtime of the module file (same simulated second) -/
  time : Nat
  /-- importing this module file raises (it was generated from late-breaking content) -/
  late : Bool
deriving DecidableEq, Repr

structure Cfg where
  /-- number of configured directories; directory `d` is searched before `d+1` -/
  ndirs : Nat
  /-- `filesystem_checks` -/
  checks : Bool
  /-- `collection_size`: `none` = -1 (plain dict), `some n` = `LRUCache(n)` -/
  cap : Option Nat
  /-- a `module_directory` is configured -/
  moddir : Bool
deriving DecidableEq, Repr

abbrev Coll := List (Uri × Entry)

structure State where
  fs : FileRef → Option File
  mods : Uri → Option ModFile
  clock : Nat
  coll : Coll
  /-- number of `Template.__init__` entries so far -/
  nextId : Nat
  /-- next reading of `timeit.default_timer` -/
  nextTs : Nat
  /-- every template constructed so far (the harness keeps them alive; `put_template` picks from here) -/
  made : List Tmpl

def init : State := ⟨fun _ => none, fun _ => none, 0, [], 0, 0, []⟩

inductive Op
  | tick (n : Nat)
  | writeFile (d : Dir) (u : Uri) (c : Content)
  | deleteFile (d : Dir) (u : Uri)
  /-- write content that fails to compile -/
  | breakFile (d : Dir) (u : Uri)
  /-- write content that compiles in Mako but whose module raises at import -/
  | breakFileLate (d : Dir) (u : Uri)
  | getTemplate (u : Uri)
  | hasTemplate (u : Uri)
  | putString (u : Uri) (c : Content)
  | putTemplate (u : Uri) (tid : Nat)
deriving DecidableEq, Repr

inductive Exc
  /-- `TopLevelLookupException` -/
  | topLevel
  /-- `TemplateLookupException` (proper) -/
  | lookup
  /-- `CompileException` / `SyntaxException` -/
  | compile
  /-- whatever the import / execution of the generated module raises (`SyntaxError`, `ImportError`, …) -/
  | late
  /-- an `OSError` escaping (cannot happen sequentially; kept because the code has the path) -/
  | os
deriving DecidableEq, Repr

inductive Out
  | none
  | ok (id : Nat) (content : Content)
  | exc (e : Exc)
  | has (b : Bool)
deriving DecidableEq, Repr

/-! ## file system and module directory as maps -/

def setFs (fs : FileRef → Option File) (r : FileRef) (v : Option File) : FileRef → Option File :=
  fun r' => if r' = r then v else fs r'

def setMod (m : Uri → Option ModFile) (k : Uri) (v : Option ModFile) : Uri → Option ModFile :=
  fun k' => if k' = k then v else m k'

/-! ## the collection (dict / LRUCache) -/

def get? : Coll → Uri → Option Entry
  | [], _ => none
  | (k', e) :: r, k => if k' = k then some e else get? r k

/-- `dict.pop(k, None)` / `del d[k]` -/
def erase (c : Coll) (k : Uri) : Coll := c.filter (fun p => p.1 != k)

/-- `LRUCache.__getitem__`: `item.timestamp = timeit.default_timer()` -/
def touch (c : Coll) (k : Uri) (t : Nat) : Coll :=
  c.map (fun p => if p.1 = k then (p.1, { p.2 with ts := t }) else p)

/-- `item.value = value` on an existing item (the timestamp is **not** refreshed) -/
def replaceVal (c : Coll) (k : Uri) (v : Tmpl) : Coll :=
  c.map (fun p => if p.1 = k then (p.1, { p.2 with val := v }) else p)

def keys (c : Coll) : List Uri := c.map (·.1)

/-- `len(self) > self.capacity + self.capacity * self.threshold` with the threshold `num/den` -/
def over (cap len : Nat) : Bool :=
  decide (len * thresholdDen > cap * thresholdDen + cap * thresholdNum)

/-- insert into a list sorted by descending timestamp, before the first item that is not younger -/
def insertByTime (x : Uri × Entry) : Coll → Coll
  | [] => [x]
  | y :: r => if x.2.ts ≥ y.2.ts then x :: y :: r else y :: insertByTime x r

/-- `sorted(dict.values(self), key=attrgetter("timestamp"), reverse=True)`: a stable sort by descending
timestamp (insertion sort from the right, so that equal stamps keep dict order, like Python's `sorted`) -/
def byTime (c : Coll) : Coll := c.foldr insertByTime []

/-- one pass of `_manage_size`'s loop body: delete every item after the first `cap` of `byTime` -/
def trim (cap : Nat) (c : Coll) : Coll :=
  let doomed := keys ((byTime c).drop cap)
  c.filter (fun p => !doomed.contains p.1)

/-- `_manage_size`: `while over: trim`.  One pass reaches `len ≤ cap` (lemma `over_trim`), so the loop body runs
at most once; the model is the single conditional pass. -/
def manageSize (cap : Nat) (c : Coll) : Coll :=
  if over cap c.length then trim cap c else c

def manage (cfg : Cfg) (c : Coll) : Coll :=
  match cfg.cap with
  | none => c
  | some n => manageSize n c

/-- `self._collection[k] = v` -/
def setItem (cfg : Cfg) (s : State) (k : Uri) (v : Tmpl) : State :=
  match get? s.coll k with
  | some _ => { s with coll := manage cfg (replaceVal s.coll k v) }
  | none => { s with coll := manage cfg (s.coll ++ [(k, ⟨v, s.nextTs⟩)]), nextTs := s.nextTs + 1 }

/-- `self._collection[k]` on a present key: returns the value, re-stamps the item -/
def stampHit (s : State) (k : Uri) : State :=
  { s with coll := touch s.coll k s.nextTs, nextTs := s.nextTs + 1 }

/-! ## Template construction -/

/-- the comparison of `_check` as found in the source (regenerated): keep the cached template iff this holds -/
def keepCached (stamp mtime : Nat) : Bool :=
  if checkCompare == "GtE" then decide (stamp ≥ mtime)
  else if checkCompare == "Gt" then decide (stamp > mtime)
  else if checkCompare == "LtE" then decide (stamp ≤ mtime)
  else if checkCompare == "Lt" then decide (stamp < mtime)
  else if checkCompare == "Eq" then decide (stamp = mtime)
  else decide (stamp ≠ mtime)

/-- `Template(uri=k, filename=f, module_directory=…)`.  Returns the template or the exception, and the state
(construction counter, module directory, registry of constructed templates). -/
def construct (cfg : Cfg) (s : State) (k : Uri) (f : FileRef) : Except Exc Tmpl × State :=
  let s1 := { s with nextId := s.nextId + 1 }
  match s.fs f with
  | none => (.error .os, s1)                       -- os.stat / open fails
  | some file =>
    let regenerate : Except Exc Tmpl × State :=
      if file.broken then (.error .compile, s1)    -- nothing is written
      else if file.late then
        -- the module source is generated and (with a module directory) written; its import / execution raises
        (.error .late, { s1 with
          mods := if cfg.moddir then setMod s.mods k (some ⟨f, file.content, s.clock, true⟩) else s.mods })
      else
        let t : Tmpl := ⟨s.nextId, k, some f, file.content, s.clock⟩
        (.ok t, { s1 with
          mods := if cfg.moddir then setMod s.mods k (some ⟨f, file.content, s.clock, false⟩) else s.mods,
          made := s.made ++ [t] })
    if cfg.moddir then
      match s.mods k with
      | none => regenerate
      | some m =>
        -- the mutated order "import first, then look at the mtimes" (regenerated flag)
        if !staleDecidedBeforeImport && m.late then (.error .late, s1)
        else if m.time < file.mtime then regenerate
        else if m.late then (.error .late, s1)       -- the existing module file is imported: it raises
        else if moduleChecksSourceName && m.src != f then
          -- the module is loaded, found to be generated from another file name, and regenerated
          regenerate
        else
          -- the module file is loaded as it is: content and `_modified_time` are the stored ones
          let t : Tmpl := ⟨s.nextId, k, some f, m.content, m.time⟩
          (.ok t, { s1 with made := s.made ++ [t] })
    else regenerate

/-- `_load(filename, uri)` after its second-chance read missed: construct, store; on any exception
`pop(uri, None)` and re-raise -/
def loadFresh (cfg : Cfg) (s : State) (k : Uri) (f : FileRef) : Except Exc Tmpl × State :=
  match construct cfg s k f with
  | (.ok t, s') => (.ok t, setItem cfg s' k t)
  | (.error e, s') => (.error e, { s' with coll := erase s'.coll k })

/-- `_check(uri, template)`.  On the stale path the code pops `uri` and calls `_load`; `_load`'s second-chance
read of the key that was just popped misses (sequentially), so `_load` continues with the construction:
`loadFresh`. -/
def check (cfg : Cfg) (s : State) (k : Uri) (t : Tmpl) : Except Exc Tmpl × State :=
  match t.file with
  | none => (.ok t, s)
  | some f =>
    match s.fs f with
    | none => (.error .lookup, { s with coll := erase s.coll k })
    | some file =>
      if keepCached t.stamp file.mtime then (.ok t, s)
      else
        match loadFresh cfg { s with coll := erase s.coll k } k f with
        | (.error .os, s') => (.error .lookup, { s' with coll := erase s'.coll k })
        | r => r

/-- `_load(filename, uri)`: second-chance read of the collection (a hit is never taken sequentially; it re-stamps
the item and – as the code now stands – is returned through `_check` when `filesystem_checks`), else `loadFresh` -/
def load (cfg : Cfg) (s : State) (k : Uri) (f : FileRef) : Except Exc Tmpl × State :=
  match get? s.coll k with
  | some e =>
    if secondChanceChecked && cfg.checks then check cfg (stampHit s k) k e.val else (.ok e.val, stampHit s k)
  | none => loadFresh cfg s k f

/-- first directory (in configuration order) in which `os.path.isfile(dir/uri)` -/
def firstDir (n : Nat) (fs : FileRef → Option File) (k : Uri) : Option Dir :=
  (List.range n).find? (fun d => (fs (d, k)).isSome)

/-- `get_template(uri)` -/
def getTemplate (cfg : Cfg) (s : State) (k : Uri) : Except Exc Tmpl × State :=
  match get? s.coll k with
  | some e =>
    let s1 := stampHit s k
    if cfg.checks then check cfg s1 k e.val else (.ok e.val, s1)
  | none =>
    match firstDir cfg.ndirs s.fs k with
    | some d => load cfg s k (d, k)
    | none => (.error .topLevel, s)

/-- `put_string(uri, text)`: `Template(text, uri=uri)` has no filename -/
def putString (cfg : Cfg) (s : State) (k : Uri) (c : Content) : State :=
  let t : Tmpl := ⟨s.nextId, k, none, c, s.clock⟩
  setItem cfg { s with nextId := s.nextId + 1, made := s.made ++ [t] } k t

def step (cfg : Cfg) (s : State) : Op → Out × State
  | .tick n => (.none, { s with clock := s.clock + n })
  | .writeFile d u c => (.none, { s with fs := setFs s.fs (d, u) (some ⟨c, s.clock, false, false⟩) })
  | .deleteFile d u => (.none, { s with fs := setFs s.fs (d, u) none })
  | .breakFile d u => (.none, { s with fs := setFs s.fs (d, u) (some ⟨0, s.clock, true, false⟩) })
  | .breakFileLate d u => (.none, { s with fs := setFs s.fs (d, u) (some ⟨0, s.clock, false, true⟩) })
  | .getTemplate u =>
    match getTemplate cfg s u with
    | (.ok t, s') => (.ok t.id t.content, s')
    | (.error e, s') => (.exc e, s')
  | .hasTemplate u =>
    match getTemplate cfg s u with
    | (.ok _, s') => (.has true, s')
    | (.error .topLevel, s') => (.has false, s')
    | (.error .lookup, s') => (.has false, s')
    | (.error e, s') => (.exc e, s')
  | .putString u c => (.none, putString cfg s u c)
  | .putTemplate u tid =>
    match s.made.find? (fun t => t.id == tid) with
    | some t => (.none, setItem cfg s u t)
    | none => (.none, s)

/-- run a history: outputs in order, final state -/
def run (cfg : Cfg) : State → List Op → List Out × State
  | s, [] => ([], s)
  | s, op :: r =>
    let (o, s') := step cfg s op
    let (os, s'') := run cfg s' r
    (o :: os, s'')

def outputs (cfg : Cfg) (h : List Op) : List Out := (run cfg init h).1
def final (cfg : Cfg) (h : List Op) : State := (run cfg init h).2

end MakoModel.Lookup
